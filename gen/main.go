// gen: a deliberately tiny Go -> Lean translator for straight-line integer functions.
//
// It re-reads the listed functions from /repo's CURRENT source on every run and writes
// lean/JunoModel/Generated/Arith.lean. Supported: unsigned integer parameters and locals,
// := = op= ++ --, if / else, return, the operators + - * / % & | ^ &^ << >> and comparisons,
// && || !, integer conversions, calls to other translated functions/methods. Anything else makes
// the translator fail loudly (exit 2): the check treats that like a broken proof.
//
// Go semantics kept: fixed-width wrap-around arithmetic (Lean UIntN), shifts by >= width give 0
// (Lean's <<< reduces the count mod width, so shifts go through Go.shl/Go.shr helpers),
// division by zero is not translated specially (the listed functions divide by constants only).
package main

import (
	"crypto/sha256"
	"encoding/json"
	"fmt"
	"go/ast"
	"go/parser"
	"go/token"
	"os"
	"path/filepath"
	"strings"
)

type target struct {
	File string `json:"file"`
	Recv string `json:"recv"`
	Func string `json:"func"`
	Lean string `json:"lean"`
	// Expression targets: instead of the whole function, ONE expression of it is translated - the condition of
	// its Cond-th `if` (source order, 0-based, nested ones included) or the right-hand side of the Nth assignment
	// (`=` or `:=`) to the variable Assign. Its free variables / selector chains are listed with their Go types
	// in Vars (integer fields of a struct receiver are resolved as for whole functions).
	// Constant targets: a package-level integer constant with a literal value, `const Name [type] = 123`.
	Const  string `json:"const"`
	Type   string `json:"type"`
	Cond   *int   `json:"cond"`
	Assign string `json:"assign"`
	// Call / Arg: the Arg-th argument of the Nth call of a function or method named Call;
	// Ret: the Res-th result of the Nth `return` statement (set "ret": true).
	Call string            `json:"call"`
	Arg  int               `json:"arg"`
	Ret  bool              `json:"ret"`
	Res  int               `json:"res"`
	Nth  int               `json:"nth"`
	Vars map[string]string `json:"vars"`
}

// Go identifiers that are Lean keywords get the suffix `_v`.
var leanReserved = map[string]bool{"from": true, "at": true, "end": true, "then": true, "do": true, "let": true, "have": true,
	"show": true, "in": true, "with": true, "fun": true, "match": true, "open": true, "def": true, "theorem": true, "where": true,
	"by": true, "using": true, "instance": true, "class": true, "structure": true, "variable": true, "namespace": true,
	"section": true, "universe": true, "mut": true, "try": true, "catch": true, "finally": true, "macro": true, "syntax": true,
	"local": true, "private": true, "protected": true, "calc": true, "exists": true, "forall": true, "Type": true, "Sort": true,
	"Prop": true, "deriving": true, "extends": true, "export": true, "import": true, "set_option": true, "attribute": true}

func selText(e ast.Expr) string {
	switch x := e.(type) {
	case *ast.Ident:
		return x.Name
	case *ast.SelectorExpr:
		if p := selText(x.X); p != "" {
			return p + "." + x.Sel.Name
		}
	case *ast.IndexExpr: // a fixed element, `key.Bits()[3]`, may be declared as a free variable
		if lit, ok := x.Index.(*ast.BasicLit); ok && lit.Kind == token.INT {
			if p := selText(x.X); p != "" {
				return p + "[" + lit.Value + "]"
			}
		}
	case *ast.CallExpr: // a getter without arguments, `entry.GetHeight()`, or `len(x)` may be declared as a free variable
		if len(x.Args) == 0 {
			if p := selText(x.Fun); p != "" {
				return p + "()"
			}
		}
		if id, ok := x.Fun.(*ast.Ident); ok && id.Name == "len" && len(x.Args) == 1 {
			if p := selText(x.Args[0]); p != "" {
				return "len(" + p + ")"
			}
		}
	}
	return ""
}

var typeMap = map[string]string{
	"uint": "UInt64", "uint64": "UInt64", "uint32": "UInt32", "uint8": "UInt8", "byte": "UInt8", "bool": "Bool",
	"int": "Int64", "int64": "Int64", "time.Duration": "Int64", "types.Height": "UInt64", "Height": "UInt64",
	"VotingPower": "UInt64", "types.VotingPower": "UInt64", "SchemaVersion": "UInt64", "DataAvailabilityMode": "UInt32",
}

var width = map[string]int{"UInt64": 64, "UInt32": 32, "UInt8": 8}

// shift helper suffix per lean type (signed 64-bit integers have their own helpers)
var shiftSuffix = map[string]string{"UInt64": "64", "UInt32": "32", "UInt8": "8", "Int64": "64i"}

// math/bits functions with a Lean counterpart in the prelude: argument type, helper. All return Go int.
var bitsFns = map[string][2]string{
	"Len": {"UInt64", "Go.bitsLen64"}, "Len64": {"UInt64", "Go.bitsLen64"},
	"OnesCount": {"UInt64", "Go.onesCount64"}, "OnesCount64": {"UInt64", "Go.onesCount64"},
}

func toNat(s, ty string) string {
	if ty == "Int64" {
		return "(" + s + ").toNatClampNeg" // Go panics on a negative count; never the case in the listed functions
	}
	return "(" + s + ").toNat"
}

type tr struct {
	env     map[string]string // variable -> lean type
	recv    string            // receiver name, if pointer receiver
	ptrRecv bool
	leanOf  map[string]string // go func/method name -> lean name (for calls)
	retType string
	consts  map[string]string // local untyped integer constants
	// struct-typed receiver / parameters: name -> struct type name. A read `x.f` of an integer field becomes
	// the extra parameter `x_f` (in order of first use); nothing else may be done with such a variable.
	structVars  map[string]string
	structs     map[string]map[string]string // struct type -> field -> Go type name (same package)
	fieldParams []string
	freeVars    map[string]string // expression targets: identifier / selector chain -> Go type
}

func (t *tr) free(e ast.Expr) (string, string, bool) {
	txt := selText(e)
	gt, ok := t.freeVars[txt]
	if !ok || txt == "" {
		return "", "", false
	}
	lt := leanType(gt)
	name := strings.ReplaceAll(strings.ReplaceAll(txt, "()", ""), ".", "_")
	name = strings.ReplaceAll(strings.ReplaceAll(name, "(", "_"), ")", "")
	name = strings.ReplaceAll(strings.ReplaceAll(name, "[", "_"), "]", "")
	if leanReserved[name] {
		name += "_v"
	}
	if _, seen := t.env[name]; !seen {
		t.env[name] = lt
		t.fieldParams = append(t.fieldParams, fmt.Sprintf("(%s : %s)", name, lt))
	}
	return name, lt, true
}

// fail aborts the translation of the CURRENT target (recovered in main): its definition is left out of the
// generated file, so only the Tie modules that use it stop compiling - the ties of the other properties, which share
// the generated file, are not affected by a source change in a function they do not depend on.
func fail(format string, a ...any) {
	panic(fmt.Sprintf("unsupported: "+format, a...))
}

func typeName(e ast.Expr) string {
	switch t := e.(type) {
	case *ast.Ident:
		return t.Name
	case *ast.SelectorExpr:
		return typeName(t.X) + "." + t.Sel.Name
	case *ast.StarExpr:
		return "*" + typeName(t.X)
	case *ast.IndexExpr: // generic receiver T[A]
		return typeName(t.X)
	case *ast.IndexListExpr: // generic receiver T[A, B]
		return typeName(t.X)
	}
	fail("type expression %T", e)
	return ""
}

func leanType(goT string) string {
	if l, ok := typeMap[goT]; ok {
		return l
	}
	fail("type %s", goT)
	return ""
}

// expr translates e; want is the lean type expected by the context ("" = unknown).
func (t *tr) expr(e ast.Expr, want string) (string, string) {
	switch x := e.(type) {
	case *ast.ParenExpr:
		s, ty := t.expr(x.X, want)
		return "(" + s + ")", ty
	case *ast.Ident:
		if x.Name == "true" || x.Name == "false" {
			return x.Name, "Bool"
		}
		// declared free variables, parameters and locals shadow package-level constants
		if n, lt, ok := t.free(x); ok {
			return n, lt
		}
		if ty, ok := t.env[x.Name]; ok {
			return x.Name, ty
		}
		if v, ok := t.consts[x.Name]; ok {
			return t.expr(&ast.BasicLit{Kind: token.INT, Value: v}, want)
		}
		fail("unknown identifier %s", x.Name)
		return "", ""
	case *ast.BasicLit:
		if x.Kind != token.INT {
			fail("literal %s", x.Value)
		}
		if want == "" || want == "Bool" {
			want = "UInt64"
		}
		return fmt.Sprintf("(%s : %s)", x.Value, want), want
	case *ast.SelectorExpr:
		if n, lt, ok := t.free(x); ok {
			return n, lt
		}
		if id, ok := x.X.(*ast.Ident); ok {
			if st, ok := t.structVars[id.Name]; ok {
				ft, ok := t.structs[st][x.Sel.Name]
				if !ok {
					fail("field %s.%s not found (or not a plain field) in struct %s", id.Name, x.Sel.Name, st)
				}
				lt := leanType(ft)
				name := id.Name + "_" + x.Sel.Name
				if _, seen := t.env[name]; !seen {
					t.env[name] = lt
					t.fieldParams = append(t.fieldParams, fmt.Sprintf("(%s : %s)", name, lt))
				}
				return name, lt
			}
		}
		fail("selector %v", x.Sel.Name)
	case *ast.IndexExpr:
		if n, lt, ok := t.free(x); ok {
			return n, lt
		}
		fail("index expression")
	case *ast.StarExpr:
		if id, ok := x.X.(*ast.Ident); ok && t.ptrRecv && id.Name == t.recv {
			return id.Name, t.env[id.Name]
		}
		fail("dereference")
	case *ast.UnaryExpr:
		if x.Op == token.NOT {
			s, _ := t.expr(x.X, "Bool")
			return "(!" + s + ")", "Bool"
		}
		fail("unary %s", x.Op)
	case *ast.CallExpr:
		if n, lt, ok := t.free(x); ok {
			return n, lt
		}
		// conversion?
		if id, ok := x.Fun.(*ast.Ident); ok {
			if lt, ok := typeMap[id.Name]; ok && len(x.Args) == 1 {
				s, from := t.expr(x.Args[0], "")
				if from == lt {
					return s, lt
				}
				if _, isLit := x.Args[0].(*ast.BasicLit); isLit {
					s, _ = t.expr(x.Args[0], lt)
					return s, lt
				}
				return fmt.Sprintf("(%s).to%s", s, lt), lt
			}
			if (id.Name == "min" || id.Name == "max") && len(x.Args) == 2 {
				_, aIsLit := x.Args[0].(*ast.BasicLit)
				var a, b, ty string
				if aIsLit {
					b, ty = t.expr(x.Args[1], want)
					a, _ = t.expr(x.Args[0], ty)
				} else {
					a, ty = t.expr(x.Args[0], want)
					b, _ = t.expr(x.Args[1], ty)
				}
				return "(" + id.Name + " " + a + " " + b + ")", ty
			}
			if ln, ok := t.leanOf[id.Name]; ok {
				var args []string
				for _, a := range x.Args {
					s, _ := t.expr(a, "UInt64")
					args = append(args, s)
				}
				return "(" + ln + " " + strings.Join(args, " ") + ")", "UInt64"
			}
		}
		if sel, ok := x.Fun.(*ast.SelectorExpr); ok {
			if pk, isPk := sel.X.(*ast.Ident); isPk && pk.Name == "bits" {
				if bf, ok := bitsFns[sel.Sel.Name]; ok && len(x.Args) == 1 {
					a, at := t.expr(x.Args[0], bf[0])
					if at != bf[0] {
						fail("bits.%s of a %s", sel.Sel.Name, at)
					}
					return "(" + bf[1] + " " + a + ")", "Int64"
				}
				fail("math/bits function %s", sel.Sel.Name)
			}
			if ln, ok := t.leanOf[sel.Sel.Name]; ok {
				rs, _ := t.expr(sel.X, "UInt64")
				args := []string{rs}
				for _, a := range x.Args {
					s, _ := t.expr(a, "UInt64")
					args = append(args, s)
				}
				return "(" + ln + " " + strings.Join(args, " ") + ")", "UInt64"
			}
		}
		fail("call %v", x.Fun)
	case *ast.BinaryExpr:
		switch x.Op {
		case token.LAND, token.LOR:
			l, _ := t.expr(x.X, "Bool")
			r, _ := t.expr(x.Y, "Bool")
			op := "&&"
			if x.Op == token.LOR {
				op = "||"
			}
			return "(" + l + " " + op + " " + r + ")", "Bool"
		case token.SHL, token.SHR:
			l, lt := t.expr(x.X, want)
			r, rt := t.expr(x.Y, "")
			fn := "Go.shl"
			if x.Op == token.SHR {
				fn = "Go.shr"
			}
			suf, ok := shiftSuffix[lt]
			if !ok {
				fail("shift of a %s", lt)
			}
			return fmt.Sprintf("(%s%s %s %s)", fn, suf, l, toNat(r, rt)), lt
		}
		// infer operand type: a literal adopts the other side's type
		_, lIsLit := x.X.(*ast.BasicLit)
		var l, r, ty string
		opWant := want
		if isCmp(x.Op) {
			opWant = ""
		}
		if lIsLit {
			r, ty = t.expr(x.Y, opWant)
			l, _ = t.expr(x.X, ty)
		} else {
			l, ty = t.expr(x.X, opWant)
			r, _ = t.expr(x.Y, ty)
		}
		switch x.Op {
		case token.ADD, token.SUB, token.MUL, token.QUO, token.REM:
			return "(" + l + " " + x.Op.String() + " " + r + ")", ty
		case token.AND:
			return "(" + l + " &&& " + r + ")", ty
		case token.OR:
			return "(" + l + " ||| " + r + ")", ty
		case token.XOR:
			return "(" + l + " ^^^ " + r + ")", ty
		case token.AND_NOT:
			return "(" + l + " &&& ~~~" + r + ")", ty
		case token.EQL:
			return "(" + l + " == " + r + ")", "Bool"
		case token.NEQ:
			return "(" + l + " != " + r + ")", "Bool"
		case token.LSS, token.LEQ, token.GTR, token.GEQ:
			return "(decide (" + l + " " + x.Op.String() + " " + r + "))", "Bool"
		}
		fail("operator %s", x.Op)
	}
	fail("expression %T", e)
	return "", ""
}

func isCmp(op token.Token) bool {
	switch op {
	case token.EQL, token.NEQ, token.LSS, token.LEQ, token.GTR, token.GEQ:
		return true
	}
	return false
}

func (t *tr) lhsName(e ast.Expr) string {
	switch x := e.(type) {
	case *ast.Ident:
		return x.Name
	case *ast.StarExpr:
		if id, ok := x.X.(*ast.Ident); ok && t.ptrRecv && id.Name == t.recv {
			return id.Name
		}
	}
	fail("assignment target %T", e)
	return ""
}

func (t *tr) stmts(list []ast.Stmt, ind string, out *[]string) {
	for _, s := range list {
		switch x := s.(type) {
		case *ast.AssignStmt:
			if len(x.Lhs) != 1 || len(x.Rhs) != 1 {
				fail("multi-assignment")
			}
			name := t.lhsName(x.Lhs[0])
			switch x.Tok {
			case token.DEFINE:
				v, ty := t.expr(x.Rhs[0], "")
				t.env[name] = ty
				*out = append(*out, fmt.Sprintf("%slet mut %s : %s := %s", ind, name, ty, v))
			case token.ASSIGN:
				v, _ := t.expr(x.Rhs[0], t.env[name])
				*out = append(*out, fmt.Sprintf("%s%s := %s", ind, name, v))
			default:
				// op=
				opTok := map[token.Token]token.Token{token.ADD_ASSIGN: token.ADD, token.SUB_ASSIGN: token.SUB,
					token.MUL_ASSIGN: token.MUL, token.QUO_ASSIGN: token.QUO, token.REM_ASSIGN: token.REM,
					token.AND_ASSIGN: token.AND, token.OR_ASSIGN: token.OR, token.XOR_ASSIGN: token.XOR,
					token.SHL_ASSIGN: token.SHL, token.SHR_ASSIGN: token.SHR, token.AND_NOT_ASSIGN: token.AND_NOT}[x.Tok]
				if opTok == token.ILLEGAL {
					fail("assignment operator %s", x.Tok)
				}
				v, _ := t.expr(&ast.BinaryExpr{X: &ast.Ident{Name: name}, Op: opTok, Y: x.Rhs[0]}, t.env[name])
				*out = append(*out, fmt.Sprintf("%s%s := %s", ind, name, v))
			}
		case *ast.IncDecStmt:
			name := t.lhsName(x.X)
			op := "+"
			if x.Tok == token.DEC {
				op = "-"
			}
			*out = append(*out, fmt.Sprintf("%s%s := %s %s 1", ind, name, name, op))
		case *ast.DeclStmt:
			gd := x.Decl.(*ast.GenDecl)
			for _, sp := range gd.Specs {
				vs := sp.(*ast.ValueSpec)
				if gd.Tok == token.CONST {
					if vs.Type != nil || len(vs.Names) != 1 || len(vs.Values) != 1 {
						fail("const declaration shape")
					}
					lit, ok := vs.Values[0].(*ast.BasicLit)
					if !ok || lit.Kind != token.INT {
						fail("const value")
					}
					t.consts[vs.Names[0].Name] = lit.Value
					continue
				}
				if vs.Type == nil || len(vs.Values) != 0 {
					fail("var declaration shape")
				}
				lt := leanType(typeName(vs.Type))
				for _, n := range vs.Names {
					t.env[n.Name] = lt
					*out = append(*out, fmt.Sprintf("%slet mut %s : %s := 0", ind, n.Name, lt))
				}
			}
		case *ast.IfStmt:
			if x.Init != nil {
				t.stmts([]ast.Stmt{x.Init}, ind, out)
			}
			c, _ := t.expr(x.Cond, "Bool")
			*out = append(*out, fmt.Sprintf("%sif %s then", ind, c))
			t.stmts(x.Body.List, ind+"  ", out)
			if x.Else != nil {
				*out = append(*out, ind+"else")
				switch el := x.Else.(type) {
				case *ast.BlockStmt:
					t.stmts(el.List, ind+"  ", out)
				default:
					t.stmts([]ast.Stmt{el}, ind+"  ", out)
				}
			}
		case *ast.ReturnStmt:
			if len(x.Results) == 0 && t.ptrRecv {
				*out = append(*out, ind+"return "+t.recv)
				continue
			}
			if len(x.Results) != 1 {
				fail("return arity")
			}
			v, _ := t.expr(x.Results[0], t.retType)
			*out = append(*out, ind+"return "+v)
		default:
			fail("statement %T", s)
		}
	}
}

func main() {
	if len(os.Args) < 3 {
		fmt.Fprintln(os.Stderr, "usage: gen <repo> <out.lean> [targets.json]")
		os.Exit(2)
	}
	repo, outPath := os.Args[1], os.Args[2]
	tpath := "targets.json"
	if len(os.Args) > 3 {
		tpath = os.Args[3]
	}
	var targets []target
	b, err := os.ReadFile(tpath)
	if err != nil {
		fail("%v", err)
	}
	if err := json.Unmarshal(b, &targets); err != nil {
		fail("%v", err)
	}
	leanOf := map[string]string{}
	for _, tg := range targets {
		if tg.Cond == nil && tg.Assign == "" && tg.Const == "" && tg.Call == "" && !tg.Ret {
			leanOf[tg.Func] = tg.Lean
		}
	}
	var sb strings.Builder
	sb.WriteString("/-\nGENERATED by /verif/gen from /repo's current source on every check run. Do not edit.\n")
	sb.WriteString("Each definition is a statement-by-statement translation of the named Go function.\n-/\n")
	sb.WriteString("namespace Juno.Generated\n\n")
	sb.WriteString("/-- Go shift semantics: a count >= the width gives 0 (Lean's `<<<` would reduce it mod width). -/\n")
	for _, w := range []int{64, 32, 8} {
		sb.WriteString(fmt.Sprintf("def Go.shl%d (x : UInt%d) (n : Nat) : UInt%d := if n < %d then x <<< (UInt%d.ofNat n) else 0\n", w, w, w, w, w))
		sb.WriteString(fmt.Sprintf("def Go.shr%d (x : UInt%d) (n : Nat) : UInt%d := if n < %d then x >>> (UInt%d.ofNat n) else 0\n", w, w, w, w, w))
	}
	sb.WriteString("def Go.shl64i (x : Int64) (n : Nat) : Int64 := if n < 64 then x <<< (Int64.ofNat n) else 0\n")
	sb.WriteString("def Go.shr64i (x : Int64) (n : Nat) : Int64 := if n < 64 then x >>> (Int64.ofNat n) else (if x < 0 then -1 else 0)\n")
	sb.WriteString("/-- `math/bits.Len64` (and `bits.Len` on a 64-bit platform): the minimum number of bits to represent `x`, 0 for 0. -/\n")
	sb.WriteString("def Go.bitsLen64 (x : UInt64) : Int64 := Int64.ofNat (if x.toNat = 0 then 0 else Nat.log2 x.toNat + 1)\n")
	sb.WriteString("/-- `math/bits.OnesCount64`. -/\n")
	sb.WriteString("def Go.onesCount64 (x : UInt64) : Int64 := Int64.ofNat ((List.range 64).countP fun i => x.toNat.testBit i)\n")
	sb.WriteString("\n")
	fset := token.NewFileSet()
	failed := 0
	for _, tg := range targets {
		func() {
			mark := sb.Len()
			defer func() {
				if r := recover(); r != nil {
					kept := sb.String()[:mark]
					sb.Reset()
					sb.WriteString(kept)
					sb.WriteString(fmt.Sprintf("/- NOT TRANSLATED: `%s` (`%s` `%s`): %v -/\n\n", tg.Lean, tg.File, tg.Func+tg.Const, r))
					fmt.Fprintf(os.Stderr, "gen: target %s (%s %s): %v\n", tg.Lean, tg.File, tg.Func+tg.Const, r)
					failed++
				}
			}()
			src, err := os.ReadFile(filepath.Join(repo, tg.File))
			if err != nil {
				fail("%v", err)
			}
			file, err := parser.ParseFile(fset, tg.File, src, 0)
			if err != nil {
				fail("%v", err)
			}
			if tg.Const != "" {
				found := false
				for _, d := range file.Decls {
					gd, ok := d.(*ast.GenDecl)
					if !ok || gd.Tok != token.CONST {
						continue
					}
					for _, sp := range gd.Specs {
						vs := sp.(*ast.ValueSpec)
						if len(vs.Names) != 1 || vs.Names[0].Name != tg.Const || len(vs.Values) != 1 {
							continue
						}
						lit, ok := vs.Values[0].(*ast.BasicLit)
						if !ok || lit.Kind != token.INT {
							fail("constant %s is not an integer literal", tg.Const)
						}
						gt := tg.Type
						if vs.Type != nil {
							gt = typeName(vs.Type)
						}
						sb.WriteString(fmt.Sprintf("/-- `%s` `const %s` (line %d). -/\n", tg.File, tg.Const, fset.Position(vs.Pos()).Line))
						sb.WriteString(fmt.Sprintf("def %s : %s := %s\n\n", tg.Lean, leanType(gt), strings.ReplaceAll(lit.Value, "_", "")))
						found = true
					}
				}
				if !found {
					fail("constant %s not found in %s", tg.Const, tg.File)
				}
				return
			}
			var fd *ast.FuncDecl
			for _, d := range file.Decls {
				f, ok := d.(*ast.FuncDecl)
				if !ok || f.Name.Name != tg.Func {
					continue
				}
				recv := ""
				if f.Recv != nil && len(f.Recv.List) == 1 {
					recv = strings.TrimPrefix(typeName(f.Recv.List[0].Type), "*")
				}
				if recv == tg.Recv {
					fd = f
				}
			}
			if fd == nil {
				fail("function %s.%s not found in %s", tg.Recv, tg.Func, tg.File)
			}
			t := &tr{env: map[string]string{}, leanOf: leanOf, consts: map[string]string{}, structVars: map[string]string{}, structs: map[string]map[string]string{}}
			// struct types of the package (all non-test files of the directory): plain named fields only
			if pkgFiles, err := filepath.Glob(filepath.Join(repo, filepath.Dir(tg.File), "*.go")); err == nil {
				for _, pf := range pkgFiles {
					if strings.HasSuffix(pf, "_test.go") {
						continue
					}
					af, err := parser.ParseFile(token.NewFileSet(), pf, nil, 0)
					if err != nil {
						continue
					}
					for _, d := range af.Decls {
						gd, ok := d.(*ast.GenDecl)
						if !ok || gd.Tok != token.TYPE {
							continue
						}
						for _, sp := range gd.Specs {
							ts := sp.(*ast.TypeSpec)
							st, ok := ts.Type.(*ast.StructType)
							if !ok {
								continue
							}
							fm := map[string]string{}
							for _, fl := range st.Fields.List {
								var tn string
								switch ft := fl.Type.(type) {
								case *ast.Ident:
									tn = ft.Name
								case *ast.SelectorExpr:
									if pk, ok := ft.X.(*ast.Ident); ok {
										tn = pk.Name + "." + ft.Sel.Name
									}
								}
								if tn == "" {
									continue
								}
								for _, n := range fl.Names {
									fm[n.Name] = tn
								}
							}
							t.structs[ts.Name.Name] = fm
						}
					}
				}
			}
			// package-level untyped integer constants of the same file (literal values only)
			for _, d := range file.Decls {
				gd, ok := d.(*ast.GenDecl)
				if !ok || gd.Tok != token.CONST {
					continue
				}
				for _, sp := range gd.Specs {
					vs := sp.(*ast.ValueSpec)
					if vs.Type != nil || len(vs.Names) != 1 || len(vs.Values) != 1 {
						continue
					}
					if lit, ok := vs.Values[0].(*ast.BasicLit); ok && lit.Kind == token.INT {
						t.consts[vs.Names[0].Name] = lit.Value
					}
				}
			}
			var params []string
			if tg.Cond != nil || tg.Assign != "" || tg.Call != "" || tg.Ret {
				t.freeVars = tg.Vars
				if fd.Recv != nil && len(fd.Recv.List[0].Names) == 1 {
					rt := strings.TrimPrefix(typeName(fd.Recv.List[0].Type), "*")
					if _, isStruct := t.structs[rt]; isStruct {
						t.structVars[fd.Recv.List[0].Names[0].Name] = rt
					}
				}
				var e ast.Expr
				want, what := "", ""
				if tg.Cond != nil {
					k := 0
					ast.Inspect(fd.Body, func(n ast.Node) bool {
						if is, ok := n.(*ast.IfStmt); ok {
							if k == *tg.Cond {
								e = is.Cond
							}
							k++
						}
						return true
					})
					want, what = "Bool", fmt.Sprintf("condition of if #%d", *tg.Cond)
				} else if tg.Call != "" {
					k := 0
					ast.Inspect(fd.Body, func(n ast.Node) bool {
						if ce, ok := n.(*ast.CallExpr); ok {
							name := ""
							switch fn := ce.Fun.(type) {
							case *ast.Ident:
								name = fn.Name
							case *ast.SelectorExpr:
								name = fn.Sel.Name
							}
							if name == tg.Call && len(ce.Args) > tg.Arg {
								if k == tg.Nth {
									e = ce.Args[tg.Arg]
								}
								k++
							}
						}
						return true
					})
					if gt, ok := tg.Vars["$result"]; ok {
						want = leanType(gt)
					}
					what = fmt.Sprintf("argument %d of call #%d of %s", tg.Arg, tg.Nth, tg.Call)
				} else if tg.Ret {
					k := 0
					ast.Inspect(fd.Body, func(n ast.Node) bool {
						if _, isLit := n.(*ast.FuncLit); isLit {
							return false
						}
						if rs, ok := n.(*ast.ReturnStmt); ok && len(rs.Results) > tg.Res {
							if k == tg.Nth {
								e = rs.Results[tg.Res]
							}
							k++
						}
						return true
					})
					if gt, ok := tg.Vars["$result"]; ok {
						want = leanType(gt)
					}
					what = fmt.Sprintf("result %d of return #%d", tg.Res, tg.Nth)
				} else {
					k := 0
					ast.Inspect(fd.Body, func(n ast.Node) bool {
						if as, ok := n.(*ast.AssignStmt); ok && len(as.Lhs) == 1 && len(as.Rhs) == 1 && selText(as.Lhs[0]) == tg.Assign &&
							(as.Tok == token.ASSIGN || as.Tok == token.DEFINE) {
							if k == tg.Nth {
								e = as.Rhs[0]
							}
							k++
						}
						return true
					})
					if gt, ok := tg.Vars[tg.Assign]; ok {
						want = leanType(gt)
					}
					what = fmt.Sprintf("right-hand side of assignment #%d to %s", tg.Nth, tg.Assign)
				}
				if e == nil {
					fail("%s not found in %s", what, tg.Func)
				}
				v, ty := t.expr(e, want)
				start, end := fset.Position(e.Pos()), fset.Position(e.End())
				sb.WriteString(fmt.Sprintf("/-- `%s` `%s%s`: %s (line %d, text `%s`). -/\n", tg.File,
					map[bool]string{true: tg.Recv + ".", false: ""}[tg.Recv != ""], tg.Func, what, start.Line,
					strings.Join(strings.Fields(string(src[start.Offset:end.Offset])), " ")))
				sb.WriteString(fmt.Sprintf("def %s %s : %s :=\n  %s\n\n", tg.Lean, strings.Join(t.fieldParams, " "), ty, v))
				return
			}
			if fd.Recv != nil {
				r := fd.Recv.List[0]
				rt := typeName(r.Type)
				t.recv = r.Names[0].Name
				if strings.HasPrefix(rt, "*") {
					t.ptrRecv = true
					rt = rt[1:]
				}
				if _, isStruct := t.structs[rt]; isStruct {
					t.structVars[t.recv] = rt
					t.ptrRecv = false // fields of the receiver are only read (an assignment fails in lhsName)
				} else {
					lt := leanType(rt)
					t.env[t.recv] = lt
					params = append(params, fmt.Sprintf("(%s : %s)", t.recv+"0", lt))
				}
			}
			for _, p := range fd.Type.Params.List {
				pt := strings.TrimPrefix(typeName(p.Type), "*")
				if _, isStruct := t.structs[pt]; isStruct {
					for _, n := range p.Names {
						t.structVars[n.Name] = pt
					}
					continue
				}
				lt := leanType(typeName(p.Type))
				for _, n := range p.Names {
					t.env[n.Name] = lt
					params = append(params, fmt.Sprintf("(%s : %s)", n.Name+"0", lt))
				}
			}
			switch {
			case fd.Type.Results != nil && len(fd.Type.Results.List) == 1:
				t.retType = leanType(typeName(fd.Type.Results.List[0].Type))
			case t.ptrRecv:
				t.retType = t.env[t.recv]
			default:
				fail("result arity of %s", tg.Func)
			}
			var body []string
			// parameters are mutable locals in Go
			names := []string{}
			if fd.Recv != nil && t.structVars[t.recv] == "" {
				names = append(names, t.recv)
			}
			for _, p := range fd.Type.Params.List {
				for _, n := range p.Names {
					if t.structVars[n.Name] == "" {
						names = append(names, n.Name)
					}
				}
			}
			for _, n := range names {
				body = append(body, fmt.Sprintf("  let mut %s : %s := %s0", n, t.env[n], n))
			}
			t.stmts(fd.Body.List, "  ", &body)
			if t.ptrRecv {
				body = append(body, "  return "+t.recv)
			}
			start, end := fset.Position(fd.Pos()), fset.Position(fd.End())
			h := sha256.Sum256(src[start.Offset:end.Offset])
			sb.WriteString(fmt.Sprintf("/-- `%s` `%s%s` (lines %d-%d, sha256 of the function text %x). -/\n", tg.File,
				map[bool]string{true: tg.Recv + ".", false: ""}[tg.Recv != ""], tg.Func, start.Line, end.Line, h[:6]))
			params = append(params, t.fieldParams...)
			sb.WriteString(fmt.Sprintf("def %s %s : %s := Id.run do\n", tg.Lean, strings.Join(params, " "), t.retType))
			sb.WriteString(strings.Join(body, "\n"))
			sb.WriteString("\n\n")
		}()
	}
	if failed > 0 {
		fmt.Fprintf(os.Stderr, "gen: %d target(s) not translated; their definitions are missing from the output\n", failed)
	}
	sb.WriteString("end Juno.Generated\n")
	if err := os.MkdirAll(filepath.Dir(outPath), 0o755); err != nil {
		fail("%v", err)
	}
	// several checks regenerate the same file, possibly at the same time: leave an identical file untouched (no
	// rebuild of its importers) and replace a different one atomically
	if old, err := os.ReadFile(outPath); err == nil && string(old) == sb.String() {
		return
	}
	tmp := fmt.Sprintf("%s.tmp%d", outPath, os.Getpid())
	if err := os.WriteFile(tmp, []byte(sb.String()), 0o644); err != nil {
		fmt.Fprintln(os.Stderr, "gen:", err)
		os.Exit(2)
	}
	if err := os.Rename(tmp, outPath); err != nil {
		fmt.Fprintln(os.Stderr, "gen:", err)
		os.Exit(2)
	}
}
