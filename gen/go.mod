module verif/gen

go 1.26.0
