#!/bin/sh
# MANIFEST.setup_cmd: build everything from files on disk, offline. Failures of a single
# property's build are reported here and again (as that property's result) by its check.
cd "$(dirname "$0")"
export GOFLAGS=-mod=mod GOPROXY=off
unset GOSUMDB GOTOOLCHAIN
sh stubs/build.sh || exit 1
mkdir -p .build evidence replays
python3 - <<'PY'
import glob, json, os, subprocess, sys
V = os.getcwd()
env = dict(os.environ)
env["CGO_LDFLAGS"] = "-L" + os.path.join(V, "stubs")
# regenerated facts first (Generated/*.lean are rewritten from /repo)
subprocess.run(["go", "run", ".", "/repo", os.path.join(V, "lean/JunoModel/Generated/Arith.lean")], cwd=os.path.join(V, "gen"), env=env)
open(os.path.join(V, "harness/go.sum"), "w").write(open("/repo/go.sum").read() + (open(os.path.join(V, "harness/go.sum.extra")).read() if os.path.exists(os.path.join(V, "harness/go.sum.extra")) else ""))
targets, pkgs = [], []
for p in sorted(glob.glob(os.path.join(V, "checks", "c[0-9]*.json"))):
    c = json.load(open(p))
    l = c.get("lean", {})
    targets += l.get("modules", []) + ([l["driver"]] if l.get("driver") else [])
    if c.get("harness"):
        pkgs.append((c["property_id"].lower(), c["harness"]["pkg"]))
targets = sorted(set(targets))
r = subprocess.run(["lake", "build"] + targets, cwd=os.path.join(V, "lean"))
if r.returncode != 0:
    print("setup: some Lean targets failed to build; building one by one")
    for t in targets:
        subprocess.run(["lake", "build", t], cwd=os.path.join(V, "lean"), stdout=subprocess.DEVNULL)
for pid, pkg in pkgs:
    r = subprocess.run(["go", "build", "-tags", "verif", "-o", os.path.join(V, ".build", "vh-" + pid), pkg], cwd=os.path.join(V, "harness"), env=env)
    if r.returncode != 0:
        print("setup: harness %s did not build (reported by its check)" % pid)
PY
echo setup done
