#!/bin/sh
# MANIFEST.setup_cmd: build everything from files on disk, offline.
set -e
cd "$(dirname "$0")"
export GOFLAGS=-mod=mod GOPROXY=off
unset GOSUMDB GOTOOLCHAIN
sh stubs/build.sh
mkdir -p .build evidence replays
# Lean: whole library (all models, proofs, property theorems) and every driver that exists
( cd lean && lake build JunoModel )
for d in lean/JunoModel/C*/Driver.lean; do
  [ -f "$d" ] || continue
  id=$(basename "$(dirname "$d")" | tr 'A-Z' 'a-z')
  ( cd lean && lake build "${id}drv" )
done
# Go: warm the build cache for every harness command
cat /repo/go.sum > harness/go.sum
[ -f harness/go.sum.extra ] && cat harness/go.sum.extra >> harness/go.sum
export CGO_LDFLAGS="-L$(pwd)/stubs"
for c in harness/cmd/*/; do
  id=$(basename "$c")
  ( cd harness && go build -tags verif -o ../.build/vh-$id ./cmd/$id ) || echo "setup: harness $id did not build (reported by its check)"
done
echo setup done
