/* Stub for the Rust Sierra compiler archive (-ljuno_starknet_compiler_rs). */
#include <stdlib.h>
#include <stdio.h>
static void die(const char *n){ fprintf(stderr,"verif stub: %s called\n",n); abort(); }
void compileSierraToCasm(void){ die("compileSierraToCasm"); }
void freeCstr(void){ die("freeCstr"); }
