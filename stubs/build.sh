#!/bin/sh
# builds the two stub archives next to this script
set -e
cd "$(dirname "$0")"
cc -c -fPIC -O1 vm_stub.c -o vm_stub.o
cc -c -fPIC -O1 compiler_stub.c -o compiler_stub.o
rm -f libjuno_starknet_rs.a libjuno_starknet_compiler_rs.a
ar rcs libjuno_starknet_rs.a vm_stub.o
ar rcs libjuno_starknet_compiler_rs.a compiler_stub.o
rm -f vm_stub.o compiler_stub.o
