/* Stub for the Rust Cairo VM archive (-ljuno_starknet_rs). The verification
   harness never executes the VM; any call aborts loudly. */
#include <stdlib.h>
#include <stdio.h>
static void die(const char *n){ fprintf(stderr,"verif stub: %s called\n",n); abort(); }
void cairoVMCall(void){ die("cairoVMCall"); }
void cairoVMExecute(void){ die("cairoVMExecute"); }
char* setVersionedConstants(void){ die("setVersionedConstants"); return 0; }
void freeString(void){ die("freeString"); }
