#!/bin/sh
# lib/seedall.sh Cxx : validate every seed under /tmp/seed/Cxx/_out and print one summary line each
for s in ${SEEDBASE:-/tmp/seed}/$1/_out/*/; do python3 /verif/lib/seedtest.py $s --keep 2>/dev/null | python3 -c "
import sys,json
t=sys.stdin.read()
try: d=json.loads(t)
except Exception as e: print('unparsable', t[-500:]); sys.exit()
print({k:d.get(k) for k in ('name','applies','builds','demo_fails_with_change','demo_passes_without_change','existing_tests_pass','detected','with_failing_input','check_wall_s')})
for k in ('error','existing_tests_fail','demo_without_tail'):
    if d.get(k): print('   ',k,str(d[k])[:400])
for l in d.get('check_lines',[]): print('   ',l[:220])
"; done
