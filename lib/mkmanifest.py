#!/usr/bin/env python3
"""Regenerates /verif/MANIFEST.json from checks/*.json (one per claimed property) and
checks/not_applicable.json. Run after editing any checks/cxx.json."""
import glob, json, os
V = os.path.dirname(os.path.dirname(os.path.abspath(__file__)))
props = [json.loads(l)["id"] for l in open(os.path.join(V, "properties.jsonl")) if l.strip()]
checks, claimed = [], set()
for p in sorted(glob.glob(os.path.join(V, "checks", "c[0-9]*.json"))):
    c = json.load(open(p))
    m = c.get("manifest")
    if not m or not c.get("claimed", True):
        continue
    pid = c["property_id"]
    claimed.add(pid)
    checks.append({
        "property_id": pid,
        "quick_cmd": "./check %s --tier quick" % pid,
        "thorough_cmd": "./check %s --tier thorough" % pid,
        "evidence_file": "/verif/evidence/%s.json" % pid,
        "replay_cmd_template": "./check %s --replay {path}" % pid,
        "engine": "lean4-model+go-correspondence",
        "level_claimed": {"category": c.get("level", "proof"), "text": m["level_text"], "design_ref": m.get("design_ref", "DESIGN.md §6 " + pid)},
        "level_note": m["level_note"],
        "technique": m.get("technique", "Lean 4 theorems over a hand-written model + differential correspondence with the Go implementation"),
    })
na_path = os.path.join(V, "checks", "not_applicable.json")
na_reasons = json.load(open(na_path)) if os.path.exists(na_path) else {}
na = [{"property_id": p, "reason": na_reasons.get(p, "not claimed yet: model, theorems and correspondence harness for this property are not built (see DESIGN.md §6)")}
      for p in props if p not in claimed]
hooks_path = os.path.join(V, "checks", "hooks.json")
hooks = json.load(open(hooks_path))
man = {
    "version": 1,
    "setup_cmd": "./setup.sh",
    "hooks": hooks,
    "engines": [{"name": "lean4-model+go-correspondence", "path": "/verif/lean, /verif/harness, /verif/lib/vcheck.py",
                 "serves_properties": sorted(claimed),
                 "kind_free_text": "Lean 4 theorems (kernel-checked, axioms audited per run) over executable models; Go harness runs the real code and the compiled Lean driver on the same generated inputs and diffs; property oracle on the real code yields replays"}],
    "checks": checks,
    "notes": "Every check rebuilds its harness from /repo's working tree with -tags verif, rebuilds the Lean modules, audits axioms, runs correspondence + property oracle, writes evidence/<id>.json. Known findings: known-findings.json.",
    "not_applicable": na,
}
with open(os.path.join(V, "MANIFEST.json"), "w") as f:
    json.dump(man, f, indent=1)
    f.write("\n")
known, fixed = [], []
for p in sorted(glob.glob(os.path.join(V, "known", "C*.json"))):
    d = json.load(open(p))
    known += d.get("known", [])
    fixed += d.get("fixed", [])
with open(os.path.join(V, "known-findings.json"), "w") as f:
    json.dump({"_comment": "assembled from known/Cxx.json by lib/mkmanifest.py; a 'known' entry suppresses exactly the violation with the same sig; 'fixed' entries suppress nothing",
               "known": known, "fixed": fixed}, f, indent=1)
    f.write("\n")
print("claimed:", sorted(claimed), "unclaimed:", [x["property_id"] for x in na])
