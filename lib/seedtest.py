#!/usr/bin/env python3
"""Confirm a seeded property-breaking change and run the property's check against it.

usage: lib/seedtest.py <seed dir with patch.diff, meta.json, demo file> [--keep] [--tier quick]

Steps (all in a scratch worktree of /repo's HEAD under /tmp/sv, removed afterwards):
  1. patch applies, touched packages build;
  2. the demonstration FAILS with the patch and PASSES without it;
  3. juno's existing tests of the touched packages still pass with the patch;
  4. VERIF_REPO=<worktree> ./check <property> : does it report a VIOLATION, with a failing input?
Writes /verif/seeded/<property>-<name>/{patch.diff, demo*, meta.json} when 1-3 hold (--keep).
"""
import json, os, re, shutil, subprocess, sys, time

V = os.path.dirname(os.path.dirname(os.path.abspath(__file__)))
ENV = dict(os.environ, GOFLAGS="-mod=mod", GOPROXY="off", CGO_LDFLAGS="-L" + os.path.join(V, "stubs"),
           PKG_CONFIG_PATH="/tmp/jemstub/lib/pkgconfig")  # optional header-only jemalloc stub so rpc test packages link
ENV.pop("GOSUMDB", None); ENV.pop("GOTOOLCHAIN", None)


def sh(cmd, cwd, timeout=1800, env=None):
    p = subprocess.run(cmd, cwd=cwd, shell=isinstance(cmd, str), env=env or ENV, timeout=timeout,
                       stdout=subprocess.PIPE, stderr=subprocess.STDOUT, text=True)
    return p.returncode, p.stdout


def main():
    seed = os.path.abspath(sys.argv[1])
    keep = "--keep" in sys.argv
    tier = sys.argv[sys.argv.index("--tier") + 1] if "--tier" in sys.argv else "quick"
    meta = json.load(open(os.path.join(seed, "meta.json")))
    pid, name = meta["property"], meta.get("name") or os.path.basename(seed)
    wt = "/tmp/sv/%s-%s" % (pid, name)
    os.makedirs("/tmp/sv", exist_ok=True)
    sh(["git", "-C", "/repo", "worktree", "remove", "--force", wt], "/")
    rc, out = sh(["git", "-C", "/repo", "worktree", "add", "--detach", wt, "HEAD"], "/")
    res = {"property": pid, "name": name, "repo_head": sh("git -C /repo rev-parse --short HEAD", "/")[1].strip()}
    try:
        rc, out = sh(["git", "apply", "--3way", os.path.join(seed, "patch.diff")], wt)
        if rc != 0:
            rc, out = sh(["git", "apply", os.path.join(seed, "patch.diff")], wt)
        res["applies"] = rc == 0
        if rc != 0:
            res["error"] = out[-800:]
            return res
        sh("git reset -q", wt)
        touched = sorted({os.path.dirname(l) for l in sh("git diff --name-only", wt)[1].split() if l.endswith(".go")})
        res["touched"] = touched
        rc, out = sh("go build " + " ".join("./" + t for t in touched), wt)
        res["builds"] = rc == 0
        if rc != 0:
            res["error"] = out[-800:]
            return res
        # demonstration
        demo_files = [f for f in os.listdir(seed) if f not in ("patch.diff", "meta.json") and os.path.isfile(os.path.join(seed, f))]
        demo_pkg = ((meta.get("demo_pkg", "").split() or [""])[0]).strip("./") or (touched[0] if touched else ".")
        created_pkg = not os.path.isdir(os.path.join(wt, demo_pkg))
        os.makedirs(os.path.join(wt, demo_pkg), exist_ok=True)
        run = re.search(r"-run\s+(\S+)", meta.get("demo_cmd", ""))
        for f in demo_files:
            if f.endswith("_test.go"):
                shutil.copy(os.path.join(seed, f), os.path.join(wt, demo_pkg, "zz_seed_" + f))
        if any(f.endswith("_test.go") for f in demo_files):
            tags = re.search(r"-tags[= ]\s*(\S+)", meta.get("demo_cmd", ""))  # e.g. -tags verif (juno's own hook points)
            cmd = "go test %s-vet=off -count=1 %s ./%s/" % ("-tags %s " % tags.group(1) if tags else "",
                                                          "-run '%s'" % run.group(1).strip("'\"") if run else "", demo_pkg)
            rc_with, out_with = sh(cmd, wt)
            # take the tracked change out and put it back WITHOUT git stash (the stash is shared by all worktrees of
            # a repository, so parallel runs would pop each other's entries); the untracked demo file stays
            sh("git diff > .seedtest.patch && git checkout -q -- .", wt)
            rc_without, out_without = sh(cmd, wt)
            rc_re, out_re = sh("git apply .seedtest.patch && rm -f .seedtest.patch", wt)
            if rc_re != 0:
                res["error"] = "could not re-apply the change: " + out_re[-300:]
                return res
            if rc_with != 0:
                res["demo_with_tail"] = out_with[-400:]
            res["demo_fails_with_change"] = rc_with != 0
            res["demo_passes_without_change"] = rc_without == 0
            res["demo_cmd"] = cmd
            if rc_without != 0:
                res["demo_without_tail"] = out_without[-600:]
            for f in demo_files:
                if f.endswith("_test.go"):
                    os.remove(os.path.join(wt, demo_pkg, "zz_seed_" + f))
            if created_pkg:
                shutil.rmtree(os.path.join(wt, demo_pkg), ignore_errors=True)
        else:
            res["demo_fails_with_change"] = None
            res["note"] = "demonstration is not a _test.go file; run by hand: " + meta.get("demo_cmd", "")
        # existing tests
        pk = " ".join("./" + t + "/..." if t else "./..." for t in touched)
        rc, out = sh("go test -vet=off -count=1 " + pk, wt, timeout=2400)
        fails = [l for l in out.split("\n") if l.startswith(("FAIL\t", "--- FAIL")) and "build failed" not in l]
        res["existing_tests_pass"] = not fails
        res["existing_tests_cmd"] = "go test -vet=off -count=1 " + pk
        if fails:
            res["existing_tests_fail"] = fails[:10]
        # the check
        t0 = time.time()
        env = dict(os.environ, VERIF_REPO=wt)
        rc, out = sh([os.path.join(V, "check"), pid, "--tier", tier], V, timeout=7200, env=env)
        res["check_rc"] = rc
        res["check_wall_s"] = round(time.time() - t0, 1)
        lines = [l for l in out.split("\n") if l.startswith(("VIOLATION", "KNOWN-FINDING", pid, "  problem"))]
        res["check_lines"] = [l[:300] for l in lines][:12]
        viol = [l for l in lines if l.startswith("VIOLATION")]
        res["detected"] = bool(viol)
        res["with_failing_input"] = any("no-failing-input-found" not in l for l in viol)
        return res
    finally:
        sh(["git", "-C", "/repo", "worktree", "remove", "--force", wt], "/")
        sh("git -C /repo worktree prune", "/")
        if keep and res.get("applies") and res.get("builds"):
            d = os.path.join(V, "seeded", "%s-%s" % (pid, name))
            os.makedirs(d, exist_ok=True)
            for f in os.listdir(seed):
                if f != "meta.json" and os.path.isfile(os.path.join(seed, f)):
                    shutil.copy(os.path.join(seed, f), os.path.join(d, f))
            m = dict(meta)
            m["confirmed"] = {k: res.get(k) for k in ("repo_head", "applies", "builds", "demo_fails_with_change", "demo_passes_without_change",
                                                       "demo_cmd", "existing_tests_pass", "existing_tests_cmd", "existing_tests_fail")}
            m["check_result"] = {k: res.get(k) for k in ("detected", "with_failing_input", "check_rc", "check_wall_s", "check_lines")}
            json.dump(m, open(os.path.join(d, "meta.json"), "w"), indent=1)
        print(json.dumps(res, indent=1))


if __name__ == "__main__":
    main()
