#!/usr/bin/env python3
"""lib/seedprop.py <base> <Cxx> <round>: validate every seed under <base>/<Cxx>/_out with lib/seedtest.py --keep, stamp
round + first_contact into the kept meta.json, print one summary line per seed, and remove the seeder's worktree."""
import glob, json, os, subprocess, sys
V = os.path.dirname(os.path.dirname(os.path.abspath(__file__)))
base, pid, rnd = sys.argv[1], sys.argv[2], int(sys.argv[3])
for s in sorted(glob.glob(f"{base}/{pid}/_out/*/")):
    if not os.path.exists(s + "meta.json") or not os.path.exists(s + "patch.diff"):
        print(pid, s, "incomplete (no meta.json/patch.diff)"); continue
    p = subprocess.run([sys.executable, V + "/lib/seedtest.py", s, "--keep"], stdout=subprocess.PIPE, stderr=subprocess.DEVNULL, text=True)
    try:
        r = json.loads(p.stdout)
    except Exception:
        print(pid, s, "unparsable seedtest output", p.stdout[-300:]); continue
    ok = r.get("applies") and r.get("builds") and r.get("demo_fails_with_change") and r.get("demo_passes_without_change") and r.get("existing_tests_pass")
    d = f"{V}/seeded/{pid}-{r['name']}"
    if os.path.exists(d + "/meta.json"):
        m = json.load(open(d + "/meta.json"))
        m["round"] = rnd
        m["first_contact"] = {"detected": r.get("detected"), "with_failing_input": r.get("with_failing_input")}
        json.dump(m, open(d + "/meta.json", "w"), indent=1)
    print("%s %-50s valid=%s detected=%s input=%s wall=%s" % (pid, r["name"], bool(ok), r.get("detected"), r.get("with_failing_input"), r.get("check_wall_s")))
    if not ok:
        print("    ", {k: r.get(k) for k in ("applies", "builds", "demo_fails_with_change", "demo_passes_without_change", "existing_tests_pass", "existing_tests_fail", "error", "note")})
        for k in ("demo_with_tail", "demo_without_tail"):
            if r.get(k): print("    ", k, r[k][-300:].replace("\n", " | "))
    for l in r.get("check_lines", [])[:6]:
        print("     ", l[:200])
