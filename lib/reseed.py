#!/usr/bin/env python3
"""lib/reseed.py <seeded/Cxx-name> [...] [--tier quick]: re-run the property's check against an already confirmed seeded
change (scratch worktree of /repo HEAD + patch.diff), and update meta.json's check_result (first_contact, round, confirmed
stay as they are). Prints one line per seed."""
import json, os, subprocess, sys, time

V = os.path.dirname(os.path.dirname(os.path.abspath(__file__)))
tier = sys.argv[sys.argv.index("--tier") + 1] if "--tier" in sys.argv else "quick"
seeds = [a for a in sys.argv[1:] if not a.startswith("--") and a != tier]


def sh(cmd, cwd, env=None, timeout=7200):
    p = subprocess.run(cmd, cwd=cwd, shell=isinstance(cmd, str), env=env, timeout=timeout,
                       stdout=subprocess.PIPE, stderr=subprocess.STDOUT, text=True)
    return p.returncode, p.stdout


for s in seeds:
    s = os.path.abspath(s)
    meta = json.load(open(os.path.join(s, "meta.json")))
    pid = meta["property"]
    wt = "/tmp/sv/re-" + os.path.basename(s)
    os.makedirs("/tmp/sv", exist_ok=True)
    sh(["git", "-C", "/repo", "worktree", "remove", "--force", wt], "/")
    sh(["git", "-C", "/repo", "worktree", "add", "--detach", wt, "HEAD"], "/")
    try:
        rc, out = sh(["git", "apply", "--3way", os.path.join(s, "patch.diff")], wt)
        if rc != 0:
            rc, out = sh(["git", "apply", os.path.join(s, "patch.diff")], wt)
        if rc != 0:
            print(os.path.basename(s), "PATCH DOES NOT APPLY to /repo HEAD:", out[-300:].replace("\n", " "))
            continue
        t0 = time.time()
        rc, out = sh([os.path.join(V, "check"), pid, "--tier", tier], V, env=dict(os.environ, VERIF_REPO=wt))
        lines = [l for l in out.split("\n") if l.startswith(("VIOLATION", "KNOWN-FINDING", pid, "  problem"))]
        viol = [l for l in lines if l.startswith("VIOLATION")]
        meta["check_result"] = {"detected": bool(viol), "with_failing_input": any("no-failing-input-found" not in l for l in viol),
                                "check_rc": rc, "check_wall_s": round(time.time() - t0, 1), "check_lines": [l[:300] for l in lines][:12],
                                "repo_head": sh("git -C /repo rev-parse --short HEAD", "/")[1].strip()}
        json.dump(meta, open(os.path.join(s, "meta.json"), "w"), indent=1)
        print(os.path.basename(s), "detected=%s input=%s wall=%.0fs" % (meta["check_result"]["detected"],
              meta["check_result"]["with_failing_input"], meta["check_result"]["check_wall_s"]))
    finally:
        sh(["git", "-C", "/repo", "worktree", "remove", "--force", wt], "/")
        sh("git -C /repo worktree prune", "/")
