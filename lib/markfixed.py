#!/usr/bin/env python3
"""lib/markfixed.py Cxx <sha> <sig-substring> [...]: move known entries whose sig contains one of the substrings to "fixed"."""
import json, sys
pid, sha, subs = sys.argv[1], sys.argv[2], sys.argv[3:]
p = f"/verif/known/{pid}.json"; d = json.load(open(p)); keep = []
for e in d["known"]:
    if any(s in e["sig"] for s in subs):
        e = dict(e); e["commit"] = sha; e["property"] = pid
        if not e["what"].startswith("fixed:"):
            e["what"] = f"fixed: property={pid} {sha} " + e["what"]
        d.setdefault("fixed", []).append(e); print("fixed:", e["sig"])
    else:
        keep.append(e)
d["known"] = keep
json.dump(d, open(p, "w"), indent=1)
print(pid, "still known:", [e["sig"] for e in keep])
