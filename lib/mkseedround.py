#!/usr/bin/env python3
"""lib/mkseedround.py <base dir, e.g. /tmp/seed3> <Cxx> [...]: prepare a seeding round for the given properties:
a detached worktree of /repo HEAD at <base>/<Cxx>, stub archives at <base>/stubs, and the seeder's prompt at
<base>/prompts/<Cxx>.txt (property text + the list of changes earlier rounds produced, from /verif/seeded)."""
import glob
import json
import os
import shutil
import subprocess
import sys

V = "/verif"
base = sys.argv[1]
pids = sys.argv[2:]
os.makedirs(base + "/prompts", exist_ok=True)
if not os.path.isdir(base + "/stubs"):
    os.makedirs(base + "/stubs")
    for a in glob.glob(V + "/stubs/*.a"):
        shutil.copy(a, base + "/stubs/")
props = {p["id"]: p for p in map(json.loads, open(V + "/properties.jsonl"))}

TEMPLATE = open(V + "/notes/prompts/seed-template.txt").read()

for pid in pids:
    wt = f"{base}/{pid}"
    if not os.path.isdir(wt):
        subprocess.check_call(["git", "-C", "/repo", "worktree", "add", "--detach", wt, "HEAD"],
                              stdout=subprocess.DEVNULL, stderr=subprocess.DEVNULL)
    p = props[pid]
    earlier = []
    for m in sorted(glob.glob(f"{V}/seeded/{pid}-*/meta.json")):
        d = json.load(open(m))
        earlier.append("- %s: %s" % (d["name"], d.get("summary", "")[:420].replace("\n", " ")))
    anch = ", ".join(p["anchors"]["files"])
    txt = TEMPLATE % {
        "PID": pid, "BASE": base,
        "TITLE": p.get("title", ""), "STATEMENT": p.get("statement", ""),
        "QUANT": p["quantifier"]["text"],
        "ANCHORS": anch, "EARLIER": "\n".join(earlier),
    }
    open(f"{base}/prompts/{pid}.txt", "w").write(txt)
    print(pid, "ready:", wt)
