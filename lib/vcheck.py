#!/usr/bin/env python3
"""Shared driver for every property check (see DESIGN.md §4 and CONVENTIONS.md).

A check run for property Cxx does, in order:

  1. (optional) pre-commands from checks/cxx.json  (fact extractors writing Generated/*.lean)
  2. `lake build` of the property's Lean modules and its core-only driver executable
  3. audit: every theorem of the Props module is listed with its axioms
     (must be a subset of propext / Classical.choice / Quot.sound) and the Lean sources
     of the property are searched for forbidden tokens (sorry, admit, axiom, native_decide, ...)
  4. build the Go harness for the property with `-tags verif` against /repo's working tree
  5. run the harness: it drives the real juno code and the Lean driver on the same generated
     inputs (correspondence), and evaluates the property's own oracle on the real code
  6. decide, print VIOLATION / KNOWN-FINDING lines, write evidence/Cxx.json

Exit status 0: property held on everything explored (known findings are printed, not failures).
Exit status 1: a VIOLATION line was printed.
"""
import argparse
import fcntl
import hashlib
import json
import os
import re
import subprocess
import sys
import time

VERIF = os.path.dirname(os.path.dirname(os.path.abspath(__file__)))
LEAN_DIR = os.path.join(VERIF, "lean")
HARNESS_DIR = os.path.join(VERIF, "harness")
STUBS_DIR = os.path.join(VERIF, "stubs")
BUILD_DIR = os.path.join(VERIF, ".build")
REPO = os.environ.get("VERIF_REPO", "/repo")

ALLOWED_AXIOMS = {"propext", "Classical.choice", "Quot.sound"}
FORBIDDEN = [
    r"\bsorry\b", r"\badmit\b", r"^\s*axiom\s", r"\bnative_decide\b", r"\bbv_decide\b",
    r"\bimplemented_by\b", r"\bunsafe\s", r"maxHeartbeats\s+0\b", r"\bextern\b",
    r"\bdecide\s*\+native\b", r"\bofReduceBool\b",
]
AUTO_THM = re.compile(r"(\.eq_\d+|\.eq_def|\.congr_simp|\.sizeOf_spec|\.injEq|\.inj|\.noConfusion.*|\._.*)$")


def go_env():
    env = dict(os.environ)
    env["GOFLAGS"] = "-mod=mod"
    env["GOPROXY"] = "off"
    # do NOT set GOSUMDB=off / GOTOOLCHAIN=local: they break the switch to the cached go1.26.0
    env.pop("GOSUMDB", None)
    env.pop("GOTOOLCHAIN", None)
    env["CGO_LDFLAGS"] = (env.get("CGO_LDFLAGS", "") + " -L" + STUBS_DIR).strip()
    env.setdefault("GOMEMLIMIT", "12GiB")
    return env


def run(cmd, cwd=None, env=None, timeout=None, stdin=None):
    t0 = time.time()
    try:
        p = subprocess.run(cmd, cwd=cwd, env=env, timeout=timeout, input=stdin,
                           stdout=subprocess.PIPE, stderr=subprocess.STDOUT, text=True)
        return p.returncode, p.stdout, time.time() - t0
    except subprocess.TimeoutExpired as e:
        out = e.stdout if isinstance(e.stdout, str) else (e.stdout or b"").decode("utf8", "replace")
        return 124, (out or "") + "\n[timeout after %ss]" % timeout, time.time() - t0


class Lock:
    """Serialises lake invocations of concurrent checks (lake has no lock of its own)."""

    def __init__(self, name):
        os.makedirs(BUILD_DIR, exist_ok=True)
        self.path = os.path.join(BUILD_DIR, name + ".lock")

    def __enter__(self):
        self.f = open(self.path, "w")
        fcntl.flock(self.f, fcntl.LOCK_EX)
        return self

    def __exit__(self, *a):
        fcntl.flock(self.f, fcntl.LOCK_UN)
        self.f.close()


def ensure_stubs():
    a = os.path.join(STUBS_DIR, "libjuno_starknet_rs.a")
    b = os.path.join(STUBS_DIR, "libjuno_starknet_compiler_rs.a")
    if not (os.path.exists(a) and os.path.exists(b)):
        with Lock("stubs"):
            rc, out, _ = run(["sh", os.path.join(STUBS_DIR, "build.sh")])
            if rc != 0:
                raise RuntimeError("stub build failed:\n" + out)


def repo_tag():
    return "" if REPO == "/repo" else "-" + hashlib.sha1(REPO.encode()).hexdigest()[:8]


def sync_go_sum():
    """harness/go.sum is a copy of /repo/go.sum plus whatever extra the harness needs.
    With VERIF_REPO set to a scratch worktree, a private go.mod/go.sum pair under .build/ is
    used (go build -modfile) so that /repo itself is never touched. Returns extra go flags."""
    src = os.path.join(REPO, "go.sum")
    extra = os.path.join(HARNESS_DIR, "go.sum.extra")
    data = open(src).read()
    if os.path.exists(extra):
        data += open(extra).read()
    if REPO == "/repo":
        dst = os.path.join(HARNESS_DIR, "go.sum")
        flags = []
    else:
        os.makedirs(BUILD_DIR, exist_ok=True)
        mod = os.path.join(BUILD_DIR, "go%s.mod" % repo_tag())
        gm = open(os.path.join(HARNESS_DIR, "go.mod")).read().replace("=> /repo", "=> " + REPO)
        if not os.path.exists(mod) or open(mod).read() != gm:
            with open(mod, "w") as f:
                f.write(gm)
        dst = mod[:-4] + ".sum"
        flags = ["-modfile=" + mod]
    if not os.path.exists(dst) or open(dst).read() != data:
        with open(dst, "w") as f:
            f.write(data)
    return flags


def strip_lean_comments(src):
    out, i, depth = [], 0, 0
    n = len(src)
    while i < n:
        if src.startswith("/-", i):
            depth += 1
            i += 2
            continue
        if depth and src.startswith("-/", i):
            depth -= 1
            i += 2
            continue
        if depth:
            if src[i] == "\n":
                out.append("\n")
            i += 1
            continue
        if src.startswith("--", i):
            while i < n and src[i] != "\n":
                i += 1
            continue
        out.append(src[i])
        i += 1
    return "".join(out)


def forbidden_tokens(paths):
    hits = []
    for p in paths:
        if not os.path.exists(p):
            continue
        files = []
        if os.path.isdir(p):
            for root, _, fs in os.walk(p):
                files += [os.path.join(root, f) for f in fs if f.endswith(".lean")]
        else:
            files = [p]
        for f in files:
            body = strip_lean_comments(open(f).read())
            # string literals may legitimately contain words such as "sorry"
            body = re.sub(r'"(\\.|[^"\\])*"', '""', body)
            for ln, line in enumerate(body.split("\n"), 1):
                for pat in FORBIDDEN:
                    if re.search(pat, line):
                        hits.append("%s:%d: %s" % (os.path.relpath(f, VERIF), ln, line.strip()[:120]))
    return hits


AUDIT_TMPL = """import Lean
%(imports)s
open Lean

def auditModule (m : Name) : CoreM Unit := do
  let env ← getEnv
  let some idx := env.getModuleIdx? m | throwError s!"module {m} not imported"
  let mut out : Array (Name × Array Name × String) := #[]
  for (n, ci) in env.constants.map₁.toList do
    if env.getModuleIdxFor? n == some idx then
      if let .thmInfo _ := ci then
        if !n.isInternal then
          let ax ← Lean.collectAxioms n
          let ty ← Meta.MetaM.run' (do let f ← Meta.ppExpr ci.type; pure (toString f))
          out := out.push (n, ax, ty)
  let sorted := out.qsort (fun a b => a.1.toString < b.1.toString)
  for (n, ax, ty) in sorted do
    IO.println s!"THEOREM {n} AXIOMS {ax.toList}"
    IO.println s!"STATEMENT {n} :: {(ty.replace "\\n" " ")}"

%(calls)s
"""


def lean_audit(pid, modules):
    os.makedirs(os.path.join(LEAN_DIR, ".audit"), exist_ok=True)
    path = os.path.join(LEAN_DIR, ".audit", "Audit_%s.lean" % pid)
    with open(path, "w") as f:
        f.write(AUDIT_TMPL % {
            "imports": "\n".join("import " + m for m in modules),
            "calls": "\n".join("#eval auditModule `%s" % m for m in modules),
        })
    rc, out, dt = run(["lake", "env", "lean", path], cwd=LEAN_DIR, timeout=900)
    thms = {}
    stmts = {}
    for line in out.split("\n"):
        m = re.match(r"THEOREM (\S+) AXIOMS \[(.*)\]", line)
        if m:
            name = m.group(1)
            if AUTO_THM.search(name):
                continue
            thms[name] = [a.strip() for a in m.group(2).split(",") if a.strip()]
        m = re.match(r"STATEMENT (\S+) :: (.*)", line)
        if m and m.group(1) in thms:
            stmts[m.group(1)] = m.group(2)[:600]
    return rc, out, thms, stmts


def load_known(pid):
    # known-findings.json is assembled by lib/mkmanifest.py from known/Cxx.json; never written at run time
    path = os.path.join(VERIF, "known-findings.json")
    if not os.path.exists(path):
        return []
    data = json.load(open(path))
    return [k for k in data.get("known", []) if k.get("property") == pid]


def write_replay(pid, tag, payload):
    os.makedirs(os.path.join(VERIF, "replays"), exist_ok=True)
    blob = json.dumps(payload, indent=1, sort_keys=True, default=str)
    h = hashlib.sha1(blob.encode()).hexdigest()[:10]
    safe = re.sub(r"[^A-Za-z0-9_.-]+", "_", tag)[:60]
    path = os.path.join(VERIF, "replays", "%s-%s-%s.json" % (pid, safe, h))
    with open(path, "w") as f:
        f.write(blob)
    return path


def main(argv=None):
    ap = argparse.ArgumentParser()
    ap.add_argument("property")
    ap.add_argument("--tier", default=os.environ.get("VERIF_TIER", "quick"), choices=["quick", "thorough"])
    ap.add_argument("--seed", type=int, default=int(os.environ.get("VERIF_SEED", "1") or 1))
    ap.add_argument("--replay", default=None)
    ap.add_argument("--skip-lean", action="store_true", help="developer aid: skip lake build + audit (never used by MANIFEST commands)")
    args = ap.parse_args(argv)

    pid = args.property.upper()
    cfg_path = os.path.join(VERIF, "checks", pid.lower() + ".json")
    cfg = json.load(open(cfg_path))
    t0 = time.time()
    os.makedirs(BUILD_DIR, exist_ok=True)
    os.makedirs(os.path.join(VERIF, "evidence"), exist_ok=True)

    problems = []      # things that break the proof / tie (not by themselves violations)
    log = []
    lean_cfg = cfg.get("lean", {})
    modules = lean_cfg.get("modules", [])
    driver = lean_cfg.get("driver")
    thms, stmts = {}, {}
    env = go_env()

    # ---- 1. pre-commands (regenerated facts) --------------------------------------------
    ensure_stubs()
    modflags = sync_go_sum()
    env["VERIF_REPO"] = REPO
    for pc in cfg.get("pre_cmds", []):
        rc, out, dt = run(["sh", "-c", pc], cwd=VERIF, env=env, timeout=1200)
        log.append({"step": "pre", "cmd": pc, "rc": rc, "s": round(dt, 1)})
        if rc != 0:
            problems.append({"kind": "extractor", "what": "pre-command failed: " + pc, "detail": out[-3000:]})

    # ---- 2/3. Lean build + audit --------------------------------------------------------
    checker_cmd = "cd /verif/lean && lake build " + " ".join(modules + ([driver] if driver else []))
    if not args.skip_lean:
        with Lock("lake-" + pid.lower()):
            targets = list(modules) + ([driver] if driver else [])
            rc, out, dt = run(["lake", "build"] + targets, cwd=LEAN_DIR, timeout=3000)
            log.append({"step": "lake build", "targets": targets, "rc": rc, "s": round(dt, 1)})
            if rc != 0:
                errs = [l for l in out.split("\n") if "error" in l.lower()][:20]
                problems.append({"kind": "lean-build", "what": "lake build failed (a theorem or tie lemma no longer checks)",
                                 "detail": "\n".join(errs) or out[-3000:]})
            else:
                rc, out, thms, stmts = lean_audit(pid, lean_cfg.get("props_modules", modules))
                if rc != 0:
                    problems.append({"kind": "lean-audit", "what": "axiom audit did not run", "detail": out[-2000:]})
                for name, ax in thms.items():
                    bad = [a for a in ax if a not in ALLOWED_AXIOMS]
                    if bad:
                        problems.append({"kind": "axioms", "what": "theorem %s depends on %s" % (name, bad)})
                want = lean_cfg.get("required_theorems", [])
                for w in want:
                    if w not in thms:
                        problems.append({"kind": "missing-theorem", "what": "required theorem %s not found in Props module" % w})
                if not thms:
                    problems.append({"kind": "missing-theorem", "what": "no theorems found in " + str(modules)})
            if args.tier == "thorough" and rc == 0 and lean_cfg.get("leanchecker", True):
                for m in lean_cfg.get("props_modules", modules):
                    rc2, out2, dt2 = run(["lake", "env", "leanchecker", m], cwd=LEAN_DIR, timeout=3000)
                    log.append({"step": "leanchecker", "module": m, "rc": rc2, "s": round(dt2, 1)})
                    if rc2 != 0:
                        problems.append({"kind": "leanchecker", "what": "leanchecker rejected " + m, "detail": out2[-2000:]})
        src_dirs = [os.path.join(LEAN_DIR, "JunoModel", d) for d in (pid, "Common", "Tie", "Generated")]
        hits = forbidden_tokens(src_dirs)
        for h in hits:
            problems.append({"kind": "forbidden-token", "what": h})

    # ---- 4. build harness ---------------------------------------------------------------
    hcfg = cfg.get("harness")
    result = None
    if hcfg:
        binpath = os.path.join(BUILD_DIR, "vh-" + pid.lower() + repo_tag())
        tags = "verif"
        if args.tier == "thorough" and hcfg.get("race_in_thorough"):
            pass  # race builds are opt-in via harness args
        with Lock("gobuild-" + pid.lower()):
            rc, out, dt = run(["go", "build"] + modflags + ["-tags", tags, "-o", binpath, hcfg["pkg"]],
                              cwd=HARNESS_DIR, env=env, timeout=3000)
        log.append({"step": "go build", "rc": rc, "s": round(dt, 1)})
        if rc != 0:
            problems.append({"kind": "harness-build", "what": "harness does not build against /repo's working tree "
                             "(an API the tie relies on changed)", "detail": out[-3000:]})
        else:
            outjson = os.path.join(BUILD_DIR, "result-%s-%d.json" % (pid.lower(), os.getpid()))
            if os.path.exists(outjson):
                os.remove(outjson)
            hargs = [binpath, "--seed", str(args.seed), "--tier", args.tier, "--out", outjson]
            if driver:
                hargs += ["--driver", os.path.join(LEAN_DIR, ".lake", "build", "bin", driver)]
            if args.replay:
                hargs += ["--replay", os.path.abspath(args.replay)]
            hargs += hcfg.get(args.tier + "_args", [])
            tmo = hcfg.get("timeout_s", {}).get(args.tier, 900 if args.tier == "quick" else 7200)
            rc, out, dt = run(hargs, cwd=VERIF, env=env, timeout=tmo)
            log.append({"step": "harness", "rc": rc, "s": round(dt, 1)})
            if os.path.exists(outjson):
                try:
                    result = json.load(open(outjson))
                except Exception as e:  # noqa
                    problems.append({"kind": "harness-output", "what": "unreadable harness result: %s" % e})
                os.remove(outjson)
            if result is None:
                problems.append({"kind": "harness-run", "what": "harness exited %d without a result" % rc,
                                 "detail": out[-4000:]})
            elif rc != 0:
                problems.append({"kind": "harness-run", "what": "harness exited %d" % rc, "detail": out[-4000:]})

    # ---- 6. decide ----------------------------------------------------------------------
    known = load_known(pid)
    exit_code = 0
    n_viol = 0
    lines = []
    seen_known = set()
    if result:
        # a check that lost its tie must not look green
        for ft in result.get("fatal", [])[:20]:
            problems.append({"kind": "harness-fatal", "what": "harness reports a failure of its own machinery: " + str(ft)[:300]})
        # a replay runs one recorded case: the floors of a full run do not apply (but "nothing ran" still does)
        min_cases = 1 if args.replay else int(hcfg.get("min_cases", 1))
        min_compared = 0 if args.replay else int(hcfg.get("min_compared", 1))
        if int(result.get("cases", 0)) < min_cases:
            problems.append({"kind": "harness-empty", "what": "harness evaluated %s cases (minimum %s): nothing was checked" % (
                result.get("cases", 0), min_cases), "detail": result.get("notes", [])[:10]})
        if driver and int(result.get("correspondence", {}).get("compared", 0)) < min_compared:
            problems.append({"kind": "harness-no-correspondence", "what": "no model-vs-implementation comparison was made "
                             "(Lean driver not started or died?)", "detail": result.get("notes", [])[:10]})
        for mm in result.get("correspondence", {}).get("mismatches", [])[:50]:
            problems.append({"kind": "correspondence", "what": "model and implementation differ: " + str(mm.get("sig", "")),
                             "detail": mm})
        for v in result.get("violations", []):
            sig = v.get("sig", "")
            k = next((k for k in known if k.get("sig") == sig), None)
            if k is not None:
                if sig not in seen_known:
                    seen_known.add(sig)
                    lines.append("KNOWN-FINDING: property=%s %s" % (pid, k.get("what", v.get("what", sig))))
                continue
            n_viol += 1
            if n_viol <= 5:
                path = write_replay(pid, sig or "violation", {"property": pid, "kind": "failing-input", "sig": sig,
                                                              "what": v.get("what"), "replay": v.get("replay"),
                                                              "seed": args.seed, "tier": args.tier})
                lines.append("VIOLATION property=%s replay=%s" % (pid, path))
            exit_code = 1
    if problems and exit_code == 0:
        # proof or tie broken and the search (the harness' property oracle, which always runs)
        # found no concrete failing input
        n_viol += 1
        path = write_replay(pid, "unproved", {"property": pid, "kind": "no-failing-input-found",
                                              "broken": problems, "seed": args.seed, "tier": args.tier})
        lines.append("VIOLATION property=%s replay=%s no-failing-input-found" % (pid, path))
        exit_code = 1

    # ---- evidence -----------------------------------------------------------------------
    res = result or {}
    obligations = len(thms)
    discharged = len([n for n, ax in thms.items() if all(a in ALLOWED_AXIOMS for a in ax)])
    if any(p["kind"] in ("lean-build", "lean-audit") for p in problems):
        discharged = 0
    coverage = {
        "obligations": obligations,
        "discharged": discharged,
        "checker_cmd": checker_cmd,
        "trusted_base": cfg.get("trusted_base", []),
        "theorems": [{"name": n, "axioms": thms[n], "statement": stmts.get(n, "")} for n in sorted(thms)],
        "evaluations": int(res.get("cases", 0)),
        "distinct_nontrivial": int(res.get("distinct_nontrivial", 0)),
        "rule": res.get("rule", cfg.get("rule", "")),
        "samples": res.get("samples", [])[:12] or [{"theorem": n, "statement": stmts.get(n, "")} for n in sorted(thms)[:5]],
        "correspondence_compared": int(res.get("correspondence", {}).get("compared", 0)),
        "correspondence_mismatches": len(res.get("correspondence", {}).get("mismatches", [])),
        "distribution": res.get("distribution", {}),
        "known_findings_seen": sorted(seen_known),
        "problems": [{k: (v if k != "detail" else str(v)[:1500]) for k, v in p.items()} for p in problems][:30],
        "steps": log,
        "notes": res.get("notes", []),
    }
    if res.get("exhaustive") is not None:
        coverage["exhaustive"] = bool(res.get("exhaustive"))
    for k, v in (res.get("extra") or {}).items():
        coverage.setdefault(k, v)
    for k in ("programs", "disagreements_checked", "states", "transitions", "traces_validated_against_impl", "explanation"):
        if k in res:
            coverage[k] = res[k]
    evidence = {
        "property_id": pid,
        "tier": args.tier,
        "seed": args.seed,
        "level": cfg.get("level", "proof"),
        "coverage": coverage,
        "assumptions": cfg.get("assumptions", []),
        "wall_s": round(time.time() - t0, 2),
        "violations": n_viol,
    }
    evdir = os.path.join(VERIF, "evidence")
    if REPO != "/repo" or args.skip_lean or args.replay:
        # developer / mutation runs never overwrite the committed evidence
        evdir = os.path.join(BUILD_DIR, "evidence" + repo_tag())
        os.makedirs(evdir, exist_ok=True)
    with open(os.path.join(evdir, pid + ".json"), "w") as f:
        json.dump(evidence, f, indent=1, default=str)
        f.write("\n")

    for l in lines:
        print(l)
    print("%s tier=%s seed=%d theorems=%d/%d cases=%d compared=%d problems=%d known=%d wall=%.1fs -> %s" % (
        pid, args.tier, args.seed, discharged, obligations, coverage["evaluations"], coverage["correspondence_compared"],
        len(problems), len(seen_known), time.time() - t0, "FAIL" if exit_code else "ok"))
    if problems:
        for p in problems[:10]:
            print("  problem[%s]: %s" % (p["kind"], p["what"]))
            if p.get("detail") and os.environ.get("VERIF_VERBOSE"):
                print("    " + str(p["detail"])[:2000].replace("\n", "\n    "))
    sys.stdout.flush()
    return exit_code


if __name__ == "__main__":
    sys.exit(main())
