#!/usr/bin/env python3
"""lib/regtie.py Cxx Module [text]: register a Tie module (JunoModel.Tie.<Module>) with property Cxx: lean.modules,
lean.props_modules, the pre-command that regenerates Generated/Arith.lean, the translator in trusted_base, and (optional)
a sentence appended to manifest.level_text. Idempotent."""
import json, sys
pid, mod = sys.argv[1].lower(), "JunoModel.Tie." + sys.argv[2]
txt = sys.argv[3] if len(sys.argv) > 3 else ""
p = f"/verif/checks/{pid}.json"; c = json.load(open(p))
for k in ("modules", "props_modules"):
    if mod not in c["lean"].setdefault(k, []): c["lean"][k].append(mod)
pre = 'cd gen && go run . "${VERIF_REPO:-/repo}" ../lean/JunoModel/Generated/Arith.lean'
if pre not in c.setdefault("pre_cmds", []): c["pre_cmds"].append(pre)
tb = c.setdefault("trusted_base", [])
if not any("verif/gen" in x for x in tb):
    tb.append("/verif/gen (the Go -> Lean translator of the regenerated functions / expressions; its output is Generated/Arith.lean, readable next to the source lines it names)")
m = c.setdefault("manifest", {})
if txt and sys.argv[2] not in m.get("level_text", ""):
    m["level_text"] = m.get("level_text", "").rstrip() + "; " + txt + " (Tie/" + sys.argv[2] + ".lean)"
if "regenerated" not in m.get("technique", ""):
    m["technique"] = m.get("technique", "") + " + definitions regenerated from the source by /verif/gen"
json.dump(c, open(p, "w"), indent=1)
print(pid, "registered", mod)
