module verif/harness

go 1.26.0

require github.com/NethermindEth/juno v0.0.0

replace github.com/NethermindEth/juno => /repo

replace github.com/starknet-io/starknet-p2p-specs => /repo/starknet-p2p-specs
