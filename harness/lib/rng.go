// Package lib holds what every property harness shares: the single PRNG every random choice
// derives from, the result file the check driver reads, the pipe to the Lean model driver.
package lib

// RNG is SplitMix64. Every random choice of a harness run derives from one RNG seeded with
// VERIF_SEED / --seed, so a disagreement replays exactly.
type RNG struct{ s uint64 }

func NewRNG(seed uint64) *RNG {
	// scramble the seed (murmur3 finaliser) so that adjacent seeds give unrelated streams; a plain
	// multiple of the SplitMix increment would make seed s+1 the stream of seed s shifted by one
	z := seed + 0x1234567
	z = (z ^ (z >> 33)) * 0xFF51AFD7ED558CCD
	z = (z ^ (z >> 33)) * 0xC4CEB9FE1A85EC53
	z ^= z >> 33
	return &RNG{s: z}
}

func (r *RNG) Uint64() uint64 {
	r.s += 0x9E3779B97F4A7C15
	z := r.s
	z = (z ^ (z >> 30)) * 0xBF58476D1CE4E5B9
	z = (z ^ (z >> 27)) * 0x94D049BB133111EB
	return z ^ (z >> 31)
}

// Intn returns a value in [0, n). n must be > 0.
func (r *RNG) Intn(n int) int { return int(r.Uint64() % uint64(n)) }

// Range returns a value in [lo, hi] inclusive.
func (r *RNG) Range(lo, hi int) int { return lo + r.Intn(hi-lo+1) }

func (r *RNG) Bool() bool { return r.Uint64()&1 == 1 }

// Chance is true with probability num/den.
func (r *RNG) Chance(num, den int) bool { return r.Intn(den) < num }

// Fork derives an independent stream (for per-case replay: case i uses Fork(i)).
func (r *RNG) Fork(i uint64) *RNG { return NewRNG(r.s ^ (i+1)*0xD6E8FEB86659FD93) }

func (r *RNG) Bytes(n int) []byte {
	b := make([]byte, n)
	for i := range b {
		b[i] = byte(r.Uint64())
	}
	return b
}

// Pick returns one of xs.
func Pick[T any](r *RNG, xs []T) T { return xs[r.Intn(len(xs))] }

// Shuffle permutes xs in place.
func Shuffle[T any](r *RNG, xs []T) {
	for i := len(xs) - 1; i > 0; i-- {
		j := r.Intn(i + 1)
		xs[i], xs[j] = xs[j], xs[i]
	}
}
