package lib

import (
	"fmt"
	"runtime/debug"
	"time"
)

// Try runs f and converts a panic into an error (panics in the code under test are findings,
// not harness crashes).
func Try(f func() error) (err error, panicked bool, stack string) {
	defer func() {
		if r := recover(); r != nil {
			err = fmt.Errorf("panic: %v", r)
			panicked = true
			stack = string(debug.Stack())
		}
	}()
	return f(), false, ""
}

// WithDeadline runs f in a goroutine and reports whether it finished in time (hang detection).
func WithDeadline(d time.Duration, f func()) bool {
	done := make(chan struct{})
	go func() { defer close(done); f() }()
	select {
	case <-done:
		return true
	case <-time.After(d):
		return false
	}
}
