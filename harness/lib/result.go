package lib

import (
	"encoding/json"
	"flag"
	"fmt"
	"os"
	"sort"
	"sync"
)

// Mismatch is one disagreement between the Lean model and the implementation.
type Mismatch struct {
	Sig   string `json:"sig"`
	Input any    `json:"input,omitempty"`
	Model any    `json:"model,omitempty"`
	Impl  any    `json:"impl,omitempty"`
}

// Violation is one concrete input / history on which the PROPERTY fails on the real code.
// Sig must be stable and specific: it is what known-findings.json matches on, so two different
// ways of breaking the property must never share a Sig.
type Violation struct {
	Sig    string `json:"sig"`
	What   string `json:"what"`
	Replay any    `json:"replay,omitempty"`
}

type Correspondence struct {
	Compared   int        `json:"compared"`
	Mismatches []Mismatch `json:"mismatches"`
}

// Result is what a harness writes to --out; lib/vcheck.py turns it into evidence and
// VIOLATION / KNOWN-FINDING lines.
type Result struct {
	mu                 sync.Mutex
	Cases              int            `json:"cases"`
	DistinctNontrivial int            `json:"distinct_nontrivial"`
	Rule               string         `json:"rule"`
	Distribution       map[string]int `json:"distribution"`
	Samples            []any          `json:"samples"`
	Correspondence     Correspondence `json:"correspondence"`
	Violations         []Violation    `json:"violations"`
	Notes              []string       `json:"notes"`
	// Fatal lists failures of the harness itself (Lean driver did not start or died, a phase
	// could not run, a probe failed, a child process crashed). The check driver turns each into
	// a problem, so the run cannot pass: a check that silently lost its tie must not look green.
	Fatal      []string `json:"fatal,omitempty"`
	Exhaustive *bool    `json:"exhaustive,omitempty"`
	// Extra keys are copied verbatim into the evidence coverage object (e.g. "programs",
	// "disagreements_checked" for translation validation, "states"/"transitions").
	Extra    map[string]any `json:"extra,omitempty"`
	distinct map[string]struct{}
	violSeen map[string]struct{}
}

func NewResult(rule string) *Result {
	return &Result{Rule: rule, Distribution: map[string]int{}, distinct: map[string]struct{}{},
		violSeen: map[string]struct{}{}, Correspondence: Correspondence{Mismatches: []Mismatch{}},
		Violations: []Violation{}, Samples: []any{}, Notes: []string{}}
}

// Case counts one evaluated case. key identifies it for the distinct count; nontrivial says
// whether it is non-trivial by the harness' stated rule.
func (r *Result) Case(key string, nontrivial bool) {
	r.mu.Lock()
	defer r.mu.Unlock()
	r.Cases++
	if nontrivial {
		if _, ok := r.distinct[key]; !ok {
			r.distinct[key] = struct{}{}
			r.DistinctNontrivial++
		}
	}
}

// Hit counts an event in the input-distribution histogram (branch taken, op kind, error kind...).
func (r *Result) Hit(name string) { r.HitN(name, 1) }

func (r *Result) HitN(name string, n int) {
	r.mu.Lock()
	r.Distribution[name] += n
	r.mu.Unlock()
}

// Sample keeps up to max example cases for the evidence file.
func (r *Result) Sample(max int, s any) {
	r.mu.Lock()
	if len(r.Samples) < max {
		r.Samples = append(r.Samples, s)
	}
	r.mu.Unlock()
}

func (r *Result) Compared(n int) { r.mu.Lock(); r.Correspondence.Compared += n; r.mu.Unlock() }

func (r *Result) Mismatch(m Mismatch) {
	r.mu.Lock()
	if len(r.Correspondence.Mismatches) < 50 {
		r.Correspondence.Mismatches = append(r.Correspondence.Mismatches, m)
	}
	r.mu.Unlock()
}

// Violate records a property violation; only the first one per Sig is kept (the smallest
// replay should be reported first by the caller).
func (r *Result) Violate(v Violation) {
	r.mu.Lock()
	defer r.mu.Unlock()
	if _, ok := r.violSeen[v.Sig]; ok {
		return
	}
	r.violSeen[v.Sig] = struct{}{}
	r.Violations = append(r.Violations, v)
}

// SetExtra records an extra coverage key for the evidence file.
func (r *Result) SetExtra(key string, v any) {
	r.mu.Lock()
	if r.Extra == nil {
		r.Extra = map[string]any{}
	}
	r.Extra[key] = v
	r.mu.Unlock()
}

// Fatalf records a failure of the harness machinery itself (never use Note for that).
func (r *Result) Fatalf(format string, a ...any) {
	r.mu.Lock()
	if len(r.Fatal) < 50 {
		r.Fatal = append(r.Fatal, fmt.Sprintf(format, a...))
	}
	r.mu.Unlock()
}

func (r *Result) Note(format string, a ...any) {
	r.mu.Lock()
	r.Notes = append(r.Notes, fmt.Sprintf(format, a...))
	r.mu.Unlock()
}

func (r *Result) Write(path string) error {
	r.mu.Lock()
	defer r.mu.Unlock()
	sort.Slice(r.Violations, func(i, j int) bool { return r.Violations[i].Sig < r.Violations[j].Sig })
	b, err := json.MarshalIndent(r, "", " ")
	if err != nil {
		return err
	}
	return os.WriteFile(path, b, 0o644)
}

// Flags are the common command line of every harness binary.
type Flags struct {
	Seed   uint64
	Tier   string
	Out    string
	Driver string
	Replay string
}

func ParseFlags() Flags {
	var f Flags
	flag.Uint64Var(&f.Seed, "seed", 1, "PRNG seed (VERIF_SEED)")
	flag.StringVar(&f.Tier, "tier", "quick", "quick|thorough")
	flag.StringVar(&f.Out, "out", "", "result JSON path")
	flag.StringVar(&f.Driver, "driver", "", "path of the Lean model driver executable")
	flag.StringVar(&f.Replay, "replay", "", "replay file written by an earlier run")
	flag.Parse()
	return f
}

func (f Flags) Thorough() bool { return f.Tier == "thorough" }

// Scale picks the quick or the thorough value.
func (f Flags) Scale(quick, thorough int) int {
	if f.Thorough() {
		return thorough
	}
	return quick
}

// Finish writes the result and exits 0 (the check driver decides about violations).
func Finish(f Flags, r *Result) {
	if f.Out == "" {
		b, _ := json.MarshalIndent(r, "", " ")
		fmt.Println(string(b))
		os.Exit(0)
	}
	if err := r.Write(f.Out); err != nil {
		fmt.Fprintln(os.Stderr, "cannot write result:", err)
		os.Exit(3)
	}
	os.Exit(0)
}
