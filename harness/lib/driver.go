package lib

import (
	"bufio"
	"fmt"
	"io"
	"os"
	"os/exec"
	"strconv"
	"strings"
	"time"
)

// askDeadline bounds one Ask/AskAll: a driver that neither answers nor exits within it is killed,
// so the pending read fails instead of hanging the harness (VERIF_DRIVER_TIMEOUT, seconds).
func askDeadline() time.Duration {
	if v, err := strconv.Atoi(os.Getenv("VERIF_DRIVER_TIMEOUT")); err == nil && v > 0 {
		return time.Duration(v) * time.Second
	}
	return 30 * time.Minute
}

func (d *Driver) watchdog() *time.Timer {
	return time.AfterFunc(askDeadline(), func() {
		fmt.Fprintln(os.Stderr, "driver: no answer within the deadline, killing it")
		_ = d.cmd.Process.Kill()
	})
}

// Driver is a running Lean model driver: one request line in, one response line out.
type Driver struct {
	cmd *exec.Cmd
	in  io.WriteCloser
	out *bufio.Reader
}

func StartDriver(path string, args ...string) (*Driver, error) {
	if path == "" {
		return nil, fmt.Errorf("no --driver given")
	}
	cmd := exec.Command(path, args...)
	cmd.Stderr = os.Stderr
	in, err := cmd.StdinPipe()
	if err != nil {
		return nil, err
	}
	out, err := cmd.StdoutPipe()
	if err != nil {
		return nil, err
	}
	if err := cmd.Start(); err != nil {
		return nil, err
	}
	return &Driver{cmd: cmd, in: in, out: bufio.NewReaderSize(out, 1<<20)}, nil
}

// Ask sends one line and reads one line back. Lines must not contain '\n'.
func (d *Driver) Ask(line string) (string, error) {
	if strings.ContainsRune(line, '\n') {
		return "", fmt.Errorf("driver line contains newline")
	}
	wd := d.watchdog()
	defer wd.Stop()
	if _, err := io.WriteString(d.in, line+"\n"); err != nil {
		return "", err
	}
	resp, err := d.out.ReadString('\n')
	if err != nil {
		return "", fmt.Errorf("driver closed: %w", err)
	}
	return strings.TrimRight(resp, "\r\n"), nil
}

// AskAll sends all lines first and then reads as many answers (faster for big scripts; the
// writer runs concurrently so the pipes cannot deadlock).
func (d *Driver) AskAll(lines []string) ([]string, error) {
	wd := d.watchdog()
	defer wd.Stop()
	errc := make(chan error, 1)
	go func() {
		w := bufio.NewWriterSize(d.in, 1<<20)
		for _, l := range lines {
			if _, err := w.WriteString(l + "\n"); err != nil {
				errc <- err
				return
			}
		}
		errc <- w.Flush()
	}()
	outs := make([]string, 0, len(lines))
	for range lines {
		resp, err := d.out.ReadString('\n')
		if err != nil {
			return outs, fmt.Errorf("driver closed after %d answers: %w", len(outs), err)
		}
		outs = append(outs, strings.TrimRight(resp, "\r\n"))
	}
	if err := <-errc; err != nil {
		return outs, err
	}
	return outs, nil
}

func (d *Driver) Close() {
	d.in.Close()
	_ = d.cmd.Wait()
}
