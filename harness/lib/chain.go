package lib

import (
	"fmt"
	"math/big"
	"reflect"
	"sort"

	"github.com/NethermindEth/juno/blockchain"
	"github.com/NethermindEth/juno/blockchain/networks"
	"github.com/NethermindEth/juno/core"
	"github.com/NethermindEth/juno/core/felt"
	"github.com/NethermindEth/juno/db"
	"github.com/NethermindEth/juno/db/memory"
	_ "github.com/NethermindEth/juno/encoder/registry" // CBOR type tags, as node does
	"github.com/NethermindEth/juno/l1/eth"
	"github.com/bits-and-blooms/bloom/v3"
)

// ---------------------------------------------------------------------------------------------
// Valid chains are manufactured by juno itself: a "source node" Blockchain on a memory DB runs
// Finalise (which computes state roots, commitments and the block hash for the header's protocol
// version). The bundles it produces pass SanityCheckNewHeight + Store on any other node.
// The generator keeps an abstract state (plain maps) next to the chain: it is what makes the
// generated diffs well-formed (deploy only once, replace only deployed contracts, ...) and it is
// the oracle for state reads (C03), reverts (C04) and everything built on them.
// ---------------------------------------------------------------------------------------------

// F makes a felt from a small integer.
func F(n uint64) *felt.Felt { return new(felt.Felt).SetUint64(n) }

// FHex makes a felt from a hex string (panics on malformed input; generator constants only).
func FHex(s string) *felt.Felt {
	f, err := new(felt.Felt).SetString(s)
	if err != nil {
		panic(err)
	}
	return f
}

// Bundle is everything a node needs to store one block.
type Bundle struct {
	Block   *core.Block
	SU      *core.StateUpdate
	Classes map[felt.Felt]core.ClassDefinition
}

// Clone deep-copies a bundle (so that tampering with or storing one copy cannot affect another).
func (b *Bundle) Clone() *Bundle {
	return DeepCopy(b).(*Bundle)
}

// AbsContract is the abstract state of one contract.
type AbsContract struct {
	Class      felt.Felt
	Nonce      felt.Felt
	Storage    map[felt.Felt]felt.Felt // zero values are never stored
	DeployedAt uint64
}

// AbsState is the abstract Starknet state after some block: the definition the property talks
// about (fold of the chain's state diffs).
type AbsState struct {
	Contracts map[felt.Felt]*AbsContract
	// system contracts 0x1 / 0x2 and any other address that received storage writes without
	// being deployed live in Contracts too, with a zero Class and Deployed=false
	Deployed map[felt.Felt]bool
	Classes  map[felt.Felt]uint64    // declared class hash -> block number of declaration
	Casm     map[felt.Felt]felt.Felt // sierra class hash -> compiled class hash currently valid
}

func NewAbsState() *AbsState {
	return &AbsState{Contracts: map[felt.Felt]*AbsContract{}, Deployed: map[felt.Felt]bool{},
		Classes: map[felt.Felt]uint64{}, Casm: map[felt.Felt]felt.Felt{}}
}

func (s *AbsState) Clone() *AbsState {
	n := NewAbsState()
	for a, c := range s.Contracts {
		cc := &AbsContract{Class: c.Class, Nonce: c.Nonce, DeployedAt: c.DeployedAt, Storage: map[felt.Felt]felt.Felt{}}
		for k, v := range c.Storage {
			cc.Storage[k] = v
		}
		n.Contracts[a] = cc
	}
	for a, d := range s.Deployed {
		n.Deployed[a] = d
	}
	for c, at := range s.Classes {
		n.Classes[c] = at
	}
	for c, h := range s.Casm {
		n.Casm[c] = h
	}
	return n
}

func (s *AbsState) contract(a felt.Felt) *AbsContract {
	c, ok := s.Contracts[a]
	if !ok {
		c = &AbsContract{Storage: map[felt.Felt]felt.Felt{}}
		s.Contracts[a] = c
	}
	return c
}

// Apply folds one state diff (declared classes included) into the abstract state.
func (s *AbsState) Apply(blockNumber uint64, d *core.StateDiff, classes map[felt.Felt]core.ClassDefinition) {
	for _, c := range d.DeclaredV0Classes {
		if _, ok := s.Classes[*c]; !ok {
			s.Classes[*c] = blockNumber
		}
	}
	for c, casm := range d.DeclaredV1Classes {
		if _, ok := s.Classes[c]; !ok {
			s.Classes[c] = blockNumber
		}
		s.Casm[c] = *casm
	}
	for c := range classes {
		if _, ok := s.Classes[c]; !ok {
			s.Classes[c] = blockNumber
		}
	}
	for c, casm := range d.MigratedClasses {
		s.Casm[felt.Felt(c)] = felt.Felt(casm)
	}
	for a, ch := range d.DeployedContracts {
		c := s.contract(a)
		c.Class = *ch
		c.DeployedAt = blockNumber
		s.Deployed[a] = true
	}
	for a, ch := range d.ReplacedClasses {
		s.contract(a).Class = *ch
	}
	for a, n := range d.Nonces {
		s.contract(a).Nonce = *n
	}
	for a, kv := range d.StorageDiffs {
		c := s.contract(a)
		for k, v := range kv {
			if v.IsZero() {
				delete(c.Storage, k)
			} else {
				c.Storage[k] = *v
			}
		}
	}
}

// ChainGen generates valid chains. One instance per chain; it owns the source node.
type ChainGen struct {
	R        *RNG
	Net      *networks.Network
	NewState bool // state backend of the source node (both produce identical chains)
	Src      *blockchain.Blockchain
	SrcDB    *memory.Database
	Bundles  []*Bundle   // Bundles[i] is block i of the current chain
	States   []*AbsState // States[i] is the abstract state after block i
	Opt      GenOptions
	sierra   []*sierraFixture
	txSeq    uint64
}

// GenOptions shapes the generated blocks.
type GenOptions struct {
	Versions   []string // protocol versions to draw from, kept non-decreasing along the chain
	MaxTxs     int      // transactions per block: 0..MaxTxs
	MaxEvents  int      // events per receipt: 0..MaxEvents
	NAddr      int      // size of the ordinary address universe
	NSlots     int      // size of the slot universe
	DiffSize   int      // max entries per diff section
	EmptyDiffs int      // percent of blocks with an empty state diff
	NoClasses  bool     // never declare classes
	// SystemDrain allows zero / same-value writes to the system contracts 0x1, 0x2. Off by
	// default: when such a write leaves a system contract with empty storage the two state
	// backends compute different roots (finding owned by C01), so a chain containing it cannot be
	// stored on the other backend than the one that produced it.
	SystemDrain bool
}

func DefaultGenOptions() GenOptions {
	return GenOptions{Versions: []string{"0.13.2", "0.13.4", "0.14.0", "0.14.1"}, MaxTxs: 4, MaxEvents: 3,
		NAddr: 6, NSlots: 5, DiffSize: 3, EmptyDiffs: 10}
}

type sierraFixture struct {
	hash  felt.Felt
	class *core.SierraClass
	casm1 felt.Felt // compiled class hash v1 (poseidon)
	casm2 felt.Felt // compiled class hash v2 (blake2s)
}

// TestNetwork is Sepolia's parameters (First07Block = 0, no unverifiable range).
func TestNetwork() *networks.Network {
	n := networks.Sepolia
	return &n
}

// NewNode opens a Blockchain on a fresh memory database.
func NewNode(net *networks.Network, newState bool, opts ...blockchain.Option) (*blockchain.Blockchain, *memory.Database) {
	d := memory.New()
	all := append([]blockchain.Option{blockchain.WithNewState(newState)}, opts...)
	return blockchain.New(d, net, all...), d
}

// NodeOn opens a Blockchain on an existing store (restart).
func NodeOn(d db.KeyValueStore, net *networks.Network, newState bool, opts ...blockchain.Option) *blockchain.Blockchain {
	all := append([]blockchain.Option{blockchain.WithNewState(newState)}, opts...)
	return blockchain.New(d, net, all...)
}

func NewChainGen(r *RNG, newState bool, opt GenOptions) *ChainGen {
	net := TestNetwork()
	src, d := NewNode(net, newState)
	g := &ChainGen{R: r, Net: net, NewState: newState, Src: src, SrcDB: d, Opt: opt}
	for i := 0; i < 4; i++ {
		g.sierra = append(g.sierra, makeSierra(uint64(i)))
	}
	return g
}

func makeSierra(i uint64) *sierraFixture {
	casm := &core.CasmClass{
		Bytecode:        []felt.Felt{*F(1 + i), *F(2), *F(3 + i), *F(4)},
		CompilerVersion: "2.1.0",
		Prime:           new(big.Int).SetUint64(1),
		External:        []core.CasmEntryPoint{{Offset: i, Builtins: []string{"range_check"}, Selector: F(77 + i)}},
		L1Handler:       []core.CasmEntryPoint{},
		Constructor:     []core.CasmEntryPoint{{Offset: 1, Builtins: []string{}, Selector: F(88)}},
	}
	if i%2 == 1 {
		casm.BytecodeSegmentLengths = core.SegmentLengths{Children: []core.SegmentLengths{{Length: 1}, {Length: 3}}}
	}
	cls := &core.SierraClass{
		Abi:     fmt.Sprintf("[abi %d]", i),
		AbiHash: F(1000 + i),
		EntryPoints: core.SierraEntryPointsByType{
			Constructor: []core.SierraEntryPoint{{Index: 0, Selector: F(88)}},
			External:    []core.SierraEntryPoint{{Index: 1, Selector: F(77 + i)}},
			L1Handler:   []core.SierraEntryPoint{},
		},
		Program:         []felt.Felt{*F(1), *F(6), *F(0), *F(i), *F(5)},
		ProgramHash:     F(2000 + i),
		SemanticVersion: "0.1.0",
		Compiled:        casm,
	}
	h, err := cls.Hash()
	if err != nil {
		panic(err)
	}
	return &sierraFixture{hash: h, class: cls, casm1: casm.Hash(core.HashVersionV1), casm2: casm.Hash(core.HashVersionV2)}
}

func cairo0Class(i uint64) *core.DeprecatedCairoClass {
	return &core.DeprecatedCairoClass{
		Abi:          []byte(fmt.Sprintf(`[{"n":%d}]`, i)),
		Externals:    []core.DeprecatedEntryPoint{{Selector: F(5 + i), Offset: F(1)}},
		L1Handlers:   []core.DeprecatedEntryPoint{},
		Constructors: []core.DeprecatedEntryPoint{},
		Program:      "H4sIAAAAAAAA/wEAAP//AAAAAAAAAAA=", // base64 of an empty gzip stream; never decoded by the node
	}
}

// Addr returns the i-th address of the universe: 0 and 1 are the system contracts 0x1 / 0x2,
// the rest are ordinary addresses, two of which share a 240-bit prefix.
func (g *ChainGen) Addr(i int) felt.Felt {
	switch {
	case i == 0:
		return *F(1)
	case i == 1:
		return *F(2)
	case i == 2:
		return *FHex("0x7ffffffffffffffffffffffffffffffffffffffffffffffffffffffffff0001")
	case i == 3:
		return *FHex("0x7ffffffffffffffffffffffffffffffffffffffffffffffffffffffffff0002")
	default:
		return *F(0x100 + uint64(i))
	}
}

func (g *ChainGen) NAddrs() int { return g.Opt.NAddr + 2 }

func (g *ChainGen) Slot(i int) felt.Felt {
	switch i {
	case 0:
		return *F(0)
	case 1:
		return *FHex("0x3ffffffffffffffffffffffffffffffffffffffffffffffffffffffffffffff")
	default:
		return *F(uint64(i))
	}
}

// ClassHash returns the i-th class hash usable in deploy/replace (need not be declared).
func (g *ChainGen) ClassHash(i int) felt.Felt { return *F(0xC000 + uint64(i)) }

func (g *ChainGen) Height() int { return len(g.Bundles) }

func (g *ChainGen) Head() *Bundle {
	if len(g.Bundles) == 0 {
		return nil
	}
	return g.Bundles[len(g.Bundles)-1]
}

func (g *ChainGen) HeadState() *AbsState {
	if len(g.States) == 0 {
		return NewAbsState()
	}
	return g.States[len(g.States)-1]
}

func (g *ChainGen) pickVersion() string {
	vs := g.Opt.Versions
	if h := g.Head(); h != nil {
		// non-decreasing along the chain
		cur := h.Block.ProtocolVersion
		idx := 0
		for i, v := range vs {
			if v == cur {
				idx = i
			}
		}
		if g.R.Chance(1, 4) && idx+1 < len(vs) {
			idx += 1 + g.R.Intn(len(vs)-idx-1)
		}
		return vs[idx]
	}
	return vs[g.R.Intn(len(vs))]
}

// GenDiff draws a well-formed state diff on top of abstract state s.
func (g *ChainGen) GenDiff(s *AbsState, blockNumber uint64, version string) (*core.StateDiff, map[felt.Felt]core.ClassDefinition) {
	r := g.R
	d := &core.StateDiff{
		StorageDiffs:      map[felt.Felt]map[felt.Felt]*felt.Felt{},
		Nonces:            map[felt.Felt]*felt.Felt{},
		DeployedContracts: map[felt.Felt]*felt.Felt{},
		DeclaredV0Classes: []*felt.Felt{},
		DeclaredV1Classes: map[felt.Felt]*felt.Felt{},
		ReplacedClasses:   map[felt.Felt]*felt.Felt{},
		MigratedClasses:   map[felt.SierraClassHash]felt.CasmClassHash{},
	}
	classes := map[felt.Felt]core.ClassDefinition{}
	if r.Chance(g.Opt.EmptyDiffs, 100) {
		return d, classes
	}
	n := g.Opt.DiffSize
	deployedNow := map[felt.Felt]bool{}
	// deploys (ordinary addresses only)
	for i := r.Intn(n + 1); i > 0; i-- {
		a := g.Addr(2 + r.Intn(g.Opt.NAddr))
		if s.Deployed[a] || deployedNow[a] {
			continue
		}
		ch := g.ClassHash(r.Intn(3))
		d.DeployedContracts[a] = &ch
		deployedNow[a] = true
	}
	var deployed []felt.Felt
	for a := range s.Deployed {
		deployed = append(deployed, a)
	}
	for a := range deployedNow {
		deployed = append(deployed, a)
	}
	sort.Slice(deployed, func(i, j int) bool { return deployed[i].Cmp(&deployed[j]) < 0 })
	if len(deployed) > 0 {
		// replace class (only contracts deployed in an earlier block)
		for i := r.Intn(2); i > 0; i-- {
			a := Pick(r, deployed)
			if deployedNow[a] {
				continue
			}
			ch := g.ClassHash(r.Intn(4))
			d.ReplacedClasses[a] = &ch
		}
		// nonces
		for i := r.Intn(n + 1); i > 0; i-- {
			a := Pick(r, deployed)
			cur := felt.Zero
			if c, ok := s.Contracts[a]; ok {
				cur = c.Nonce
			}
			nn := new(felt.Felt).Add(&cur, F(uint64(1+r.Intn(2))))
			d.Nonces[a] = nn
		}
	}
	// storage writes: deployed contracts and the system contracts 0x1/0x2 (never deployed)
	targets := append([]felt.Felt{}, deployed...)
	if r.Chance(1, 3) {
		targets = append(targets, g.Addr(r.Intn(2)))
	}
	if len(targets) > 0 {
		for i := r.Intn(n + 2); i > 0; i-- {
			a := Pick(r, targets)
			k := g.Slot(r.Intn(g.Opt.NSlots))
			var v *felt.Felt
			choice := r.Intn(6)
			if !g.Opt.SystemDrain && (a == g.Addr(0) || a == g.Addr(1)) {
				choice = 2 + r.Intn(4) // non-zero values only
			}
			switch choice {
			case 0:
				v = F(0) // write zero (delete, or no-op on a never-written slot)
			case 1:
				// rewrite the current value
				cv := felt.Zero
				if c, ok := s.Contracts[a]; ok {
					cv = c.Storage[k]
				}
				v = &cv
			default:
				v = F(uint64(1 + r.Intn(5)))
			}
			if d.StorageDiffs[a] == nil {
				d.StorageDiffs[a] = map[felt.Felt]*felt.Felt{}
			}
			d.StorageDiffs[a][k] = v
		}
	}
	if !g.Opt.NoClasses {
		// declarations
		if r.Chance(1, 4) {
			h := *F(0xD000 + uint64(r.Intn(4)))
			if _, ok := s.Classes[h]; !ok {
				d.DeclaredV0Classes = append(d.DeclaredV0Classes, &h)
				classes[h] = cairo0Class(h.Uint64())
			}
		}
		v2 := version >= "0.14.1"
		if r.Chance(1, 4) {
			fx := Pick(r, g.sierra)
			if _, ok := s.Classes[fx.hash]; !ok {
				casm := fx.casm1
				if v2 {
					casm = fx.casm2
				}
				d.DeclaredV1Classes[fx.hash] = &casm
				classes[fx.hash] = fx.class
			}
		}
		if v2 && r.Chance(1, 3) {
			// migrate a class declared (with the v1 hash) in an earlier block
			for _, fx := range g.sierra {
				if cur, ok := s.Casm[fx.hash]; ok && cur.Equal(&fx.casm1) {
					if _, now := d.DeclaredV1Classes[fx.hash]; !now {
						d.MigratedClasses[felt.SierraClassHash(fx.hash)] = felt.CasmClassHash(fx.casm2)
						break
					}
				}
			}
		}
	}
	return d, classes
}

func (g *ChainGen) feltList(n int) []felt.Felt {
	out := make([]felt.Felt, n)
	for i := range out {
		out[i] = *F(uint64(g.R.Intn(7)))
	}
	return out
}

func (g *ChainGen) resourceBounds(withData bool) map[core.Resource]core.ResourceBounds {
	rb := map[core.Resource]core.ResourceBounds{
		core.ResourceL1Gas: {MaxAmount: uint64(g.R.Intn(1000)), MaxPricePerUnit: F(uint64(g.R.Intn(1000)))},
		core.ResourceL2Gas: {MaxAmount: uint64(g.R.Intn(1000)), MaxPricePerUnit: F(uint64(g.R.Intn(1000)))},
	}
	if withData {
		rb[core.ResourceL1DataGas] = core.ResourceBounds{MaxAmount: uint64(g.R.Intn(1000)), MaxPricePerUnit: F(uint64(g.R.Intn(1000)))}
	}
	return rb
}

func txVersion(v uint64) *core.TransactionVersion { return new(core.TransactionVersion).SetUint64(v) }

// GenTx draws one transaction of any kind/version with its hash computed by juno.
func (g *ChainGen) GenTx(version string) core.Transaction {
	r := g.R
	g.txSeq++
	seq := g.txSeq
	addr := func() *felt.Felt { a := g.Addr(r.Intn(g.NAddrs())); return &a }
	withData := version >= "0.13.4"
	var tx core.Transaction
	kind := r.Intn(12)
	switch kind {
	case 0:
		tx = &core.InvokeTransaction{Version: txVersion(0), ContractAddress: addr(), EntryPointSelector: F(seq),
			CallData: g.feltList(r.Intn(4)), MaxFee: F(uint64(r.Intn(100))), TransactionSignature: g.feltList(r.Intn(3))}
	case 1:
		tx = &core.InvokeTransaction{Version: txVersion(1), SenderAddress: addr(), ContractAddress: addr(), Nonce: F(seq),
			CallData: g.feltList(r.Intn(4)), MaxFee: F(uint64(r.Intn(100))), TransactionSignature: g.feltList(r.Intn(3))}
	case 2, 3, 4:
		t := &core.InvokeTransaction{Version: txVersion(3), SenderAddress: addr(), Nonce: F(seq),
			CallData: g.feltList(r.Intn(4)), TransactionSignature: g.feltList(r.Intn(3)),
			ResourceBounds: g.resourceBounds(withData), Tip: uint64(r.Intn(5)), PaymasterData: g.feltList(r.Intn(2)),
			AccountDeploymentData: g.feltList(r.Intn(2)), NonceDAMode: core.DataAvailabilityMode(r.Intn(2)),
			FeeDAMode: core.DataAvailabilityMode(r.Intn(2))}
		if version >= "0.14.1" && r.Chance(1, 3) {
			t.ProofFacts = g.feltList(1 + r.Intn(2))
		}
		tx = t
	case 5:
		tx = &core.DeclareTransaction{Version: txVersion(1), ClassHash: F(0xD000 + seq), SenderAddress: addr(),
			MaxFee: F(uint64(r.Intn(100))), Nonce: F(seq), TransactionSignature: g.feltList(r.Intn(3))}
	case 6:
		tx = &core.DeclareTransaction{Version: txVersion(2), ClassHash: F(0xD000 + seq), SenderAddress: addr(),
			MaxFee: F(uint64(r.Intn(100))), Nonce: F(seq), CompiledClassHash: F(0xE000 + seq), TransactionSignature: g.feltList(r.Intn(3))}
	case 7:
		tx = &core.DeclareTransaction{Version: txVersion(3), ClassHash: F(0xD000 + seq), SenderAddress: addr(), Nonce: F(seq),
			CompiledClassHash: F(0xE000 + seq), TransactionSignature: g.feltList(r.Intn(3)),
			ResourceBounds: g.resourceBounds(withData), Tip: uint64(r.Intn(5)), PaymasterData: g.feltList(r.Intn(2)),
			AccountDeploymentData: g.feltList(r.Intn(2)), NonceDAMode: core.DataAvailabilityMode(r.Intn(2)),
			FeeDAMode: core.DataAvailabilityMode(r.Intn(2))}
	case 8:
		tx = &core.DeployAccountTransaction{
			DeployTransaction: core.DeployTransaction{Version: txVersion(1), ContractAddressSalt: F(seq), ContractAddress: addr(),
				ClassHash: F(0xC000), ConstructorCallData: g.feltList(r.Intn(3))},
			MaxFee: F(uint64(r.Intn(100))), Nonce: F(0), TransactionSignature: g.feltList(r.Intn(3))}
	case 9:
		tx = &core.DeployAccountTransaction{
			DeployTransaction: core.DeployTransaction{Version: txVersion(3), ContractAddressSalt: F(seq), ContractAddress: addr(),
				ClassHash: F(0xC000), ConstructorCallData: g.feltList(r.Intn(3))},
			Nonce: F(0), TransactionSignature: g.feltList(r.Intn(3)), ResourceBounds: g.resourceBounds(withData),
			Tip: uint64(r.Intn(5)), PaymasterData: g.feltList(r.Intn(2)),
			NonceDAMode: core.DataAvailabilityMode(r.Intn(2)), FeeDAMode: core.DataAvailabilityMode(r.Intn(2))}
	case 10:
		tx = &core.L1HandlerTransaction{Version: txVersion(0), ContractAddress: addr(), EntryPointSelector: F(seq), Nonce: F(seq),
			CallData: append([]felt.Felt{*F(0xabc)}, g.feltList(r.Intn(3))...)}
	default:
		// legacy deploy: hash is taken as given by the node
		tx = &core.DeployTransaction{Version: txVersion(0), TransactionHash: F(0xDE000000 + seq), ContractAddressSalt: F(seq),
			ContractAddress: addr(), ClassHash: F(0xC001), ConstructorCallData: g.feltList(r.Intn(3))}
	}
	h, err := core.TransactionHash(tx, g.Net)
	if err != nil {
		panic(fmt.Sprintf("generator: tx hash: %v", err))
	}
	switch t := tx.(type) {
	case *core.InvokeTransaction:
		t.TransactionHash = &h
	case *core.DeclareTransaction:
		t.TransactionHash = &h
	case *core.DeployAccountTransaction:
		t.TransactionHash = &h
	case *core.L1HandlerTransaction:
		t.TransactionHash = &h
	}
	return tx
}

// EventKey returns the i-th event key of the small key universe.
func EventKey(i int) felt.Felt { return *F(0x50 + uint64(i)) }

// GenReceipt draws a receipt for tx.
func (g *ChainGen) GenReceipt(tx core.Transaction) *core.TransactionReceipt {
	r := g.R
	rc := &core.TransactionReceipt{
		Fee:             F(uint64(r.Intn(1000))),
		FeeUnit:         core.FeeUnit(r.Intn(2)),
		Events:          []*core.Event{},
		L2ToL1Message:   []*core.L2ToL1Message{},
		TransactionHash: tx.Hash(),
		ExecutionResources: &core.ExecutionResources{
			BuiltinInstanceCounter: core.BuiltinInstanceCounter{Pedersen: uint64(r.Intn(5)), RangeCheck: uint64(r.Intn(5)), Poseidon: uint64(r.Intn(3))},
			MemoryHoles:            uint64(r.Intn(10)),
			Steps:                  uint64(r.Intn(1000)),
			DataAvailability:       &core.DataAvailability{L1Gas: uint64(r.Intn(10)), L1DataGas: uint64(r.Intn(10))},
			TotalGasConsumed:       &core.GasConsumed{L1Gas: uint64(r.Intn(100)), L1DataGas: uint64(r.Intn(100)), L2Gas: uint64(r.Intn(100))},
		},
	}
	if r.Chance(1, 5) {
		rc.Reverted = true
		rc.RevertReason = fmt.Sprintf("reverted: reason %d", r.Intn(3))
	}
	for i := r.Intn(g.Opt.MaxEvents + 1); i > 0; i-- {
		from := g.Addr(r.Intn(g.NAddrs()))
		nk := r.Intn(4)
		keys := make([]felt.Felt, nk)
		for j := range keys {
			keys[j] = EventKey(r.Intn(3))
		}
		rc.Events = append(rc.Events, &core.Event{From: &from, Keys: keys, Data: g.feltList(r.Intn(3))})
	}
	for i := r.Intn(3); i > 1; i-- {
		from := g.Addr(r.Intn(g.NAddrs()))
		rc.L2ToL1Message = append(rc.L2ToL1Message, &core.L2ToL1Message{From: &from, Payload: g.feltList(r.Intn(3)),
			To: eth.AddressFromBytes([]byte{0x10, byte(r.Intn(4))})})
	}
	if l1, ok := tx.(*core.L1HandlerTransaction); ok {
		rc.L1ToL2Message = &core.L1ToL2Message{From: eth.AddressFromBytes([]byte{0x0a, 0xbc}), Nonce: l1.Nonce,
			Payload: l1.CallData[1:], Selector: l1.EntryPointSelector, To: l1.ContractAddress}
	}
	return rc
}

// BlockSpec overrides parts of the next block (nil / zero = generate).
type BlockSpec struct {
	Version string
	Diff    *core.StateDiff
	Classes map[felt.Felt]core.ClassDefinition
	Txs     []core.Transaction
	Rcs     []*core.TransactionReceipt
	NoTxs   bool
}

// Next generates the next block on top of the current chain, finalises it on the source node
// and returns the bundle (also appended to g.Bundles / g.States).
func (g *ChainGen) Next(spec *BlockSpec) (*Bundle, error) {
	if spec == nil {
		spec = &BlockSpec{}
	}
	r := g.R
	num := uint64(len(g.Bundles))
	parent := &felt.Zero
	oldRoot := &felt.Zero
	ts := uint64(1_700_000_000)
	if h := g.Head(); h != nil {
		parent = h.Block.Hash
		oldRoot = h.Block.GlobalStateRoot
		ts = h.Block.Timestamp + uint64(1+r.Intn(30))
	}
	version := spec.Version
	if version == "" {
		version = g.pickVersion()
	}
	prev := g.HeadState()
	diff, classes := spec.Diff, spec.Classes
	if diff == nil {
		diff, classes = g.GenDiff(prev, num, version)
	}
	if classes == nil {
		classes = map[felt.Felt]core.ClassDefinition{}
	}
	txs, rcs := spec.Txs, spec.Rcs
	if txs == nil && !spec.NoTxs {
		for i := r.Intn(g.Opt.MaxTxs + 1); i > 0; i-- {
			tx := g.GenTx(version)
			txs = append(txs, tx)
			rcs = append(rcs, g.GenReceipt(tx))
		}
	}
	if txs == nil {
		txs, rcs = []core.Transaction{}, []*core.TransactionReceipt{}
	}
	var events uint64
	for _, rc := range rcs {
		events += uint64(len(rc.Events))
	}
	seq := F(0x5e9 + uint64(r.Intn(2)))
	hdr := &core.Header{
		ParentHash:       parent,
		Number:           num,
		SequencerAddress: seq,
		TransactionCount: uint64(len(txs)),
		EventCount:       events,
		Timestamp:        ts,
		ProtocolVersion:  version,
		EventsBloom:      core.EventsBloom(rcs),
		L1GasPriceETH:    F(uint64(1 + r.Intn(100))),
		L1GasPriceSTRK:   F(uint64(1 + r.Intn(100))),
		L1DAMode:         core.L1DAMode(r.Intn(2)),
		L1DataGasPrice:   &core.GasPrice{PriceInWei: F(uint64(1 + r.Intn(100))), PriceInFri: F(uint64(1 + r.Intn(100)))},
		L2GasPrice:       &core.GasPrice{PriceInWei: F(uint64(1 + r.Intn(100))), PriceInFri: F(uint64(1 + r.Intn(100)))},
		Signatures:       [][]*felt.Felt{},
	}
	b := &Bundle{
		Block:   &core.Block{Header: hdr, Transactions: txs, Receipts: rcs},
		SU:      &core.StateUpdate{OldRoot: oldRoot, StateDiff: diff},
		Classes: classes,
	}
	// Finalise mutates block and state update in place (root, hash); give it a private copy of
	// everything else so later reads of the bundle are independent of the source node.
	fin := b.Clone()
	if err := g.Src.Finalise(fin.Block, fin.SU, fin.Classes, nil); err != nil {
		return nil, fmt.Errorf("source Finalise of block %d: %w", num, err)
	}
	out := fin.Clone()
	g.Bundles = append(g.Bundles, out)
	st := prev.Clone()
	st.Apply(num, diff, classes)
	g.States = append(g.States, st)
	return out, nil
}

// Revert drops the head block from the generator's chain and the source node.
func (g *ChainGen) Revert() error {
	if len(g.Bundles) == 0 {
		return fmt.Errorf("generator: empty chain")
	}
	if err := g.Src.RevertHead(); err != nil {
		return fmt.Errorf("source RevertHead: %w", err)
	}
	g.Bundles = g.Bundles[:len(g.Bundles)-1]
	g.States = g.States[:len(g.States)-1]
	return nil
}

// StoreOn offers a bundle to a node the way sync does: SanityCheckNewHeight, then Store.
func StoreOn(bc *blockchain.Blockchain, b *Bundle) error {
	c := b.Clone()
	commitments, err := bc.SanityCheckNewHeight(c.Block, c.SU, c.Classes)
	if err != nil {
		return fmt.Errorf("sanity: %w", err)
	}
	if err := bc.Store(c.Block, commitments, c.SU, c.Classes); err != nil {
		return fmt.Errorf("store: %w", err)
	}
	return nil
}

// ---------------------------------------------------------------------------------------------
// Deep copy by reflection. Types with unexported fields (bloom filter, big.Int) are handled by
// their own copy methods.
// ---------------------------------------------------------------------------------------------

var (
	bloomPtrType = reflect.TypeOf((*bloom.BloomFilter)(nil))
	bigPtrType   = reflect.TypeOf((*big.Int)(nil))
)

func DeepCopy(v any) any {
	if v == nil {
		return nil
	}
	return deepCopyValue(reflect.ValueOf(v)).Interface()
}

func deepCopyValue(v reflect.Value) reflect.Value {
	switch v.Kind() {
	case reflect.Ptr:
		if v.IsNil() {
			return v
		}
		if v.Type() == bloomPtrType {
			return reflect.ValueOf(v.Interface().(*bloom.BloomFilter).Copy())
		}
		if v.Type() == bigPtrType {
			return reflect.ValueOf(new(big.Int).Set(v.Interface().(*big.Int)))
		}
		n := reflect.New(v.Type().Elem())
		n.Elem().Set(deepCopyValue(v.Elem()))
		return n
	case reflect.Interface:
		if v.IsNil() {
			return v
		}
		n := reflect.New(v.Type()).Elem()
		n.Set(deepCopyValue(v.Elem()))
		return n
	case reflect.Slice:
		if v.IsNil() {
			return v
		}
		n := reflect.MakeSlice(v.Type(), v.Len(), v.Len())
		for i := 0; i < v.Len(); i++ {
			n.Index(i).Set(deepCopyValue(v.Index(i)))
		}
		return n
	case reflect.Array:
		n := reflect.New(v.Type()).Elem()
		for i := 0; i < v.Len(); i++ {
			n.Index(i).Set(deepCopyValue(v.Index(i)))
		}
		return n
	case reflect.Map:
		if v.IsNil() {
			return v
		}
		n := reflect.MakeMapWithSize(v.Type(), v.Len())
		it := v.MapRange()
		for it.Next() {
			n.SetMapIndex(deepCopyValue(it.Key()), deepCopyValue(it.Value()))
		}
		return n
	case reflect.Struct:
		n := reflect.New(v.Type()).Elem()
		n.Set(v) // shallow first: keeps unexported fields
		for i := 0; i < v.NumField(); i++ {
			if v.Type().Field(i).IsExported() {
				n.Field(i).Set(deepCopyValue(v.Field(i)))
			}
		}
		return n
	default:
		return v
	}
}
