//go:build verif

package main

import (
	"fmt"
	"math/big"

	"github.com/NethermindEth/juno/core"
	"github.com/NethermindEth/juno/core/felt"
	"github.com/NethermindEth/juno/encoder"
	_ "github.com/NethermindEth/juno/encoder/registry"
	"verif/harness/lib"
)

func show(name string, v any) []byte {
	b, err := encoder.Marshal(v)
	fmt.Printf("%s: err=%v %x\n", name, err, b)
	return b
}

func main() {
	show("uint0", uint64(0))
	show("felt1", lib.F(1))
	show("nilfelt", (*felt.Felt)(nil))
	show("emptyslice", []felt.Felt{})
	show("nilslice", []felt.Felt(nil))
	show("feltslice", felt.Slice[felt.Felt]{*lib.F(1)})
	show("nilFeltSlice", felt.Slice[felt.Felt](nil))
	show("emptyFeltSlice", felt.Slice[felt.Felt]{})
	show("bigint1", big.NewInt(1))
	p, _ := new(big.Int).SetString("800000000000011000000000000000000000000000000000000000000000001", 16)
	show("bigintP", p)
	show("nilbig", (*big.Int)(nil))
	var tx core.Transaction = &core.InvokeTransaction{TransactionHash: lib.F(5), Version: new(core.TransactionVersion).SetUint64(3), ProofFacts: []felt.Felt{}}
	b := show("invoke", tx)
	var tx2 core.Transaction
	fmt.Println(encoder.Unmarshal(b, &tx2))
	fmt.Printf("%#v\n", tx2)
	h := &core.Header{Hash: lib.F(1), Signatures: [][]*felt.Felt{{lib.F(1), nil}, nil, {}}}
	hb := show("header", h)
	var h2 *core.Header
	fmt.Println(encoder.Unmarshal(hb, &h2))
	fmt.Printf("%#v\n", h2)
	su := &core.StateUpdate{StateDiff: &core.StateDiff{StorageDiffs: map[felt.Felt]map[felt.Felt]*felt.Felt{*lib.F(1): {*lib.F(2): lib.F(3), *lib.F(0): nil}, *lib.F(0): nil}, Nonces: map[felt.Felt]*felt.Felt{}}}
	sb := show("su", su)
	var su2 *core.StateUpdate
	fmt.Println(encoder.Unmarshal(sb, &su2))
	fmt.Printf("%#v\n", su2.StateDiff)
	rc := &core.TransactionReceipt{RevertReason: "x\xffy", Events: []*core.Event{nil, {}}}
	rb := show("rc", rc)
	var rc2 *core.TransactionReceipt
	fmt.Println(encoder.Unmarshal(rb, &rc2))
	fmt.Printf("%#v\n", rc2)
	bt, err := core.NewBlockTransactions([]core.Transaction{tx}, []*core.TransactionReceipt{rc})
	fmt.Println(err, bt.Indexes)
	bb, err := core.BlockTransactionsSerializer{}.Marshal(&bt)
	fmt.Printf("%v %x\n", err, bb)
	bt0, _ := core.NewBlockTransactions(nil, nil)
	bb0, _ := core.BlockTransactionsSerializer{}.Marshal(&bt0)
	fmt.Printf("empty %x\n", bb0)
	dc := &core.DeclaredClassDefinition{At: 7, Class: &core.DeprecatedCairoClass{Abi: []byte(`[]`), Program: "x"}}
	show("declclass", dc)
	var cd core.ClassDefinition = &core.DeprecatedCairoClass{Abi: []byte(`[]`), Program: "x"}
	show("classdef", cd)
	show("rawnil", &core.DeprecatedCairoClass{})
}
