//go:build verif

package main

import (
	"errors"
	"sync"
	"sync/atomic"
	"time"

	"github.com/NethermindEth/juno/db"
	"github.com/NethermindEth/juno/db/memory"
)

// faultStore wraps juno's in-memory key/value store and numbers every *commit* (a batch Write, or
// a direct Put / Delete / DeleteRange on the store: each of them is atomic and durable on its own
// in every backend). After every commit the hook is called with the commit number while the
// committing goroutine still holds the commit slot, so the hook can
//   - take an image (memory.Database.Copy()): the on-disk state a process that dies right after
//     this commit would leave behind,
//   - cancel a context (cancellation observed right after the k-th commit),
//   - switch the store to "dead": every later write fails (fail-stop crash).
//
// inflate > 0 makes batches report Size() >= inflate as soon as they hold anything; the migrations
// flush a batch when Size() reaches 96 MB, which is unreachable with small fixtures, so this is how
// the "one ingestor flushed, the others did not" histories are produced at small scale.
type faultStore struct {
	*memory.Database
	mu      sync.Mutex
	commits int
	dead    bool
	inflate int
	// write-failure injection: the failAt-th commit ATTEMPT returns an error and writes nothing
	// (failAll: so does every later one). A failed attempt is not a commit.
	attempts int
	failAt   int
	failAll  bool
	failed   int
	// pre (if set) is asked before every commit attempt; true = this attempt fails
	pre func() bool
	// onFail (if set) is called (commit lock held) whenever an attempt fails
	onFail func()
	hook   func(n int, s *faultStore)
	// commit kinds for the histogram
	kinds map[string]int
	// reads counts Get calls; readHook (if set) is called with the running number, outside any lock
	reads        atomic.Int64
	lastActivity atomic.Int64
	// read-fault injection: the getFailAt-th Get (iterFailAt-th NewIterator) returns an error
	// (…All: so does every later one); Has calls count as Gets
	getFailAt, iterFailAt   int64
	getFailAll, iterFailAll bool
	iters                   atomic.Int64
	readsFailed             atomic.Int64
	onReadFail              func()
	readHook                func(n int64)
	// getFailKey (if set) is asked for every Get / Has with the key; true = this read fails
	getFailKey func(key []byte) bool
	// onReadFailKey (if set) is told the key of every Get / Has that an injected fault made fail
	onReadFailKey func(key []byte)
}

// touch records store activity (used to tell a hung migration from a slow one).
func (s *faultStore) touch() { s.lastActivity.Store(time.Now().UnixNano()) }

var errInjectedRead = errors.New("verif: injected read failure (I/O error)")

func (s *faultStore) readFault(n, at int64, all bool) bool {
	if at > 0 && (n == at || (all && n > at)) {
		s.readsFailed.Add(1)
		if s.onReadFail != nil {
			s.onReadFail()
		}
		return true
	}
	return false
}

// keyFault: the key-selected read fault (counts like a positional one).
func (s *faultStore) keyFault(key []byte) bool {
	if s.getFailKey == nil || !s.getFailKey(key) {
		return false
	}
	s.readsFailed.Add(1)
	if s.onReadFail != nil {
		s.onReadFail()
	}
	return true
}

func (s *faultStore) Has(key []byte) (bool, error) {
	s.touch()
	if s.readFault(s.reads.Add(1), s.getFailAt, s.getFailAll) || s.keyFault(key) {
		if s.onReadFailKey != nil {
			s.onReadFailKey(key)
		}
		return false, errInjectedRead
	}
	return s.Database.Has(key)
}

func (s *faultStore) NewIterator(prefix []byte, withUpperBound bool) (db.Iterator, error) {
	s.touch()
	if s.readFault(s.iters.Add(1), s.iterFailAt, s.iterFailAll) {
		return nil, errInjectedRead
	}
	return s.Database.NewIterator(prefix, withUpperBound)
}

// runWatched runs f and waits for it. It reports false ("hung") when f has not returned and the
// store has seen no read, iterator or commit attempt for `quiet` (goroutines parked for good), or
// after `max` in any case. A slow machine keeps touching the store, so it is not taken for a hang.
func (s *faultStore) runWatched(quiet, max time.Duration, f func()) bool {
	done := make(chan struct{})
	s.touch()
	go func() { defer close(done); f() }()
	// The quiet period is counted in ticks the watchdog itself got (at most 25 ms of idle time per tick, and none for
	// a tick that came late): on a starved machine (load average in the hundreds) the watchdog is delayed like the
	// goroutines it watches, so the quiet period stretches instead of expiring while nothing could run.
	const period = 25 * time.Millisecond
	start := time.Now()
	tick := time.NewTicker(period)
	defer tick.Stop()
	var idle time.Duration
	lastSeen := s.lastActivity.Load()
	lastTick := time.Now()
	for {
		select {
		case <-done:
			return true
		case <-tick.C:
			now := time.Now()
			late := now.Sub(lastTick) > 3*period
			lastTick = now
			if a := s.lastActivity.Load(); a != lastSeen {
				lastSeen, idle = a, 0
			} else if !late {
				idle += period
			}
			if idle > quiet || time.Since(start) > max {
				return false
			}
		}
	}
}

func (s *faultStore) Get(key []byte, cb func([]byte) error) error {
	s.touch()
	n := s.reads.Add(1)
	if s.readHook != nil {
		s.readHook(n)
	}
	if s.readFault(n, s.getFailAt, s.getFailAll) || s.keyFault(key) {
		if s.onReadFailKey != nil {
			s.onReadFailKey(key)
		}
		return errInjectedRead
	}
	return s.Database.Get(key, cb)
}

var errDead = errors.New("verif: store is dead (simulated crash)")
var errInjected = errors.New("verif: injected write failure (disk full / I/O error)")

func newFaultStore(d *memory.Database) *faultStore {
	return &faultStore{Database: d, kinds: map[string]int{}}
}

// commit runs one atomic write under the commit lock and then the hook.
func (s *faultStore) commit(kind string, f func() error) error {
	s.touch()
	defer s.touch()
	s.mu.Lock()
	defer s.mu.Unlock()
	if s.dead {
		return errDead
	}
	s.attempts++
	if (s.pre != nil && s.pre()) || (s.failAt > 0 && (s.attempts == s.failAt || (s.failAll && s.attempts > s.failAt))) {
		s.failed++
		if s.onFail != nil {
			s.onFail()
		}
		return errInjected
	}
	if err := f(); err != nil {
		return err
	}
	s.commits++
	s.kinds[kind]++
	if s.hook != nil {
		s.hook(s.commits, s)
	}
	return nil
}

func (s *faultStore) Put(k, v []byte) error {
	return s.commit("put", func() error { return s.Database.Put(k, v) })
}

func (s *faultStore) Delete(k []byte) error {
	return s.commit("delete", func() error { return s.Database.Delete(k) })
}

func (s *faultStore) DeleteRange(a, b []byte) error {
	return s.commit("deleterange", func() error { return s.Database.DeleteRange(a, b) })
}

func (s *faultStore) NewBatch() db.Batch { return &faultBatch{Batch: s.Database.NewBatch(), s: s} }
func (s *faultStore) NewBatchWithSize(n int) db.Batch {
	return &faultBatch{Batch: s.Database.NewBatchWithSize(n), s: s}
}

func (s *faultStore) NewIndexedBatch() db.IndexedBatch {
	return &faultIndexedBatch{IndexedBatch: s.Database.NewIndexedBatch(), s: s}
}

func (s *faultStore) NewIndexedBatchWithSize(n int) db.IndexedBatch {
	return &faultIndexedBatch{IndexedBatch: s.Database.NewIndexedBatchWithSize(n), s: s}
}

func (s *faultStore) Update(fn func(db.IndexedBatch) error) error {
	b := s.NewIndexedBatch()
	if err := fn(b); err != nil {
		return err
	}
	return b.Write()
}

func (s *faultStore) Write(fn func(db.Batch) error) error {
	b := s.NewBatch()
	if err := fn(b); err != nil {
		return err
	}
	return b.Write()
}

func (s *faultStore) WithListener(db.EventListener) db.KeyValueStore { return s }

// image returns a deep copy of the current content. Only call from the hook (commit lock held) or
// when no migration is running.
func (s *faultStore) image() *memory.Database { return s.Database.Copy() }

type faultBatch struct {
	db.Batch
	s *faultStore
}

func (b *faultBatch) Size() int {
	n := b.Batch.Size()
	if b.s.inflate > 0 && n > 0 {
		return n + b.s.inflate
	}
	return n
}

func (b *faultBatch) Write() error {
	return b.s.commit("batch", func() error { return b.Batch.Write() })
}

type faultIndexedBatch struct {
	db.IndexedBatch
	s *faultStore
}

func (b *faultIndexedBatch) Write() error {
	return b.s.commit("batch", func() error { return b.IndexedBatch.Write() })
}

var _ db.KeyValueStore = (*faultStore)(nil)
