//go:build verif

package main

import (
	"bytes"
	"encoding/hex"
	"errors"
	"fmt"
	"strings"

	"github.com/NethermindEth/juno/core"
	"github.com/NethermindEth/juno/core/felt"
	"github.com/NethermindEth/juno/db"
	"github.com/NethermindEth/juno/db/memory"
	"github.com/NethermindEth/juno/encoder"
	_ "github.com/NethermindEth/juno/encoder/registry"
	"github.com/NethermindEth/juno/migration/blocktransactions/txlayout"
	"verif/harness/lib"
)

// chainSpec is the abstract description of a pre-migration database: the chain height, the number
// of transactions of every block, and for every block in which layout its transactions are stored
// ('o' = previous per-transaction layout, 'n' = current one-blob-per-block layout, '-' = nothing
// stored for the block in either layout; only legal when the block has no transactions in the old
// layout, where "no entries" is how an empty block looks like). The concrete transactions are a
// deterministic function of (seed, block, index), so a spec replays exactly.
type chainSpec struct {
	Seed     uint64 `json:"seed"`
	Counts   []int  `json:"counts"`   // transactions per block, index = block number; height = len-1
	Layout   string `json:"layout"`   // one char per block: o|n|-
	NoHeight bool   `json:"noHeight"` // chain height key absent (empty database)
	// Corrupt: damage applied after writing, `<kind>:<block>` with kind in drop-receipts | drop-txs |
	// drop-header | count+1 | drop-last-receipt (databases the migration must refuse, not mangle)
	Corrupt []string `json:"corrupt,omitempty"`
}

func (c chainSpec) height() uint64 { return uint64(len(c.Counts) - 1) }

func feltOf(x uint64) *felt.Felt { return new(felt.Felt).SetUint64(x) }

// makeTx builds transaction #idx of block b. All five transaction kinds occur.
func makeTx(seed, b uint64, idx int) core.Transaction {
	r := lib.NewRNG(seed ^ (b+1)*0x9E3779B97F4A7C15 ^ uint64(idx+1)*0xC2B2AE3D27D4EB4F)
	h := new(felt.Felt).SetBytes(r.Bytes(31))
	nCall := r.Intn(4)
	call := make([]felt.Felt, nCall)
	for i := range call {
		call[i] = *new(felt.Felt).SetBytes(r.Bytes(1 + r.Intn(31)))
	}
	switch r.Intn(5) {
	case 0:
		return &core.InvokeTransaction{
			TransactionHash:      h,
			CallData:             call,
			TransactionSignature: []felt.Felt{*feltOf(r.Uint64()), *feltOf(r.Uint64())},
			MaxFee:               feltOf(r.Uint64()),
			ContractAddress:      feltOf(r.Uint64()),
			Version:              new(core.TransactionVersion).SetUint64(1),
			Nonce:                feltOf(uint64(idx)),
			SenderAddress:        feltOf(r.Uint64()),
		}
	case 1:
		return &core.L1HandlerTransaction{
			TransactionHash:    h,
			ContractAddress:    feltOf(r.Uint64()),
			EntryPointSelector: feltOf(r.Uint64()),
			Nonce:              feltOf(uint64(idx)),
			CallData:           append([]felt.Felt{*feltOf(r.Uint64())}, call...),
			Version:            new(core.TransactionVersion),
		}
	case 2:
		return &core.DeployTransaction{
			TransactionHash:     h,
			ContractAddressSalt: feltOf(r.Uint64()),
			ContractAddress:     feltOf(r.Uint64()),
			ClassHash:           feltOf(r.Uint64()),
			ConstructorCallData: call,
			Version:             new(core.TransactionVersion),
		}
	case 3:
		return &core.DeclareTransaction{
			TransactionHash:      h,
			ClassHash:            feltOf(r.Uint64()),
			SenderAddress:        feltOf(r.Uint64()),
			MaxFee:               feltOf(r.Uint64()),
			TransactionSignature: call,
			Nonce:                feltOf(uint64(idx)),
			Version:              new(core.TransactionVersion).SetUint64(1),
		}
	default:
		return &core.DeployAccountTransaction{
			DeployTransaction: core.DeployTransaction{
				TransactionHash:     h,
				ContractAddressSalt: feltOf(r.Uint64()),
				ContractAddress:     feltOf(r.Uint64()),
				ClassHash:           feltOf(r.Uint64()),
				ConstructorCallData: call,
				Version:             new(core.TransactionVersion).SetUint64(1),
			},
			MaxFee:               feltOf(r.Uint64()),
			TransactionSignature: call,
			Nonce:                feltOf(uint64(idx)),
		}
	}
}

func makeReceipt(seed, b uint64, idx int, tx core.Transaction) *core.TransactionReceipt {
	r := lib.NewRNG(seed ^ (b+7)*0xD6E8FEB86659FD93 ^ uint64(idx+3)*0x94D049BB133111EB)
	rc := &core.TransactionReceipt{
		Fee:             feltOf(r.Uint64()),
		FeeUnit:         core.WEI,
		TransactionHash: tx.Hash(),
		Reverted:        r.Chance(1, 4),
	}
	if rc.Reverted {
		rc.RevertReason = fmt.Sprintf("reverted-%d-%d", b, idx)
	}
	if r.Bool() {
		rc.FeeUnit = core.STRK
	}
	for i, n := 0, r.Intn(3); i < n; i++ {
		rc.Events = append(rc.Events, &core.Event{
			From: feltOf(r.Uint64()),
			Keys: []felt.Felt{*feltOf(r.Uint64())},
			Data: []felt.Felt{*feltOf(uint64(i)), *feltOf(b)},
		})
	}
	if r.Bool() {
		rc.ExecutionResources = &core.ExecutionResources{Steps: r.Uint64() % 100000}
	}
	return rc
}

func (c chainSpec) block(b uint64) ([]core.Transaction, []*core.TransactionReceipt) {
	n := c.Counts[b]
	txs := make([]core.Transaction, n)
	rcs := make([]*core.TransactionReceipt, n)
	for i := range n {
		txs[i] = makeTx(c.Seed, b, i)
		rcs[i] = makeReceipt(c.Seed, b, i, txs[i])
	}
	return txs, rcs
}

func blockHash(seed, b uint64) *felt.Felt {
	r := lib.NewRNG(seed ^ (b+11)*0xBF58476D1CE4E5B9)
	return new(felt.Felt).SetBytes(r.Bytes(31))
}

// build writes the database described by the spec using juno's own writers: the deprecated
// per-transaction writer (txlayout.TransactionLayoutPerTx, the repository's frozen copy of the old
// layout) for 'o' blocks, the current writer for 'n' blocks.
func (c chainSpec) build() (*memory.Database, error) {
	d := memory.New()
	if len(c.Layout) != len(c.Counts) {
		return nil, fmt.Errorf("spec: layout/counts length differ")
	}
	if c.NoHeight {
		return d, nil
	}
	if err := core.WriteChainHeight(d, c.height()); err != nil {
		return nil, err
	}
	for b := uint64(0); b <= c.height(); b++ {
		txs, rcs := c.block(b)
		hdr := &core.Header{
			Hash:             blockHash(c.Seed, b),
			Number:           b,
			TransactionCount: uint64(len(txs)),
			Timestamp:        1700000000 + b,
		}
		if b > 0 {
			hdr.ParentHash = blockHash(c.Seed, b-1)
		}
		if err := core.WriteBlockHeader(d, hdr); err != nil {
			return nil, err
		}
		if err := core.WriteL1HandlerMsgHashes(d, txs); err != nil {
			return nil, err
		}
		var err error
		switch c.Layout[b] {
		case 'o':
			err = txlayout.TransactionLayoutPerTx.WriteTransactionsAndReceipts(d, b, txs, rcs)
		case 'n':
			err = txlayout.TransactionLayoutCombined.WriteTransactionsAndReceipts(d, b, txs, rcs)
		case 'b': // both layouts present (only arises on error paths of the migration)
			err = txlayout.TransactionLayoutPerTx.WriteTransactionsAndReceipts(d, b, txs, rcs)
			if err == nil {
				err = txlayout.TransactionLayoutCombined.WriteTransactionsAndReceipts(d, b, txs, rcs)
			}
		case '-':
			if len(txs) != 0 {
				return nil, fmt.Errorf("spec: block %d has transactions but layout '-'", b)
			}
		default:
			return nil, fmt.Errorf("spec: bad layout char %q", c.Layout[b])
		}
		if err != nil {
			return nil, err
		}
	}
	for _, c := range c.Corrupt {
		var kind string
		var b uint64
		if i := strings.LastIndex(c, ":"); i > 0 {
			kind = c[:i]
			fmt.Sscanf(c[i+1:], "%d", &b)
		}
		switch kind {
		case "drop-receipts":
			_ = core.ReceiptsByBlockNumberAndIndexBucket.Prefix().Add(b).DeletePrefix(d)
		case "drop-txs":
			_ = core.TransactionsByBlockNumberAndIndexBucket.Prefix().Add(b).DeletePrefix(d)
		case "drop-header":
			_ = core.DeleteBlockHeaderByNumber(d, b)
		case "count+1":
			if hd, err := core.GetBlockHeaderByNumber(d, b); err == nil {
				hd.TransactionCount++
				_ = core.WriteBlockHeaderByNumber(d, hd)
			}
		case "set-height": // the chain height key says b although more blocks are stored
			_ = core.WriteChainHeight(d, b)
		case "drop-last-receipt":
			if n := c2count(d, b); n > 0 {
				_ = core.ReceiptsByBlockNumberAndIndexBucket.Delete(d, db.BlockNumIndexKey{Number: b, Index: uint64(n - 1)})
			}
		}
	}
	return d, nil
}

func c2count(d db.KeyValueReader, b uint64) int {
	n := 0
	for range core.ReceiptsByBlockNumberAndIndexBucket.Prefix().Add(b).Scan(d) {
		n++
	}
	return n
}

func enc(v any) string {
	b, err := encoder.Marshal(v)
	if err != nil {
		return "encerr:" + err.Error()
	}
	return hex.EncodeToString(b)
}

func errClass(err error) string {
	switch {
	case err == nil:
		return "ok"
	case errors.Is(err, db.ErrKeyNotFound):
		return "notfound"
	default:
		return "err"
	}
}

// blockView is what the current accessors return for one block, canonicalised.
type blockView struct {
	Err  string   // ok | notfound | err
	Txs  []string // CBOR of every transaction
	Rcs  []string // CBOR of every receipt
	Note string
}

// expectedView is the original content of block b.
func (c chainSpec) expectedView(b uint64) blockView {
	txs, rcs := c.block(b)
	v := blockView{Err: "ok", Txs: []string{}, Rcs: []string{}}
	for i := range txs {
		v.Txs = append(v.Txs, enc(txs[i]))
		v.Rcs = append(v.Rcs, enc(rcs[i]))
	}
	return v
}

// readBlockCurrent reads block b through the CURRENT accessors of package core (the ones the
// node uses after the upgrade). Every accessor family is exercised and they must agree with each
// other; the first disagreement is reported in Note.
func readBlockCurrent(r db.KeyValueReader, c chainSpec, b uint64) blockView {
	v := blockView{Txs: []string{}, Rcs: []string{}}
	txs, err := core.GetTransactionsByBlockNumber(r, b)
	v.Err = errClass(err)
	if err != nil {
		v.Note = "GetTransactionsByBlockNumber: " + err.Error()
		return v
	}
	rcs, err := core.GetReceiptsByBlockNumber(r, b)
	if err != nil {
		v.Err = errClass(err)
		v.Note = "GetReceiptsByBlockNumber: " + err.Error()
		return v
	}
	for _, t := range txs {
		v.Txs = append(v.Txs, enc(t))
	}
	for _, x := range rcs {
		v.Rcs = append(v.Rcs, enc(x))
	}
	note := func(f string, a ...any) {
		if v.Note == "" {
			v.Note = fmt.Sprintf(f, a...)
		}
	}
	// the other accessor families must give the same items
	blk, err := core.GetBlockByNumber(r, b)
	if err != nil {
		note("GetBlockByNumber: %v", err)
	} else {
		if len(blk.Transactions) != len(txs) || len(blk.Receipts) != len(rcs) {
			note("GetBlockByNumber: %d txs / %d receipts, per-kind accessors %d / %d",
				len(blk.Transactions), len(blk.Receipts), len(txs), len(rcs))
		} else {
			for i := range txs {
				if enc(blk.Transactions[i]) != v.Txs[i] || enc(blk.Receipts[i]) != v.Rcs[i] {
					note("GetBlockByNumber item %d differs", i)
				}
			}
		}
	}
	i := 0
	for t, err := range core.GetTransactionsByBlockNumberIter(r, b) {
		if err != nil {
			note("GetTransactionsByBlockNumberIter: %v", err)
			break
		}
		if i >= len(v.Txs) || enc(t) != v.Txs[i] {
			note("GetTransactionsByBlockNumberIter item %d differs", i)
			break
		}
		i++
	}
	if i != len(v.Txs) && v.Note == "" {
		note("GetTransactionsByBlockNumberIter yields %d of %d", i, len(v.Txs))
	}
	hashes, err := core.GetTransactionHashesByBlockNumber(r, b)
	if err != nil {
		note("GetTransactionHashesByBlockNumber: %v", err)
	} else if len(hashes) != len(txs) {
		note("GetTransactionHashesByBlockNumber: %d of %d", len(hashes), len(txs))
	}
	for i := range txs {
		t, err := core.GetTransactionByBlockAndIndex(r, b, uint64(i))
		if err != nil || enc(t) != v.Txs[i] {
			note("GetTransactionByBlockAndIndex(%d,%d): %v", b, i, err)
		}
		x, err := core.GetReceiptByBlockAndIndex(r, b, uint64(i))
		if err != nil || enc(x) != v.Rcs[i] {
			note("GetReceiptByBlockAndIndex(%d,%d): %v", b, i, err)
		}
		t2, x2, err := core.GetTransactionAndReceiptByBlockAndIndex(r, b, uint64(i))
		if err != nil || enc(t2) != v.Txs[i] || enc(x2) != v.Rcs[i] {
			note("GetTransactionAndReceiptByBlockAndIndex(%d,%d): %v", b, i, err)
		}
		st, err := core.GetTransactionExecutionStatusByBlockAndIndex(r, b, uint64(i))
		if err != nil || st.Reverted != rcs[i].Reverted || st.RevertReason != rcs[i].RevertReason {
			note("GetTransactionExecutionStatusByBlockAndIndex(%d,%d): %v", b, i, err)
		}
		if i < len(hashes) && !hashes[i].Equal(txs[i].Hash()) {
			note("GetTransactionHashesByBlockNumber item %d differs", i)
		}
	}
	return v
}

// lookupsOK checks the derived lookups of the ORIGINAL transactions of block b on the database:
// hash -> (block, index) -> transaction, and L1 message hash -> L1 handler transaction hash.
func lookupsOK(r db.KeyValueReader, c chainSpec, b uint64) string {
	txs, _ := c.block(b)
	for i, t := range txs {
		got, err := core.GetTransactionByHash(r, (*felt.TransactionHash)(t.Hash()))
		if err != nil {
			return fmt.Sprintf("GetTransactionByHash(block %d idx %d): %v", b, i, err)
		}
		if enc(got) != enc(t) {
			return fmt.Sprintf("GetTransactionByHash(block %d idx %d): other transaction", b, i)
		}
		if l1, ok := t.(*core.L1HandlerTransaction); ok {
			h, err := core.GetL1HandlerTxnHashByMsgHash(r, l1.MessageHash())
			if err != nil || !h.Equal(t.Hash()) {
				return fmt.Sprintf("GetL1HandlerTxnHashByMsgHash(block %d idx %d): %v", b, i, err)
			}
		}
	}
	return ""
}

func sameView(a, b blockView) bool {
	if a.Err != b.Err || len(a.Txs) != len(b.Txs) || len(a.Rcs) != len(b.Rcs) {
		return false
	}
	for i := range a.Txs {
		if a.Txs[i] != b.Txs[i] {
			return false
		}
	}
	for i := range a.Rcs {
		if a.Rcs[i] != b.Rcs[i] {
			return false
		}
	}
	return true
}

// dump is the whole key/value content, for "same final database" comparisons.
func dump(d *memory.Database) map[string]string {
	out := map[string]string{}
	it, err := d.NewIterator(nil, false)
	if err != nil {
		return out
	}
	defer it.Close()
	for ok := it.First(); ok; ok = it.Next() {
		v, _ := it.Value()
		out[string(it.Key())] = string(v)
	}
	return out
}

func sameDump(a, b map[string]string) (bool, string) {
	for k, v := range a {
		w, ok := b[k]
		if !ok {
			return false, fmt.Sprintf("key %x (bucket %d) only in first", k, k[0])
		}
		if v != w {
			return false, fmt.Sprintf("key %x (bucket %d) differs", k, k[0])
		}
	}
	for k := range b {
		if _, ok := a[k]; !ok {
			return false, fmt.Sprintf("key %x (bucket %d) only in second", k, k[0])
		}
	}
	return true, ""
}

// layoutOf describes a database image in the abstract: per block whether old entries exist and
// whether a blob exists ('o' old only, 'n' blob only, 'b' both, '-' neither).
func layoutOf(d db.KeyValueReader, height uint64) string {
	var sb bytes.Buffer
	if height > 1<<20 {
		return ""
	}
	for b := uint64(0); b <= height; b++ {
		hasOld := false
		for _, err := range core.TransactionsByBlockNumberAndIndexBucket.Prefix().Add(b).Scan(d) {
			if err == nil {
				hasOld = true
			}
			break
		}
		if !hasOld {
			for _, err := range core.ReceiptsByBlockNumberAndIndexBucket.Prefix().Add(b).Scan(d) {
				if err == nil {
					hasOld = true
				}
				break
			}
		}
		hasNew, _ := core.BlockTransactionsBucket.Has(d, b)
		switch {
		case hasOld && hasNew:
			sb.WriteByte('b')
		case hasOld:
			sb.WriteByte('o')
		case hasNew:
			sb.WriteByte('n')
		default:
			sb.WriteByte('-')
		}
	}
	return sb.String()
}

// layoutDifferential: the repository's own frozen accessors of BOTH layouts (migration/blocktransactions/txlayout):
// what TransactionLayoutPerTx reads from the pre-migration database must be what TransactionLayoutCombined reads
// from the migrated one — per block (all transactions, the iterator, all receipts, the whole block), per index
// (including the first index past the end: both must refuse) and by hash. "Original content" here is what the
// OLD READERS returned, not what the fixture generator remembers. Returns "" or the first disagreement.
func layoutDifferential(c chainSpec, pre, post db.KeyValueReader) string {
	o, n := txlayout.TransactionLayoutPerTx, txlayout.TransactionLayoutCombined
	encAll := func(xs any, err error) string {
		if err != nil {
			return "err:" + errClass(err)
		}
		return enc(xs)
	}
	for b := uint64(0); !c.NoHeight && b <= c.height(); b++ {
		t0, e0 := o.TransactionsByBlockNumber(pre, b)
		t1, e1 := n.TransactionsByBlockNumber(post, b)
		if len(t0) != len(t1) || errClass(e0) != errClass(e1) {
			return fmt.Sprintf("block %d TransactionsByBlockNumber: old layout %d txs (%s), combined layout %d txs (%s)", b, len(t0), errClass(e0), len(t1), errClass(e1))
		}
		for i := range t0 {
			if enc(t0[i]) != enc(t1[i]) {
				return fmt.Sprintf("block %d TransactionsByBlockNumber item %d differs", b, i)
			}
		}
		r0, e0 := o.ReceiptsByBlockNumber(pre, b)
		r1, e1 := n.ReceiptsByBlockNumber(post, b)
		if len(r0) != len(r1) || errClass(e0) != errClass(e1) {
			return fmt.Sprintf("block %d ReceiptsByBlockNumber: old layout %d (%s), combined layout %d (%s)", b, len(r0), errClass(e0), len(r1), errClass(e1))
		}
		for i := range r0 {
			if enc(r0[i]) != enc(r1[i]) {
				return fmt.Sprintf("block %d ReceiptsByBlockNumber item %d differs", b, i)
			}
		}
		var it0, it1 []string
		for t, err := range o.TransactionsByBlockNumberIter(pre, b) {
			it0 = append(it0, encAll(t, err))
		}
		for t, err := range n.TransactionsByBlockNumberIter(post, b) {
			it1 = append(it1, encAll(t, err))
		}
		if strings.Join(it0, ",") != strings.Join(it1, ",") {
			return fmt.Sprintf("block %d TransactionsByBlockNumberIter differs (%d vs %d items)", b, len(it0), len(it1))
		}
		b0, e0 := o.BlockByNumber(pre, b)
		b1, e1 := n.BlockByNumber(post, b)
		if errClass(e0) != errClass(e1) || (e0 == nil && (enc(b0.Header) != enc(b1.Header) || len(b0.Transactions) != len(b1.Transactions) || len(b0.Receipts) != len(b1.Receipts))) {
			return fmt.Sprintf("block %d BlockByNumber differs (%s vs %s)", b, errClass(e0), errClass(e1))
		}
		for i := 0; i <= len(t0); i++ { // i == len(t0): one past the end
			x0, e0 := o.TransactionByBlockAndIndex(pre, b, uint64(i))
			x1, e1 := n.TransactionByBlockAndIndex(post, b, uint64(i))
			if (e0 == nil) != (e1 == nil) || (e0 == nil && enc(x0) != enc(x1)) {
				return fmt.Sprintf("TransactionByBlockAndIndex(%d, %d): old layout err=%v, combined layout err=%v", b, i, e0, e1)
			}
			y0, e0 := o.ReceiptByBlockAndIndex(pre, b, uint64(i))
			y1, e1 := n.ReceiptByBlockAndIndex(post, b, uint64(i))
			if (e0 == nil) != (e1 == nil) || (e0 == nil && enc(y0) != enc(y1)) {
				return fmt.Sprintf("ReceiptByBlockAndIndex(%d, %d): old layout err=%v, combined layout err=%v", b, i, e0, e1)
			}
			if i < len(t0) {
				hsh := (*felt.TransactionHash)(t0[i].Hash())
				z0, e0 := o.TransactionByHash(pre, hsh)
				z1, e1 := n.TransactionByHash(post, hsh)
				if e0 != nil || e1 != nil || enc(z0) != enc(z1) || enc(z0) != enc(t0[i]) {
					return fmt.Sprintf("TransactionByHash(block %d idx %d): old layout err=%v, combined layout err=%v", b, i, e0, e1)
				}
			}
		}
	}
	return ""
}
