//go:build verif

package main

import (
	"context"
	"fmt"
	"strings"

	"github.com/NethermindEth/juno/blockchain/networks"
	"github.com/NethermindEth/juno/migration/blocktransactions"
	"github.com/NethermindEth/juno/utils/log"
)

func try(name string, c chainSpec) {
	d, err := c.build()
	if err != nil {
		panic(err)
	}
	fmt.Println(name, "before:", layoutOf(d, c.height()))
	st, err := blocktransactions.Migrator{}.Migrate(context.Background(), newFaultStore(d), &networks.Sepolia, log.NewNopZapLogger())
	fmt.Println(name, "state", st == nil, "err", err)
	fmt.Println(name, "after: ", layoutOf(d, c.height()))
	for b := uint64(0); b <= c.height(); b++ {
		got := readBlockCurrent(d, c, b)
		if !sameView(got, c.expectedView(b)) || got.Note != "" {
			fmt.Println("  block", b, "count", c.Counts[b], "->", got.Err, len(got.Txs), got.Note)
		}
	}
}

func main() {
	counts := make([]int, 25)
	for i := range counts {
		counts[i] = 2
	}
	try("hole", chainSpec{Seed: 1, Counts: counts, Layout: strings.Repeat("o", 10) + strings.Repeat("n", 10) + strings.Repeat("o", 5)})
	counts2 := make([]int, 25)
	for i := 13; i < 25; i++ {
		counts2[i] = 1
	}
	try("leading-empty", chainSpec{Seed: 1, Counts: counts2, Layout: strings.Repeat("o", 25)})
	try("all-empty", chainSpec{Seed: 1, Counts: make([]int, 5), Layout: strings.Repeat("o", 5)})
}
