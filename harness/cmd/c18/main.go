//go:build verif

// Harness for C18: drives juno's real migration runner and real migrations, the Lean model of
// both, and the property oracle, on the same generated histories.
package main

import (
	"encoding/json"
	"fmt"
	"os"
	"strings"
	"time"

	"verif/harness/lib"
)

type harness struct {
	f              lib.Flags
	res            *lib.Result
	r              *lib.RNG
	drv            *lib.Driver
	bt             *btModel
	writeFailHangs int
}

func repeatInt(v, n int) []int {
	out := make([]int, n)
	for i := range out {
		out[i] = v
	}
	return out
}

func main() {
	f := lib.ParseFlags()
	res := lib.NewResult("a case is one run (or one start/resume step) of the real migration code on a generated " +
		"database / history; non-trivial = distinct (database spec, interruption plan) whose run performed at least " +
		"one commit or one migration call")
	h := &harness{f: f, res: res, r: lib.NewRNG(f.Seed)}
	drv, err := lib.StartDriver(f.Driver)
	if err != nil {
		res.Fatalf("driver: %v", err)
		lib.Finish(f, res)
	}
	defer drv.Close()
	h.drv = drv
	h.bt = &btModel{drv: drv, res: res}

	if f.Replay != "" {
		h.replay(f.Replay)
		lib.Finish(f, res)
	}
	phases := []struct {
		name string
		f    func()
	}{
		{"probes", h.probes}, {"registration", h.registrationTie}, {"node-wiring", h.wiringTie}, {"run-with-server", h.runWithServerTie}, {"node-histories", h.nodeWiringAll}, {"ondisk", h.onDiskFormat}, {"schemaversion", h.svCorrespondence},
		{"pipeline", h.pipeAll}, {"runner", h.runnerAll}, {"blocktx", h.blockTxAll}, {"upgrade", h.fullAll},
		{"headstate", h.headstateFamily}, {"statedifflength", h.sdlFamily}, {"blocktx-writefail", h.blockTxWriteFailures}, {"blocktx-final-step", h.blockTxFinalStep}, {"blocktx-cancel-at-reads", h.blockTxCancelAtReads}, {"blocktx-readfault", h.blockTxReadFaults},
	}
	var timing []string
	only := os.Getenv("C18_PHASES") // debugging aid: comma-separated phase names (the floors of checks/c18.json fail such a run)
	for _, ph := range phases {
		if only != "" && !strings.Contains(","+only+",", ","+ph.name+",") {
			continue
		}
		t0 := time.Now()
		ph.f()
		timing = append(timing, fmt.Sprintf("%s=%.1fs", ph.name, time.Since(t0).Seconds()))
	}
	res.Note("phase wall times: %s", strings.Join(timing, " "))
	lib.Finish(f, res)
}

func (h *harness) replay(path string) {
	raw, err := os.ReadFile(path)
	if err != nil {
		h.res.Fatalf("replay: %v", err)
		return
	}
	var doc struct {
		Sig    string          `json:"sig"`
		Replay json.RawMessage `json:"replay"`
	}
	if err := json.Unmarshal(raw, &doc); err != nil {
		h.res.Fatalf("replay: %v", err)
		return
	}
	h.probes()
	var planned struct {
		Spec chainSpec `json:"spec"`
		Plan *btPlan   `json:"plan"`
	}
	if strings.HasPrefix(doc.Sig, "blocktx-") && json.Unmarshal(doc.Replay, &planned) == nil && planned.Plan != nil {
		if d, err := planned.Spec.build(); err == nil {
			if tw := runBlockTx(d, btPlan{}, false); tw.ret == "done" {
				h.blockTxReadFaultCase(planned.Spec, d, dump(tw.final), *planned.Plan)
			}
		}
		return
	}
	if strings.HasPrefix(doc.Sig, "blocktx-") {
		var rp btReplay
		if err := json.Unmarshal(doc.Replay, &rp); err != nil {
			h.res.Fatalf("replay: %v", err)
			return
		}
		h.blockTxImage(rp.Spec, "replay")
		return
	}
	if strings.HasPrefix(doc.Sig, "historyprunner-rerun-fails") {
		var pr prunerReplay
		if err := json.Unmarshal(doc.Replay, &pr); err == nil && pr.What != "" {
			h.prunerRestoreCrash(pr.Spec, "replay")
			return
		}
	}
	var nh nodeHistory
	if err := json.Unmarshal(doc.Replay, &nh); err == nil && len(nh.Starts) > 0 {
		h.nodeHistoryCase(nh, "replay")
		return
	}
	var fh fullHistory
	if err := json.Unmarshal(doc.Replay, &fh); err == nil && len(fh.Spec.Chain.Layout) > 0 {
		// note: which store commit is the k-th depends on goroutine scheduling inside the
		// migrations' pipelines, so this replays the same plan, not necessarily the same image
		h.fullHistoryCase(fh, "replay")
		return
	}
	var hist runnerHistory
	if err := json.Unmarshal(doc.Replay, &hist); err == nil && len(hist.Starts) > 0 {
		h.runnerHistoryCase(hist, "replay")
		return
	}
	h.res.Fatalf("replay: no replayer for sig %q", doc.Sig)
}
