//go:build verif

package main

import (
	"context"
	"encoding/binary"
	"errors"
	"fmt"
	"sort"
	"strconv"
	"strings"
	"sync"
	"time"

	"github.com/NethermindEth/juno/blockchain/networks"
	"github.com/NethermindEth/juno/core"
	"github.com/NethermindEth/juno/core/felt"
	"github.com/NethermindEth/juno/core/state"
	"github.com/NethermindEth/juno/db"
	"github.com/NethermindEth/juno/db/memory"
	"github.com/NethermindEth/juno/migration"
	"github.com/NethermindEth/juno/migration/blocktransactions"
	"github.com/NethermindEth/juno/migration/deprecated"
	"github.com/NethermindEth/juno/migration/historyprunner"
	"github.com/NethermindEth/juno/migration/state/headstate"
	"github.com/NethermindEth/juno/migration/statedifflength"
	"github.com/NethermindEth/juno/pruner"
	"github.com/NethermindEth/juno/utils/log"
	"verif/harness/lib"
)

// The "whole upgrade" scenario: a database written by the previous layout (old per-transaction
// entries, block commitments without StateDiffLength, contracts in the deprecated per-field
// layout) is upgraded by the REAL runner with the REAL migrations registered as in
// node/migration.go (history pruner left out: it removes data by design and needs an L1 client),
// with cancellation / process death after any commit, restarts, and the optional new-state
// migration switched on between restarts.

type fullSpec struct {
	Chain     chainSpec `json:"chain"`
	Contracts int       `json:"contracts"`
	// Prunable: the database also holds what the history pruner migration needs (an L1 head two
	// blocks below the tip and the deprecated per-block state history entries of every diff)
	Prunable bool `json:"prunable,omitempty"`
	// Retained: retainedBlocks of historyprunner.New (0 = 4). L1Head: the stored L1 head (nil = two
	// blocks below the tip; may be above the chain height)
	Retained int     `json:"retained,omitempty"`
	L1Head   *uint64 `json:"l1Head,omitempty"`
}

func (fs fullSpec) retained() uint64 {
	if fs.Retained > 0 {
		return uint64(fs.Retained)
	}
	return 4
}

func (fs fullSpec) l1Head() (uint64, bool) {
	if !fs.Prunable || fs.Chain.NoHeight {
		return 0, false
	}
	if fs.L1Head != nil {
		return *fs.L1Head, true
	}
	if fs.Chain.height() < 2 {
		return 0, false
	}
	return fs.Chain.height() - 2, true
}

// oldestKept is the first block the history pruner keeps with `retained` blocks (0 if it prunes
// nothing): pivot = min(L1 head, height); pivot - retained when pivot >= retained.
func (fs fullSpec) oldestKept(retained uint64) uint64 {
	l1, ok := fs.l1Head()
	if !ok {
		return 0
	}
	pivot := min(l1, fs.Chain.height())
	if pivot < retained {
		return 0
	}
	return pivot - retained
}

type fullStart struct {
	Retained   int   `json:"retained,omitempty"` // retainedBlocks configured for this start (0 = the spec's)
	Prune      bool  `json:"prune,omitempty"`    // optional migration "prune-mode" enabled
	HeadState  bool  `json:"headState"`          // optional migration "new-state" enabled
	Inflate    bool  `json:"inflate"`
	CancelAt   int   `json:"cancelAt"`             // cancel right after this store commit (0 = never)
	CrashAt    int   `json:"crashAt"`              // the process dies right after this store commit (0 = never)
	FailAt     int   `json:"failAt,omitempty"`     // this commit attempt fails (0 = never)
	FailGetAt  int64 `json:"failGetAt,omitempty"`  // this Get/Has fails (0 = never)
	FailGetAll bool  `json:"failGetAll,omitempty"` // … and every later one
	FailIterAt int64 `json:"failIterAt,omitempty"` // this NewIterator fails
	// FailKey: a read of the RUNNER fails with an I/O error: "meta" = NewRunner's read of the schema
	// metadata, "ist<i>" = runMigration's read of the stored resume token of migration i
	FailKey string `json:"failKey,omitempty"`
}

type fullHistory struct {
	Spec   fullSpec    `json:"spec"`
	Starts []fullStart `json:"starts"`
}

func contractAddr(seed uint64, i int) *felt.Felt {
	r := lib.NewRNG(seed ^ uint64(i+1)*0xA24BAED4963EE407)
	return new(felt.Felt).SetBytes(r.Bytes(20))
}

func (fs fullSpec) stateDiff(b uint64) *core.StateDiff {
	r := lib.NewRNG(fs.Chain.Seed ^ (b+5)*0x9FB21C651E98DF25)
	sd := &core.StateDiff{
		StorageDiffs:      map[felt.Felt]map[felt.Felt]*felt.Felt{},
		Nonces:            map[felt.Felt]*felt.Felt{},
		DeployedContracts: map[felt.Felt]*felt.Felt{},
		DeclaredV1Classes: map[felt.Felt]*felt.Felt{},
		ReplacedClasses:   map[felt.Felt]*felt.Felt{},
	}
	for i, n := 0, r.Intn(3); i < n; i++ {
		a := *feltOf(100 + uint64(r.Intn(5)))
		if sd.StorageDiffs[a] == nil {
			sd.StorageDiffs[a] = map[felt.Felt]*felt.Felt{}
		}
		for j, m := 0, r.Range(1, 3); j < m; j++ {
			sd.StorageDiffs[a][*feltOf(uint64(r.Intn(6)))] = feltOf(r.Uint64())
		}
	}
	for i, n := 0, r.Intn(3); i < n; i++ {
		sd.Nonces[*feltOf(200 + uint64(r.Intn(4)))] = feltOf(b)
	}
	if r.Chance(1, 3) {
		sd.DeployedContracts[*feltOf(300 + b)] = feltOf(7)
	}
	if r.Chance(1, 4) {
		sd.DeclaredV0Classes = append(sd.DeclaredV0Classes, feltOf(400+b))
	}
	if r.Chance(1, 4) {
		sd.DeclaredV1Classes[*feltOf(500 + b)] = feltOf(600 + b)
	}
	if r.Chance(1, 5) {
		sd.ReplacedClasses[*feltOf(300 + uint64(r.Intn(int(b)+1)))] = feltOf(8)
	}
	return sd
}

func (fs fullSpec) build() (*memory.Database, error) {
	d, err := fs.Chain.build()
	if err != nil {
		return nil, err
	}
	// the database went through all the deprecated (pre-registry) migrations: what they record on an
	// empty database is what a node synced with the previous binary carries
	empty := memory.New()
	if err := deprecated.MigrateIfNeeded(context.Background(), empty, &networks.Sepolia, log.NewNopZapLogger()); err != nil {
		return nil, fmt.Errorf("deprecated migrations on an empty database: %w", err)
	}
	for k, v := range dump(empty) {
		if err := d.Put([]byte(k), []byte(v)); err != nil {
			return nil, err
		}
	}
	if !fs.Chain.NoHeight {
		for b := uint64(0); b <= fs.Chain.height(); b++ {
			su := &core.StateUpdate{BlockHash: blockHash(fs.Chain.Seed, b), NewRoot: feltOf(b + 1), OldRoot: feltOf(b), StateDiff: fs.stateDiff(b)}
			if err := core.WriteStateUpdateByBlockNum(d, b, su); err != nil {
				return nil, err
			}
			// written before the StateDiffLength field existed: it decodes as 0
			bc := &core.BlockCommitments{TransactionCommitment: feltOf(b), EventCommitment: feltOf(b + 1),
				ReceiptCommitment: feltOf(b + 2), StateDiffCommitment: feltOf(b + 3)}
			if err := core.WriteBlockCommitment(d, b, bc); err != nil {
				return nil, err
			}
			if fs.Prunable {
				old := feltOf(b * 100)
				for addr, slots := range su.StateDiff.StorageDiffs {
					for slot := range slots {
						if err := core.WriteDeprecatedContractStorageHistory(d, &addr, &slot, old, b); err != nil {
							return nil, err
						}
					}
				}
				for addr := range su.StateDiff.Nonces {
					if err := core.WriteDeprecatedContractNonceHistory(d, &addr, old, b); err != nil {
						return nil, err
					}
				}
				for addr := range su.StateDiff.ReplacedClasses {
					if err := core.WriteDeprecatedContractClassHashHistory(d, &addr, old, b); err != nil {
						return nil, err
					}
				}
			}
		}
		if l1, ok := fs.l1Head(); ok {
			if err := core.WriteL1Head(d, &core.L1Head{BlockNumber: l1, BlockHash: blockHash(fs.Chain.Seed, l1), StateRoot: feltOf(l1 + 1)}); err != nil {
				return nil, err
			}
		}
	}
	for i := 0; i < fs.Contracts; i++ {
		a := contractAddr(fs.Chain.Seed, i)
		if err := core.WriteContractClassHash(d, a, feltOf(uint64(1000+i))); err != nil {
			return nil, err
		}
		if i%3 != 0 { // a contract whose nonce was never written has no nonce entry
			if err := core.WriteContractNonce(d, a, feltOf(uint64(i))); err != nil {
				return nil, err
			}
		}
		if err := core.WriteContractDeploymentHeight(d, a, uint64(i%5)); err != nil {
			return nil, err
		}
	}
	return d, nil
}

// recMig records what the real migration returned (the script the model is fed with).
type recMig struct {
	inner migration.Migration
	idx   int
	fr    *fullRun
}

type fullRun struct {
	mu           sync.Mutex
	store        *faultStore
	inMigrate    bool
	modelTick    int // ticks in the runner model's sense: runner commits + Before + Migrate calls
	cancelTk     int // model tick during which the context was cancelled (never if not)
	crashTk      int
	obs          map[int]*observed
	image        *memory.Database
	calls        []string
	btImages     []string // layout of the chain data whenever blocktransactions.Migrate starts
	sdlNext      uint64   // checkpoint statedifflength.Before received
	sdlPre       []string // abstract state when statedifflength.Migrate was called (nil: not called)
	sdlPost      []string // … when it returned (nil: the run was cut by the crash image before)
	sdlRet       string
	sdlIdx       int
	crashInSdl   bool
	inDeprecated bool
	// headstate observation (same scheme)
	hsPre, hsPost   []string
	hsRet           string
	crashInHs       bool
	nContracts      int
	seed            uint64
	failInMigrate   bool // an injected write failure happened inside a migration
	readFailOutside bool // an injected read failure hit the deprecated step (not modelled)
	outsideFails    int  // injected read failures outside every Migrate
	modelledFails   int  // … of which: the runner's own reads (metadata in NewRunner, a resume token in runMigration)
	metaReadFailed  bool
	istReadFailed   []int
	cancelledAtRet  map[int]bool // ctx.Err() != nil when Migrate of idx returned
	btRet           string
	failTk          int // model tick of a failed RUNNER write (0: none)
	height          uint64
}

func (m *recMig) Before(st []byte) error {
	if m.idx == m.fr.sdlIdx {
		m.fr.sdlNext = 0
		if len(st) == 8 {
			m.fr.sdlNext = binary.BigEndian.Uint64(st)
		}
	}
	m.fr.mu.Lock()
	m.fr.modelTick++
	m.fr.obs[m.idx] = &observed{}
	m.fr.mu.Unlock()
	err := m.inner.Before(st)
	if err != nil {
		m.fr.obs[m.idx].beforeFails = true
	}
	return err
}

func (m *recMig) Migrate(ctx context.Context, database db.KeyValueStore, n *networks.Network, l log.StructuredLogger) ([]byte, error) {
	fr := m.fr
	fr.mu.Lock()
	fr.modelTick++
	fr.inMigrate = true
	fr.calls = append(fr.calls, fmt.Sprintf("M%d", m.idx))
	fr.mu.Unlock()
	if m.idx == 0 {
		fr.btImages = append(fr.btImages, layoutOf(fr.store.Database, fr.height))
	}
	if m.idx == fr.sdlIdx {
		fr.sdlPre = sdlAbstract(fr.store.Database, fr.height)
	}
	if m.idx == 2 {
		fr.hsPre = hsAbstract(fr.store.Database, fr.seed, fr.nContracts)
	}
	st, err := m.inner.Migrate(ctx, database, n, l)
	fr.mu.Lock()
	fr.cancelledAtRet[m.idx] = ctx.Err() != nil
	fr.mu.Unlock()
	if m.idx == 0 {
		fr.btRet = classifyRet(st, err)
	}
	if m.idx == 2 {
		fr.hsPost = hsAbstract(fr.store.Database, fr.seed, fr.nContracts)
		switch {
		case err != nil && st != nil && errors.Is(err, context.Canceled):
			fr.hsRet = "rerun"
		case err != nil:
			fr.hsRet = "failed"
		case st == nil:
			fr.hsRet = "done"
		default:
			fr.hsRet = "rerun"
		}
	}
	if m.idx == fr.sdlIdx {
		fr.sdlPost = sdlAbstract(fr.store.Database, fr.height)
		switch {
		case err != nil:
			fr.sdlRet = "failed"
		case st == nil:
			fr.sdlRet = "done"
		case len(st) == 8:
			fr.sdlRet = fmt.Sprintf("rerun:%d:%x", binary.BigEndian.Uint64(st), st)
		default:
			fr.sdlRet = "rerun:?"
		}
	}
	fr.mu.Lock()
	fr.inMigrate = false
	o := fr.obs[m.idx]
	o.called, o.st = true, st
	switch {
	case err == nil:
		o.errKind = "n"
	case errors.Is(err, context.Canceled):
		o.errKind = "c"
	default:
		o.errKind = "o"
		o.errText = err.Error()
	}
	fr.mu.Unlock()
	return st, err
}

func fullRegistry(prune, headState bool, retained uint64, wrap func(int, migration.Migration) migration.Migration) (*migration.Registry, string) {
	// node/migration.go registerMigrations
	r := migration.NewRegistry().
		With(wrap(0, &blocktransactions.Migrator{})).
		WithOptional(wrap(1, historyprunner.New(retained, 0)), prune, "prune-mode").
		WithOptional(wrap(2, &headstate.Migrator{}), headState, "new-state").
		With(wrap(3, &statedifflength.Migrator{}))
	opt := func(b bool) string {
		if b {
			return "e"
		}
		return "d"
	}
	return r, "m" + opt(prune) + opt(headState) + "m"
}

type fullOutcome struct {
	open    string
	result  string
	crashed bool
	after   *memory.Database // database the next start sees (the crash image if the process died)
	line    string           // the model request for this start
	obs     map[int]*observed
	commits int
	hang    bool
	btImgs  []string
	// statedifflength observation of this start
	sdlNext         uint64
	sdlPre, sdlPost []string
	sdlRet          string
	hsPre, hsPost   []string
	hsRet           string
	failedWrites    int
	failedReads     int64
	gets, iters     int64
	readFailOutside bool
	panicS          string
	cancelledAtRet  map[int]bool
	btRet           string
	why             string // classifyRunError of Run's error
}

// realFullStart runs NewRunner + Run with the real migrations on (a copy of) d.
func realFullStart(d *memory.Database, spec fullSpec, sp fullStart) fullOutcome {
	var out fullOutcome
	height := uint64(0)
	if !spec.Chain.NoHeight {
		height = spec.Chain.height()
	}
	work := d.Copy()
	store := newFaultStore(work)
	if sp.Inflate {
		store.inflate = 96 * 1024 * 1024
	}
	store.failAt = sp.FailAt
	store.getFailAt, store.getFailAll, store.iterFailAt = sp.FailGetAt, sp.FailGetAll, sp.FailIterAt
	ctx, cancel := context.WithCancel(context.Background())
	defer cancel()
	fr := &fullRun{store: store, obs: map[int]*observed{}, cancelTk: never, crashTk: never, height: height, sdlIdx: 3,
		nContracts: spec.Contracts, seed: spec.Chain.Seed}
	fr.cancelledAtRet = map[int]bool{}
	store.onReadFail = func() {
		fr.mu.Lock()
		if !fr.inMigrate || fr.inDeprecated {
			fr.outsideFails++
		}
		fr.mu.Unlock()
	}
	metaKey := string(db.SchemaMetadata.Key())
	istPrefix := string(db.SchemaIntermediateState.Key())
	if sp.FailKey != "" {
		want := metaKey
		if strings.HasPrefix(sp.FailKey, "ist") {
			i, _ := strconv.Atoi(sp.FailKey[3:])
			want = istPrefix + string([]byte{uint8(i)})
		}
		store.getFailKey = func(key []byte) bool {
			fr.mu.Lock()
			defer fr.mu.Unlock()
			return !fr.inMigrate && !fr.inDeprecated && string(key) == want
		}
	}
	store.onReadFailKey = func(key []byte) {
		fr.mu.Lock()
		defer fr.mu.Unlock()
		if fr.inMigrate || fr.inDeprecated {
			return
		}
		switch {
		case string(key) == metaKey:
			fr.metaReadFailed = true
			fr.modelledFails++
		case len(key) == len(istPrefix)+1 && string(key[:len(istPrefix)]) == istPrefix:
			fr.istReadFailed = append(fr.istReadFailed, int(key[len(istPrefix)]))
			fr.modelledFails++
		}
	}
	store.onFail = func() {
		fr.mu.Lock()
		defer fr.mu.Unlock()
		if fr.inMigrate {
			fr.failInMigrate = true
		} else if fr.failTk == 0 {
			fr.modelTick++
			fr.failTk = fr.modelTick
		}
	}
	store.hook = func(n int, fs *faultStore) {
		fr.mu.Lock()
		defer fr.mu.Unlock()
		if !fr.inMigrate {
			fr.modelTick++
		}
		if sp.CancelAt > 0 && n == sp.CancelAt {
			fr.cancelTk = fr.modelTick
			cancel()
		}
		if sp.CrashAt > 0 && n == sp.CrashAt && fr.image == nil {
			fr.crashTk = fr.modelTick
			fr.image = fs.image()
			fr.crashInSdl = fr.inMigrate && fr.sdlPre != nil && fr.sdlPost == nil
			fr.crashInHs = fr.inMigrate && fr.hsPre != nil && fr.hsPost == nil
		}
	}
	ret := spec.retained()
	if sp.Retained > 0 {
		ret = uint64(sp.Retained)
	}
	reg, regS := fullRegistry(sp.Prune, sp.HeadState, ret, func(i int, m migration.Migration) migration.Migration {
		return &recMig{inner: m, idx: i, fr: fr}
	})
	// node/migration.go migrateIfNeeded: the deprecated migrations run first (a no-op here: the
	// database is at their last version), then the schema runner
	fr.mu.Lock()
	fr.inMigrate = true // their commits are not runner ticks
	fr.inDeprecated = true
	fr.mu.Unlock()
	depErr := deprecated.MigrateIfNeeded(ctx, store, &networks.Sepolia, log.NewNopZapLogger())
	fr.mu.Lock()
	fr.inMigrate = false
	fr.inDeprecated = false
	fr.mu.Unlock()
	if depErr != nil && store.readsFailed.Load() > 0 {
		out.open, out.after, out.readFailOutside, out.failedReads = "read-failed-deprecated", d, true, store.readsFailed.Load()
		out.line = fmt.Sprintf("run %s %d %d", regS, never, never)
		return out
	}
	if depErr != nil {
		out.open = "deprecated-failed:" + depErr.Error()
		out.after = d
		out.line = fmt.Sprintf("run %s %d %d", regS, never, never)
		return out
	}
	runner, err := migration.NewRunner(reg, store, &networks.Sepolia, log.NewNopZapLogger())
	if err != nil && store.readsFailed.Load() > 0 {
		out.open, out.after, out.failedReads = "read-failed", d, store.readsFailed.Load()
		fr.mu.Lock()
		out.readFailOutside = !(fr.metaReadFailed && fr.outsideFails == fr.modelledFails)
		fr.mu.Unlock()
		out.line = fmt.Sprintf("run %s %d %d rmeta", regS, never, never)
		return out
	}
	if err != nil {
		out.open = "refused"
		out.after = d
		out.line = fmt.Sprintf("run %s %d %d", regS, never, never)
		return out
	}
	out.open = "ok"
	var runErr error
	if hungOnce.Load() {
		out.hang, out.after = true, d // the database as it was (callers must not dereference a nil image)
		return out
	}
	finished := store.runWatched(8*time.Second, 180*time.Second, func() {
		e, panicked, stack := lib.Try(func() error { return runner.Run(ctx) })
		runErr = e
		if panicked {
			out.panicS = e.Error() + "\n" + stack
		}
	})
	if !finished {
		out.hang, out.after = true, d
		hungOnce.Store(true)
		return out
	}
	out.result = "ok"
	if runErr != nil {
		out.result = "err"
	}
	out.why = classifyRunError(runErr)
	fr.mu.Lock()
	defer fr.mu.Unlock()
	out.commits = store.commits
	out.obs = fr.obs
	out.btImgs = fr.btImages
	out.sdlNext, out.sdlPre, out.sdlPost, out.sdlRet = fr.sdlNext, fr.sdlPre, fr.sdlPost, fr.sdlRet
	out.hsPre, out.hsPost, out.hsRet = fr.hsPre, fr.hsPost, fr.hsRet
	if fr.image != nil && fr.hsPre != nil && (fr.hsPost == nil || fr.crashInHs) {
		out.hsPost, out.hsRet = hsAbstract(fr.image, fr.seed, fr.nContracts), "crashed"
	}
	out.failedWrites = store.failed
	out.failedReads, out.gets, out.iters = store.readsFailed.Load(), store.reads.Load(), store.iters.Load()
	out.readFailOutside = fr.readFailOutside || fr.outsideFails > fr.modelledFails
	out.cancelledAtRet, out.btRet = fr.cancelledAtRet, fr.btRet
	if fr.image != nil && fr.sdlPre != nil && (fr.sdlPost == nil || fr.crashInSdl) {
		// the process died inside statedifflength.Migrate: the image is what it left
		out.sdlPost, out.sdlRet = sdlAbstract(fr.image, height), "crashed"
	}
	if fr.image != nil {
		out.crashed = true
		out.after = fr.image
	} else {
		out.after = work
	}
	ms := startSpec{Reg: regS, CancelAt: fr.cancelTk, CrashAt: fr.crashTk, FailAt: fr.failTk, IstReadFail: fr.istReadFailed}
	out.line = ms.modelLine(fr.obs)
	return out
}

// checkFullFinal: the property on a database whose upgrade has completed.
func (h *harness) checkFullFinal(hist fullHistory, final *memory.Database, prune, headState bool, btImgs []string, effRet uint64) bool {
	fs := hist.Spec
	c := fs.Chain
	ok := true
	// transactions / receipts / lookups of every block; an A-type loss is attributed to the image
	// the block-transactions migration resumed from (that image is the deterministic replay)
	imageSpec := c
	if len(btImgs) > 0 {
		// the image the LAST block-transactions Migrate call (the one that completed it) started from
		imageSpec.Layout = btImgs[len(btImgs)-1]
	}
	from := uint64(0)
	if prune {
		from = fs.oldestKept(effRet)
	}
	if !checkFinalFrom(h.res, c, imageSpec, final, from) {
		ok = false
	}
	if prune && from > 0 {
		// what the pruner is meant to remove must be gone, what it keeps is checked above/below
		if _, err := core.GetTransactionsByBlockNumber(final, from-1); err == nil {
			ok = false
			h.res.Violate(lib.Violation{Sig: "historyprunner-block-below-cutoff-not-pruned",
				What: fmt.Sprintf("block %d is below the cutoff %d and still has its transactions", from-1, from), Replay: hist})
		}
	}
	if !c.NoHeight {
		for b := from; b <= c.height(); b++ {
			bc, err := core.GetBlockCommitmentByBlockNum(final, b)
			want := fs.stateDiff(b).Length()
			if err != nil || bc.StateDiffLength != want || !bc.TransactionCommitment.Equal(feltOf(b)) {
				ok = false
				got := uint64(0)
				if bc != nil {
					got = bc.StateDiffLength
				}
				h.res.Violate(lib.Violation{Sig: "statedifflength-wrong-after-upgrade",
					What:   fmt.Sprintf("block %d: StateDiffLength=%d, state diff has %d entries (err %v)", b, got, want, err),
					Replay: hist})
			}
		}
	}
	for i := 0; i < fs.Contracts && headState; i++ {
		a := contractAddr(c.Seed, i)
		ct, err := state.GetContract(final, a)
		wantNonce := feltOf(uint64(i))
		if i%3 == 0 {
			wantNonce = feltOf(0)
		}
		if err != nil || !ct.ClassHash.Equal(feltOf(uint64(1000+i))) || !ct.Nonce.Equal(wantNonce) || ct.DeployedHeight != uint64(i%5) {
			ok = false
			h.res.Violate(lib.Violation{Sig: "headstate-contract-wrong-after-upgrade",
				What: fmt.Sprintf("contract %d: %+v err %v", i, ct, err), Replay: hist})
		}
		if _, err := core.GetContractClassHash(final, a); err == nil {
			ok = false
			h.res.Violate(lib.Violation{Sig: "headstate-old-fields-left-after-upgrade",
				What: fmt.Sprintf("contract %d still has its deprecated class-hash entry", i), Replay: hist})
		}
	}
	for i := 0; i < fs.Contracts && !headState; i++ {
		if v, err := core.GetContractClassHash(final, contractAddr(c.Seed, i)); err != nil || !v.Equal(feltOf(uint64(1000+i))) {
			ok = false
			h.res.Violate(lib.Violation{Sig: "contract-fields-damaged-by-upgrade",
				What: fmt.Sprintf("contract %d: class hash unreadable although the new-state migration is off (%v)", i, err), Replay: hist})
		}
	}
	return ok
}

// fullHistoryCase runs the history on the real code; every start is checked against the runner
// model; at the end an undisturbed start must complete the upgrade and the result must be the
// database of an undisturbed upgrade of the original database.
func (h *harness) fullHistoryCase(hist fullHistory, family string) {
	res := h.res
	d0, err := hist.Spec.build()
	if err != nil {
		res.Fatalf("full spec does not build: %v", err)
		return
	}
	res.Sample(10, map[string]any{"kind": "full-upgrade-history", "history": hist})
	if a := h.bt.ask("disk none"); a != "ok" {
		res.Mismatch(lib.Mismatch{Sig: "disk-line-rejected", Model: a})
	}
	cur := d0
	headState, prune := false, false
	effRet := uint64(0)                         // retainedBlocks whose cutoff the database was actually pruned to (read off the final database)
	var candRets []uint64                       // retainedBlocks of every start that ran with prune-mode
	pruneDoneRet, pruneDone := uint64(0), false // retainedBlocks of the start whose pruner returned (nil, nil)
	var btImgs []string
	staleToken := false // some start ran on a database with a stale stager-phase pruner token (see prunerTokenStale)
	starts := append([]fullStart{}, hist.Starts...)
	for si := 0; si < len(starts)+3; si++ {
		var sp fullStart
		if si < len(starts) {
			sp = starts[si]
			if (headState && !sp.HeadState) || (prune && !sp.Prune) {
				// an opt-out attempt: must be refused, then go on with the migration enabled
				o := realFullStart(cur, hist.Spec, sp)
				res.Case(fmt.Sprintf("%s|%d|optout", family, si), false)
				res.Hit("full-start:optout-attempt")
				if o.open == "ok" {
					res.Violate(lib.Violation{Sig: "newrunner-accepts-downgrade-or-optout", What: "an optional migration was enabled before, now disabled: accepted", Replay: hist})
				}
				h.compareFullStart(hist, si, o)
				sp.HeadState, sp.Prune = sp.HeadState || headState, sp.Prune || prune
			}
		} else {
			sp = fullStart{HeadState: headState, Prune: prune} // undisturbed
		}
		if sp.Prune {
			r := hist.Spec.retained()
			if sp.Retained > 0 {
				r = uint64(sp.Retained)
			}
			candRets = append(candRets, r)
		}
		headState, prune = headState || sp.HeadState, prune || sp.Prune
		if prunerTokenStale(cur) {
			staleToken = true
		}
		o := realFullStart(cur, hist.Spec, sp)
		res.Case(fmt.Sprintf("%s|%d|%+v|%s|%d", family, si, sp, hist.Spec.Chain.Layout, hist.Spec.Chain.Seed), o.commits > 0)
		if o.hang {
			res.Violate(lib.Violation{Sig: "upgrade-hangs", What: fmt.Sprintf("start %d does not return", si), Replay: hist})
			return
		}
		if o.panicS != "" {
			res.Violate(lib.Violation{Sig: "upgrade-panics", What: fmt.Sprintf("start %d: %s", si, o.panicS), Replay: hist})
			return
		}
		if o.failedReads > 0 {
			res.Hit("full-start:read-failed")
		}
		if o.open == "read-failed" {
			h.compareFullStart(hist, si, o)
		}
		if o.open == "read-failed" || o.open == "read-failed-deprecated" {
			// the fault hit before the runner existed: the start failed, nothing may have changed
			if same, why := sameDump(dump(o.after), dump(cur)); !same {
				res.Violate(lib.Violation{Sig: "upgrade-read-error-before-run-changes-database", What: why, Replay: hist})
			}
			continue
		}
		if strings.HasPrefix(o.open, "deprecated-failed") {
			res.Violate(lib.Violation{Sig: "deprecated-migrations-fail-on-current-database", What: o.open, Replay: hist})
			return
		}
		res.HitN("full-commits", o.commits)
		switch {
		case o.crashed:
			res.Hit("full-start:crashed")
		case o.result == "ok":
			res.Hit("full-start:ok")
		default:
			res.Hit("full-start:cancelled-or-error")
		}
		h.compareFullStart(hist, si, o)
		if ob := o.obs[1]; ob != nil && ob.called && ob.st == nil && ob.errKind == "n" && len(candRets) > 0 {
			pruneDoneRet, pruneDone = candRets[len(candRets)-1], true
		}
		btImgs = append(btImgs, o.btImgs...)
		cur = o.after
		if o.failedWrites > 0 && !o.crashed && o.result == "ok" {
			// a failed write was absorbed (retried by the migration's own loop): acceptable iff
			// nothing is missing — the content checks below decide
			res.Hit("full-start:write-failure-absorbed")
		}
		if o.failedWrites > 0 {
			res.Hit("full-start:write-failed")
		}
		if !o.crashed && o.result == "err" && sp.CancelAt == 0 && o.failedWrites == 0 && o.failedReads == 0 {
			disturbedBefore := false
			for _, prev := range starts[:min(si, len(starts))] {
				if prev.CancelAt > 0 || prev.CrashAt > 0 || prev.FailAt > 0 || prev.FailGetAt > 0 || prev.FailIterAt > 0 {
					disturbedBefore = true
				}
			}
			sig, msg := classifyUpgradeFailure(o, len(candRets) > 1, disturbedBefore)
			res.Hit("oracle:" + sig)
			res.Violate(lib.Violation{Sig: sig, What: msg, Replay: hist})
			return
		}
		if !o.crashed && o.result == "ok" {
			// upgrade complete: property + same final database as the undisturbed upgrade
			if prune {
				// which of the configured retentions the database was pruned to: the first run that
				// commits the prune pins it; a run that died earlier does not
				floor, ferr := pruner.OldestRetainedBlock(cur)
				if ferr != nil {
					floor = 0
				}
				found := false
				for _, r := range candRets {
					if hist.Spec.oldestKept(r) == floor {
						effRet, found = r, true
						break
					}
				}
				if !found {
					res.Violate(lib.Violation{Sig: "historyprunner-cutoff-matches-no-configured-retention",
						What: fmt.Sprintf("the database is pruned up to block %d; the configured retentions %v give other cutoffs", floor, candRets), Replay: hist})
					return
				}
			}
			if prune && len(candRets) > 0 {
				// the start that completed the pruner ran with candRets[last]; if that configuration
				// gives another cutoff than the one the database is pruned to, a dead run's prune
				// (block data pruned, reverse lookups wiped) was taken over by a run that decided
				// differently: known root cause, every divergence below belongs to it
				last := candRets[len(candRets)-1]
				if pruneDone {
					last = pruneDoneRet
				}
				if floor := oldestRetained(cur); hist.Spec.oldestKept(last) != floor {
					tmp := lib.NewResult("")
					saved := h.res
					h.res = tmp
					ok1 := h.checkFullFinal(hist, cur, prune, headState, btImgs, effRet)
					h.res = saved
					tw := realFullStart(d0, hist.Spec, fullStart{HeadState: headState, Prune: prune, Retained: int(effRet)})
					same := tw.result == "ok"
					if same {
						same, _ = sameDumpModuloEmpty(hist.Spec.Chain, dump(cur), dump(tw.after))
					}
					if !ok1 || !same {
						res.Hit("oracle:historyprunner-restart-with-other-retention-abandons-started-prune")
						res.Violate(lib.Violation{Sig: "historyprunner-restart-with-other-retention-abandons-started-prune",
							What: fmt.Sprintf("a run with retainedBlocks giving cutoff %d died after committing its prune and the wipe of the reverse lookups; the restart "+
								"(retainedBlocks %d: cutoff %d / nothing to prune) does not finish that work and the migration is recorded as applied: "+
								"lookups / history differ from an undisturbed upgrade", floor, last, hist.Spec.oldestKept(last)),
							Replay: hist})
						return
					}
				}
			}
			good := h.checkFullFinal(hist, cur, prune, headState, btImgs, effRet)
			md, err := migration.GetSchemaMetadata(cur)
			_, tgt := fullRegistry(prune, headState, 4, func(_ int, m migration.Migration) migration.Migration { return m })
			t, _ := targetOf(tgt)
			if err != nil || uint64(md.CurrentVersion) != t || uint64(md.LastTargetVersion) != t {
				res.Violate(lib.Violation{Sig: "run-ok-but-target-not-applied", What: fmt.Sprintf("metadata %+v target %b", md, t), Replay: hist})
			}
			tw := realFullStart(d0, hist.Spec, fullStart{HeadState: headState, Prune: prune, Retained: int(effRet)})
			_ = good
			if tw.result != "ok" || tw.crashed {
				sig, msg := classifyUpgradeFailure(tw, len(candRets) > 1, false)
				res.Hit("oracle:" + sig)
				res.Violate(lib.Violation{Sig: sig, What: "the history completed the upgrade, the UNDISTURBED upgrade of the same database does not: " + msg,
					Replay: fullHistory{Spec: hist.Spec, Starts: []fullStart{{HeadState: headState, Prune: prune, Retained: int(effRet)}}}})
			} else if same, why := sameDumpModuloEmpty(hist.Spec.Chain, dump(cur), dump(tw.after)); !same {
				sig := "upgrade-final-db-differs-from-undisturbed-upgrade"
				if staleToken && onlyHistoryEntriesMissing(dump(cur), dump(tw.after), hist.Spec.Chain) {
					// exact cause: a start ran on 'pruner finished, scratch wiped, stager-phase token still
					// stored'; the only difference is history entries missing in the result
					sig = "historyprunner-stale-resume-token-after-death-before-apply"
					why = "a start resumed the pruner from a stale stager-phase token after a run that had finished the pruner died before the runner's commit: " + why
				}
				res.Hit("oracle:" + sig)
				res.Violate(lib.Violation{Sig: sig, What: why, Replay: hist})
			}
			if si >= len(starts)-1 {
				return
			}
		}
	}
	res.Violate(lib.Violation{Sig: "upgrade-does-not-complete", What: "three undisturbed starts after the history did not complete the upgrade", Replay: hist})
}

func (h *harness) compareFullStart(hist fullHistory, si int, o fullOutcome) {
	if o.readFailOutside {
		h.res.Hit("full-start:runner-read-failed(model-skipped)")
		return
	}
	h.compareSDL(hist, si, o)
	h.compareHS(hist, si, o)
	ans := h.bt.ask(o.line)
	h.res.Compared(1)
	disk, _, _, _ := readDisk(o.after)
	var want string
	switch {
	case o.open == "read-failed":
		want = "readerr " + disk
		h.res.Hit("full-start:metadata-read-failed-agrees-with-model")
	case o.open != "ok":
		want = "refused " + disk
		if f := strings.SplitN(ans, " ", 2); len(f) == 2 && strings.HasPrefix(f[0], "refused:") {
			ans = "refused " + f[1]
		}
	default:
		if strings.Contains(o.line, " rist=") {
			h.res.Hit("full-start:token-read-failed-modelled")
		}
		h.glueTie(hist, si, o)
		// results are compared as ok / not ok plus the failing step and the migration the error names
		// (`why=`); a crashed start only by its disk
		why := ""
		if i := strings.Index(ans, " why="); i >= 0 {
			why = ans[i:]
		}
		if i := strings.Index(ans, " calls="); i >= 0 {
			ans = ans[:i]
		}
		if o.crashed {
			if f := strings.SplitN(ans, " ", 2); len(f) == 2 {
				ans = "crashed " + f[1]
			}
			want = "crashed " + disk
		} else {
			want = o.result + " " + disk + " why=" + o.why
			ans += why
			h.res.Hit("full-why:" + strings.SplitN(o.why, "@", 2)[0])
		}
	}
	if ans != want {
		keys := make([]int, 0, len(o.obs))
		for k := range o.obs {
			keys = append(keys, k)
		}
		sort.Ints(keys)
		h.res.Mismatch(lib.Mismatch{Sig: "full-upgrade-start-differs", Input: map[string]any{"history": hist, "start": si, "line": o.line},
			Model: ans, Impl: want})
	}
}

// glueTie: what the REAL runner did with what a real migration returned (applied bit set / state stored /
// nothing) against the model's `reaction` applied to the data model's return class (`glue` request: the
// mapping Ret -> (state, error class) of the composed model + the runner's decision).
func (h *harness) glueTie(hist fullHistory, si int, o fullOutcome) {
	if o.crashed || o.failedWrites > 0 || o.after == nil {
		return // the runner's own write may not have happened
	}
	_, md, has, ist := readDisk(o.after)
	for idx, mig := range map[int]string{0: "bt", 2: "hs", 3: "sdl"} {
		ob := o.obs[idx]
		if ob == nil || !ob.called {
			continue
		}
		ret := map[string]string{"bt": o.btRet, "hs": o.hsRet, "sdl": o.sdlRet}[mig]
		if ret == "" || ret == "crashed" || strings.HasPrefix(ret, "rerun:?") {
			continue
		}
		if f := strings.Split(ret, ":"); len(f) == 3 { // rerun:<n>:<hex> -> rerun:<n>
			ret = f[0] + ":" + f[1]
		}
		c := "0"
		if o.cancelledAtRet[idx] {
			c = "1"
		}
		ans := h.bt.ask(fmt.Sprintf("glue %s %s %s", mig, ret, c))
		var real string
		st, stored := ist[idx]
		switch {
		case has && md.CurrentVersion.Has(uint8(idx)):
			real = "apply"
		case stored && ob.st != nil && string(st) == string(ob.st):
			real = "save:" + showState(st)
		default:
			real = "error"
		}
		h.res.Compared(1)
		h.res.Hit("glue:" + mig + ":" + strings.SplitN(real, ":", 2)[0])
		if ans != real {
			h.res.Mismatch(lib.Mismatch{Sig: "runner-reaction-to-" + mig + "-return-differs", Input: map[string]any{"history": hist, "start": si,
				"ret": ret, "cancelled": c}, Model: ans, Impl: real})
		}
	}
}

func (h *harness) genFullHistory(r *lib.RNG) fullHistory {
	c := h.genSpec(r)
	for len(c.Counts) < 12 {
		c.Counts = append(c.Counts, r.Range(0, 2))
		if c.Counts[len(c.Counts)-1] == 0 {
			c.Layout += "-"
		} else {
			c.Layout += "o"
		}
	}
	if len(c.Counts) > 45 {
		c.Counts, c.Layout = c.Counts[:45], c.Layout[:45]
	}
	hist := fullHistory{Spec: fullSpec{Chain: c, Contracts: lib.Pick(r, []int{0, 1, 4, 9})}}
	if r.Chance(1, 2) {
		hist.Spec.Prunable = true
		hist.Spec.Retained = lib.Pick(r, []int{0, 1, 3, 8})
		if r.Chance(1, 4) {
			l1 := uint64(r.Intn(len(c.Counts) + 3)) // anywhere, also above the height
			hist.Spec.L1Head = &l1
		}
	}
	hs, pr := false, false
	for i, n := 0, r.Range(1, 3); i < n; i++ {
		if r.Chance(1, 3) {
			hs = true
		}
		if hist.Spec.Prunable && r.Chance(1, 2) {
			pr = true
		}
		sp := fullStart{HeadState: hs, Prune: pr, Inflate: r.Chance(2, 3)}
		if pr && r.Chance(1, 5) {
			sp.Retained = r.Range(1, 9) // configuration changed between restarts
		}
		if r.Chance(1, 10) && pr {
			sp.Prune = false // opt-out attempt
		}
		if r.Chance(1, 6) && hs {
			sp.HeadState = false // opt-out attempt
		}
		k := r.Range(1, 40)
		if r.Bool() {
			sp.CancelAt = k
		} else {
			sp.CrashAt = k
		}
		if r.Chance(1, 8) {
			sp.CancelAt, sp.CrashAt = r.Range(1, 30), r.Range(1, 30)
		}
		hist.Starts = append(hist.Starts, sp)
	}
	return hist
}

func (h *harness) fullAll() {
	// every single crash point and every single cancellation point of one fixed small upgrade
	fixed := fullSpec{Chain: chainSpec{Seed: 5, Counts: append(append(repeatInt(2, 12), repeatInt(0, 3)...), repeatInt(1, 8)...),
		Layout: strings.Repeat("o", 12) + "---" + strings.Repeat("o", 8)}, Contracts: 5}
	d0, err := fixed.build()
	if err != nil {
		h.res.Fatalf("fixed upgrade fixture does not build: %v", err)
	} else {
		tw := realFullStart(d0, fixed, fullStart{HeadState: true, Inflate: true})
		h.res.HitN("full-fixed-commits", tw.commits)
		step := 1
		if h.f.Tier == "quick" {
			step = 2
		}
		for k := 1; k <= tw.commits; k += step {
			h.fullHistoryCase(fullHistory{Spec: fixed, Starts: []fullStart{{HeadState: true, Inflate: true, CrashAt: k}}}, "fixed-crash")
			h.fullHistoryCase(fullHistory{Spec: fixed, Starts: []fullStart{{HeadState: true, Inflate: true, CancelAt: k}}}, "fixed-cancel")
			if k%2 == 1 {
				h.fullHistoryCase(fullHistory{Spec: fixed, Starts: []fullStart{{HeadState: true, Inflate: true, FailAt: k}}}, "fixed-writefail")
			}
		}
		rstep := int64(step)
		for g := int64(1); g <= tw.gets; g += tw.gets/20*rstep + 1 {
			h.fullHistoryCase(fullHistory{Spec: fixed, Starts: []fullStart{{HeadState: true, Inflate: true, FailGetAt: g}}}, "fixed-readfault")
			h.fullHistoryCase(fullHistory{Spec: fixed, Starts: []fullStart{{HeadState: true, FailGetAt: g, FailGetAll: true}}}, "fixed-readfault")
		}
		for i := int64(1); i <= tw.iters; i += tw.iters/15*rstep + 1 {
			h.fullHistoryCase(fullHistory{Spec: fixed, Starts: []fullStart{{HeadState: true, Inflate: true, FailIterAt: i}}}, "fixed-readfault")
		}
	}
	// the same with the history pruner enabled (dense chain: every block has transactions)
	pr := fullSpec{Chain: chainSpec{Seed: 9, Counts: repeatInt(2, 24), Layout: strings.Repeat("o", 24)}, Contracts: 3, Prunable: true}
	if d1, err := pr.build(); err != nil {
		h.res.Fatalf("prune upgrade fixture does not build: %v", err)
	} else {
		tw := realFullStart(d1, pr, fullStart{Prune: true, HeadState: true, Inflate: true})
		h.res.HitN("full-prune-commits", tw.commits)
		h.prunerRestoreCrash(pr, "prune")
		st := pr
		st.Retained = 16 // a wide kept window: many commits inside the stager
		h.prunerStaleTokenCrash(st, "prune")
		h.fullHistoryCase(fullHistory{Spec: pr, Starts: []fullStart{{Prune: true, HeadState: true}}}, "prune-undisturbed")
		step := 1
		if h.f.Tier == "quick" {
			step = 3
		}
		for k := 1; k <= tw.commits; k += step {
			h.fullHistoryCase(fullHistory{Spec: pr, Starts: []fullStart{{Prune: true, HeadState: true, Inflate: true, CrashAt: k}}}, "prune-crash")
			h.fullHistoryCase(fullHistory{Spec: pr, Starts: []fullStart{{Prune: true, HeadState: true, Inflate: true, CancelAt: k}}}, "prune-cancel")
		}
		// read faults through the history pruner as well
		for g := int64(1); g <= tw.gets; g += tw.gets/25*int64(step) + 1 {
			h.fullHistoryCase(fullHistory{Spec: pr, Starts: []fullStart{{Prune: true, HeadState: true, Inflate: true, FailGetAt: g}}}, "prune-readfault")
			h.fullHistoryCase(fullHistory{Spec: pr, Starts: []fullStart{{Prune: true, HeadState: true, FailGetAt: g, FailGetAll: true}}}, "prune-readfault")
		}
		for i := int64(1); i <= tw.iters; i += tw.iters/15*int64(step) + 1 {
			h.fullHistoryCase(fullHistory{Spec: pr, Starts: []fullStart{{Prune: true, HeadState: true, Inflate: true, FailIterAt: i}}}, "prune-readfault")
		}
	}
	// read faults of the RUNNER itself in the whole upgrade (selected by key, so independent of how many reads the
	// migrations make): the metadata in NewRunner; the stored resume token of each migration — on a fresh
	// database and after a start that was cancelled inside that migration (so a token IS stored and the
	// failed read must not be taken for "no token")
	for _, spc := range []struct {
		fs    fullSpec
		prune bool
	}{{fixed, false}, {pr, true}} {
		d0, err := spc.fs.build()
		if err != nil {
			continue // reported above
		}
		tw := realFullStart(d0, spc.fs, fullStart{Prune: spc.prune, HeadState: true, Inflate: true})
		keys := []string{"meta", "ist0", "ist2", "ist3"}
		if spc.prune {
			keys = append(keys, "ist1")
		}
		for _, k := range keys {
			h.fullHistoryCase(fullHistory{Spec: spc.fs, Starts: []fullStart{{Prune: spc.prune, HeadState: true, FailKey: k}}}, "runner-readfault")
			for _, frac := range []int{8, 3, 2} {
				c := tw.commits * (frac - 1) / frac
				h.fullHistoryCase(fullHistory{Spec: spc.fs, Starts: []fullStart{
					{Prune: spc.prune, HeadState: true, Inflate: true, CancelAt: c},
					{Prune: spc.prune, HeadState: true, FailKey: k}}}, "runner-readfault-after-cancel")
			}
		}
	}
	h.pruneBoundaryFamilies()
	h.pruneCutoffGrid()
	n := h.f.Scale(40, 800)
	for i := 0; i < n; i++ {
		h.fullHistoryCase(h.genFullHistory(h.r.Fork(uint64(5000000+i))), "rand")
	}
}

// ---- history pruner: death during the restore phase ------------------------------------------

type prunerReplay struct {
	Spec fullSpec `json:"spec"`
	What string   `json:"what"`
}

func bucketEmpty(d *memory.Database, b db.Bucket) bool {
	it, err := d.NewIterator(b.Key(), true)
	if err != nil {
		return true
	}
	defer it.Close()
	return !it.First()
}

// prunerRestoreCrash: one undisturbed upgrade with the history pruner enabled, an image after every
// commit; the first image in which the live history buckets are empty while the scratch namespace is
// populated is the database a process leaves behind when it dies during the pruner's restore phase
// (independent of goroutine scheduling). The upgrade is restarted on that image.
func (h *harness) prunerRestoreCrash(fs fullSpec, family string) {
	d0, err := fs.build()
	if err != nil {
		h.res.Fatalf("fixture does not build: %v", err)
		return
	}
	work := d0.Copy()
	store := newFaultStore(work)
	var img *memory.Database
	store.hook = func(_ int, s *faultStore) {
		if img != nil {
			return
		}
		if bucketEmpty(s.Database, db.DeprecatedContractStorageHistory) && bucketEmpty(s.Database, db.DeprecatedContractNonceHistory) &&
			bucketEmpty(s.Database, db.DeprecatedContractClassHashHistory) && !bucketEmpty(s.Database, db.Temporary) {
			img = s.image()
		}
	}
	reg, _ := fullRegistry(true, false, fs.retained(), func(_ int, m migration.Migration) migration.Migration { return m })
	runner, err := migration.NewRunner(reg, store, &networks.Sepolia, log.NewNopZapLogger())
	if err != nil || hungOnce.Load() {
		return
	}
	var runErr error
	if !store.runWatched(8*time.Second, 180*time.Second, func() { runErr = runner.Run(context.Background()) }) {
		hungOnce.Store(true)
		return
	}
	h.res.Case(family+"|pruner-restore-crash|"+fs.Chain.Layout, true)
	if runErr != nil || img == nil {
		h.res.Hit("pruner-restore-image:none")
		return
	}
	h.res.Hit("pruner-restore-image")
	o := realFullStart(img, fs, fullStart{Prune: true})
	rp := prunerReplay{fs, "upgrade with prune-mode; image after the first commit that leaves the live history buckets (14,15,16) empty and the scratch namespace populated; restart the upgrade on that image"}
	if o.hang {
		h.res.Violate(lib.Violation{Sig: "upgrade-hangs", What: "restart after death in the pruner's restore phase does not return", Replay: rp})
		return
	}
	if o.result != "ok" {
		msg := ""
		for i, ob := range o.obs {
			if ob.errKind == "o" {
				msg = fmt.Sprintf("migration %d: %s", i, ob.errText)
			}
		}
		h.res.Hit("oracle:historyprunner-rerun-fails-after-death-in-restore-phase")
		h.res.Violate(lib.Violation{Sig: "historyprunner-rerun-fails-after-death-in-restore-phase",
			What: "the process died while the history pruner was restoring the kept history from its scratch copy (live history buckets already wiped); " +
				"every later start fails: " + msg, Replay: rp})
		return
	}
	tw := realFullStart(d0, fs, fullStart{Prune: true})
	if same, why := sameDump(dump(o.after), dump(tw.after)); !same {
		h.res.Violate(lib.Violation{Sig: "upgrade-final-db-differs-from-undisturbed-upgrade", What: "after death in the pruner's restore phase: " + why, Replay: rp})
	}
	h.checkFullFinal(fullHistory{Spec: fs}, o.after, true, false, nil, fs.retained())
}

// ---- statedifflength: every observed Migrate call must be a transition of the Lean model -------

// sdlAbstract renders the chain as `<records present>:<|state diff|>:<stored StateDiffLength>` per block.
func sdlAbstract(d db.KeyValueReader, height uint64) []string {
	out := make([]string, height+1)
	for b := uint64(0); b <= height; b++ {
		bc, err1 := core.GetBlockCommitmentByBlockNum(d, b)
		su, err2 := core.GetStateUpdateByBlockNum(d, b)
		if err1 != nil || err2 != nil || su.StateDiff == nil {
			out[b] = "0:0:0"
			continue
		}
		out[b] = fmt.Sprintf("1:%d:%d", su.StateDiff.Length(), bc.StateDiffLength)
	}
	return out
}

func (h *harness) compareSDL(hist fullHistory, si int, o fullOutcome) {
	if o.sdlPre == nil || o.sdlPost == nil || hist.Spec.Chain.NoHeight {
		return
	}
	h.sdlTransition(sdlObs{o.sdlNext, o.sdlPre, o.sdlPost, o.sdlRet, o.failedWrites > 0 || o.failedReads > 0}, map[string]any{"history": hist, "start": si})
}

type sdlObs struct {
	sdlNext         uint64
	sdlPre, sdlPost []string
	sdlRet          string
	wfail           bool
}

func (h *harness) sdlTransition(o sdlObs, input map[string]any) {
	hist := input
	height := len(o.sdlPre) - 1
	if a := h.bt.ask(fmt.Sprintf("sdl.set %d %s", height, strings.Join(o.sdlPre, " "))); a != "ok" {
		h.res.Mismatch(lib.Mismatch{Sig: "sdl.set-rejected", Model: a})
		return
	}
	// start = max(checkpoint, oldest retained)
	start := int(o.sdlNext)
	for b, t := range o.sdlPre {
		if strings.HasPrefix(t, "1:") {
			if b > start {
				start = b
			}
			break
		}
	}
	tok := "P"
	switch {
	case o.sdlRet == "crashed":
		bits := []byte{}
		for b := start; b <= height; b++ {
			if o.sdlPre[b] != o.sdlPost[b] {
				for len(bits) < b-start {
					bits = append(bits, '0')
				}
				bits = append(bits, '1')
			}
		}
		if len(bits) == 0 {
			bits = []byte{'-'}
		}
		tok = "C*:" + string(bits)
	case strings.HasPrefix(o.sdlRet, "rerun:"):
		var n int
		fmt.Sscanf(o.sdlRet, "rerun:%d", &n)
		tok = fmt.Sprintf("P%d", n-start)
	case o.sdlRet == "failed" && o.wfail:
		bits := []byte{}
		for b := start; b <= height; b++ {
			if o.sdlPre[b] != o.sdlPost[b] {
				for len(bits) < b-start {
					bits = append(bits, '0')
				}
				bits = append(bits, '1')
			}
		}
		if len(bits) == 0 {
			bits = []byte{'-'}
		}
		tok = "W*:" + string(bits)
	}
	ans := h.bt.ask(fmt.Sprintf("sdl.migrate %d %s", o.sdlNext, tok))
	h.res.Compared(1)
	h.res.Hit("sdl-transition:" + strings.SplitN(o.sdlRet, ":", 2)[0])
	want := o.sdlRet + " " + strings.Join(o.sdlPost, " ")
	if ans != want {
		h.res.Mismatch(lib.Mismatch{Sig: "statedifflength-transition-not-allowed-by-model", Input: map[string]any{
			"case": hist, "checkpoint": o.sdlNext, "pre": o.sdlPre, "step": tok}, Model: ans, Impl: want})
	}
	// oracle on the real code: a returned checkpoint never runs ahead of the committed blocks
	if strings.HasPrefix(o.sdlRet, "rerun:") {
		var n int
		fmt.Sscanf(o.sdlRet, "rerun:%d", &n)
		for b := 0; b < n && b <= height; b++ {
			f := strings.Split(o.sdlPost[b], ":")
			if f[0] == "1" && f[1] != f[2] {
				h.res.Violate(lib.Violation{Sig: "statedifflength-checkpoint-ahead-of-committed-blocks",
					What:   fmt.Sprintf("Migrate returned checkpoint %d but block %d still has StateDiffLength %s (state diff has %s entries)", n, b, f[2], f[1]),
					Replay: hist})
				break
			}
		}
	}
}

// ---- headstate: every observed Migrate call must be a transition of the Lean model -------------

func sortedContractAddrs(seed uint64, n int) []*felt.Felt {
	out := make([]*felt.Felt, n)
	for i := range out {
		out[i] = contractAddr(seed, i)
	}
	sort.Slice(out, func(i, j int) bool { return out[i].Cmp(out[j]) < 0 })
	return out
}

// hsAbstract renders the contracts (in key order of the ContractClassHash bucket) as
// `<class hash|x>:<nonce|x>:<deploy height|x>:<x | nonce,class,height of the Contract record>`.
func hsAbstract(d db.KeyValueReader, seed uint64, n int) []string {
	addrs := sortedContractAddrs(seed, n)
	out := make([]string, n)
	u := func(f felt.Felt) string { return fmt.Sprint(f.Uint64()) }
	for i, a := range addrs {
		c, nn, hh, ct := "x", "x", "x", "x"
		if v, err := core.GetContractClassHash(d, a); err == nil {
			c = u(v)
		}
		if v, err := core.GetContractNonce(d, a); err == nil {
			nn = u(v)
		}
		if v, err := core.GetContractDeploymentHeight(d, a); err == nil {
			hh = fmt.Sprint(v)
		}
		if r, err := state.GetContract(d, a); err == nil {
			ct = fmt.Sprintf("%s,%s,%d", u(r.Nonce), u(r.ClassHash), r.DeployedHeight)
		}
		out[i] = c + ":" + nn + ":" + hh + ":" + ct
	}
	return out
}

func (h *harness) compareHS(hist fullHistory, si int, o fullOutcome) {
	h.hsTransition(hsObs{o.hsPre, o.hsPost, o.hsRet}, map[string]any{"history": hist, "start": si})
}

type hsObs struct {
	hsPre, hsPost []string
	hsRet         string
}

func (h *harness) hsTransition(o hsObs, hist map[string]any) {
	if o.hsPre == nil || o.hsPost == nil || len(o.hsPre) == 0 {
		return
	}
	if a := h.bt.ask("hs.set " + strings.Join(o.hsPre, " ")); a != "ok" {
		h.res.Mismatch(lib.Mismatch{Sig: "hs.set-rejected", Model: a})
		return
	}
	// rank of the pending addresses and which of them changed
	bits := []byte{}
	rank, hi := 0, 0
	wiped := 0
	for i := range o.hsPre {
		f0, f1 := strings.Split(o.hsPre[i], ":"), strings.Split(o.hsPost[i], ":")
		if f0[0] != "x" {
			b := byte('0')
			if f0[3] != f1[3] {
				b = '1'
				hi = rank + 1
			}
			bits = append(bits, b)
			rank++
		}
		for k := 0; k < 3; k++ {
			if f0[k] != "x" && f1[k] == "x" && k+1 > wiped {
				wiped = k + 1
			}
		}
	}
	bs := string(bits)
	if bs == "" {
		bs = "-"
	}
	var toks []string
	switch o.hsRet {
	case "done":
		toks = []string{"P"}
	case "rerun":
		toks = []string{fmt.Sprintf("P%d", hi)}
	case "failed":
		if wiped > 0 || hi == rank {
			toks = []string{fmt.Sprintf("Y%d", wiped), "W*:" + bs}
		} else {
			toks = []string{"W*:" + bs}
		}
	case "crashed":
		toks = []string{"C*:" + bs}
		if wiped > 0 || hi == rank {
			toks = []string{fmt.Sprintf("X%d", wiped), "C*:" + bs, "P"}
		}
	}
	want := strings.Join(o.hsPost, " ")
	h.res.Compared(1)
	h.res.Hit("hs-transition:" + o.hsRet)
	if o.hsRet == "failed" {
		// a database the migration refuses (a deprecated field missing): the model refuses it too
		h.bt.ask("hs.set " + strings.Join(o.hsPre, " "))
		if f := strings.SplitN(h.bt.ask("hs.migrate P"), " ", 2); f[0] == "failed" {
			h.res.Hit("hs-refusal-agrees-with-model")
			return
		}
	}
	var last string
	for _, tok := range toks {
		h.bt.ask("hs.set " + strings.Join(o.hsPre, " "))
		ans := h.bt.ask("hs.migrate " + tok)
		last = ans
		f := strings.SplitN(ans, " ", 2)
		if len(f) == 2 && f[1] == want && (f[0] == o.hsRet || (o.hsRet == "crashed" && tok == "P")) {
			return
		}
	}
	h.res.Mismatch(lib.Mismatch{Sig: "headstate-transition-not-allowed-by-model", Input: map[string]any{
		"case": hist, "pre": o.hsPre, "steps": toks}, Model: last, Impl: o.hsRet + " " + want})
}

// pruneBoundaryFamilies: prune-mode at the boundaries of its configuration — the pivot (min(L1 head,
// height)) below / equal to / above retainedBlocks, the L1 head above the chain, empty blocks inside
// the kept window and below the first block-transactions pass, prune-mode enabled only after the
// upgrade completed without it, retainedBlocks changed between restarts, failing writes.
func (h *harness) pruneBoundaryFamilies() {
	dense := func(n int) chainSpec {
		return chainSpec{Seed: 9, Counts: repeatInt(2, n), Layout: strings.Repeat("o", n)}
	}
	und := []fullStart{{Prune: true, HeadState: true}}
	// pivot = height-2 against retained = 4: heights 5,6,7,8 ; retained 1 and 0-equivalents; L1 head above the tip
	for _, n := range []int{3, 6, 7, 8, 9, 12} {
		for _, ret := range []int{1, 4} {
			h.fullHistoryCase(fullHistory{Spec: fullSpec{Chain: dense(n), Contracts: 3, Prunable: true, Retained: ret}, Starts: und}, "prune-boundary")
		}
	}
	for _, l1 := range []uint64{0, 3, 4, 5, 9, 30} {
		l := l1
		h.fullHistoryCase(fullHistory{Spec: fullSpec{Chain: dense(10), Contracts: 2, Prunable: true, L1Head: &l}, Starts: und}, "prune-l1head")
	}
	// empty blocks: below the aligned first block with transactions, a whole empty aligned range, and sparse
	for _, lay := range []struct {
		counts []int
	}{
		{append(repeatInt(0, 20), repeatInt(2, 4)...)},
		{append(append(repeatInt(1, 10), repeatInt(0, 10)...), repeatInt(1, 6)...)},
		{append(repeatInt(1, 20), 0, 0, 1, 0, 1, 1)},
	} {
		layout := make([]byte, len(lay.counts))
		for i, c := range lay.counts {
			layout[i] = 'o'
			if c == 0 {
				layout[i] = '-'
			}
		}
		fs := fullSpec{Chain: chainSpec{Seed: 9, Counts: lay.counts, Layout: string(layout)}, Contracts: 3, Prunable: true}
		h.fullHistoryCase(fullHistory{Spec: fs, Starts: und}, "prune-empty-blocks")
		h.fullHistoryCase(fullHistory{Spec: fs, Starts: []fullStart{{HeadState: true}, {Prune: true, HeadState: true}}}, "prune-empty-blocks-later")
	}
	// prune-mode switched on after the upgrade completed without it; with interruptions of the pruner
	pr := fullSpec{Chain: dense(20), Contracts: 2, Prunable: true}
	h.fullHistoryCase(fullHistory{Spec: pr, Starts: []fullStart{{HeadState: true}, {Prune: true, HeadState: true}}}, "prune-later")
	for k := 1; k <= 40; k += h.f.Scale(5, 1) {
		h.fullHistoryCase(fullHistory{Spec: pr, Starts: []fullStart{{HeadState: true}, {Prune: true, HeadState: true, Inflate: true, CrashAt: k}}}, "prune-later-crash")
		h.fullHistoryCase(fullHistory{Spec: pr, Starts: []fullStart{{HeadState: true}, {Prune: true, HeadState: true, Inflate: true, CancelAt: k}}}, "prune-later-cancel")
		// retainedBlocks changed after an interrupted prune
		h.fullHistoryCase(fullHistory{Spec: pr, Starts: []fullStart{{Prune: true, HeadState: true, Inflate: true, CancelAt: 30 + k}, {Prune: true, HeadState: true, Retained: 9}}}, "prune-retained-changed-after-cancel")
		h.fullHistoryCase(fullHistory{Spec: pr, Starts: []fullStart{{Prune: true, HeadState: true, Inflate: true, CrashAt: 30 + k}, {Prune: true, HeadState: true, Retained: 9}}}, "prune-retained-changed-after-crash")
		h.fullHistoryCase(fullHistory{Spec: pr, Starts: []fullStart{{Prune: true, HeadState: true, Inflate: true, FailAt: 30 + k}}}, "prune-writefail")
		// … and with a retention above the pivot ("nothing to prune") after a dead run
		h.fullHistoryCase(fullHistory{Spec: pr, Starts: []fullStart{{Prune: true, HeadState: true, Inflate: true, CrashAt: 30 + k}, {Prune: true, HeadState: true, Retained: 19}}}, "prune-retained-above-pivot-after-crash")
	}
}

// classifyUpgradeFailure attributes a start that returned an error without being interrupted itself
// to its cause.
func classifyUpgradeFailure(o fullOutcome, retentionChanged, disturbedBefore bool) (sig, msg string) {
	msg = "an undisturbed start returns an error"
	for i, ob := range o.obs {
		if ob.errKind == "o" {
			msg += fmt.Sprintf(" (migration %d failed: %s)", i, ob.errText)
		}
	}
	sig = "upgrade-fails-after-interruption"
	if !disturbedBefore {
		sig = "upgrade-fails-undisturbed"
		msg = "no interruption anywhere in the history: " + msg
	}
	if ob := o.obs[1]; ob != nil && ob.errKind == "o" {
		switch {
		case strings.Contains(ob.errText, "running stager") && strings.Contains(ob.errText, "history at block"):
			// the defect demonstrated deterministically by prunerRestoreCrash
			sig = "historyprunner-rerun-fails-after-death-in-restore-phase"
		case strings.Contains(ob.errText, "setting up before restorer") && strings.Contains(ob.errText, "18446744073709551615"):
			// cutoff 0 (pivot == retainedBlocks): oldestBlockKept-1 underflows after the prune and the
			// wipe of the reverse-lookup buckets were committed
			sig = "historyprunner-floor-zero-underflows-restorer-setup"
		case strings.Contains(ob.errText, "running stager") && strings.Contains(ob.errText, "load state update for block") && retentionChanged:
			// the cutoff committed by an earlier (dead) run is not persisted; a restart with a larger
			// retainedBlocks recomputes a lower cutoff and stages blocks that are already pruned
			sig = "historyprunner-restart-recomputes-cutoff-below-pruned-prefix"
		case strings.Contains(ob.errText, "rebuild tx indices") && strings.Contains(ob.errText, "key not found"):
			// a kept block without a combined entry (an empty block the block-transactions
			// migration left without one): the restorer fails after wiping the live history
			sig = "historyprunner-restorer-fails-on-unstored-empty-block"
		}
	}
	return sig, msg
}

// ---- history pruner: the cutoff decision against its Lean model ---------------------------------

func oldestRetained(d *memory.Database) uint64 {
	if d == nil {
		return 0
	}
	o, err := pruner.OldestRetainedBlock(d)
	if err != nil {
		return 0
	}
	return o
}

// pruneCutoffGrid: dense prunable chains over a grid of heights x retainedBlocks x L1-head positions,
// one undisturbed start with prune-mode each, plus restarts on a database a dead run already pruned,
// with another retention. The cutoff the real pruner pruned to (or its refusal to prune, or its
// failure) must be what the model's `cutoff` / `setupOk` say (the model is the current tree: a regression of
// 322dd0d / dfe482d shows up as a mismatch here and as a violation in the families on the same inputs).
func (h *harness) pruneCutoffGrid() {
	dense := func(n int) chainSpec {
		return chainSpec{Seed: 9, Counts: repeatInt(2, n), Layout: strings.Repeat("o", n)}
	}
	run := func(fs fullSpec, d *memory.Database, ret int) (fullOutcome, uint64) {
		o := realFullStart(d, fs, fullStart{Prune: true, Retained: ret})
		return o, oldestRetained(o.after)
	}
	mkPruned := func(fs fullSpec, upto uint64) (*memory.Database, error) {
		d, err := fs.build()
		if err != nil {
			return nil, err
		}
		// blocktransactions etc. applied first, as the registry order demands
		o := realFullStart(d, fs, fullStart{})
		if o.result != "ok" {
			return nil, fmt.Errorf("upgrade without prune-mode: %s", o.result)
		}
		if err := pruner.PruneBlockDataUpto(o.after, upto); err != nil {
			return nil, err
		}
		return o.after, nil
	}
	check := func(fs fullSpec, d *memory.Database, ret int, prunedBefore uint64, what string) {
		height := fs.Chain.height()
		l1, _ := fs.l1Head()
		o, floor := run(fs, d, ret)
		ans := h.bt.ask(fmt.Sprintf("pr.cutoff %d %d %d %d x", height, l1, ret, prunedBefore))
		h.res.Compared(1)
		h.res.Case(fmt.Sprintf("prune-cutoff|%d|%d|%d|%d", height, l1, ret, prunedBefore), true)
		var impl string
		switch {
		case o.hang:
			impl = "hang"
		case o.result != "ok":
			impl = "fails"
		case floor == prunedBefore:
			impl = "unchanged"
		default:
			impl = fmt.Sprintf("%d", floor)
		}
		var want string
		f := strings.Fields(ans)
		switch {
		case ans == "none":
			want = "unchanged"
		case len(f) == 2 && f[1] == "fails":
			want = "fails"
		case len(f) == 2 && f[0] == fmt.Sprint(prunedBefore):
			want = "unchanged"
		case len(f) == 2:
			want = f[0]
		default:
			want = "?" + ans
		}
		h.res.Hit("prune-cutoff:" + map[bool]string{true: "agree", false: "DIFFER"}[want == impl] + ":" + strings.TrimLeft(want, "0123456789"))
		if want != impl {
			h.res.Mismatch(lib.Mismatch{Sig: "historyprunner-cutoff-differs-from-model", Input: map[string]any{"spec": fs, "retained": ret, "prunedBefore": prunedBefore, "what": what},
				Model: ans, Impl: impl})
		}
		// the failures are reported (with their own sigs) by fullHistoryCase on the same inputs
		if impl == "fails" && prunedBefore == 0 {
			h.fullHistoryCase(fullHistory{Spec: fs, Starts: []fullStart{{Prune: true, Retained: ret}}}, "prune-cutoff-fails")
		}
	}
	for _, n := range []int{1, 2, 3, 5, 6, 7, 8, 11, 14} {
		for _, ret := range []int{1, 4, 8} {
			for _, l1 := range []int{0, n - 3, n - 1, n + 4} {
				if l1 < 0 {
					continue
				}
				l := uint64(l1)
				fs := fullSpec{Chain: dense(n), Contracts: 1, Prunable: true, L1Head: &l, Retained: ret}
				d, err := fs.build()
				if err != nil {
					h.res.Fatalf("pruner grid fixture does not build: %v", err)
					return
				}
				check(fs, d, ret, 0, "fresh database")
			}
		}
	}
	for _, upto := range []uint64{3, 14} {
		for _, ret := range []int{2, 4, 9, 15, 19} {
			fs := fullSpec{Chain: dense(20), Prunable: true}
			d, err := mkPruned(fs, upto)
			if err != nil {
				h.res.Fatalf("pruner grid fixture does not build: %v", err)
				return
			}
			check(fs, d, ret, upto, "database already pruned by a dead run")
		}
	}
}

// ---- history pruner: stale resume token + death between the pruner's last commit and the runner's --

// prunerStaleTokenCrash: (A) a start with prune-mode is cancelled while the pruner is staging: the
// runner saves the pruner's resume token (stager progress N, restorer 0, pinned cutoff). (B) the next
// start finishes the pruner — its last commit wipes the scratch namespace — and the process dies
// before the runner's own commit (applied bit + token deletion). The image after the scratch wipe
// is found by watching the store (independent of scheduling). (C) restart on that image: the final
// database must be the one of an undisturbed upgrade.
func (h *harness) prunerStaleTokenCrash(fs fullSpec, family string) {
	d0, err := fs.build()
	if err != nil {
		h.res.Fatalf("fixture does not build: %v", err)
		return
	}
	height := fs.Chain.height()
	// (A) find a cancellation point that leaves a stager-phase token
	var dA *memory.Database
	for k := 1; k <= 300 && dA == nil; k++ {
		o := realFullStart(d0, fs, fullStart{Prune: true, Inflate: true, CancelAt: k})
		if o.hang {
			return
		}
		if ob := o.obs[1]; ob != nil && len(ob.st) == 24 && !o.crashed {
			stager := binary.BigEndian.Uint64(ob.st[0:8])
			restorer := binary.BigEndian.Uint64(ob.st[8:16])
			cut := binary.BigEndian.Uint64(ob.st[16:24])
			if restorer == 0 && stager > cut+1 && stager <= height {
				dA = o.after
			}
		}
		if o.result == "ok" && !o.crashed {
			break
		}
	}
	if dA == nil {
		h.res.Fatalf("%s: no cancellation point leaves a stager-phase resume token of the pruner", family)
		return
	}
	// (B) finish the pruner, image right after its scratch wipe while the token is still stored
	work := dA.Copy()
	store := newFaultStore(work)
	var img *memory.Database
	scratchSeen := false
	store.hook = func(_ int, s *faultStore) {
		if img != nil {
			return
		}
		empty := bucketEmpty(s.Database, db.Temporary)
		if !empty {
			scratchSeen = true
		}
		if _, terr := migration.GetIntermediateState(s.Database, 1); scratchSeen && empty && terr == nil {
			if md, merr := migration.GetSchemaMetadata(s.Database); merr == nil && !md.CurrentVersion.Has(1) {
				img = s.image()
			}
		}
	}
	reg, _ := fullRegistry(true, false, fs.retained(), func(_ int, m migration.Migration) migration.Migration { return m })
	runner, err := migration.NewRunner(reg, store, &networks.Sepolia, log.NewNopZapLogger())
	if err != nil || hungOnce.Load() {
		h.res.Fatalf("%s: runner on the cancelled database: %v", family, err)
		return
	}
	if !store.runWatched(8*time.Second, 180*time.Second, func() { _ = runner.Run(context.Background()) }) {
		hungOnce.Store(true)
		return
	}
	h.res.Case(family+"|pruner-stale-token|"+fs.Chain.Layout, true)
	if img == nil {
		h.res.Fatalf("%s: no image 'scratch wiped, token still stored, bit unset' was seen", family)
		return
	}
	h.res.Hit("pruner-stale-token-image")
	// (C) restart
	o := realFullStart(img, fs, fullStart{Prune: true})
	tw := realFullStart(d0, fs, fullStart{Prune: true})
	rp := prunerReplay{fs, "prune-mode upgrade cancelled while the pruner is staging (token saved); next start finishes the pruner and dies right after its last commit (scratch wiped) before the runner's commit; restart"}
	if o.hang || tw.result != "ok" {
		h.res.Fatalf("%s: restart hangs or the undisturbed upgrade fails (%s)", family, tw.result)
		return
	}
	if o.result != "ok" {
		sig, msg := classifyUpgradeFailure(o, false, true)
		if sig == "upgrade-fails-after-interruption" {
			sig = "historyprunner-stale-resume-token-after-death-before-apply"
		}
		h.res.Hit("oracle:" + sig)
		h.res.Violate(lib.Violation{Sig: sig, What: "restart on the image fails: " + msg, Replay: rp})
		return
	}
	// correspondence: the set of blocks that lose history entries is the one Pruner.finish gives (token and disk read off the image)
	{
		tok, _ := migration.GetIntermediateState(img, 1)
		stager, cut := binary.BigEndian.Uint64(tok[0:8]), binary.BigEndian.Uint64(tok[16:24])
		want, have, live := historyBlocks(dump(tw.after)), historyBlocks(dump(o.after)), historyBlocks(dump(img))
		var lost []uint64
		for b := range want {
			if !have[b] {
				lost = append(lost, b)
			}
		}
		sort.Slice(lost, func(i, j int) bool { return lost[i] < lost[j] })
		var liveL []uint64
		for b := range live {
			liveL = append(liveL, b)
		}
		sort.Slice(liveL, func(i, j int) bool { return liveL[i] < liveL[j] })
		show := func(l []uint64) string {
			if len(l) == 0 {
				return "-"
			}
			p := make([]string, len(l))
			for i, b := range l {
				p[i] = fmt.Sprint(b)
			}
			return strings.Join(p, ",")
		}
		restrict := func(ans string) string { // model answer restricted to blocks that have history at all
			var l []uint64
			if ans != "-" {
				for _, f := range strings.Split(ans, ",") {
					if b, perr := strconv.ParseUint(f, 10, 64); perr == nil && want[b] {
						l = append(l, b)
					}
				}
			}
			return show(l)
		}
		m1 := restrict(h.bt.ask(fmt.Sprintf("pr.finish %d %d %d 0 %s -", cut, height, stager, show(liveL))))
		h.res.Compared(1)
		if got := show(lost); got != m1 {
			h.res.Mismatch(lib.Mismatch{Sig: "pruner-finish-lost-blocks-differ", Impl: got, Model: m1,
				Input: fmt.Sprintf("cutoff %d height %d token stager %d live %s", cut, height, stager, show(liveL))})
		} else {
			h.res.Hit("pruner-finish:agree")
		}
	}
	if same, why := sameDumpModuloEmpty(fs.Chain, dump(o.after), dump(tw.after)); !same {
		h.res.Hit("oracle:historyprunner-stale-resume-token-after-death-before-apply")
		h.res.Violate(lib.Violation{Sig: "historyprunner-stale-resume-token-after-death-before-apply",
			What: "the restart resumes the stager from the stale token (blocks below it are not restaged although the scratch copies are gone), " +
				"wipes the live history again and restores only what is in the scratch namespace: kept history entries are lost (" + why + ")",
			Replay: rp})
	}
}

// prunerTokenStale: the database holds a stager-phase resume token of the history pruner (stager
// progress above the pinned cutoff, restorer not started), the migration is not recorded as applied,
// and the scratch namespace is empty: the copies the token speaks of do not exist (any more).
func prunerTokenStale(d *memory.Database) bool {
	st, err := migration.GetIntermediateState(d, 1)
	if err != nil || len(st) != 24 {
		return false
	}
	md, err := migration.GetSchemaMetadata(d)
	if err != nil || md.CurrentVersion.Has(1) {
		return false
	}
	stager, restorer, cut := binary.BigEndian.Uint64(st[0:8]), binary.BigEndian.Uint64(st[8:16]), binary.BigEndian.Uint64(st[16:24])
	return restorer == 0 && stager > cut && bucketEmpty(d, db.Temporary)
}

// onlyHistoryEntriesMissing: got differs from want only by missing entries of the three deprecated
// state-history buckets (want has them, got does not), empty-block records aside.
func onlyHistoryEntriesMissing(got, want map[string]string, c chainSpec) bool {
	hb := map[byte]bool{byte(db.DeprecatedContractStorageHistory): true, byte(db.DeprecatedContractNonceHistory): true, byte(db.DeprecatedContractClassHashHistory): true}
	g2 := map[string]string{}
	for k, v := range got {
		g2[k] = v
	}
	missing := 0
	for k, v := range want {
		if _, ok := got[k]; !ok && len(k) > 0 && hb[k[0]] {
			g2[k] = v
			missing++
		}
	}
	same, _ := sameDumpModuloEmpty(c, g2, want)
	return same && missing > 0
}

// historyBlocks: the blocks that have at least one entry in the three deprecated state-history buckets
// (the block number is the last 8 bytes of the key).
func historyBlocks(d map[string]string) map[uint64]bool {
	out := map[uint64]bool{}
	for k := range d {
		if len(k) < 9 {
			continue
		}
		switch db.Bucket(k[0]) {
		case db.DeprecatedContractStorageHistory, db.DeprecatedContractNonceHistory, db.DeprecatedContractClassHashHistory:
			out[binary.BigEndian.Uint64([]byte(k[len(k)-8:]))] = true
		}
	}
	return out
}
