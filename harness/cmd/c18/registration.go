//go:build verif

package main

import (
	"fmt"
	"go/ast"
	"go/parser"
	"go/printer"
	"go/token"
	"os"
	"path/filepath"
	"strings"

	"verif/harness/lib"
)

// node/migration.go cannot be linked into the harness (package node pulls in jemalloc), so its
// registration glue is tied at source level: registerMigrations must register, in this order,
// exactly the migrations the whole-upgrade scenario registers (fullRegistry) — the index of a
// migration is the bit that existing databases carry for it, so inserting, removing or reordering
// entries silently changes the meaning of every stored CurrentVersion / LastTargetVersion.
// Appending new migrations at the end is fine.
var pinnedRegistration = []string{
	"With blocktransactions",
	"WithOptional historyprunner cfg.Prune PruneModeFlag",
	"WithOptional headstate cfg.NewState \"new-state\"",
	"With statedifflength",
}

func exprString(fset *token.FileSet, e ast.Expr) string {
	var sb strings.Builder
	_ = printer.Fprint(&sb, fset, e)
	return sb.String()
}

// pkgOf returns the package qualifier of the migration constructor / literal in e.
func pkgOf(e ast.Expr) string {
	switch v := e.(type) {
	case *ast.UnaryExpr:
		return pkgOf(v.X)
	case *ast.CompositeLit:
		return pkgOf(v.Type)
	case *ast.CallExpr:
		return pkgOf(v.Fun)
	case *ast.SelectorExpr:
		if id, ok := v.X.(*ast.Ident); ok {
			return id.Name
		}
	}
	return "?"
}

func (h *harness) registrationTie() {
	repo := os.Getenv("VERIF_REPO")
	if repo == "" {
		repo = "/repo"
	}
	path := filepath.Join(repo, "node", "migration.go")
	fset := token.NewFileSet()
	f, err := parser.ParseFile(fset, path, nil, 0)
	if err != nil {
		h.res.Mismatch(lib.Mismatch{Sig: "registration-source-unreadable", Input: path, Impl: err.Error()})
		return
	}
	var got []string
	var deprecatedPos, runnerPos token.Pos
	ast.Inspect(f, func(n ast.Node) bool {
		fd, ok := n.(*ast.FuncDecl)
		if !ok {
			return true
		}
		switch fd.Name.Name {
		case "registerMigrations":
			// the chain NewRegistry().With(..).WithOptional(..)… is nested innermost-first
			var chain []string
			ast.Inspect(fd, func(m ast.Node) bool {
				c, ok := m.(*ast.CallExpr)
				if !ok {
					return true
				}
				sel, ok := c.Fun.(*ast.SelectorExpr)
				if !ok || (sel.Sel.Name != "With" && sel.Sel.Name != "WithOptional") || len(c.Args) == 0 {
					return true
				}
				e := sel.Sel.Name + " " + pkgOf(c.Args[0])
				for _, a := range c.Args[1:] {
					e += " " + exprString(fset, a)
				}
				chain = append(chain, e)
				return true
			})
			for i := len(chain) - 1; i >= 0; i-- { // outermost call is visited first = registered last
				got = append(got, chain[i])
			}
		case "migrateIfNeeded":
			ast.Inspect(fd, func(m ast.Node) bool {
				if c, ok := m.(*ast.CallExpr); ok {
					switch exprString(fset, c.Fun) {
					case "deprecated.MigrateIfNeeded":
						deprecatedPos = c.Pos()
					case "migration.NewRunner":
						runnerPos = c.Pos()
					}
				}
				return true
			})
		}
		return true
	})
	h.res.Compared(1)
	h.res.Case("registration", true)
	h.res.HitN("registration-entries", len(got))
	for i, want := range pinnedRegistration {
		if i >= len(got) || got[i] != want {
			g := "<missing>"
			if i < len(got) {
				g = got[i]
			}
			h.res.Violate(lib.Violation{Sig: "registration-order-changes-meaning-of-applied-bits",
				What: fmt.Sprintf("node/migration.go registerMigrations: index %d is %q, databases in the field carry bit %d for %q "+
					"(an applied or opted-into migration would be taken for another one)", i, g, i, want),
				Replay: map[string]any{"got": got, "pinned": pinnedRegistration}})
			return
		}
	}
	if len(got) > len(pinnedRegistration) {
		h.res.Hit("registration-appended-entries")
		h.res.Fatalf("node/migration.go registers %d migrations (%v), the whole-upgrade scenario knows %d: the new ones are not exercised by this check — extend fullRegistry and pinnedRegistration", len(got), got[len(pinnedRegistration):], len(pinnedRegistration))
	}
	if deprecatedPos == token.NoPos || runnerPos == token.NoPos || deprecatedPos > runnerPos {
		h.res.Violate(lib.Violation{Sig: "deprecated-migrations-not-run-before-schema-runner",
			What:   "node/migration.go migrateIfNeeded must run deprecated.MigrateIfNeeded before migration.NewRunner (the schema migrations assume the last deprecated layout)",
			Replay: map[string]any{"file": path}})
	}
}
