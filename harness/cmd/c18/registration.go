//go:build verif

package main

import (
	"fmt"
	"go/ast"
	"go/parser"
	"go/printer"
	"go/token"
	"os"
	"path/filepath"
	"strings"

	"verif/harness/lib"
)

// node/migration.go cannot be linked into the harness (package node pulls in jemalloc), so its
// registration glue is tied at source level: registerMigrations must register, in this order,
// exactly the migrations the whole-upgrade scenario registers (fullRegistry) — the index of a
// migration is the bit that existing databases carry for it, so inserting, removing or reordering
// entries silently changes the meaning of every stored CurrentVersion / LastTargetVersion.
// Appending new migrations at the end is fine.
var pinnedRegistration = []string{
	"With blocktransactions",
	"WithOptional historyprunner cfg.Prune PruneModeFlag",
	"WithOptional headstate cfg.NewState \"new-state\"",
	"With statedifflength",
}

func exprString(fset *token.FileSet, e ast.Expr) string {
	var sb strings.Builder
	_ = printer.Fprint(&sb, fset, e)
	return sb.String()
}

// pkgOf returns the package qualifier of the migration constructor / literal in e.
func pkgOf(e ast.Expr) string {
	switch v := e.(type) {
	case *ast.UnaryExpr:
		return pkgOf(v.X)
	case *ast.CompositeLit:
		return pkgOf(v.Type)
	case *ast.CallExpr:
		return pkgOf(v.Fun)
	case *ast.SelectorExpr:
		if id, ok := v.X.(*ast.Ident); ok {
			return id.Name
		}
	}
	return "?"
}

func (h *harness) registrationTie() {
	repo := os.Getenv("VERIF_REPO")
	if repo == "" {
		repo = "/repo"
	}
	path := filepath.Join(repo, "node", "migration.go")
	fset := token.NewFileSet()
	f, err := parser.ParseFile(fset, path, nil, 0)
	if err != nil {
		h.res.Mismatch(lib.Mismatch{Sig: "registration-source-unreadable", Input: path, Impl: err.Error()})
		return
	}
	var got []string
	var deprecatedPos, runnerPos token.Pos
	ast.Inspect(f, func(n ast.Node) bool {
		fd, ok := n.(*ast.FuncDecl)
		if !ok {
			return true
		}
		switch fd.Name.Name {
		case "registerMigrations":
			// the chain NewRegistry().With(..).WithOptional(..)… is nested innermost-first
			var chain []string
			ast.Inspect(fd, func(m ast.Node) bool {
				c, ok := m.(*ast.CallExpr)
				if !ok {
					return true
				}
				sel, ok := c.Fun.(*ast.SelectorExpr)
				if !ok || (sel.Sel.Name != "With" && sel.Sel.Name != "WithOptional") || len(c.Args) == 0 {
					return true
				}
				e := sel.Sel.Name + " " + pkgOf(c.Args[0])
				for _, a := range c.Args[1:] {
					e += " " + exprString(fset, a)
				}
				chain = append(chain, e)
				return true
			})
			for i := len(chain) - 1; i >= 0; i-- { // outermost call is visited first = registered last
				got = append(got, chain[i])
			}
		case "migrateIfNeeded":
			ast.Inspect(fd, func(m ast.Node) bool {
				if c, ok := m.(*ast.CallExpr); ok {
					switch exprString(fset, c.Fun) {
					case "deprecated.MigrateIfNeeded":
						deprecatedPos = c.Pos()
					case "migration.NewRunner":
						runnerPos = c.Pos()
					}
				}
				return true
			})
		}
		return true
	})
	h.res.Compared(1)
	h.res.Case("registration", true)
	h.res.HitN("registration-entries", len(got))
	for i, want := range pinnedRegistration {
		if i >= len(got) || got[i] != want {
			g := "<missing>"
			if i < len(got) {
				g = got[i]
			}
			h.res.Violate(lib.Violation{Sig: "registration-order-changes-meaning-of-applied-bits",
				What: fmt.Sprintf("node/migration.go registerMigrations: index %d is %q, databases in the field carry bit %d for %q "+
					"(an applied or opted-into migration would be taken for another one)", i, g, i, want),
				Replay: map[string]any{"got": got, "pinned": pinnedRegistration}})
			return
		}
	}
	if len(got) > len(pinnedRegistration) {
		h.res.Hit("registration-appended-entries")
		h.res.Fatalf("node/migration.go registers %d migrations (%v), the whole-upgrade scenario knows %d: the new ones are not exercised by this check — extend fullRegistry and pinnedRegistration", len(got), got[len(pinnedRegistration):], len(pinnedRegistration))
	}
	if deprecatedPos == token.NoPos || runnerPos == token.NoPos || deprecatedPos > runnerPos {
		h.res.Violate(lib.Violation{Sig: "deprecated-migrations-not-run-before-schema-runner",
			What:   "node/migration.go migrateIfNeeded must run deprecated.MigrateIfNeeded before migration.NewRunner (the schema migrations assume the last deprecated layout)",
			Replay: map[string]any{"file": path}})
	}
}

// ---- the steps around the runner (migrateIfNeeded) -----------------------------------------------

// errChecked: statement st (at index i of list) carries call c as `x, err := c(...)` / `err := c(...)` /
// `if err := c(...); err != nil {return non-nil}` and the error is tested and returned — in the same if
// statement or in the next statement.
func returnsNonNil(b *ast.BlockStmt) bool {
	for _, st := range b.List {
		if r, ok := st.(*ast.ReturnStmt); ok {
			for _, e := range r.Results {
				if id, ok := e.(*ast.Ident); !ok || id.Name != "nil" {
					return true
				}
			}
		}
	}
	return false
}

func isErrNotNil(fset *token.FileSet, e ast.Expr) bool { return exprString(fset, e) == "err != nil" }

// wiringSteps walks a statement list in source order and emits one token per call of interest:
// name + "!" when the call's error is returned, prefixed by `<switch>?` when nested under `if config.<Switch>`.
func wiringSteps(fset *token.FileSet, list []ast.Stmt, prefix string, names map[string]string, out *[]string) {
	callOf := func(e ast.Expr) (string, bool) {
		c, ok := e.(*ast.CallExpr)
		if !ok {
			return "", false
		}
		fn := exprString(fset, c.Fun)
		if fn == "migration.RunWithServer" && len(c.Args) > 0 {
			return "serve(" + exprString(fset, c.Args[len(c.Args)-1]) + ")", true
		}
		n, ok := names[fn]
		return n, ok
	}
	for i, st := range list {
		switch v := st.(type) {
		case *ast.IfStmt:
			if as, ok := v.Init.(*ast.AssignStmt); ok && len(as.Rhs) == 1 {
				if n, ok := callOf(as.Rhs[0]); ok {
					tok := prefix + n
					if isErrNotNil(fset, v.Cond) && returnsNonNil(v.Body) {
						tok += "!"
					}
					*out = append(*out, tok)
					continue
				}
			}
			cond := exprString(fset, v.Cond)
			if strings.HasPrefix(cond, "config.") || strings.HasPrefix(cond, "cfg.") {
				sw := strings.ToLower(cond[strings.Index(cond, ".")+1:])
				wiringSteps(fset, v.Body.List, prefix+sw+"?", names, out)
				if v.Else != nil {
					if eb, ok := v.Else.(*ast.BlockStmt); ok {
						wiringSteps(fset, eb.List, prefix+"!"+sw+"?", names, out)
					}
				}
			}
		case *ast.AssignStmt:
			if len(v.Rhs) != 1 {
				continue
			}
			n, ok := callOf(v.Rhs[0])
			if !ok {
				continue
			}
			tok := prefix + n
			hasErr := false
			for _, l := range v.Lhs {
				if id, ok := l.(*ast.Ident); ok && id.Name == "err" {
					hasErr = true
				}
			}
			if hasErr && i+1 < len(list) {
				if nx, ok := list[i+1].(*ast.IfStmt); ok && nx.Init == nil && isErrNotNil(fset, nx.Cond) && returnsNonNil(nx.Body) {
					tok += "!"
				}
			}
			*out = append(*out, tok)
		case *ast.ReturnStmt:
			if len(v.Results) == 1 {
				if n, ok := callOf(v.Results[0]); ok {
					*out = append(*out, prefix+n+"!")
				}
			}
		case *ast.ExprStmt:
			if n, ok := callOf(v.X); ok {
				*out = append(*out, prefix+n) // result discarded
			}
		}
	}
}

// wiringTie: node/migration.go migrateIfNeeded read as a plan of steps (source level: package node cannot be
// linked) and compared with the model's `nodePlan` — deprecated migrations first, then (prune mode only) the L1
// head, then registry, NewRunner, Run, every error returned; with config.HTTP the same function under
// migration.RunWithServer. The real RunWithServer itself is run by runWithServerTie.
func (h *harness) wiringTie() {
	repo := os.Getenv("VERIF_REPO")
	if repo == "" {
		repo = "/repo"
	}
	path := filepath.Join(repo, "node", "migration.go")
	fset := token.NewFileSet()
	f, err := parser.ParseFile(fset, path, nil, 0)
	if err != nil {
		h.res.Mismatch(lib.Mismatch{Sig: "registration-source-unreadable", Input: path, Impl: err.Error()})
		return
	}
	names := map[string]string{
		"deprecated.MigrateIfNeeded": "deprecated", "fetchL1HeadIfMissing": "fetchL1Head", "registerMigrations": "register",
		"migration.NewRunner": "newRunner", "runner.Run": "run", "migrateFn": "migrateFn",
	}
	var inner, outer []string
	found := false
	ast.Inspect(f, func(n ast.Node) bool {
		fd, ok := n.(*ast.FuncDecl)
		if !ok || fd.Name.Name != "migrateIfNeeded" {
			return true
		}
		for _, st := range fd.Body.List {
			if as, ok := st.(*ast.AssignStmt); ok && len(as.Lhs) == 1 && len(as.Rhs) == 1 {
				if id, ok := as.Lhs[0].(*ast.Ident); ok && id.Name == "migrateFn" {
					if fl, ok := as.Rhs[0].(*ast.FuncLit); ok {
						found = true
						wiringSteps(fset, fl.Body.List, "", names, &inner)
					}
				}
			}
		}
		wiringSteps(fset, fd.Body.List, "", names, &outer)
		return false
	})
	got := strings.Join(inner, " ") + " | " + strings.Join(outer, " ")
	want := h.bt.ask("node.plan")
	h.res.Compared(1)
	h.res.Case("node-wiring", true)
	h.res.Hit("node-wiring-steps")
	if !found || got != want {
		// Round 6: the functions of node/migration.go are now RUN (nodewiring.go: every step's failure is produced on
		// the real code — failing deprecated step, missing L1 head, refusing NewRunner, failing / cancelled Run, with
		// and without --http — and the property's oracles decide). A plan the source reader does not recognise (another
		// shape of the same wiring, e.g. `if !config.HTTP { return migrateFn() }`) is therefore no longer a finding by
		// itself: it is shown in the histogram and the notes only.
		h.res.Hit("node-wiring-source-shape-not-the-models-plan")
		h.res.Note("node/migration.go read at source level gives the plan %q, the model's nodePlan is %q (decided by the executed node-histories families)", got, want)
		return
	}
	h.res.Hit("node-wiring-source-plan-agrees")
}
