//go:build verif

package main

import (
	"encoding/binary"
	"fmt"
	"strings"
	"time"

	"github.com/NethermindEth/juno/core"
	"github.com/NethermindEth/juno/db/memory"
	"github.com/NethermindEth/juno/migration/state/headstate"
	"github.com/NethermindEth/juno/migration/statedifflength"
	"verif/harness/lib"
)

// Direct families for the head-state and the state-diff-length migrations: the real Migrator is
// run on its own (as the block-transactions one is) with a crash image after every commit,
// cancellation after every commit / at sampled reads / before the start, and failing batch
// writes; every observed call must be a transition of its Lean model, every interrupted database
// is resumed to completion and the result is checked against the original content.

type migPlanReplay struct {
	Migration string   `json:"migration"`
	Spec      fullSpec `json:"spec"`
	Pruned    int      `json:"prunedPrefix,omitempty"`
	Plan      btPlan   `json:"plan"`
	What      string   `json:"what"`
}

func hsRetOf(o btOutcome) string {
	switch {
	case o.ret == "failed" && o.ctxErr && o.state != nil:
		return "rerun"
	default:
		return o.ret
	}
}

func (h *harness) hsCheckDone(fs fullSpec, d *memory.Database, rp migPlanReplay) {
	for i, tok := range hsAbstract(d, fs.Chain.Seed, fs.Contracts) {
		f := strings.Split(tok, ":")
		if f[0] != "x" || f[1] != "x" || f[2] != "x" {
			h.res.Violate(lib.Violation{Sig: "headstate-old-fields-left-after-upgrade", What: fmt.Sprintf("contract #%d after completion: %s", i, tok), Replay: rp})
			return
		}
	}
	// values: compare with the previous-layout database
	d0, _ := fs.build()
	pre := hsAbstract(d0, fs.Chain.Seed, fs.Contracts)
	post := hsAbstract(d, fs.Chain.Seed, fs.Contracts)
	for i := range pre {
		f := strings.Split(pre[i], ":")
		nonce := f[1]
		if nonce == "x" {
			nonce = "0"
		}
		want := "x:x:x:" + nonce + "," + f[0] + "," + f[2]
		if post[i] != want {
			h.res.Violate(lib.Violation{Sig: "headstate-contract-wrong-after-upgrade", What: fmt.Sprintf("contract #%d: %s, want %s", i, post[i], want), Replay: rp})
			return
		}
	}
}

func (h *harness) headstateFamily() {
	h.writeFailHangs = 0
	// databases the migration must refuse: a contract whose deployment height (or class hash
	// under a stray nonce) is missing must not be given an invented value
	for _, victim := range []int{0, 3, 6} {
		fs := fullSpec{Chain: chainSpec{Seed: 77, NoHeight: true}, Contracts: 7}
		d0, err := fs.build()
		if err != nil {
			h.res.Fatalf("fixture does not build: %v", err)
			continue
		}
		addrs := sortedContractAddrs(fs.Chain.Seed, fs.Contracts)
		_ = core.DeleteContractDeploymentHeight(d0, addrs[victim])
		rp := migPlanReplay{Migration: "headstate", Spec: fs, What: fmt.Sprintf("delete the deployment height of contract #%d (key order), run Migrate", victim)}
		o := runMigrator(headstate.Migrator{}, nil, d0, btPlan{}, false, 6*time.Second, true)
		h.res.Case(fmt.Sprintf("hs-corrupt|%d", victim), true)
		h.res.Hit("hs-corrupt:" + o.ret)
		if o.ret == "hang" || o.ret == "panic" {
			continue
		}
		post := hsAbstract(o.final, fs.Chain.Seed, fs.Contracts)
		h.hsTransition(hsObs{hsAbstract(d0, fs.Chain.Seed, fs.Contracts), post, hsRetOf(o)}, map[string]any{"replay": rp})
		if f := strings.Split(post[victim], ":"); f[3] != "x" || o.ret == "done" {
			h.res.Violate(lib.Violation{Sig: "headstate-invents-missing-field",
				What: fmt.Sprintf("contract #%d has no deployment height; Migrate returned %s and the account is now %s", victim, o.ret, post[victim]), Replay: rp})
		}
	}
	for _, n := range []int{0, 1, 7, 30} {
		fs := fullSpec{Chain: chainSpec{Seed: 21 + uint64(n), NoHeight: true}, Contracts: n}
		d0, err := fs.build()
		if err != nil {
			h.res.Fatalf("fixture does not build: %v", err)
			continue
		}
		pre0 := hsAbstract(d0, fs.Chain.Seed, n)
		resume := func(img *memory.Database, where string, rp migPlanReplay) {
			cur := img
			for round := 0; round < 3; round++ {
				o := runMigrator(headstate.Migrator{}, nil, cur, btPlan{}, false, 6*time.Second, true)
				h.res.Case(fmt.Sprintf("hs-resume|%d|%s|%d", n, where, round), o.commits > 0)
				if o.ret == "hang" || o.ret == "panic" {
					h.res.Violate(lib.Violation{Sig: "headstate-migrate-" + o.ret, What: o.errText, Replay: rp})
					return
				}
				h.hsTransition(hsObs{hsAbstract(cur, fs.Chain.Seed, n), hsAbstract(o.final, fs.Chain.Seed, n), hsRetOf(o)}, map[string]any{"replay": rp, "where": where})
				if o.ret == "done" {
					h.hsCheckDone(fs, o.final, rp)
					return
				}
				if o.ret == "failed" {
					h.res.Violate(lib.Violation{Sig: "headstate-resume-fails", What: o.errText, Replay: rp})
					return
				}
				cur = o.final
			}
		}
		for _, inflate := range []bool{true, false} {
			rp := migPlanReplay{Migration: "headstate", Spec: fs, Plan: btPlan{Inflate: inflate}, What: "crash image after every commit, then rerun"}
			o := runMigrator(headstate.Migrator{}, nil, d0, btPlan{Inflate: inflate}, true, 6*time.Second, true)
			h.res.Case(fmt.Sprintf("hs|%d|%v", n, inflate), o.commits > 0)
			h.res.HitN("hs-commits", o.commits)
			if o.ret != "done" {
				h.res.Violate(lib.Violation{Sig: "headstate-uninterrupted-run-not-complete", What: o.ret + " " + o.errText, Replay: rp})
				continue
			}
			h.hsTransition(hsObs{pre0, hsAbstract(o.final, fs.Chain.Seed, n), "done"}, map[string]any{"replay": rp})
			h.hsCheckDone(fs, o.final, rp)
			for k, img := range o.images {
				if len(o.images) > 12 && k%3 != 0 && k < len(o.images)-4 {
					continue
				}
				h.res.Hit("hs-crash-image")
				h.hsTransition(hsObs{pre0, hsAbstract(img, fs.Chain.Seed, n), "crashed"}, map[string]any{"replay": rp, "commit": k + 1})
				resume(img, "crash", rp)
			}
			for k := 1; k <= o.commits; k++ {
				if o.commits > 8 && k%3 != 1 {
					continue
				}
				for _, plan := range []btPlan{{Inflate: inflate, CancelAtCmt: k}, {Inflate: inflate, FailAt: k}, {Inflate: inflate, FailAt: k, FailAll: true}} {
					rp := migPlanReplay{Migration: "headstate", Spec: fs, Plan: plan, What: "run with the plan, then rerun"}
					dl, sticky := 6*time.Second, true
					if plan.FailAt > 0 {
						dl, sticky = 1500*time.Millisecond, false
						if h.writeFailHangs >= 1 && plan.FailAll {
							continue
						}
					}
					oc := runMigrator(headstate.Migrator{}, nil, d0, plan, false, dl, sticky)
					ret := hsRetOf(oc)
					h.res.Hit("hs-run:" + ret)
					if oc.ret == "hang" && plan.FailAt > 0 {
						h.writeFailHangs++
						h.reportWriteFailHang("headstate", rp)
						continue
					}
					if oc.ret == "hang" || oc.ret == "panic" {
						h.res.Violate(lib.Violation{Sig: "headstate-migrate-" + oc.ret, What: oc.errText, Replay: rp})
						continue
					}
					if oc.failedWrites > 0 && oc.ret == "done" {
						h.res.Hit("hs-writefail:absorbed") // then nothing may be missing
						h.hsCheckDone(fs, oc.final, rp)
						continue
					}
					h.hsTransition(hsObs{pre0, hsAbstract(oc.final, fs.Chain.Seed, n), ret}, map[string]any{"replay": rp})
					resume(oc.final, "after-plan", rp)
				}
			}
		}
		// read faults: every Get/Has and every iterator creation of an undisturbed run (sampled when many)
		if base := runMigrator(headstate.Migrator{}, nil, d0, btPlan{}, false, 6*time.Second, true); base.ret == "done" {
			var plans []btPlan
			st := base.gets/12 + 1
			for g := int64(1); g <= base.gets; g += st {
				plans = append(plans, btPlan{FailGetAt: g}, btPlan{FailGetAt: g, FailGetAll: true}, btPlan{FailGetAt: g, Inflate: true})
			}
			for i := int64(1); i <= base.iters; i++ {
				plans = append(plans, btPlan{FailIterAt: i}, btPlan{FailIterAt: i, FailIterAll: true})
			}
			for _, plan := range plans {
				rp := migPlanReplay{Migration: "headstate", Spec: fs, Plan: plan, What: "run with the read fault, then rerun on a healthy store"}
				oc := runMigrator(headstate.Migrator{}, nil, d0, plan, false, 6*time.Second, true)
				h.res.Hit("hs-readfault:" + hsRetOf(oc))
				if oc.ret == "hang" || oc.ret == "panic" {
					h.res.Violate(lib.Violation{Sig: "headstate-migrate-" + oc.ret + "-on-read-error", What: oc.errText, Replay: rp})
					continue
				}
				post := hsAbstract(oc.final, fs.Chain.Seed, n)
				lost := false
				for i, tok := range post {
					f, f0 := strings.Split(tok, ":"), strings.Split(pre0[i], ":")
					if f[3] == "x" && (f[0] != f0[0] || f[1] != f0[1] || f[2] != f0[2]) {
						lost = true
						h.res.Violate(lib.Violation{Sig: "headstate-read-error-loses-unmigrated-contract",
							What: fmt.Sprintf("contract #%d lost a deprecated field without getting its record: %s (was %s)", i, tok, pre0[i]), Replay: rp})
						break
					}
				}
				if lost {
					continue
				}
				h.hsTransition(hsObs{pre0, post, hsRetOf(oc)}, map[string]any{"replay": rp})
				if oc.ret == "done" {
					h.hsCheckDone(fs, oc.final, rp)
					continue
				}
				resume(oc.final, "after-read-fault", rp)
			}
		} else {
			h.res.Fatalf("headstate read-fault family: the undisturbed run returned %s %s", base.ret, base.errText)
		}
		for i := 0; i < 3; i++ {
			plan := btPlan{CancelAtGet: 1 + int64(h.r.Intn(3*n+2))}
			if i == 0 {
				plan = btPlan{PreCancel: true}
			}
			rp := migPlanReplay{Migration: "headstate", Spec: fs, Plan: plan, What: "run with the plan, then rerun"}
			oc := runMigrator(headstate.Migrator{}, nil, d0, plan, false, 6*time.Second, true)
			h.res.Hit("hs-run:" + hsRetOf(oc))
			if oc.ret == "hang" || oc.ret == "panic" {
				continue
			}
			h.hsTransition(hsObs{pre0, hsAbstract(oc.final, fs.Chain.Seed, n), hsRetOf(oc)}, map[string]any{"replay": rp})
			resume(oc.final, "after-cancel-at-read", rp)
		}
	}
}

func (h *harness) reportWriteFailHang(which string, rp any) {
	h.res.Hit("oracle:migration-hangs-after-failed-batch-write")
	h.res.Violate(lib.Violation{Sig: "migration-hangs-after-failed-batch-write",
		What: which + ": batch writes fail while the ingestors flush at the size threshold; the committer returns without releasing the " +
			"batch slot, an ingestor blocks forever in GetBlocking() (context.Background), Migrate never returns",
		Replay: rp})
}

// ---- statedifflength on its own, with pruned prefixes ---------------------------------------

func sdlRetOf(o btOutcome) string {
	switch {
	case o.ret == "rerun" && len(o.state) == 8:
		return fmt.Sprintf("rerun:%d:%x", binary.BigEndian.Uint64(o.state), o.state)
	default:
		return o.ret
	}
}

func (h *harness) sdlFamily() {
	h.writeFailHangs = 0
	type cfg struct{ blocks, pruned int }
	for _, c := range []cfg{{1, 0}, {12, 0}, {12, 5}, {12, 11}, {25, 3}, {9, 9}} {
		counts := repeatInt(0, c.blocks)
		fs := fullSpec{Chain: chainSpec{Seed: 31 + uint64(c.blocks*7+c.pruned), Counts: counts, Layout: strings.Repeat("-", c.blocks)}}
		d0, err := fs.build()
		if err != nil {
			h.res.Fatalf("fixture does not build: %v", err)
			continue
		}
		for b := 0; b < c.pruned && b < c.blocks; b++ { // a prefix pruned by the running pruner
			_ = core.DeleteBlockCommitment(d0, uint64(b))
			_ = core.DeleteStateUpdateByBlockNum(d0, uint64(b))
		}
		height := fs.Chain.height()
		pre0 := sdlAbstract(d0, height)
		done := func(d *memory.Database, rp migPlanReplay) {
			for b, tok := range sdlAbstract(d, height) {
				f := strings.Split(tok, ":")
				if f[0] == "1" && f[1] != f[2] {
					h.res.Violate(lib.Violation{Sig: "statedifflength-wrong-after-upgrade",
						What: fmt.Sprintf("block %d: StateDiffLength=%s, state diff has %s entries", b, f[2], f[1]), Replay: rp})
					return
				}
			}
		}
		// run (state threading as the runner does) until done
		resume := func(img *memory.Database, state []byte, where string, rp migPlanReplay) {
			cur := img
			for round := 0; round < 3; round++ {
				next := uint64(0)
				if len(state) == 8 {
					next = binary.BigEndian.Uint64(state)
				}
				o := runMigrator(&statedifflength.Migrator{}, state, cur, btPlan{}, false, 6*time.Second, true)
				h.res.Case(fmt.Sprintf("sdl-resume|%d/%d|%s|%d|%d", c.blocks, c.pruned, where, next, round), o.commits > 0)
				if o.ret == "hang" || o.ret == "panic" {
					h.res.Violate(lib.Violation{Sig: "statedifflength-migrate-" + o.ret, What: o.errText, Replay: rp})
					return
				}
				h.sdlTransition(sdlObs{next, sdlAbstract(cur, height), sdlAbstract(o.final, height), sdlRetOf(o), false}, map[string]any{"replay": rp, "where": where})
				if o.ret == "done" {
					done(o.final, rp)
					return
				}
				if o.ret == "failed" {
					if c.pruned >= c.blocks {
						h.res.Hit("sdl-run:failed-no-retained-block")
						return // every block pruned: "finding oldest retained block" (the model says failed too)
					}
					h.res.Violate(lib.Violation{Sig: "statedifflength-resume-fails", What: o.errText, Replay: rp})
					return
				}
				cur, state = o.final, o.state
			}
		}
		for _, inflate := range []bool{true, false} {
			rp := migPlanReplay{Migration: "statedifflength", Spec: fs, Pruned: c.pruned, Plan: btPlan{Inflate: inflate}, What: "crash image after every commit, then rerun"}
			o := runMigrator(&statedifflength.Migrator{}, nil, d0, btPlan{Inflate: inflate}, true, 6*time.Second, true)
			h.res.Case(fmt.Sprintf("sdl|%d/%d|%v", c.blocks, c.pruned, inflate), o.commits > 0)
			h.res.HitN("sdl-commits", o.commits)
			h.sdlTransition(sdlObs{0, pre0, sdlAbstract(o.final, height), sdlRetOf(o), false}, map[string]any{"replay": rp})
			if o.ret != "done" {
				if c.pruned >= c.blocks && o.ret == "failed" {
					h.res.Hit("sdl-run:failed-no-retained-block")
					continue
				}
				h.res.Violate(lib.Violation{Sig: "statedifflength-uninterrupted-run-not-complete", What: o.ret + " " + o.errText, Replay: rp})
				continue
			}
			done(o.final, rp)
			for k, img := range o.images {
				h.res.Hit("sdl-crash-image")
				h.sdlTransition(sdlObs{0, pre0, sdlAbstract(img, height), "crashed", false}, map[string]any{"replay": rp, "commit": k + 1})
				resume(img, nil, "crash", rp)
			}
			for k := 1; k <= o.commits; k++ {
				for _, plan := range []btPlan{{Inflate: inflate, CancelAtCmt: k}, {Inflate: inflate, FailAt: k}, {Inflate: inflate, FailAt: k, FailAll: true}} {
					rp := migPlanReplay{Migration: "statedifflength", Spec: fs, Pruned: c.pruned, Plan: plan, What: "run with the plan, then rerun with the returned checkpoint"}
					dl, sticky := 6*time.Second, true
					if plan.FailAt > 0 {
						dl, sticky = 1500*time.Millisecond, false
						if h.writeFailHangs >= 1 && plan.FailAll {
							continue
						}
					}
					oc := runMigrator(&statedifflength.Migrator{}, nil, d0, plan, false, dl, sticky)
					h.res.Hit("sdl-run:" + strings.SplitN(sdlRetOf(oc), ":", 2)[0])
					if oc.ret == "hang" && plan.FailAt > 0 {
						h.writeFailHangs++
						h.reportWriteFailHang("statedifflength", rp)
						continue
					}
					if oc.ret == "hang" || oc.ret == "panic" {
						h.res.Violate(lib.Violation{Sig: "statedifflength-migrate-" + oc.ret, What: oc.errText, Replay: rp})
						continue
					}
					if oc.failedWrites > 0 && oc.ret == "done" {
						h.res.Hit("sdl-writefail:absorbed") // then nothing may be missing
						done(oc.final, rp)
						continue
					}
					h.sdlTransition(sdlObs{0, pre0, sdlAbstract(oc.final, height), sdlRetOf(oc), oc.failedWrites > 0}, map[string]any{"replay": rp})
					st := oc.state
					if oc.ret != "rerun" {
						st = nil // the runner keeps the old checkpoint (none) after an error
					}
					resume(oc.final, st, "after-plan", rp)
				}
			}
		}
		if base := runMigrator(&statedifflength.Migrator{}, nil, d0, btPlan{}, false, 6*time.Second, true); base.ret == "done" {
			var plans []btPlan
			st := base.gets/12 + 1
			for g := int64(1); g <= base.gets; g += st {
				plans = append(plans, btPlan{FailGetAt: g}, btPlan{FailGetAt: g, FailGetAll: true}, btPlan{FailGetAt: g, Inflate: true})
			}
			for i := int64(1); i <= base.iters; i++ {
				plans = append(plans, btPlan{FailIterAt: i}, btPlan{FailIterAt: i, FailIterAll: true})
			}
			for _, plan := range plans {
				rp := migPlanReplay{Migration: "statedifflength", Spec: fs, Pruned: c.pruned, Plan: plan, What: "run with the read fault, then rerun on a healthy store"}
				oc := runMigrator(&statedifflength.Migrator{}, nil, d0, plan, false, 6*time.Second, true)
				h.res.Hit("sdl-readfault:" + strings.SplitN(sdlRetOf(oc), ":", 2)[0])
				if oc.ret == "hang" || oc.ret == "panic" {
					h.res.Violate(lib.Violation{Sig: "statedifflength-migrate-" + oc.ret + "-on-read-error", What: oc.errText, Replay: rp})
					continue
				}
				h.sdlTransition(sdlObs{0, pre0, sdlAbstract(oc.final, height), sdlRetOf(oc), oc.failedReads > 0}, map[string]any{"replay": rp})
				if oc.ret == "done" {
					done(oc.final, rp)
					continue
				}
				st := oc.state
				if oc.ret != "rerun" {
					st = nil
				}
				resume(oc.final, st, "after-read-fault", rp)
			}
		} else if c.pruned < c.blocks {
			h.res.Fatalf("statedifflength read-fault family: the undisturbed run returned %s %s", base.ret, base.errText)
		}
		// stored checkpoints around every boundary (pruned prefix, chain height, byte and word boundaries of the
		// 8-byte big-endian token): the model decodes the token (`sdl.before`), the real Before + Migrate run on it
		nexts := []uint64{0, 1, uint64(c.pruned), uint64(c.pruned) + 1, uint64(c.blocks) - 1, uint64(c.blocks), uint64(c.blocks) + 5,
			255, 256, 65535, 65536, 1 << 32, 1<<32 + uint64(c.pruned), 1 << 56, 1 << 63, ^uint64(0)}
		if c.pruned > 0 {
			nexts = append(nexts, uint64(c.pruned)-1)
		}
		if c.blocks > 1 {
			nexts = append(nexts, uint64(c.blocks)-2)
		}
		for _, next := range nexts {
			st := make([]byte, 8)
			binary.BigEndian.PutUint64(st, next)
			rp := migPlanReplay{Migration: "statedifflength", Spec: fs, Pruned: c.pruned, What: fmt.Sprintf("Before(checkpoint %d), Migrate", next)}
			dec := h.bt.ask(fmt.Sprintf("sdl.before %x", st))
			h.res.Compared(1)
			var mnext uint64
			if _, err := fmt.Sscanf(dec, "ok %d", &mnext); err != nil {
				h.res.Mismatch(lib.Mismatch{Sig: "statedifflength-token-rejected-by-model", Input: fmt.Sprintf("%x", st), Model: dec, Impl: "accepted"})
				continue
			}
			if enc := h.bt.ask(fmt.Sprintf("sdl.encode %d", next)); enc != fmt.Sprintf("%x", st) {
				h.res.Mismatch(lib.Mismatch{Sig: "statedifflength-token-encoding-differs", Input: next, Model: enc, Impl: fmt.Sprintf("%x", st)})
			}
			o := runMigrator(&statedifflength.Migrator{}, st, d0, btPlan{}, false, 6*time.Second, true)
			h.res.Hit("sdl-stale-checkpoint:" + o.ret)
			if o.ret == "hang" || o.ret == "panic" {
				continue
			}
			// the model's Migrate runs from the checkpoint the MODEL decoded
			h.sdlTransition(sdlObs{mnext, pre0, sdlAbstract(o.final, height), sdlRetOf(o), false}, map[string]any{"replay": rp})
		}
		// Before alone: every token length 0..17 (only 0 and 8 are accepted), nil included
		for n := -1; n <= 17; n++ {
			var st []byte
			tok := "nil"
			if n >= 0 {
				st = make([]byte, n)
				for i := range st {
					st[i] = byte(0x11 * (i + 1))
				}
				tok = showState(st)
			}
			err := (&statedifflength.Migrator{}).Before(st)
			dec := h.bt.ask("sdl.before " + tok)
			h.res.Compared(1)
			h.res.Hit(fmt.Sprintf("sdl-before:len%d", n))
			if (err == nil) != strings.HasPrefix(dec, "ok") {
				h.res.Mismatch(lib.Mismatch{Sig: "statedifflength-before-accepts-differently", Input: tok, Model: dec, Impl: fmt.Sprint(err)})
			}
		}
		if o := runMigrator(&statedifflength.Migrator{}, []byte{1, 2, 3}, d0, btPlan{}, false, 6*time.Second, true); o.ret != "failed" {
			h.res.Violate(lib.Violation{Sig: "statedifflength-accepts-malformed-checkpoint", What: "Before([3 bytes]) did not fail: " + o.ret,
				Replay: migPlanReplay{Migration: "statedifflength", Spec: fs, What: "Before([]byte{1,2,3})"}})
		} else {
			h.res.Hit("sdl-malformed-checkpoint-rejected")
		}
	}
}
