//go:build verif

package main

import (
	"encoding/hex"
	"errors"
	"fmt"
	"os"
	"strconv"
	"strings"
	"time"

	"github.com/NethermindEth/juno/db/memory"

	"github.com/NethermindEth/juno/migration"
	"github.com/NethermindEth/juno/utils/log"
	"verif/harness/lib"
)

// runnerProbes: the minimal histories of the two repaired runner defects (69981ea, edddfcf), run for
// the record like any other history (violations + correspondence with the current-tree model).
func (h *harness) runnerProbes() {
	// L9: Migrate blocks until cancellation and returns (nil, wrapped ctx.Err())
	l9 := runnerHistory{Starts: []startSpec{
		{Reg: "m", CancelAt: 3, CrashAt: never, Beh: map[int]migBeh{0: {Kind: "nilCtx"}}},
		{Reg: "m", CancelAt: never, CrashAt: never},
	}}
	// unknown last-target bits: a newer binary opted into / started migration 2, this binary has 2
	unk := runnerHistory{Init: diskSpec{HasMeta: true, Cur: 0b011, Last: 0b111, Ist: map[int]string{2: "aa"}},
		Starts: []startSpec{{Reg: "mm", CancelAt: never, CrashAt: never}}}
	for _, hist := range []runnerHistory{l9, unk} {
		h.runnerHistoryCase(hist, "sentinel")
	}
}

// ---- on-disk format of the runner's own records ----------------------------------------------

// A database written by an EARLIER binary must stay readable: the bytes below are what the tree wrote for
// the schema metadata {CurrentVersion: 0b101, LastTargetVersion: 0b10000111} and for a resume token of
// migration 3 when this check was built. A change of the CBOR field names, of the key layout or of the
// bucket numbers makes every existing database look "fresh" (all migrations run again on migrated data,
// opt-out and downgrade protection void) although a database written and read by the same binary is fine.
const (
	goldenMetaKey = "29"
	goldenMetaVal = "a26e43757272656e7456657273696f6e05714c61737454617267657456657273696f6e1887"
	goldenIstKey  = "2a03"
	goldenIstVal  = "00000000000000070102"
)

func (h *harness) onDiskFormat() {
	md := migration.SchemaMetadata{CurrentVersion: 0b101, LastTargetVersion: 0b10000111}
	tok := []byte{0, 0, 0, 0, 0, 0, 0, 7, 1, 2}
	d := memory.New()
	if err := migration.WriteSchemaMetadata(d, md); err != nil {
		h.res.Fatalf("on-disk format: %v", err)
		return
	}
	if err := migration.WriteIntermediateState(d, 3, tok); err != nil {
		h.res.Fatalf("on-disk format: %v", err)
		return
	}
	got := map[string]string{}
	for k, v := range dump(d) {
		got[hex.EncodeToString([]byte(k))] = hex.EncodeToString([]byte(v))
	}
	want := map[string]string{goldenMetaKey: goldenMetaVal, goldenIstKey: goldenIstVal}
	h.res.Case("on-disk-format", true)
	if os.Getenv("C18_PRINT_GOLDEN") != "" {
		fmt.Fprintf(os.Stderr, "golden: %v\n", got)
	}
	if same, why := sameDump(got, want); !same {
		h.res.Violate(lib.Violation{Sig: "runner-records-written-in-a-new-format", What: "schema metadata / resume token of an earlier binary: " + why,
			Replay: map[string]any{"written": got, "earlierBinary": want}})
	}
	// the records of an earlier binary, read by this one
	old := memory.New()
	for k, v := range want {
		kb, _ := hex.DecodeString(k)
		vb, _ := hex.DecodeString(v)
		_ = old.Put(kb, vb)
	}
	gmd, err := migration.GetSchemaMetadata(old)
	gtok, err2 := migration.GetIntermediateState(old, 3)
	h.res.Hit("on-disk-format:read-back")
	if err != nil || err2 != nil || gmd != md || string(gtok) != string(tok) {
		h.res.Violate(lib.Violation{Sig: "earlier-binarys-runner-records-unreadable", What: fmt.Sprintf(
			"metadata written by an earlier binary reads as %+v (err %v), want %+v; resume token of migration 3 reads as %x (err %v), want %x",
			gmd, err, md, gtok, err2, tok), Replay: map[string]any{"earlierBinary": want}})
		return
	}
	// … and acted upon: a binary with three migrations must refuse it (bit 7 was opted into, bits 0 and 2 applied)
	hist := runnerHistory{Init: diskSpec{HasMeta: true, Cur: 0b101, Last: 0b10000111}, Starts: []startSpec{{Reg: "mmm", CancelAt: never, CrashAt: never}}}
	r := realStart(old, hist.Starts[0])
	if r.open == "ok" {
		h.res.Violate(lib.Violation{Sig: "newrunner-accepts-downgrade-or-optout", What: "the metadata of an earlier binary (applied 0b101, last target 0b10000111) is accepted by a binary with 3 migrations", Replay: hist})
	}
}

// ---- SchemaVersion / registry correspondence ---------------------------------------------

func (h *harness) svCorrespondence() {
	vals := []uint64{0, 1, 2, 3, 5, 0x8000000000000000, 0xffffffffffffffff, 0x8000000000000001, 0x5555555555555555,
		0xaaaaaaaaaaaaaaaa, 0x00000000ffffffff, 0xffffffff00000000, 0x4000000000000000, 0xc000000000000000}
	for i := 0; i < 64; i++ {
		vals = append(vals, 1<<uint(i))
	}
	n := h.f.Scale(150, 3000)
	for i := 0; i < n; i++ {
		v := h.r.Uint64()
		switch h.r.Intn(3) {
		case 0:
			v &= h.r.Uint64() & h.r.Uint64() // sparse
		case 1:
			v |= h.r.Uint64() | h.r.Uint64() // dense
		}
		vals = append(vals, v)
	}
	var lines, want []string
	add := func(l, w string) { lines = append(lines, l); want = append(want, w) }
	natList := func(xs []int) string {
		if len(xs) == 0 {
			return "-"
		}
		p := make([]string, len(xs))
		for i, x := range xs {
			p[i] = strconv.Itoa(x)
		}
		return strings.Join(p, " ")
	}
	for k, v := range vals {
		sv := migration.SchemaVersion(v)
		var it []int
		for i := range sv.Iter() {
			it = append(it, int(i))
		}
		add(fmt.Sprintf("sv.iter %x", v), natList(it))
		add(fmt.Sprintf("sv.itergo %x", v), natList(it))
		add(fmt.Sprintf("sv.len %x", v), strconv.Itoa(sv.Len()))
		add(fmt.Sprintf("sv.high %x", v), strconv.Itoa(sv.HighestBit()))
		add(fmt.Sprintf("sv.string %x", v), sv.String())
		w := vals[(k*7+3)%len(vals)]
		add(fmt.Sprintf("sv.diff %x %x", v, w), fmt.Sprintf("%x", uint64(sv.Difference(migration.SchemaVersion(w)))))
		add(fmt.Sprintf("sv.union %x %x", v, w), fmt.Sprintf("%x", uint64(sv.Union(migration.SchemaVersion(w)))))
		add(fmt.Sprintf("sv.contains %x %x", v, w), strconv.FormatBool(sv.Contains(migration.SchemaVersion(w))))
		add(fmt.Sprintf("sv.contains %x %x", v, v&w), strconv.FormatBool(sv.Contains(migration.SchemaVersion(v&w))))
		for _, idx := range []int{0, 1, 31, 32, 62, 63, 64, 65, 128, 255, h.r.Intn(64)} {
			add(fmt.Sprintf("sv.has %x %d", v, idx), strconv.FormatBool(sv.Has(uint8(idx))))
			s2 := sv
			s2.Set(uint8(idx))
			add(fmt.Sprintf("sv.set %x %d", v, idx), fmt.Sprintf("%x", uint64(s2)))
		}
		h.res.Case(fmt.Sprintf("sv|%x", v), v != 0)
	}
	// registry target
	for i := 0; i < h.f.Scale(60, 600); i++ {
		n := h.r.Range(0, 8)
		if h.r.Chance(1, 6) {
			n = h.r.Range(60, 64)
		}
		b := make([]byte, n)
		for j := range b {
			b[j] = lib.Pick(h.r, []byte{'m', 'm', 'e', 'd'})
		}
		reg := string(b)
		t := buildRegistry(reg, func(int) migration.Migration { return &scriptMig{} }).TargetVersion()
		if reg == "" {
			reg = "-"
		}
		add("target "+reg, fmt.Sprintf("%x", uint64(t)))
	}
	// the registry's capacity (maxMigrations = 64): 63 / 64 registrations work and use bits 62 / 63, the 65th
	// panics (With and WithOptional alike); Count / Entries / OptionalMigrationFlags follow the number registered
	for _, n := range []int{63, 64, 65} {
		for _, last := range []byte{'m', 'e', 'd'} {
			reg := strings.Repeat("m", n-1) + string(last)
			var t migration.SchemaVersion
			var count, entries, flags int
			_, panicked, _ := lib.Try(func() error {
				r := buildRegistry(reg, func(int) migration.Migration { return &scriptMig{} })
				t, count, entries, flags = r.TargetVersion(), r.Count(), len(r.Entries()), len(r.OptionalMigrationFlags())
				return nil
			})
			h.res.Hit(fmt.Sprintf("registry-size-%d:panic=%v", n, panicked))
			if panicked {
				add("target "+reg, "panic")
				continue
			}
			add("target "+reg, fmt.Sprintf("%x", uint64(t)))
			if count != n || entries != n || flags != n {
				h.res.Violate(lib.Violation{Sig: "registry-accessors-disagree-with-registrations",
					What: fmt.Sprintf("%d registrations: Count=%d len(Entries)=%d len(OptionalMigrationFlags)=%d", n, count, entries, flags), Replay: reg})
			}
		}
	}
	got, err := h.drv.AskAll(lines)
	if err != nil {
		h.res.Fatalf("driver: %v", err)
		return
	}
	h.res.Compared(len(got))
	h.res.HitN("sv-ops", len(got))
	for i := range got {
		if got[i] != want[i] {
			h.res.Mismatch(lib.Mismatch{Sig: "schemaversion-op:" + strings.SplitN(lines[i], " ", 2)[0], Input: lines[i], Model: got[i], Impl: want[i]})
			// property side: the bit operations are what refusal and pending-set computations rest on
			h.res.Violate(lib.Violation{Sig: "schemaversion-op-wrong:" + strings.SplitN(lines[i], " ", 2)[0],
				What: fmt.Sprintf("%s: implementation gives %s, bitset semantics give %s", lines[i], want[i], got[i]), Replay: lines[i]})
		}
	}
}

// ---- runner histories -----------------------------------------------------------------------

var wellKinds = []string{"complete", "complete", "complete", "coop", "coop", "coopErr", "nilCtx", "fail", "failState", "beforeFail", "stateCtxErrLive"}
var allKinds = append([]string{"inProgress", "ctxErrLive"}, wellKinds...)

func (h *harness) genBeh(r *lib.RNG, n int, wild bool) map[int]migBeh {
	out := map[int]migBeh{}
	for i := 0; i < n; i++ {
		if r.Chance(1, 3) {
			continue
		}
		k := lib.Pick(r, wellKinds)
		if wild {
			k = lib.Pick(r, allKinds)
		}
		b := migBeh{Kind: k}
		if r.Bool() {
			b.State = fmt.Sprintf("%02x%02x", i, r.Intn(256))
		}
		out[i] = b
	}
	return out
}

func pickTick(r *lib.RNG) int {
	if r.Chance(2, 5) {
		return never
	}
	return r.Intn(14)
}

// genHistory: a sequence of starts of (mostly) the same binary with optional migrations switched
// on/off between restarts, upgrades (more migrations) and downgrades (fewer), each start with its
// own cancellation tick, crash tick and migration behaviours.
func (h *harness) genHistory(r *lib.RNG) runnerHistory {
	n := r.Range(1, 5)
	base := make([]byte, n)
	for i := range base {
		base[i] = lib.Pick(r, []byte{'m', 'm', 'e', 'd'})
	}
	shift := 0
	if r.Chance(1, 8) { // exercise the top bits: pad with mandatory migrations already applied
		shift = 64 - n
	}
	hist := runnerHistory{}
	if shift > 0 {
		hist.Init = diskSpec{HasMeta: true, Cur: (1 << uint(shift)) - 1, Last: (1 << uint(shift)) - 1}
	} else if r.Chance(1, 4) {
		cur := r.Uint64() & ((1 << uint(n)) - 1)
		last := cur | r.Uint64()&((1<<uint(n+1))-1)
		hist.Init = diskSpec{HasMeta: true, Cur: cur, Last: last}
		if i := r.Intn(n + 1); r.Bool() && cur&(1<<uint(i)) == 0 {
			// a resume token is only ever stored for a migration that is not applied
			hist.Init.Ist = map[int]string{i: "beef"}
		}
	}
	wild := r.Chance(1, 5)
	reg := string(base)
	for s, ns := 0, r.Range(1, 5); s < ns; s++ {
		b := []byte(reg)
		switch r.Intn(8) {
		case 0: // enable an optional migration
			for i := range b {
				if b[i] == 'd' {
					b[i] = 'e'
					break
				}
			}
		case 1: // try to opt out
			for i := range b {
				if b[i] == 'e' {
					b[i] = 'd'
					break
				}
			}
		case 2: // upgrade
			if len(b)+shift < 64 {
				b = append(b, lib.Pick(r, []byte{'m', 'e', 'd'}))
			}
		case 3: // downgrade
			if len(b) > 1 && r.Bool() {
				b = b[:len(b)-1]
			}
		}
		reg = string(b)
		sp := startSpec{Reg: strings.Repeat("m", shift) + reg, CancelAt: pickTick(r), CrashAt: pickTick(r)}
		if r.Chance(1, 5) {
			sp.FailAt = 1 + r.Intn(12)
		}
		if r.Chance(1, 6) { // the stored resume token of one or two migrations cannot be read
			sp.IstReadFail = []int{shift + r.Intn(len(reg))}
			if r.Chance(1, 3) {
				sp.IstReadFail = append(sp.IstReadFail, shift+r.Intn(len(reg)))
			}
		}
		if r.Chance(1, 14) {
			sp.MetaReadFail = true
		}
		beh := h.genBeh(r, len(reg), wild)
		sp.Beh = map[int]migBeh{}
		for i, v := range beh {
			sp.Beh[i+shift] = v
		}
		hist.Starts = append(hist.Starts, sp)
	}
	// a final undisturbed start: everything must complete
	hist.Starts = append(hist.Starts, startSpec{Reg: strings.Repeat("m", shift) + reg, CancelAt: never, CrashAt: never})
	return hist
}

func (h *harness) runnerAll() {
	// exhaustive small family: two migrations, every cancellation tick x every crash tick x
	// behaviours of both from the full list, one interrupted start followed by a clean one
	kinds := []string{"complete", "coop", "coopErr", "nilCtx", "fail", "inProgress", "beforeFail"}
	for _, reg := range []string{"mm", "em"} {
		for ca := 0; ca <= 8; ca++ {
			for cr := 0; cr <= 8; cr++ {
				if cr != 8 && ca != 8 && h.f.Tier == "quick" && (ca+cr)%2 == 1 {
					continue
				}
				for _, k0 := range kinds {
					for _, k1 := range kinds {
						caT, crT := ca, cr
						if ca == 8 {
							caT = never
						}
						if cr == 8 {
							crT = never
						}
						hist := runnerHistory{Starts: []startSpec{
							{Reg: reg, CancelAt: caT, CrashAt: crT, Beh: map[int]migBeh{0: {Kind: k0, State: "01"}, 1: {Kind: k1}}},
							{Reg: reg, CancelAt: never, CrashAt: never},
						}}
						h.runnerHistoryCase(hist, "enum2")
					}
				}
			}
		}
	}
	// every tick as the failing runner write, with and without a cancellation before it
	for _, reg := range []string{"mm", "em"} {
		for fa := 1; fa <= 8; fa++ {
			for _, ca := range []int{never, 0, 3, 5} {
				for _, k0 := range []string{"complete", "coop", "coopErr", "inProgress"} {
					for _, k1 := range []string{"complete", "coop"} {
						hist := runnerHistory{Starts: []startSpec{
							{Reg: reg, CancelAt: ca, CrashAt: never, FailAt: fa, Beh: map[int]migBeh{0: {Kind: k0, State: "01"}, 1: {Kind: k1}}},
							{Reg: reg, CancelAt: never, CrashAt: never},
						}}
						h.runnerHistoryCase(hist, "enum-fail")
					}
				}
			}
		}
	}
	// errors that wrap context.Canceled although the RUNNER's context is live (a migration's own derived context
	// was cancelled), with and without a resume state, against every cancellation tick: only errors.Is(err, ctx.Err())
	// of the runner's own context may be taken for an interruption
	for _, reg := range []string{"mm", "em"} {
		for _, ca := range []int{never, 0, 1, 2, 3, 4, 5, 6} {
			for _, k0 := range []string{"stateCtxErrLive", "ctxErrLive", "failState", "fail"} {
				for _, k1 := range []string{"complete", "coop", "stateCtxErrLive"} {
					for _, init := range []diskSpec{{}, {HasMeta: true, Cur: 0, Last: 3, Ist: map[int]string{0: "a0"}}} {
						hist := runnerHistory{Init: init, Starts: []startSpec{
							{Reg: reg, CancelAt: ca, CrashAt: never, Beh: map[int]migBeh{0: {Kind: k0, State: "01"}, 1: {Kind: k1, State: "02"}}},
							{Reg: reg, CancelAt: never, CrashAt: never},
						}}
						h.runnerHistoryCase(hist, "enum-ctxerr")
					}
				}
			}
		}
	}
	// read faults: every subset of {token of 0, token of 1, metadata} unreadable, on a fresh database, on one
	// with a stored token for either migration and on one with migration 0 applied; behaviours that save,
	// complete or fail; with and without a cancellation; then a healthy restart
	for _, reg := range []string{"mm", "em", "me"} {
		for _, init := range []diskSpec{{}, {HasMeta: true, Cur: 0, Last: 3, Ist: map[int]string{0: "a0"}},
			{HasMeta: true, Cur: 0, Last: 3, Ist: map[int]string{1: "b1"}}, {HasMeta: true, Cur: 1, Last: 3, Ist: map[int]string{1: ""}},
			{HasMeta: true, Cur: 3, Last: 3}} {
			for mask := 1; mask < 8; mask++ {
				for _, ca := range []int{never, 3, 0} {
					for _, k0 := range []string{"complete", "coop", "fail", "inProgress"} {
						for _, k1 := range []string{"complete", "coop"} {
							sp := startSpec{Reg: reg, CancelAt: ca, CrashAt: never, MetaReadFail: mask&4 != 0,
								Beh: map[int]migBeh{0: {Kind: k0, State: "01"}, 1: {Kind: k1, State: "02"}}}
							for i := 0; i < 2; i++ {
								if mask&(1<<uint(i)) != 0 {
									sp.IstReadFail = append(sp.IstReadFail, i)
								}
							}
							hist := runnerHistory{Init: init, Starts: []startSpec{sp, {Reg: reg, CancelAt: never, CrashAt: never}}}
							h.runnerHistoryCase(hist, "enum-read")
						}
					}
				}
			}
		}
	}
	// the opt-out error's flag list: every (last target, configuration) of a 4-migration registry with two
	// optional migrations, plus last-target bits beyond the registry (the loop's `break` / errNewerDatabase)
	for _, reg := range []string{"mdde", "mded", "mdmd", "dmmd", "medm"} {
		for last := uint64(0); last < 64; last++ {
			cur := last & 1
			hist := runnerHistory{Init: diskSpec{HasMeta: true, Cur: cur, Last: last},
				Starts: []startSpec{{Reg: reg, CancelAt: never, CrashAt: never}}}
			h.runnerHistoryCase(hist, "enum-optout")
		}
	}
	h.res.Hit("runner-enum2-done")
	n := h.f.Scale(1500, 30000)
	for i := 0; i < n; i++ {
		hist := h.genHistory(h.r.Fork(uint64(1000000 + i)))
		if i < 4 {
			h.res.Sample(8, map[string]any{"kind": "runner-history", "history": hist})
		}
		h.runnerHistoryCase(hist, "rand")
	}
}

// runWithServerTie: migration.RunWithServer (status_server.go; what node/migration.go wraps migrateFn in when
// config.HTTP is set) on the real code: the wrapped function runs exactly once and its result — nil, an error,
// the error of a real runner whose migration fails — is returned unchanged; the database a failing start leaves
// is the one it leaves without the server (model: `nodeStart` ignores `http`).
func (h *harness) runWithServerTie() {
	sentinel := errors.New("verif: migrateFn failed")
	run := func(fn func() error) (error, int, bool) {
		calls := 0
		var got error
		ok := lib.WithDeadline(60*time.Second, func() {
			got = migration.RunWithServer(log.NewNopZapLogger(), "127.0.0.1", 0, func() error { calls++; return fn() })
		})
		return got, calls, ok
	}
	for _, c := range []struct {
		name string
		err  error
	}{{"nil", nil}, {"error", sentinel}} {
		got, calls, ok := run(func() error { return c.err })
		h.res.Case("run-with-server|"+c.name, true)
		h.res.Hit("run-with-server:" + c.name)
		switch {
		case !ok:
			h.res.Violate(lib.Violation{Sig: "status-server-wrapper-hangs", What: "migration.RunWithServer did not return within 60 s", Replay: c.name})
		case calls != 1:
			h.res.Violate(lib.Violation{Sig: "status-server-wrapper-runs-migrations-more-or-less-than-once",
				What: fmt.Sprintf("migration.RunWithServer called the migration function %d times", calls), Replay: c.name})
		case got != c.err:
			h.res.Violate(lib.Violation{Sig: "status-server-wrapper-drops-migration-error",
				What:   fmt.Sprintf("the migration function returned %v, migration.RunWithServer returned %v: with --http a failed upgrade is reported as done (or the reverse)", c.err, got),
				Replay: c.name})
		}
	}
	// a real runner inside: migration 0 completes, migration 1 fails — with and without the server
	sp := startSpec{Reg: "mm", CancelAt: never, CrashAt: never, Beh: map[int]migBeh{1: {Kind: "fail"}}}
	plain := memory.New()
	rPlain := realStart(plain, sp)
	served := memory.New()
	var rServed startResult
	got, calls, ok := run(func() error {
		rServed = realStart(served, sp)
		if rServed.result != "ok" {
			return sentinel
		}
		return nil
	})
	h.res.Case("run-with-server|runner", true)
	h.res.Hit("run-with-server:real-runner")
	h.res.Compared(1)
	if !ok || calls != 1 || got != sentinel || rServed.disk != rPlain.disk || rServed.why != rPlain.why || rServed.why != "migrate@1" {
		h.res.Violate(lib.Violation{Sig: "status-server-wrapper-changes-the-upgrade",
			What: fmt.Sprintf("registry mm, migration 1 fails: without the status server %s / %s, under RunWithServer %s / %s (returned %v, %d calls, returned in time: %v)",
				rPlain.why, rPlain.disk, rServed.why, rServed.disk, got, calls, ok), Replay: sp})
	}
}
