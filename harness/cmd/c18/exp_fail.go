//go:build verif

package main

import (
	"fmt"
	"os"
	"strings"
)

func init() {
	if os.Getenv("C18_EXP") != "fail" {
		return
	}
	c := chainSpec{Seed: 3, Counts: repeatInt(2, 60), Layout: strings.Repeat("o", 60)}
	d, _ := c.build()
	for _, infl := range []bool{true, false} {
		for k := 1; k <= 10; k++ {
			for _, all := range []bool{false, true} {
				o := runBlockTx(d, btPlan{Inflate: infl, FailAt: k, FailAll: all}, false)
				fmt.Println("inflate", infl, "failAt", k, "all", all, "->", o.ret, o.errText, "commits", o.commits)
				if o.ret == "hang" {
					hungOnce.Store(false)
				}
			}
		}
	}
	os.Exit(0)
}
