//go:build verif

package main

import (
	"context"
	"errors"
	"fmt"
	"go/ast"
	"go/parser"
	"go/token"
	"os"
	"path/filepath"
	"strconv"
	"strings"
	"time"

	"github.com/NethermindEth/juno/blockchain"
	"github.com/NethermindEth/juno/blockchain/networks"
	"github.com/NethermindEth/juno/core"
	"github.com/NethermindEth/juno/db/memory"
	"github.com/NethermindEth/juno/l1"
	"github.com/NethermindEth/juno/migration"
	"github.com/NethermindEth/juno/utils/log"
	"verif/harness/lib"
)

// The REAL wiring of node/migration.go, run (round 6).
//
// Package node cannot be linked into the harness: node/metrics.go imports juno/jemalloc, whose cgo
// directive `#cgo pkg-config: jemalloc` needs a library this machine does not have. So the pre_cmd of
// checks/c18.json copies node/migration.go OF THE TREE UNDER TEST into this package on every run
// (zz_node_migration_gen.go: only the package clause is replaced), and this file supplies the three
// symbols of package node that the file refers to. `registerMigrations`, `migrateIfNeeded` and
// `fetchL1HeadIfMissing` below are therefore the functions of the tree under test, compiled, not a
// transcription; `shimProbe` checks at run time that the shims still say what package node says.

// Config: the fields of node.Config that node/migration.go reads (types checked by shimProbe).
type Config struct {
	Prune          bool
	RetainedBlocks uint64
	PruneMinAge    time.Duration
	NewState       bool
	Network        networks.Network
	HTTP           bool
	HTTPHost       string
	HTTPPort       uint16
	EthNode        string
}

// PruneModeFlag: node/node.go (value checked by shimProbe).
const PruneModeFlag = "prune-mode"

var shimConfigFields = map[string]string{
	"Prune": "bool", "RetainedBlocks": "uint64", "PruneMinAge": "time.Duration", "NewState": "bool",
	"Network": "networks.Network", "HTTP": "bool", "HTTPHost": "string", "HTTPPort": "uint16", "EthNode": "string",
}

var errNoEthNode = errors.New("verif: no Ethereum node in the harness")

// newGethL1StateProvider of node/node.go needs a websocket Ethereum node; without one it returns an error
// (as it does for an empty --eth-node). fetchL1HeadIfMissing's outcome "the client stores a head" is not
// reachable without the network (NodeEnv.fetchStores stays a model-only case).
func newGethL1StateProvider(_ context.Context, _ string, _ *blockchain.Blockchain, _ ...l1.GethL1StateProviderOption) (*l1.GethL1StateProvider, error) {
	return nil, errNoEthNode
}

func repoDir() string {
	if r := os.Getenv("VERIF_REPO"); r != "" {
		return r
	}
	return "/repo"
}

// shimProbe: the shims above agree with package node of the tree under test, and the generated copy is the
// copy of THIS tree's node/migration.go (a stale copy would test another tree's wiring).
func (h *harness) shimProbe() bool {
	dir := filepath.Join(repoDir(), "node")
	fset := token.NewFileSet()
	pkgs, err := parser.ParseDir(fset, dir, func(fi os.FileInfo) bool { return !strings.HasSuffix(fi.Name(), "_test.go") }, 0)
	if err != nil || pkgs["node"] == nil {
		h.res.Fatalf("node-wiring: cannot parse %s: %v", dir, err)
		return false
	}
	ok := true
	flag, fields := "", map[string]string{}
	for _, f := range pkgs["node"].Files {
		ast.Inspect(f, func(n ast.Node) bool {
			switch v := n.(type) {
			case *ast.ValueSpec:
				for i, nm := range v.Names {
					if nm.Name == "PruneModeFlag" && i < len(v.Values) {
						if bl, isLit := v.Values[i].(*ast.BasicLit); isLit {
							flag, _ = strconv.Unquote(bl.Value)
						}
					}
				}
			case *ast.TypeSpec:
				if st, isStruct := v.Type.(*ast.StructType); isStruct && v.Name.Name == "Config" {
					for _, fl := range st.Fields.List {
						for _, nm := range fl.Names {
							fields[nm.Name] = exprString(fset, fl.Type)
						}
					}
				}
			}
			return true
		})
	}
	if flag != PruneModeFlag {
		h.res.Fatalf("node-wiring: node.PruneModeFlag is %q, the harness shim says %q", flag, PruneModeFlag)
		ok = false
	}
	for name, typ := range shimConfigFields {
		if fields[name] != typ {
			h.res.Fatalf("node-wiring: node.Config.%s has type %q, the harness shim says %q", name, fields[name], typ)
			ok = false
		}
	}
	src, err1 := os.ReadFile(filepath.Join(dir, "migration.go"))
	gen, err2 := os.ReadFile(filepath.Join(harnessSrcDir(), "zz_node_migration_gen.go"))
	if err1 == nil && err2 == nil {
		want := strings.Replace(string(src), "\npackage node\n", "\npackage main\n", 1)
		if strings.HasPrefix(want, "package node\n") {
			want = "package main\n" + strings.TrimPrefix(want, "package node\n")
		}
		if !strings.HasSuffix(string(gen), want) {
			h.res.Fatalf("node-wiring: harness/cmd/c18/zz_node_migration_gen.go is not the copy of %s/node/migration.go (run through ./check, whose pre_cmd regenerates it)", repoDir())
			ok = false
		}
	} else if err1 != nil {
		h.res.Fatalf("node-wiring: %v", err1)
		ok = false
	} // the generated file is not readable when the harness binary runs elsewhere: it was compiled in, nothing to compare
	return ok
}

func harnessSrcDir() string {
	if d := os.Getenv("VERIF_HARNESS_SRC"); d != "" {
		return d
	}
	return "/verif/harness/cmd/c18"
}

// ---- one start of the node's migration phase through the real migrateIfNeeded -----------------------

type nodeStartSpec struct {
	Prune    bool `json:"prune,omitempty"`    // --prune-mode given
	NewState bool `json:"newState,omitempty"` // --new-state
	HTTP     bool `json:"http,omitempty"`     // --http: the same under migration.RunWithServer
	Retained int  `json:"retained,omitempty"` // value of --prune-mode (0 = the spec's)
	CancelAt int  `json:"cancelAt,omitempty"` // the context is cancelled right after this store commit
	CrashAt  int  `json:"crashAt,omitempty"`  // the process dies right after this store commit
	// FailGetAt: the n-th Get/Has of the start fails once with an I/O error (1 = the first read of the start, which
	// is deprecated.MigrateIfNeeded's: the deprecated step fails)
	FailGetAt int64 `json:"failGetAt,omitempty"`
}

func (s nodeStartSpec) disturbed() bool { return s.CancelAt > 0 || s.CrashAt > 0 || s.FailGetAt > 0 }

// nodeTarget: the target version of a binary started with these flags (pinnedRegistration: blocktransactions
// mandatory, prune-mode optional, new-state optional, statedifflength mandatory).
func (s nodeStartSpec) target() uint64 {
	t := uint64(1<<0 | 1<<3)
	if s.Prune {
		t |= 1 << 1
	}
	if s.NewState {
		t |= 1 << 2
	}
	return t
}

type nodeHistory struct {
	Spec fullSpec `json:"spec"`
	// Meta: bits OR-ed into the stored (CurrentVersion, LastTargetVersion) before start number MetaAt (a NEWER
	// binary applied / started a migration this binary does not have)
	MetaCur  uint64          `json:"metaCur,omitempty"`
	MetaLast uint64          `json:"metaLast,omitempty"`
	MetaAt   int             `json:"metaAt,omitempty"`
	Starts   []nodeStartSpec `json:"nodeStarts"`
}

type nodeOutcome struct {
	err     error
	after   *memory.Database
	ran     *memory.Database // the database at the end of the run (== after unless the process died)
	crashed bool
	commits int
	hang    bool
	skipped bool
	panicS  string
}

func realNodeStart(d *memory.Database, spec fullSpec, sp nodeStartSpec) nodeOutcome {
	var out nodeOutcome
	work := d.Copy()
	store := newFaultStore(work)
	store.getFailAt = sp.FailGetAt
	ctx, cancel := context.WithCancel(context.Background())
	defer cancel()
	var image *memory.Database
	store.hook = func(n int, fs *faultStore) {
		if sp.CancelAt > 0 && n == sp.CancelAt {
			cancel()
		}
		if sp.CrashAt > 0 && n == sp.CrashAt && image == nil {
			image = fs.image()
		}
	}
	ret := spec.retained()
	if sp.Retained > 0 {
		ret = uint64(sp.Retained)
	}
	cfg := &Config{Prune: sp.Prune, RetainedBlocks: ret, NewState: sp.NewState, Network: networks.Sepolia,
		HTTP: sp.HTTP, HTTPHost: "127.0.0.1", HTTPPort: 0}
	if hungOnce.Load() {
		// an earlier run of some migration did not return (already reported there): its goroutines may still spin
		out.skipped, out.after, out.ran = true, d, d
		return out
	}
	finished := store.runWatched(8*time.Second, 180*time.Second, func() {
		e, panicked, stack := lib.Try(func() error { return migrateIfNeeded(ctx, store, cfg, nil, log.NewNopZapLogger()) })
		out.err = e
		if panicked {
			out.panicS = e.Error() + "\n" + stack
		}
	})
	if !finished {
		out.hang, out.after, out.ran = true, d, d
		hungOnce.Store(true)
		return out
	}
	out.commits = store.commits
	out.ran = work
	if image != nil {
		out.crashed, out.after = true, image
	} else {
		out.after = work
	}
	return out
}

// classifyNodeError: which step of migrateIfNeeded the error comes from, in the vocabulary of the model's
// `node.start` answer.
func classifyNodeError(err error) string {
	if err == nil {
		return "ok"
	}
	msg := err.Error()
	switch {
	case strings.HasPrefix(msg, "deprecated migration failed"):
		return "depfail"
	case strings.HasPrefix(msg, "fetching L1 head for pruning"):
		return "l1fail"
	case strings.HasPrefix(msg, "creating migration runner"):
		switch {
		case strings.Contains(msg, "cannot opt out"):
			a, b := strings.Index(msg, "["), strings.LastIndex(msg, "]")
			if a < 0 || b < a {
				return "refused:?" + msg
			}
			var toks []string
			for _, f := range strings.Fields(msg[a+1 : b]) {
				switch {
				case f == "--"+PruneModeFlag:
					toks = append(toks, "1f")
				case f == "--new-state":
					toks = append(toks, "2f")
				case strings.HasPrefix(f, "--migration-"):
					toks = append(toks, strings.TrimPrefix(f, "--migration-")+"m")
				default:
					toks = append(toks, "?"+f)
				}
			}
			return "refused:optout:" + strings.Join(toks, ",")
		case strings.Contains(msg, "newer, incompatible"):
			return "refused:newer"
		}
		return "refused:?" + msg
	}
	return "err"
}

func b01(b bool) string {
	if b {
		return "1"
	}
	return "0"
}

// nodeHistoryCase: the starts of hist on one database through the REAL migrateIfNeeded; per start the refusal
// oracle of the property, the Lean model's `node.start` (undisturbed starts) and the harness's own rebuilt wiring
// (realFullStart, which every other whole-upgrade family uses) are compared with what the real wiring did.
func (h *harness) nodeHistoryCase(hist nodeHistory, family string) bool {
	d, err := hist.Spec.build()
	if err != nil {
		h.res.Fatalf("node-wiring fixture does not build: %v", err)
		return false
	}
	violate := func(sig, what string) bool {
		h.res.Violate(lib.Violation{Sig: sig, What: what, Replay: hist})
		return false
	}
	var flagsSeen []string
	for si, sp := range hist.Starts {
		if (hist.MetaCur != 0 || hist.MetaLast != 0) && hist.MetaAt == si {
			md, _ := migration.GetSchemaMetadata(d)
			md.CurrentVersion |= migration.SchemaVersion(hist.MetaCur)
			md.LastTargetVersion |= migration.SchemaVersion(hist.MetaLast)
			if err := migration.WriteSchemaMetadata(d, md); err != nil {
				h.res.Fatalf("node-wiring: writing metadata: %v", err)
				return false
			}
		}
		preDisk, md, has, _ := readDisk(d)
		cur, last := uint64(0), uint64(0)
		if has {
			cur, last = uint64(md.CurrentVersion), uint64(md.LastTargetVersion)
		}
		target := sp.target()
		_, l1err := core.GetL1Head(d)
		l1Missing := sp.Prune && l1err != nil
		mustRefuse := cur&^target != 0 || last&^target != 0
		flagsSeen = append(flagsSeen, fmt.Sprintf("%s%s%s", b01(sp.Prune), b01(sp.NewState), b01(sp.HTTP)))
		preDump := dump(d)
		o := realNodeStart(d, hist.Spec, sp)
		key := fmt.Sprintf("node|%s|%v|%x/%x@%d|%d|%+v", family, hist.Spec.Chain.Layout, hist.MetaCur, hist.MetaLast, hist.MetaAt, si, hist.Starts[:si+1])
		h.res.Case(key, o.commits > 0 || o.err != nil)
		h.res.Hit("node-start:" + family)
		if o.skipped {
			h.res.Hit("node-start:skipped-after-a-hang-elsewhere")
			return true
		}
		if o.hang {
			return violate("node-start-hangs", fmt.Sprintf("start %d (%+v) on %s: migrateIfNeeded did not return", si, sp, preDisk))
		}
		if o.panicS != "" {
			return violate("node-start-panics", fmt.Sprintf("start %d (%+v) on %s: %s", si, sp, preDisk, o.panicS))
		}
		class := classifyNodeError(o.err)
		postDisk, md2, has2, _ := readDisk(o.after)
		cur2, last2 := uint64(0), uint64(0)
		if has2 {
			cur2, last2 = uint64(md2.CurrentVersion), uint64(md2.LastTargetVersion)
		}
		describe := fmt.Sprintf("history of flag sets (prune,new-state,http) %v; start %d runs with prune-mode=%v new-state=%v http=%v on a database with applied=%#b opted-into=%#b (this binary's target: %#b)",
			flagsSeen, si, sp.Prune, sp.NewState, sp.HTTP, cur, last, target)
		// ---- the refusal oracle of the property ----
		switch {
		case sp.FailGetAt > 0:
			// the deprecated migrations fail (their first read returns an I/O error): the schema runner must not be reached
			h.res.Hit("node-start:deprecated-step-fails")
			if o.err == nil {
				return violate("node-drops-the-error-of-a-migration-step", describe+": deprecated.MigrateIfNeeded failed (injected I/O error on its first read), yet migrateIfNeeded returned nil (metadata afterwards: "+postDisk+")")
			}
			if same, diff := sameDump(preDump, dump(o.ran)); !same {
				return violate("node-continues-after-failed-deprecated-migration", describe+": deprecated.MigrateIfNeeded failed (injected I/O error on its first read), the start returned "+o.err.Error()+" but changed the database: "+diff)
			}
			if class != "depfail" {
				h.res.Fatalf("node-wiring: the injected failure of read %d was expected in deprecated.MigrateIfNeeded, the start answered %q (%v)", sp.FailGetAt, class, o.err)
			}
			if a := h.bt.ask(nodeDiskLine(preDisk)); a != "ok" {
				h.res.Fatalf("node-wiring: the driver answered %q to %q", a, nodeDiskLine(preDisk))
			}
			ans := h.bt.ask(fmt.Sprintf("node.start 1 %s %s p 0 %s %d %d", b01(sp.Prune), b01(sp.NewState), b01(sp.HTTP), never, never))
			h.res.Compared(1)
			if got := class + " " + postDisk; got != ans {
				h.res.Mismatch(lib.Mismatch{Sig: "node-start-differs-from-model", Input: fmt.Sprintf("%s | start %d: %+v on %s", family, si, sp, preDisk), Model: ans, Impl: got})
			}
		case l1Missing:
			h.res.Hit("node-start:l1-head-missing")
			if o.err == nil {
				return violate("node-runs-prune-migration-without-l1-head", describe+": no L1 head is stored and none can be fetched, yet migrateIfNeeded returned nil")
			}
			if same, diff := sameDump(preDump, dump(o.ran)); !same {
				return violate("node-runs-prune-migration-without-l1-head", describe+": no L1 head is stored and none can be fetched; the start failed ("+o.err.Error()+") but only after the schema runner had changed the database: "+diff)
			}
		case mustRefuse:
			h.res.Hit("node-start:must-refuse")
			if cur&^target != 0 {
				h.res.Hit("node-start:must-refuse-applied-migration-missing")
			} else {
				h.res.Hit("node-start:must-refuse-opted-into-migration-missing")
			}
			if o.err == nil {
				return violate("node-start-skips-the-runners-refusal", describe+
					": a migration already applied or previously opted into is missing from this start, migration.NewRunner refuses such a database, but migrateIfNeeded returned nil (metadata afterwards: "+postDisk+")")
			}
			if !strings.HasPrefix(class, "refused") {
				h.res.Hit("node-start:refused-by-another-step")
			}
			if same, diff := sameDump(preDump, dump(o.ran)); !same {
				return violate("node-refused-start-changes-database", describe+": the start was refused ("+o.err.Error()+") but changed the database: "+diff)
			}
		default:
			h.res.Hit("node-start:acceptable")
			if strings.HasPrefix(class, "refused") {
				return violate("node-refuses-acceptable-database", describe+": nothing applied or opted into is missing, yet: "+o.err.Error())
			}
			if cur2&^(cur|target) != 0 {
				return violate("node-start-applies-migration-outside-target", describe+fmt.Sprintf(": applied afterwards %#b", cur2))
			}
			if cur2&cur != cur {
				return violate("applied-bit-cleared", describe+fmt.Sprintf(": applied afterwards %#b", cur2))
			}
			if o.err == nil && !o.crashed && (cur2&target != target || last2 != target) {
				return violate("node-start-ok-but-target-not-applied", describe+": migrateIfNeeded returned nil, metadata afterwards "+postDisk)
			}
			if o.commits > 0 && has2 && last2 != target && !o.crashed {
				return violate("node-start-does-not-record-its-target", describe+": metadata afterwards "+postDisk)
			}
		}
		// ---- correspondence: the Lean model's node start, and the harness's rebuilt wiring ----
		if !sp.disturbed() {
			l1 := "p"
			if l1err != nil {
				l1 = "m"
			}
			if a := h.bt.ask(nodeDiskLine(preDisk)); a != "ok" {
				h.res.Fatalf("node-wiring: the driver answered %q to %q", a, nodeDiskLine(preDisk))
			}
			ans := h.bt.ask(fmt.Sprintf("node.start 0 %s %s %s 0 %s %d %d", b01(sp.Prune), b01(sp.NewState), l1, b01(sp.HTTP), never, never))
			h.res.Compared(1)
			got := class + " " + postDisk
			want := ans
			if k := strings.Index(want, " calls="); k >= 0 {
				want = want[:k]
			}
			if got != want {
				h.res.Mismatch(lib.Mismatch{Sig: "node-start-differs-from-model", Input: fmt.Sprintf("%s | start %d: %+v on %s", family, si, sp, preDisk), Model: ans, Impl: got})
			}
			if !l1Missing {
				fo := realFullStart(d, hist.Spec, fullStart{Prune: sp.Prune, HeadState: sp.NewState, Retained: sp.Retained})
				h.res.Compared(1)
				fclass := fo.open
				if fo.open == "ok" {
					fclass = fo.result
				}
				nclass := class
				if strings.HasPrefix(class, "refused") {
					nclass = "refused"
				}
				same, diff := true, ""
				if fo.after != nil && !fo.hang {
					same, diff = sameDump(dump(fo.after), dump(o.after))
				}
				if fclass != nclass || !same {
					h.res.Mismatch(lib.Mismatch{Sig: "node-wiring-differs-from-the-harness-wiring", Input: fmt.Sprintf("%s | start %d: %+v on %s", family, si, sp, preDisk),
						Model: fclass + " (harness: deprecated.MigrateIfNeeded, fullRegistry, NewRunner, Run)", Impl: nclass + " " + diff})
				}
			}
		} else {
			h.res.Hit("node-start:disturbed")
		}
		d = o.after
	}
	return true
}

func nodeDiskLine(disk string) string {
	// readDisk: "meta=<cur>/<last> ist=<i>:<hex>,…"  →  driver: "disk <cur>/<last> <i>:<hex> …"
	parts := strings.SplitN(disk, " ist=", 2)
	line := "disk " + strings.TrimPrefix(parts[0], "meta=")
	if len(parts) == 2 && parts[1] != "-" {
		line += " " + strings.ReplaceAll(parts[1], ",", " ")
	}
	return line
}

// nodeWiringAll: multi-start histories with changing flag sets through the real migrateIfNeeded.
func (h *harness) nodeWiringAll() {
	if !h.shimProbe() {
		return
	}
	// registerMigrations of the tree under test vs the model's nodeRegistry, for the four flag sets
	for _, p := range []bool{false, true} {
		for _, n := range []bool{false, true} {
			reg := registerMigrations(&Config{Prune: p, NewState: n, RetainedBlocks: 4})
			got := fmt.Sprintf("%x %d", uint64(reg.TargetVersion()), reg.Count())
			for i, f := range reg.OptionalMigrationFlags() {
				if f != "" {
					got += fmt.Sprintf(" %d:%s", i, f)
				}
			}
			want := h.bt.ask(fmt.Sprintf("node.registry %s %s", b01(p), b01(n)))
			h.res.Compared(1)
			h.res.Case(fmt.Sprintf("node-registry|%v|%v", p, n), true)
			h.res.Hit("node-registry")
			if got != want {
				h.res.Mismatch(lib.Mismatch{Sig: "node-registry-differs-from-model", Input: fmt.Sprintf("prune=%v new-state=%v", p, n), Model: want, Impl: got})
			}
			if uint64(reg.TargetVersion()) != (nodeStartSpec{Prune: p, NewState: n}).target() {
				h.res.Violate(lib.Violation{Sig: "registration-order-changes-meaning-of-applied-bits",
					What:   fmt.Sprintf("registerMigrations(prune=%v, new-state=%v) targets %#b, databases in the field were written with %#b for these flags", p, n, uint64(reg.TargetVersion()), (nodeStartSpec{Prune: p, NewState: n}).target()),
					Replay: map[string]any{"prune": p, "newState": n}})
				return
			}
		}
	}
	spec := fullSpec{Chain: chainSpec{Seed: 21, Counts: append(append(repeatInt(2, 9), 0, 0), repeatInt(1, 3)...),
		Layout: strings.Repeat("o", 9) + "--" + strings.Repeat("o", 3)}, Contracts: 3, Prunable: true}
	flagSets := []nodeStartSpec{{}, {Prune: true}, {NewState: true}, {Prune: true, NewState: true}}
	// every sequence of three flag sets (4^3); --http alternates
	k := 0
	for _, a := range flagSets {
		for _, b := range flagSets {
			for _, c := range flagSets {
				b.HTTP = k%3 == 0
				c.HTTP = k%4 == 1
				h.nodeHistoryCase(nodeHistory{Spec: spec, Starts: []nodeStartSpec{a, b, c}}, "flags")
				k++
			}
		}
	}
	// an optional migration interrupted (or only opted into: the first metadata write records the target), then a
	// start without its flag, then with it again
	if d0, err := spec.build(); err == nil {
		for _, a := range flagSets[1:] {
			tw := realNodeStart(d0, spec, a)
			h.res.HitN("node-commits", tw.commits)
			if tw.err != nil || tw.commits == 0 {
				h.res.Fatalf("node-wiring: the undisturbed start %+v fails: %v", a, tw.err)
				continue
			}
			// EVERY commit of the start is the interruption point, as a cancellation and as a death
			for c := 1; c <= tw.commits; c++ {
				for _, crash := range []bool{false, true} {
					first, second := a, a
					without := []nodeStartSpec{{}, {Prune: a.NewState && a.Prune, NewState: false}, {Prune: false, NewState: a.NewState && a.Prune}}[c%3]
					if crash {
						first.CrashAt = c
					} else {
						first.CancelAt = c
					}
					without.HTTP = c%4 == 0
					h.nodeHistoryCase(nodeHistory{Spec: spec, Starts: []nodeStartSpec{first, without, second, without}}, "interrupted-optin")
					// the same on a database whose mandatory migrations are all applied (a start without any flag came
					// first): while the optional migration is interrupted NOTHING is pending for a start without its flag
					if c%2 == 0 {
						h.nodeHistoryCase(nodeHistory{Spec: spec, Starts: []nodeStartSpec{{}, first, without, second, without}}, "interrupted-optin-after-upgrade")
					}
				}
			}
		}
	} else {
		h.res.Fatalf("node-wiring fixture does not build: %v", err)
	}
	// a NEWER binary applied (bit 4) or only started (last-target bit 4 / 5) a migration this binary lacks
	for _, m := range []struct{ cur, last uint64 }{{1 << 4, 1 << 4}, {0, 1 << 4}, {1 << 4, 0}, {0, 1 << 5}, {1 << 63, 1 << 63}, {0, 1 << 63}} {
		for at := 0; at <= 1; at++ {
			all := nodeStartSpec{Prune: true, NewState: true, HTTP: at == 1 && m.cur == 0}
			h.nodeHistoryCase(nodeHistory{Spec: spec, MetaCur: m.cur, MetaLast: m.last, MetaAt: at, Starts: []nodeStartSpec{all, all, {}}}, "newer-binary")
		}
	}
	// the deprecated migrations fail (I/O error on their first read), on a fresh database and after an interrupted /
	// completed upgrade, with every flag set, with and without --http; the next start is healthy
	for i, a := range flagSets {
		for _, http := range []bool{false, true} {
			f := a
			f.FailGetAt, f.HTTP = 1, http
			first := a
			if i%2 == 1 {
				first.CancelAt = 9
			}
			h.nodeHistoryCase(nodeHistory{Spec: spec, Starts: []nodeStartSpec{f, first, f, a, f}}, "deprecated-fails")
		}
	}
	// prune mode without an L1 head on disk (and no Ethereum node to fetch one from)
	noL1 := spec
	noL1.Prunable = false
	for _, s := range [][]nodeStartSpec{{{Prune: true}, {}, {Prune: true, NewState: true, HTTP: true}}, {{NewState: true}, {Prune: true, NewState: true}, {NewState: true}}} {
		h.nodeHistoryCase(nodeHistory{Spec: noL1, Starts: s}, "no-l1-head")
	}
}
