//go:build verif

// Code generated from node/migration.go of the tree under test by the pre_cmd in checks/c18.json (package clause replaced, nothing else); DO NOT EDIT.

package main

import (
	"context"
	"errors"
	"fmt"

	"github.com/NethermindEth/juno/blockchain"
	"github.com/NethermindEth/juno/core"
	"github.com/NethermindEth/juno/db"
	"github.com/NethermindEth/juno/l1"
	"github.com/NethermindEth/juno/migration"
	"github.com/NethermindEth/juno/migration/blocktransactions"
	"github.com/NethermindEth/juno/migration/deprecated" //nolint:staticcheck,nolintlint,lll // ignore statick check package will be removed in future, nolinlint because main config does not check
	"github.com/NethermindEth/juno/migration/historyprunner"
	"github.com/NethermindEth/juno/migration/state/headstate"
	"github.com/NethermindEth/juno/migration/statedifflength"
	"github.com/NethermindEth/juno/utils/log"
)

// registerMigrations creates and configures the migration registry with all migrations.
// This is where all migrations should be registered. Optional migrations can use
// config variables from cfg to determine if they should be enabled.
func registerMigrations(cfg *Config) *migration.Registry {
	registry := migration.NewRegistry().
		With(&blocktransactions.Migrator{}).
		WithOptional(
			historyprunner.New(cfg.RetainedBlocks, cfg.PruneMinAge),
			cfg.Prune,
			PruneModeFlag,
		).
		WithOptional(&headstate.Migrator{}, cfg.NewState, "new-state").
		With(&statedifflength.Migrator{})

	return registry
}

// migrateIfNeeded runs all migrations (deprecated and new) if needed.
// If HTTP is enabled in config, it will start a status server to expose
// migration progress via health check endpoints.
func migrateIfNeeded(
	ctx context.Context,
	database db.KeyValueStore,
	config *Config,
	chain *blockchain.Blockchain,
	logger log.Logger,
) error {
	migrateFn := func() error {
		// Run deprecated migrations first
		if err := deprecated.MigrateIfNeeded(
			ctx,
			database,
			&config.Network,
			logger,
		); err != nil {
			return fmt.Errorf("deprecated migration failed: %w", err)
		}

		// Make sure there is an available L1 head before starting pruning migration
		if config.Prune {
			if err := fetchL1HeadIfMissing(ctx, database, config, chain, logger); err != nil {
				return fmt.Errorf("fetching L1 head for pruning: %w", err)
			}
		}

		// Run new migrations
		registry := registerMigrations(config)
		runner, err := migration.NewRunner(
			registry,
			database,
			&config.Network,
			logger,
		)
		if err != nil {
			return fmt.Errorf("creating migration runner: %w", err)
		}

		return runner.Run(ctx)
	}

	if config.HTTP {
		return migration.RunWithServer(
			logger,
			config.HTTPHost,
			config.HTTPPort,
			migrateFn,
		)
	}

	return migrateFn()
}

// fetchL1HeadIfMissing writes an L1 head to disk before the history pruning
// migration reads it. No-op when one is already stored.
func fetchL1HeadIfMissing(
	ctx context.Context,
	database db.KeyValueStore,
	config *Config,
	chain *blockchain.Blockchain,
	logger log.StructuredLogger,
) error {
	_, err := core.GetL1Head(database)
	if err == nil {
		return nil
	}
	if !errors.Is(err, db.ErrKeyNotFound) {
		return err
	}

	logger.Info("Fetching the L1 head before running the prune migration")
	// Metrics are registered by the long-lived L1 client built in node.New; reusing
	// them here would panic via prometheus.MustRegister. Hence no listener.
	provider, err := newGethL1StateProvider(ctx, config.EthNode, chain)
	if err != nil {
		return fmt.Errorf("creating L1 state provider: %w", err)
	}

	client := l1.NewClient(provider, chain, logger)
	if err := client.CatchUpL1Head(ctx); err != nil {
		return fmt.Errorf("catching up to the latest L1 head: %w", err)
	}

	if _, err := core.GetL1Head(database); err != nil {
		if errors.Is(err, db.ErrKeyNotFound) {
			return errors.New("couldn't find a finalized Starknet state update on L1")
		}
		return fmt.Errorf("getting L1 head: %w", err)
	}
	return nil
}
