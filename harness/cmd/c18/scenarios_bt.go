//go:build verif

package main

import (
	"fmt"
	"strings"
	"time"

	"github.com/NethermindEth/juno/core"
	"github.com/NethermindEth/juno/db"
	"github.com/NethermindEth/juno/db/memory"
	"github.com/NethermindEth/juno/migration/blocktransactions"
	"github.com/NethermindEth/juno/pruner"
	"verif/harness/lib"
)

// sentinels: the minimal inputs of the defects that were found and repaired (b4577f2, 1b3416d,
// 69981ea, edddfcf). The model is the current tree — there is no variant selection any more — so a
// regression of a fix is reported here as a violation with the defect's own sig and minimal replay
// (known/C18.json lists none: it FAILS the check), next to the mismatches of the families.
func (h *harness) probes() {
	if h.f.Replay != "" {
		return // a replay reports only what the replayed input shows
	}
	h.runnerProbes()
	// (A) resume over a hole: range 0 unmigrated, range 1 migrated
	{
		c := chainSpec{Seed: 7, Counts: repeatInt(1, 20), Layout: strings.Repeat("o", 10) + strings.Repeat("n", 10)}
		h.blockTxImage(c, "sentinel:resume-over-a-hole")
	}
	// (B) leading empty blocks below the aligned first block
	{
		cnt := append(repeatInt(0, 10), 1)
		c := chainSpec{Seed: 7, Counts: cnt, Layout: strings.Repeat("o", 11)}
		h.blockTxImage(c, "sentinel:leading-empty-blocks")
	}
}

// blockTxImage: build the database described by spec (possibly a crash image of an earlier run),
// run the real migration on it to completion, check the observed transition against the model and
// the property on the result. Returns the final database.
func (h *harness) blockTxImage(c chainSpec, where string) *memory.Database {
	d, err := c.build()
	if err != nil {
		h.res.Fatalf("spec does not build: %v", err)
		return nil
	}
	o := runBlockTx(d, btPlan{}, false)
	h.res.Case(fmt.Sprintf("img|%d|%v|%s", c.Seed, c.Counts, c.Layout), o.commits > 0)
	h.res.Hit("bt-run:" + o.ret)
	if o.ret == "hang" || o.ret == "panic" {
		h.res.Violate(lib.Violation{Sig: "blocktx-migrate-" + o.ret, What: o.errText, Replay: btReplay{c, "run Migrate", 0}})
		return nil
	}
	h.bt.transition(c, d, o.final, "return", o.retClass(), where)
	if o.ret == "done" {
		checkFinal(h.res, c, c, o.final)
	}
	return o.final
}

func (h *harness) blockTxAll() {
	// exhaustive small family: 3 ranges (height 24), every layout pattern per range in
	// {old, migrated} x every emptiness pattern per range in {non-empty, empty}
	for mask := 0; mask < 8; mask++ {
		for emp := 0; emp < 8; emp++ {
			counts := make([]int, 25)
			layout := make([]byte, 25)
			for b := range counts {
				rg := b / 10
				if emp&(1<<rg) == 0 {
					counts[b] = 1 + b%2
				}
				switch {
				case mask&(1<<rg) != 0:
					layout[b] = 'n'
				case counts[b] == 0:
					layout[b] = '-'
				default:
					layout[b] = 'o'
				}
			}
			h.blockTxImage(chainSpec{Seed: 11, Counts: counts, Layout: string(layout)}, "enum3")
		}
	}
	h.blockTxImage(chainSpec{NoHeight: true}, "empty-db")
	// old entries above the chain height (the height key lags behind the stored blocks): the
	// migration must return (an error or completion), not spin
	// two heights: 9 (the first entry above it, block 10, starts an aligned range: 459a03c) and 12 (blocks 13, 14 lie
	// above the height but their aligned range start 10 does not: 51a5cef)
	for _, hgt := range []int{9, 12} {
		c := chainSpec{Seed: 19, Counts: repeatInt(1, 15), Layout: strings.Repeat("o", 15), Corrupt: []string{fmt.Sprintf("set-height:%d", hgt)}}
		if d, err := c.build(); err != nil {
			h.res.Fatalf("fixture does not build: %v", err)
		} else {
			o := runMigrator(blocktransactions.Migrator{}, nil, d, btPlan{MaxSecs: 4}, false, 6*time.Second, false)
			h.res.Case(fmt.Sprintf("entries-above-height|%d", hgt), true)
			h.res.Hit("bt-entries-above-height:" + o.ret)
			if o.ret == "hang" {
				sig := "blocktx-busy-loops-on-old-entries-above-chain-height"
				if hgt%10 != 9 {
					sig += "-inside-an-aligned-range"
				}
				h.res.Violate(lib.Violation{Sig: sig,
					What: "old per-transaction entries exist for blocks above the stored chain height: no pass can remove them (a pass stops at the height), " +
						"it emits nothing, reports done without error, and the loop of Migrate repeats forever (4 s without returning, the store being read all the time)",
					Replay: btReplay{c, fmt.Sprintf("build spec (15 blocks stored, chain height key = %d), run Migrate with a deadline", hgt), 0}})
			}
		}
	}
	// databases the migration must refuse: every damage kind at the first, a middle and the last block
	for _, kind := range []string{"drop-receipts", "drop-txs", "drop-header", "count+1", "drop-last-receipt"} {
		for _, b := range []int{0, 13, 24} {
			c := chainSpec{Seed: 17, Counts: repeatInt(2, 25), Layout: strings.Repeat("o", 25), Corrupt: []string{fmt.Sprintf("%s:%d", kind, b)}}
			d, err := c.build()
			if err != nil {
				h.res.Fatalf("fixture does not build: %v", err)
				continue
			}
			o := runBlockTx(d, btPlan{}, false)
			h.res.Case("corrupt|"+c.Corrupt[0], true)
			h.res.Hit("bt-corrupt:" + kind + ":" + o.ret)
			if o.ret == "hang" || o.ret == "panic" {
				h.res.Violate(lib.Violation{Sig: "blocktx-migrate-" + o.ret, What: o.errText, Replay: btReplay{c, "run Migrate", 0}})
				continue
			}
			h.bt.transition(c, d, o.final, "return", o.retClass(), "corrupt")
			if o.ret == "done" {
				// the damage was not noticed: then nothing readable may have been lost
				for blk := uint64(0); blk <= c.height(); blk++ {
					if int(blk) == b {
						continue
					}
					if !sameView(readBlockCurrent(o.final, c, blk), c.expectedView(blk)) {
						h.res.Violate(lib.Violation{Sig: "blocktx-content-differs-after-migration",
							What: fmt.Sprintf("block %d damaged by migrating a database with damaged block %d", blk, b), Replay: btReplay{c, "run Migrate", blk}})
						break
					}
				}
			}
		}
	}
	h.blockTxPrunedCurrentLayout()
	n := h.f.Scale(40, 600)
	for i := 0; i < n; i++ {
		h.blockTxHistory(h.genSpec(h.r.Fork(uint64(i))), h.f.Scale(14, 40))
	}
}

// blockTxPrunedCurrentLayout: a database that is already in the current layout, whose prefix the running
// pruner has removed (pruner.PruneBlockDataUpto: commitments, state updates, combined entries below P,
// headers below P - 10) and whose block-transactions bit is not set (written by a binary older than the schema
// runner). Migrate finds no old entries and goes straight to its final step: the empty-block back-fill starts
// at the oldest retained block (check_status.go backfillEmptyBlocks / pruner.OldestRetainedBlock). It must
// complete, give every RETAINED empty block that has no entry its empty entry, and leave everything below
// the retained range alone (no entry resurrected, no failure on the missing headers). The Lean model has
// no pruned prefix (assumption in checks/c18.json): oracle on the real code only.
func (h *harness) blockTxPrunedCurrentLayout() {
	const blocks = 32
	counts := make([]int, blocks)
	layout := make([]byte, blocks)
	for b := range counts {
		switch {
		case b%4 == 1 || (b >= 20 && b < 30):
			counts[b], layout[b] = 0, '-' // an empty block that never got an entry
		case b%4 == 3:
			counts[b], layout[b] = 0, 'n' // an empty block with its (empty) entry
		default:
			counts[b], layout[b] = 1+b%2, 'n'
		}
	}
	c := chainSpec{Seed: 23, Counts: counts, Layout: string(layout)}
	for _, p := range []uint64{0, 1, 9, 10, 11, 21, 30, 31} {
		fs := fullSpec{Chain: c}
		d, err := fs.build()
		if err != nil {
			h.res.Fatalf("fixture does not build: %v", err)
			return
		}
		if p > 0 {
			if err := pruner.PruneBlockDataUpto(d, p); err != nil {
				h.res.Fatalf("pruning the fixture: %v", err)
				return
			}
		}
		pre := dump(d)
		rp := map[string]any{"spec": c, "prunedUpto": p, "what": "build (current layout), pruner.PruneBlockDataUpto, run blocktransactions.Migrate"}
		o := runBlockTx(d, btPlan{}, false)
		h.res.Case(fmt.Sprintf("bt-pruned-current-layout|%d", p), true)
		h.res.Hit("bt-pruned-current-layout:" + o.ret)
		if o.ret != "done" {
			h.res.Violate(lib.Violation{Sig: "blocktx-fails-on-pruned-database", What: fmt.Sprintf("pruned up to %d: %s %s", p, o.ret, o.errText), Replay: rp})
			continue
		}
		post := dump(o.final)
		for b := uint64(0); b < blocks; b++ {
			has, _ := core.BlockTransactionsBucket.Has(o.final, b)
			if b < p {
				if has {
					h.res.Violate(lib.Violation{Sig: "blocktx-resurrects-pruned-block", What: fmt.Sprintf("pruned up to %d: block %d has a combined entry after the migration", p, b), Replay: rp})
					break
				}
				continue
			}
			if !sameView(readBlockCurrent(o.final, c, b), c.expectedView(b)) {
				h.res.Violate(lib.Violation{Sig: "blocktx-retained-block-unreadable-on-pruned-database",
					What: fmt.Sprintf("pruned up to %d: retained block %d (%d transactions) does not read as its original", p, b, counts[b]), Replay: rp})
				break
			}
		}
		// nothing that was there may change; only combined entries of retained blocks may appear
		btPrefix := string(db.BlockTransactions.Key())
		for k, v := range pre {
			if post[k] != v {
				h.res.Violate(lib.Violation{Sig: "blocktx-changes-pruned-database", What: fmt.Sprintf("pruned up to %d: key %x changed or vanished", p, k), Replay: rp})
				break
			}
		}
		for k := range post {
			if _, was := pre[k]; !was && !strings.HasPrefix(k, btPrefix) {
				h.res.Violate(lib.Violation{Sig: "blocktx-changes-pruned-database", What: fmt.Sprintf("pruned up to %d: new key %x", p, k), Replay: rp})
				break
			}
		}
	}
}

// genSpec draws a pre-migration database (everything in the previous layout).
func (h *harness) genSpec(r *lib.RNG) chainSpec {
	heights := []int{0, 1, 8, 9, 10, 11, 19, 20, 21, 29, 30, 31, 39, 40, 45, 59, 60, 61}
	n := lib.Pick(r, heights) + 1
	if r.Chance(1, 4) {
		n = r.Range(1, 64)
	}
	counts := make([]int, n)
	kind := r.Intn(6)
	for b := range counts {
		switch kind {
		case 0: // dense
			counts[b] = r.Range(1, 3)
		case 1: // sparse
			if r.Chance(1, 3) {
				counts[b] = r.Range(1, 2)
			}
		case 2: // leading empty prefix
			counts[b] = r.Range(1, 2)
		case 3: // whole aligned ranges empty
			counts[b] = r.Range(1, 2)
		case 4: // mostly empty
			if r.Chance(1, 12) {
				counts[b] = 1
			}
		default:
			counts[b] = r.Intn(3)
		}
	}
	if kind == 2 {
		k := lib.Pick(r, []int{1, 9, 10, 11, 13, 20, 25})
		for b := 0; b < k && b < n; b++ {
			counts[b] = 0
		}
	}
	if kind == 3 {
		for rg := 0; rg*btBatch < n; rg++ {
			if r.Chance(1, 3) {
				for b := rg * btBatch; b < (rg+1)*btBatch && b < n; b++ {
					counts[b] = 0
				}
			}
		}
	}
	layout := make([]byte, n)
	for b := range layout {
		if counts[b] == 0 {
			layout[b] = '-'
		} else {
			layout[b] = 'o'
		}
	}
	return chainSpec{Seed: r.Uint64() % 1000, Counts: counts, Layout: string(layout)}
}

// resumeAndCheck resumes from image img (of spec c) until the migration reports completion,
// checking every step against the model and the property at the end. twin is the database an
// uninterrupted run produced (nil: not compared).
func (h *harness) resumeAndCheck(c chainSpec, img *memory.Database, twin map[string]string, where string, depth int) {
	imgSpec := specOfImage(c, img)
	cur := img
	for round := 0; round < 4; round++ {
		plan := btPlan{}
		if depth > 0 && round == 0 && h.r.Chance(1, 3) {
			plan = btPlan{Inflate: h.r.Bool(), CancelAtCmt: h.r.Range(1, 3)}
		}
		o := runBlockTx(cur, plan, false)
		h.res.Case(fmt.Sprintf("resume|%d|%v|%s|%+v", c.Seed, c.Counts, layoutOf(cur, c.height()), plan), o.commits > 0)
		h.res.Hit("bt-resume:" + o.ret)
		if o.ret == "hang" || o.ret == "panic" {
			h.res.Violate(lib.Violation{Sig: "blocktx-migrate-" + o.ret, What: o.errText, Replay: btReplay{specOfImage(c, cur), "run Migrate", 0}})
			return
		}
		h.bt.transition(c, cur, o.final, "return", o.retClass(), where)
		if o.ret == "failed" {
			h.res.Violate(lib.Violation{Sig: "blocktx-resume-fails", What: "resumed migration returns an error: " + o.errText,
				Replay: btReplay{specOfImage(c, cur), "run Migrate", 0}})
			return
		}
		if o.ret == "done" {
			if plan == (btPlan{}) {
				imgSpec = specOfImage(c, cur)
			}
			checkFinal(h.res, c, imgSpec, o.final)
			if twin != nil {
				// unconditional: everything except the entries of empty blocks must equal the undisturbed run
				if same, why := sameDumpModuloEmpty(c, dump(o.final), twin); !same {
					h.res.Violate(lib.Violation{Sig: "blocktx-final-db-differs-from-uninterrupted-run", What: why,
						Replay: btReplay{imgSpec, "resume from this image vs. uninterrupted run from the all-old database", 0}})
				}
			}
			return
		}
		cur = o.final
	}
	h.res.Violate(lib.Violation{Sig: "blocktx-resume-does-not-complete", What: "4 uninterrupted reruns did not complete the migration",
		Replay: btReplay{imgSpec, "run Migrate repeatedly", 0}})
}

// blockTxHistory: one generated pre-migration database; the real migration is run uninterrupted
// (the twin), then with a crash after every commit and with cancellation at every commit / at
// sampled reads, each followed by reruns.
func (h *harness) blockTxHistory(c chainSpec, budget int) {
	d, err := c.build()
	if err != nil {
		h.res.Fatalf("spec does not build: %v", err)
		return
	}
	h.res.Sample(6, map[string]any{"kind": "blocktx-history", "spec": c})
	tw := runBlockTx(d, btPlan{}, false)
	h.res.Case(fmt.Sprintf("twin|%d|%v", c.Seed, c.Counts), tw.commits > 0)
	h.res.Hit("bt-run:" + tw.ret)
	if tw.ret != "done" {
		h.res.Violate(lib.Violation{Sig: "blocktx-uninterrupted-run-not-complete", What: tw.ret + " " + tw.errText,
			Replay: btReplay{c, "run Migrate", 0}})
		return
	}
	h.bt.transition(c, d, tw.final, "return", "done", "twin")
	checkFinal(h.res, c, c, tw.final)
	twin := dump(tw.final)
	h.res.Hit("bt-layout-differential")
	if why := layoutDifferential(c, d, tw.final); why != "" {
		h.res.Violate(lib.Violation{Sig: "blocktx-old-and-new-layout-readers-disagree",
			What:   "txlayout.TransactionLayoutPerTx on the previous-layout database vs txlayout.TransactionLayoutCombined on the migrated one: " + why,
			Replay: btReplay{c, "build spec, read with the per-tx layout, run Migrate, read with the combined layout", 0}})
	}

	for _, inflate := range []bool{true, false} {
		// crash after every commit of an otherwise uninterrupted run
		o := runBlockTx(d, btPlan{Inflate: inflate}, true)
		h.res.Case(fmt.Sprintf("images|%d|%v|%v", c.Seed, c.Counts, inflate), o.commits > 0)
		h.res.HitN("bt-commits", o.commits)
		for k, img := range o.images {
			if budget <= 0 {
				break
			}
			if len(o.images) > 6 && !h.r.Chance(6, len(o.images)) && k != 0 {
				continue
			}
			budget--
			h.res.Hit("bt-crash-image")
			l := layoutOf(img, c.height())
			if strings.Contains(l, "n") && strings.Contains(l[strings.Index(l, "n"):], "o") {
				h.res.Hit("bt-crash-image:hole")
			}
			h.bt.transition(c, d, img, "crash", "", fmt.Sprintf("crash-after-commit-%d", k+1))
			h.resumeAndCheck(c, img, twin, "resume-after-crash", 1)
		}
		// cancellation right after commit k
		for k := 1; k <= o.commits && budget > 0; k++ {
			if o.commits > 5 && !h.r.Chance(5, o.commits) {
				continue
			}
			budget--
			oc := runBlockTx(d, btPlan{Inflate: inflate, CancelAtCmt: k}, false)
			h.res.Hit("bt-cancel-at-commit:" + oc.ret)
			if oc.ret == "hang" || oc.ret == "panic" || oc.ret == "failed" {
				h.res.Violate(lib.Violation{Sig: "blocktx-cancelled-run-" + oc.ret, What: oc.errText, Replay: btReplay{c, "cancel after commit", 0}})
				continue
			}
			h.bt.transition(c, d, oc.final, "return", oc.ret, fmt.Sprintf("cancel-after-commit-%d", k))
			h.resumeAndCheck(c, oc.final, twin, "resume-after-cancel", 1)
		}
	}
	// cancellation at a database read (reaches the source while ingestors are busy), and before the start
	reads := int64(3*len(c.Counts) + 4)
	for i := 0; i < 3 && budget > 0; i++ {
		budget--
		p := btPlan{CancelAtGet: 1 + int64(h.r.Intn(int(reads)))}
		if i == 0 {
			p = btPlan{PreCancel: true}
		}
		oc := runBlockTx(d, p, false)
		h.res.Hit("bt-cancel-at-read:" + oc.ret)
		if oc.ret == "hang" || oc.ret == "panic" || oc.ret == "failed" {
			h.res.Violate(lib.Violation{Sig: "blocktx-cancelled-run-" + oc.ret, What: oc.errText, Replay: btReplay{c, "cancel at read", 0}})
			continue
		}
		h.bt.transition(c, d, oc.final, "return", oc.ret, "cancel-at-read")
		h.resumeAndCheck(c, oc.final, twin, "resume-after-cancel", 1)
	}
}

// blockTxWriteFailures: a batch write fails (once, or from then on: disk full). Migrate must return
// the error (not hang, not report completion), the database must still satisfy the invariant and
// a rerun on a healthy store must complete the migration.
func (h *harness) blockTxWriteFailures() {
	c := chainSpec{Seed: 3, Counts: repeatInt(2, 60), Layout: strings.Repeat("o", 60)}
	d, err := c.build()
	if err != nil {
		h.res.Fatalf("fixture does not build: %v", err)
		return
	}
	hangs := 0
	for _, all := range []bool{false, true} {
		for _, inflate := range []bool{true, false} {
			for k := 1; k <= 9; k++ {
				if hangs >= 1 {
					h.res.Hit("bt-writefail:skipped-after-hangs")
					continue
				}
				plan := btPlan{Inflate: inflate, FailAt: k, FailAll: all}
				o := runBlockTxD(d, plan, false, 1500*time.Millisecond, false)
				h.res.Case(fmt.Sprintf("writefail|%+v", plan), true)
				h.res.Hit("bt-writefail:" + o.ret)
				switch {
				case o.ret == "hang":
					hangs++
					h.res.Hit("oracle:migration-hangs-after-failed-batch-write")
					h.res.Violate(lib.Violation{Sig: "migration-hangs-after-failed-batch-write",
						What: "a batch write failed (from commit attempt " + fmt.Sprint(k) + " on, as with a full disk) while the ingestors flush at the size threshold: " +
							"the committer returns without releasing the batch slot, an ingestor blocks forever in batchSemaphore.GetBlocking() " +
							"(context.Background), Migrate never returns and cancelling the context does not help",
						Replay: map[string]any{"spec": c, "plan": plan}})
					continue
				case o.ret == "panic":
					h.res.Violate(lib.Violation{Sig: "blocktx-migrate-panic", What: o.errText, Replay: map[string]any{"spec": c, "plan": plan}})
					continue
				case o.failedWrites > 0 && o.ret == "done":
					// the failure was absorbed (retried): fine as long as nothing is missing
					h.res.Hit("bt-writefail:absorbed")
					if !checkFinal(h.res, c, c, o.final) {
						h.res.Violate(lib.Violation{Sig: "blocktx-swallows-failed-batch-write",
							What:   fmt.Sprintf("%d batch writes failed, Migrate returned (nil, nil) and data is missing", o.failedWrites),
							Replay: map[string]any{"spec": c, "plan": plan}})
					}
					continue
				}
				kind := "return"
				h.bt.transitionW(c, d, o.final, kind, o.retClass(), "write-failure", o.failedWrites > 0)
				h.resumeAndCheck(c, o.final, nil, "resume-after-write-failure", 0)
			}
		}
	}
}

// blockTxReadFaults: a READ fails inside the migration (header fetch, scan of the old entries, Has,
// chain height, first-block scan) — once, or from then on. The fault positions sweep every read of
// an undisturbed run. Migrate must refuse cleanly (error, nothing lost: the partial batch that Done
// still hands to the committer must not remove old data of blocks it did not migrate); a rerun on
// a healthy store must complete with the original content.
func (h *harness) blockTxReadFaults() {
	specs := []chainSpec{
		{Seed: 5, Counts: repeatInt(2, 35), Layout: strings.Repeat("o", 35)},
	}
	sparse := chainSpec{Seed: 6, Counts: make([]int, 27)}
	lay := make([]byte, 27)
	for b := range lay {
		lay[b] = '-'
		if b%3 != 1 {
			sparse.Counts[b], lay[b] = 1, 'o'
		}
	}
	sparse.Layout = string(lay)
	specs = append(specs, sparse)
	for _, c := range specs {
		d, err := c.build()
		if err != nil {
			h.res.Fatalf("fixture does not build: %v", err)
			continue
		}
		tw := runBlockTx(d, btPlan{}, false)
		if tw.ret != "done" {
			h.res.Fatalf("read-fault family: the undisturbed run returned %s %s", tw.ret, tw.errText)
			continue
		}
		twin := dump(tw.final)
		step := func(n int64) int64 {
			if h.f.Thorough() || n <= 40 {
				return 1
			}
			return n/40 + 1
		}
		var plans []btPlan
		for g := int64(1); g <= tw.gets; g += step(tw.gets) {
			plans = append(plans, btPlan{FailGetAt: g}, btPlan{FailGetAt: g, FailGetAll: true})
		}
		for i := int64(1); i <= tw.iters; i += step(tw.iters) {
			plans = append(plans, btPlan{FailIterAt: i}, btPlan{FailIterAt: i, FailIterAll: true}, btPlan{FailIterAt: i, Inflate: true})
		}
		for _, plan := range plans {
			h.blockTxReadFaultCase(c, d, twin, plan)
		}
	}
}

// blockTxReadFaultCase: one read-fault plan on database d of spec c (twin = dump of the undisturbed run).
func (h *harness) blockTxReadFaultCase(c chainSpec, d *memory.Database, twin map[string]string, plan btPlan) {
	o := runBlockTxD(d, plan, false, 6*time.Second, true)
	h.res.Case(fmt.Sprintf("readfault|%d|%+v", c.Seed, plan), true)
	kind := "get"
	if plan.FailIterAt > 0 {
		kind = "iter"
	}
	h.res.Hit("bt-readfault:" + kind + ":" + o.ret)
	rp := map[string]any{"spec": c, "plan": plan, "what": "run Migrate with the read fault, then rerun on a healthy store, read every block"}
	if o.ret == "hang" || o.ret == "panic" {
		h.res.Violate(lib.Violation{Sig: "blocktx-migrate-" + o.ret + "-on-read-error", What: o.errText, Replay: rp})
		return
	}
	// (1) nothing may be lost by the faulty run itself: every block still has its data in
	// one layout or the other
	lostAt := -1
	post := abstractImage(o.final, c)
	for b := range post {
		f := strings.Split(post[b], ":")
		if c.Counts[b] > 0 && f[1] == "-" && f[3] == "x" {
			lostAt = b
			break
		}
	}
	if lostAt >= 0 {
		h.res.Hit("oracle:blocktx-read-error-loses-unmigrated-blocks")
		h.res.Violate(lib.Violation{Sig: "blocktx-read-error-loses-unmigrated-blocks",
			What: fmt.Sprintf("a read failed while a range was being ingested; the batch written afterwards removed the old transactions/receipts of "+
				"block %d (%d transactions) although no new entry was written for it (layout after the run: %s)", lostAt, c.Counts[lostAt], layoutOf(o.final, c.height())),
			Replay: rp})
		return
	}
	// (2) model: the observed step must be an ingest-error / failed step of the model
	if o.failedReads > 0 && o.ret == "failed" {
		h.bt.ingestErrorTransition(c, d, o.final, rp)
	} else {
		h.bt.transition(c, d, o.final, "return", o.retClass(), "read-fault-not-hit-or-absorbed")
	}
	if o.ret == "done" {
		checkFinal(h.res, c, c, o.final)
		return
	}
	// (3) rerun on a healthy store
	r := runBlockTx(o.final, btPlan{}, false)
	if r.ret != "done" {
		h.res.Violate(lib.Violation{Sig: "blocktx-resume-fails-after-read-error", What: r.ret + " " + r.errText, Replay: rp})
		return
	}
	h.bt.transition(c, o.final, r.final, "return", "done", "rerun-after-read-fault")
	checkFinal(h.res, c, specOfImage(c, o.final), r.final)
	{
		if same, why := sameDumpModuloEmpty(c, dump(r.final), twin); !same {
			h.res.Violate(lib.Violation{Sig: "blocktx-final-db-differs-from-uninterrupted-run", What: "after a read error and a rerun: " + why, Replay: rp})
		}
	}
}

// blockTxFinalStep: the three commits of Migrate's FINAL step — the back-fill batch of the empty blocks, then the
// two DeletePrefix of clearOldBuckets — each as a crash point and as a failing write (once / from then on), on
// chains whose final step has work to do (empty blocks outside every pass), has none, or is the whole run
// (no old entries at all). Model steps crashFinal / crashClear / writeFail / failClear; a failing DeletePrefix is
// the only way Migrate returns a NIL state together with an error. Every image is resumed to completion and
// compared with the undisturbed twin.
func (h *harness) blockTxFinalStep() {
	gap := append(append(repeatInt(1, 10), repeatInt(0, 10)...), 2)
	specs := []chainSpec{
		{Seed: 31, Counts: append(repeatInt(0, 10), repeatInt(2, 5)...)}, // empty blocks below the aligned first block
		{Seed: 32, Counts: gap},              // an empty aligned range between two ranges with transactions
		{Seed: 33, Counts: repeatInt(0, 12)}, // nothing but empty blocks: the final step is the whole run
		{Seed: 34, Counts: repeatInt(1, 12)}, // no empty block: the back-fill batch is empty
	}
	for _, c := range specs {
		lay := make([]byte, len(c.Counts))
		for b, n := range c.Counts {
			lay[b] = 'o'
			if n == 0 {
				lay[b] = '-'
			}
		}
		c.Layout = string(lay)
		d, err := c.build()
		if err != nil {
			h.res.Fatalf("fixture does not build: %v", err)
			continue
		}
		o := runBlockTx(d, btPlan{}, true)
		if o.ret != "done" || o.commits < 3 || len(o.images) != o.commits {
			h.res.Fatalf("final-step family: the undisturbed run returned %s %s after %d commits", o.ret, o.errText, o.commits)
			continue
		}
		twin := dump(o.final)
		n := o.commits
		for k := n - 2; k <= n; k++ {
			pos := []string{"backfill", "clear-1", "clear-2"}[k-(n-2)]
			// the process dies right after commit k
			h.res.Case(fmt.Sprintf("final-step|%d|crash|%s", c.Seed, pos), true)
			h.res.Hit("bt-final-step:crash-after-" + pos)
			h.bt.transition(c, d, o.images[k-1], "crash", "", "final-step:crash-after-"+pos)
			h.resumeAndCheck(c, o.images[k-1], twin, "resume-after-final-step-crash", 0)
			// the write that would be commit k fails
			for _, all := range []bool{false, true} {
				plan := btPlan{FailAt: k, FailAll: all}
				of := runBlockTxD(d, plan, false, 3*time.Second, false)
				h.res.Case(fmt.Sprintf("final-step|%d|%+v", c.Seed, plan), true)
				h.res.Hit("bt-final-step:fail-" + pos + ":" + of.retClass())
				rp := map[string]any{"spec": c, "plan": plan, "what": "run Migrate; commit attempt " + fmt.Sprint(k) + " (" + pos + " of the final step) fails"}
				switch {
				case of.ret == "hang" || of.ret == "panic":
					h.res.Violate(lib.Violation{Sig: "blocktx-migrate-" + of.ret + "-on-final-step-write-error", What: of.errText, Replay: rp})
					continue
				case of.ret == "done" && pos == "backfill" && !checkFinal(h.res, c, c, of.final):
					h.res.Violate(lib.Violation{Sig: "blocktx-swallows-failed-batch-write",
						What: "the back-fill batch write failed, Migrate returned (nil, nil) and blocks are unreadable", Replay: rp})
					continue
				}
				h.bt.transitionW(c, d, of.final, "return", of.retClass(), "final-step:fail-"+pos, of.failedWrites > 0)
				h.resumeAndCheck(c, of.final, twin, "resume-after-final-step-write-failure", 0)
			}
		}
	}
}

// blockTxCancelAtReads: the context is cancelled at EVERY database read of an undisturbed run (header fetches,
// Has probes, the first-block scans — i.e. while the source, the ingestors or the committer are busy, and in the
// final step), alternately with and without the flush-size inflation. The run must return gracefully; the image
// must be a cancelled pass of the model (everything emitted is committed); the resumed run must reach the
// undisturbed twin.
func (h *harness) blockTxCancelAtReads() {
	gap := append(append(repeatInt(1, 10), repeatInt(0, 10)...), repeatInt(2, 5)...)
	sparse := make([]int, 27)
	for b := range sparse {
		if b%3 != 1 {
			sparse[b] = 1
		}
	}
	for si, counts := range [][]int{repeatInt(2, 35), sparse, gap} {
		c := chainSpec{Seed: uint64(41 + si), Counts: counts}
		lay := make([]byte, len(counts))
		for b, n := range counts {
			lay[b] = 'o'
			if n == 0 {
				lay[b] = '-'
			}
		}
		c.Layout = string(lay)
		d, err := c.build()
		if err != nil {
			h.res.Fatalf("fixture does not build: %v", err)
			continue
		}
		tw := runBlockTx(d, btPlan{}, false)
		if tw.ret != "done" {
			h.res.Fatalf("cancel-at-read family: the undisturbed run returned %s %s", tw.ret, tw.errText)
			continue
		}
		twin := dump(tw.final)
		step := int64(1)
		if !h.f.Thorough() && tw.gets > 90 {
			step = tw.gets/90 + 1
		}
		for g := int64(1); g <= tw.gets+1; g += step {
			plan := btPlan{CancelAtGet: g, Inflate: g%2 == 0}
			oc := runBlockTx(d, plan, false)
			h.res.Case(fmt.Sprintf("cancel-at-read|%d|%+v", c.Seed, plan), true)
			h.res.Hit("bt-cancel-at-every-read:" + oc.ret)
			if oc.ret == "hang" || oc.ret == "panic" || oc.ret == "failed" {
				h.res.Violate(lib.Violation{Sig: "blocktx-cancelled-run-" + oc.ret, What: oc.errText,
					Replay: map[string]any{"spec": c, "plan": plan, "what": "run Migrate, cancel the context at this read"}})
				continue
			}
			h.bt.transition(c, d, oc.final, "return", oc.retClass(), fmt.Sprintf("cancel-at-read-%d", g))
			if oc.ret == "done" {
				checkFinal(h.res, c, c, oc.final)
				if same, why := sameDump(dump(oc.final), twin); !same {
					h.res.Violate(lib.Violation{Sig: "blocktx-final-db-differs-from-uninterrupted-run", What: "cancelled late, completed: " + why,
						Replay: btReplay{c, "run Migrate with a cancellation at read " + fmt.Sprint(g), 0}})
				}
				continue
			}
			h.resumeAndCheck(c, oc.final, twin, "resume-after-cancel-at-read", 0)
		}
	}
}
