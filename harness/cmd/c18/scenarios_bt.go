//go:build verif

package main

import (
	"fmt"
	"strings"

	"github.com/NethermindEth/juno/db/memory"
	"verif/harness/lib"
)

// probes run a handful of fixed, minimal inputs that decide which of the recorded defects are
// present in the tree under test, tell the Lean driver which variant of the model applies, and
// report each present defect with its minimal replay.
func (h *harness) probes() {
	over, skip := true, true
	// (A) resume over a hole: range 0 unmigrated, range 1 migrated
	{
		c := chainSpec{Seed: 7, Counts: repeatInt(1, 20), Layout: strings.Repeat("o", 10) + strings.Repeat("n", 10)}
		d, err := c.build()
		if err == nil {
			o := runBlockTx(d, btPlan{}, false)
			if o.ret == "done" {
				v := readBlockCurrent(o.final, c, 10)
				over = !(sameView(v, c.expectedView(10)))
			}
		}
	}
	// (B) leading empty blocks below the aligned first block
	{
		cnt := append(repeatInt(0, 10), 1)
		c := chainSpec{Seed: 7, Counts: cnt, Layout: strings.Repeat("o", 11)}
		d, err := c.build()
		if err == nil {
			o := runBlockTx(d, btPlan{}, false)
			if o.ret == "done" {
				v := readBlockCurrent(o.final, c, 0)
				skip = v.Err != "ok"
			}
		}
	}
	h.btOver, h.btSkip = over, skip
	h.res.Hit(fmt.Sprintf("probe:blocktx-overwriteMigrated=%v", over))
	h.res.Hit(fmt.Sprintf("probe:blocktx-skipUnstoredEmpty=%v", skip))
	b2 := func(b bool) string {
		if b {
			return "1"
		}
		return "0"
	}
	if a := h.bt.ask("cfg " + b2(h.l9) + " " + b2(h.unkLast) + " " + b2(over) + " " + b2(skip)); a != "ok" {
		h.res.Mismatch(lib.Mismatch{Sig: "cfg-rejected", Model: a})
	}
}

// blockTxImage: build the database described by spec (possibly a crash image of an earlier run),
// run the real migration on it to completion, check the observed transition against the model and
// the property on the result. Returns the final database.
func (h *harness) blockTxImage(c chainSpec, where string) *memory.Database {
	d, err := c.build()
	if err != nil {
		h.res.Note("spec does not build: %v", err)
		return nil
	}
	o := runBlockTx(d, btPlan{}, false)
	h.res.Case(fmt.Sprintf("img|%d|%v|%s", c.Seed, c.Counts, c.Layout), o.commits > 0)
	h.res.Hit("bt-run:" + o.ret)
	if o.ret == "hang" || o.ret == "panic" {
		h.res.Violate(lib.Violation{Sig: "blocktx-migrate-" + o.ret, What: o.errText, Replay: btReplay{c, "run Migrate", 0}})
		return nil
	}
	h.bt.transition(c, d, o.final, "return", o.ret, where)
	if o.ret == "done" {
		checkFinal(h.res, c, c, o.final)
	}
	return o.final
}

func (h *harness) blockTxAll() {
	// exhaustive small family: 3 ranges (height 24), every layout pattern per range in
	// {old, migrated} x every emptiness pattern per range in {non-empty, empty}
	for mask := 0; mask < 8; mask++ {
		for emp := 0; emp < 8; emp++ {
			counts := make([]int, 25)
			layout := make([]byte, 25)
			for b := range counts {
				rg := b / 10
				if emp&(1<<rg) == 0 {
					counts[b] = 1 + b%2
				}
				switch {
				case mask&(1<<rg) != 0:
					layout[b] = 'n'
				case counts[b] == 0:
					layout[b] = '-'
				default:
					layout[b] = 'o'
				}
			}
			h.blockTxImage(chainSpec{Seed: 11, Counts: counts, Layout: string(layout)}, "enum3")
		}
	}
}
