//go:build verif

package main

import (
	"context"
	"errors"
	"fmt"
	"strconv"
	"strings"
	"sync/atomic"
	"time"

	"github.com/NethermindEth/juno/blockchain/networks"
	"github.com/NethermindEth/juno/core"
	"github.com/NethermindEth/juno/db"
	"github.com/NethermindEth/juno/db/memory"
	"github.com/NethermindEth/juno/migration"
	"github.com/NethermindEth/juno/migration/blocktransactions"
	"github.com/NethermindEth/juno/utils/log"
	"verif/harness/lib"
)

// strictTwin: compare the final database with the undisturbed twin key by key, nothing left out
const strictTwin = true

const btBatch = 10 // blocktransactions.batchSize (unexported); a wrong value shows up as a model mismatch

// ---- abstraction of a database image into the model's block states -------------------------

func idList(got []string, want []string, base int) string {
	if len(got) == 0 {
		return "-"
	}
	parts := make([]string, len(got))
	for i, g := range got {
		id := 9999 // bytes that are not the original item of this position
		if i < len(want) && g == want[i] {
			id = base + i + 1
		} else {
			for j, w := range want {
				if g == w {
					id = base + j + 1
				}
			}
		}
		parts[i] = strconv.Itoa(id)
	}
	return strings.Join(parts, ",")
}

// abstractBlock renders block b of image d as `<hdr>:<otx>:<orc>:<blob>` where an item is written
// as 1+i (original transaction i of this block), 1001+i (original receipt i) or 9999 (other).
func abstractBlock(d db.KeyValueReader, c chainSpec, b uint64) string {
	exp := c.expectedView(b)
	hdr := "x"
	if h, err := core.GetBlockHeaderByNumber(d, b); err == nil {
		hdr = strconv.FormatUint(h.TransactionCount, 10)
	}
	var otx, orc []string
	for e, err := range core.TransactionsByBlockNumberAndIndexBucket.Prefix().Add(b).Scan(d) {
		if err != nil {
			otx = append(otx, "scan-error")
			break
		}
		otx = append(otx, enc(e.Value))
	}
	for e, err := range core.ReceiptsByBlockNumberAndIndexBucket.Prefix().Add(b).Scan(d) {
		if err != nil {
			orc = append(orc, "scan-error")
			break
		}
		v := e.Value
		orc = append(orc, enc(&v))
	}
	blob := "x"
	if has, _ := core.BlockTransactionsBucket.Has(d, b); has {
		txs, err1 := core.GetTransactionsByBlockNumber(d, b)
		rcs, err2 := core.GetReceiptsByBlockNumber(d, b)
		if err1 != nil || err2 != nil {
			blob = "9999;9999"
		} else {
			var t, r []string
			for _, x := range txs {
				t = append(t, enc(x))
			}
			for _, x := range rcs {
				r = append(r, enc(x))
			}
			blob = idList(t, exp.Txs, 0) + ";" + idList(r, exp.Rcs, 1000)
		}
	}
	return hdr + ":" + idList(otx, exp.Txs, 0) + ":" + idList(orc, exp.Rcs, 1000) + ":" + blob
}

func abstractImage(d db.KeyValueReader, c chainSpec) []string {
	out := make([]string, len(c.Counts))
	for b := range c.Counts {
		out[b] = abstractBlock(d, c, uint64(b))
	}
	return out
}

func heightTok(d db.KeyValueReader) string {
	h, err := core.GetChainHeight(d)
	if err != nil {
		return "none"
	}
	return strconv.FormatUint(h, 10)
}

// ---- running the real migration with interruptions ----------------------------------------

type btPlan struct {
	Inflate     bool  `json:"inflate"`              // batches report >= 96 MB as soon as non-empty
	PreCancel   bool  `json:"preCancel"`            // context cancelled before Migrate is called
	CancelAtCmt int   `json:"cancelAtCmt"`          // cancel right after this commit (0 = never)
	CancelAtGet int64 `json:"cancelAtGet"`          // cancel at this database read (0 = never)
	FailAt      int   `json:"failAt,omitempty"`     // this commit attempt fails (0 = never)
	FailAll     bool  `json:"failAll,omitempty"`    // … and every later one
	FailGetAt   int64 `json:"failGetAt,omitempty"`  // this Get/Has fails (0 = never)
	FailGetAll  bool  `json:"failGetAll,omitempty"` // … and every later one
	FailIterAt  int64 `json:"failIterAt,omitempty"` // this NewIterator fails
	FailIterAll bool  `json:"failIterAll,omitempty"`
	MaxSecs     int   `json:"maxSecs,omitempty"` // give up after this many seconds even if the store is active (0 = 120)
}

// hungOnce: a migration run did not return; its goroutines may still spin, so no further runs
// are started (every later case reports the hang).
var hungOnce atomic.Bool

type btOutcome struct {
	ret          string             // done | rerun | failed | hang | panic
	errText      string             //
	images       []*memory.Database // image after every commit
	final        *memory.Database
	commits      int
	failedWrites int
	failedReads  int64
	gets, iters  int64
	state        []byte // the state Migrate returned
	ctxErr       bool   // the returned error wraps context.Canceled
}

func classifyRet(state []byte, err error) string {
	switch {
	case err != nil:
		return "failed"
	case state != nil:
		return "rerun"
	default:
		return "done"
	}
}

// runBlockTx runs the real blocktransactions.Migrator on (a copy of) d.
func runBlockTx(d *memory.Database, p btPlan, capture bool) btOutcome {
	return runBlockTxD(d, p, capture, 6*time.Second, true)
}

// runBlockTxD: deadline d; sticky = a hang stops all later runs (its goroutines may spin). Runs with
// injected write failures use sticky = false: there a hang means goroutines parked on a semaphore.
func runBlockTxD(d *memory.Database, p btPlan, capture bool, deadline time.Duration, sticky bool) btOutcome {
	return runMigrator(blocktransactions.Migrator{}, nil, d, p, capture, deadline, sticky)
}

// runMigrator runs one Before(state)+Migrate of a real migration on a copy of d under plan p.
func runMigrator(m migration.Migration, state []byte, d *memory.Database, p btPlan, capture bool, deadline time.Duration, sticky bool) btOutcome {
	work := d.Copy()
	s := newFaultStore(work)
	if p.Inflate {
		s.inflate = 96 * 1024 * 1024
	}
	s.failAt, s.failAll = p.FailAt, p.FailAll
	s.getFailAt, s.getFailAll, s.iterFailAt, s.iterFailAll = p.FailGetAt, p.FailGetAll, p.FailIterAt, p.FailIterAll
	ctx, cancel := context.WithCancel(context.Background())
	defer cancel()
	var out btOutcome
	s.hook = func(n int, fs *faultStore) {
		if capture {
			out.images = append(out.images, fs.image())
		}
		if p.CancelAtCmt > 0 && n == p.CancelAtCmt {
			cancel()
		}
	}
	if p.CancelAtGet > 0 {
		s.readHook = func(n int64) {
			if n == p.CancelAtGet {
				cancel()
			}
		}
	}
	if p.PreCancel {
		cancel()
	}
	var err error
	if hungOnce.Load() {
		out.ret = "hang"
		out.errText = "skipped: an earlier run of the migration did not return"
		out.final = d // the untouched pre-image: callers abstract / dump it without a nil check
		return out
	}
	maxWait := 120 * time.Second
	if p.MaxSecs > 0 {
		maxWait = time.Duration(p.MaxSecs) * time.Second
	}
	finished := s.runWatched(deadline, maxWait, func() {
		e, panicked, _ := lib.Try(func() error {
			var e2 error
			if e0 := m.Before(state); e0 != nil {
				return e0
			}
			state, e2 = m.Migrate(ctx, s, &networks.Sepolia, log.NewNopZapLogger())
			return e2
		})
		err = e
		if panicked {
			out.ret = "panic"
		}
	})
	switch {
	case !finished:
		out.ret = "hang"
		out.errText = fmt.Sprintf("Migrate did not return and the store saw no activity for %v", deadline)
		if sticky {
			hungOnce.Store(true)
		}
		out.final = d // the hung run's goroutines may still write to `work`
		return out
	case out.ret == "panic":
		out.errText = err.Error()
	default:
		out.ret = classifyRet(state, err)
		out.state = state
		out.ctxErr = err != nil && errors.Is(err, context.Canceled)
		if err != nil {
			out.errText = err.Error()
		}
	}
	s.mu.Lock()
	out.commits = s.commits
	out.failedWrites = s.failed
	out.failedReads = s.readsFailed.Load()
	out.gets, out.iters = s.reads.Load(), s.iters.Load()
	s.hook = nil
	s.mu.Unlock()
	out.final = work
	return out
}

// ---- refinement check of one observed transition against the model ------------------------

type btModel struct {
	drv *lib.Driver
	res *lib.Result
}

func (m *btModel) ask(line string) string {
	a, err := m.drv.Ask(line)
	if err != nil {
		m.res.Fatalf("driver: %v", err)
		return "driver-error"
	}
	return a
}

// transition checks that going from image pre to image post is a step the model allows.
// kind: "crash" (post is the image after some commit of an interrupted run; only the database is
// compared) or "return" (Migrate returned ret; database and return class are compared).
func (m *btModel) transition(c chainSpec, pre, post *memory.Database, kind, ret, where string) {
	m.transitionW(c, pre, post, kind, ret, where, false)
}

// foreignKeysUnchanged: the migration may only touch its three buckets (the two old ones, the combined one);
// every other key — headers, the hash -> (block, index) and L1-message lookups, state, the runner's records —
// must be exactly what it was (the frame condition the lookup theorem and the per-migration composition assume).
func foreignKeysUnchanged(pre, post *memory.Database) (bool, string) {
	own := map[byte]bool{db.BlockTransactions.Key()[0]: true, db.TransactionsByBlockNumberAndIndex.Key()[0]: true,
		db.ReceiptsByBlockNumberAndIndex.Key()[0]: true}
	a, b := dump(pre), dump(post)
	for k, v := range a {
		if own[k[0]] {
			continue
		}
		if w, ok := b[k]; !ok || w != v {
			return false, fmt.Sprintf("key %x (bucket %d) changed or vanished", k, k[0])
		}
	}
	for k := range b {
		if _, ok := a[k]; !ok && !own[k[0]] {
			return false, fmt.Sprintf("new key %x (bucket %d)", k, k[0])
		}
	}
	return true, ""
}

// transitionW: wfail = the run saw a failed batch write (the model step is `writeFail`).
func (m *btModel) transitionW(c chainSpec, pre, post *memory.Database, kind, ret, where string, wfail bool) {
	if kind != "return" {
		// crash images are prefixes of runs whose returns are checked
	} else if ok, why := foreignKeysUnchanged(pre, post); !ok {
		m.res.Mismatch(lib.Mismatch{Sig: "blocktx-writes-outside-its-buckets", Input: map[string]any{"spec": c, "where": where}, Model: "unchanged", Impl: why})
		m.res.Violate(lib.Violation{Sig: "blocktx-changes-data-of-other-buckets",
			What:   "blocktransactions.Migrate changed a key outside the transaction / receipt / combined buckets (" + where + "): " + why,
			Replay: btReplay{c, "build spec, run Migrate (" + where + "), compare every key outside buckets 'transactions by block and index', 'receipts by block and index', 'block transactions'", 0}})
	}
	a0 := abstractImage(pre, c)
	a1 := abstractImage(post, c)
	ht := heightTok(pre)
	if m.ask("bt.set "+ht+" "+strings.Join(a0, " ")) != "ok" {
		m.res.Mismatch(lib.Mismatch{Sig: "bt.set-rejected", Input: a0})
		return
	}
	first := m.ask("bt.first")
	tok := ""
	retFull := ret // "failed-nil": Migrate returned (nil, err) — only a failing clearOldBuckets does
	if ret == "failed-nil" {
		ret = "failed"
	}
	same01 := strings.Join(a0, " ") == strings.Join(a1, " ")
	switch first {
	case "noheight", "none", "error":
		switch {
		case kind == "crash" && same01:
			tok = "F" // died before the back-fill batch was committed
		case kind == "crash":
			tok = "FB" // died after the back-fill batch, before / inside clearOldBuckets
		default:
			tok = "P"
		}
	default:
		f, _ := strconv.Atoi(first)
		h := len(c.Counts) - 1
		nr := (h-f)/btBatch + 1
		bits := make([]byte, nr)
		hi := 0
		for i := range bits {
			bits[i] = '0'
			for b := f + i*btBatch; b <= h && b < f+(i+1)*btBatch; b++ {
				if a0[b] != a1[b] {
					bits[i] = '1'
					hi = i + 1
				}
			}
		}
		switch {
		case wfail:
			tok = "W*:" + string(bits)
		case kind == "crash":
			tok = "C*:" + string(bits)
		case ret == "rerun" && hi == nr:
			// cancellation observed at the loop head after a complete pass. The committed ranges are read
			// off the images (model step passSkip): a range WITHOUT old entries may have been left as it was
			// (a committer that elides a batch holding nothing to migrate — the current one never does, then
			// every bit of a range that changes is 1 and this is the plain pass); a range with old entries is
			// committed by the model whatever its bit says.
			tok = "S*:" + string(bits) + " H"
			m.res.Hit("bt-step:pass-then-cancel-at-head")
		case ret == "rerun":
			tok = "S" + strconv.Itoa(hi) + ":" + string(bits)
			m.res.Hit("bt-step:pass-cancelled-in-source")
		default:
			tok = "P"
		}
	}
	if wfail && tok == "P" {
		if same01 {
			tok = "W*:-" // the back-fill batch write failed
		} else {
			tok = "FW" // the back-fill batch is committed, a DeletePrefix of clearOldBuckets failed
		}
	}
	if kind == "return" && ret == "rerun" && same01 {
		tok = "H"
	}
	if kind == "return" && retFull == "failed-nil" {
		// a nil state with an error: only `return shouldNotRerun, clearOldBuckets(database)` does that — the
		// pass (if any) is complete, the back-fill batch is committed, a DeletePrefix failed
		switch first {
		case "noheight", "none", "error":
			tok = "FW"
		default:
			tok = "P FW"
		}
	}
	m.res.Hit("bt-step-token:" + tok[:1])
	ans := m.ask("bt.migrate " + tok)
	m.res.Compared(1)
	parts := strings.SplitN(ans, " ", 2)
	if len(parts) != 2 {
		m.res.Mismatch(lib.Mismatch{Sig: "bt.migrate-answer", Input: tok, Model: ans})
		return
	}
	want := strings.Join(a1, " ")
	if len(a1) == 0 {
		want = "-"
	}
	if !wfail && kind == "return" && ret == "failed" && parts[0] == "failed" {
		// a database the migration refuses (inconsistent counts, missing header, …): model and code
		// agree on the refusal; which healthy ranges were committed before it is schedule-dependent
		m.res.Hit("bt-refusal-agrees-with-model")
		return
	}
	if parts[1] != want && kind == "crash" {
		// an image taken in a LATER loop iteration of the same call: after the complete pass the back-fill
		// batch was committed and the process died before / inside clearOldBuckets (model: pass, crashClear)
		m.ask("bt.set " + ht + " " + strings.Join(a0, " "))
		if p2 := strings.SplitN(m.ask("bt.migrate P FB"), " ", 2); len(p2) == 2 && p2[0] == "crashed" && p2[1] == want {
			m.res.Hit("bt-step:pass-then-crash-after-backfill")
			return
		}
	}
	if parts[1] != want && wfail && kind == "return" {
		// the same for a failed DeletePrefix in a later loop iteration (model: pass, failClear)
		m.ask("bt.set " + ht + " " + strings.Join(a0, " "))
		if p2 := strings.SplitN(m.ask("bt.migrate P FW"), " ", 2); len(p2) == 2 && p2[1] == want {
			m.res.Hit("bt-step:pass-then-clear-failed")
			parts = p2
		}
	}
	if parts[1] != want {
		m.res.Mismatch(lib.Mismatch{Sig: "blocktx-image-not-allowed-by-model:" + kind, Input: map[string]any{
			"spec": c, "where": where, "pre": a0, "step": tok}, Model: parts[1], Impl: want})
		return
	}
	if kind == "return" && parts[0] != retFull {
		m.res.Mismatch(lib.Mismatch{Sig: "blocktx-return-class", Input: map[string]any{
			"spec": c, "where": where, "step": tok}, Model: parts[0], Impl: retFull})
	}
}

// retClass: ret, with "failed-nil" when Migrate returned an error together with a NIL state.
func (o btOutcome) retClass() string {
	if o.ret == "failed" && o.state == nil {
		return "failed-nil"
	}
	return o.ret
}

// ---- property oracle on a finished migration ------------------------------------------------

type btReplay struct {
	Spec  chainSpec `json:"spec"`
	What  string    `json:"what"`
	Block uint64    `json:"block"`
}

// checkFinal evaluates the property on a database on which the migration has returned
// "complete": every block readable through the current accessors with its original content, the
// derived lookups intact, the old buckets empty. imageSpec is the spec of the image the LAST run
// started from (a deterministic replay: build it, run the migration once, read the block).
func checkFinal(res *lib.Result, c, imageSpec chainSpec, final *memory.Database) bool {
	return checkFinalFrom(res, c, imageSpec, final, 0)
}

// checkFinalFrom: as checkFinal for the blocks from..height (the blocks below were pruned on purpose).
func checkFinalFrom(res *lib.Result, c, imageSpec chainSpec, final *memory.Database, from uint64) bool {
	ok := true
	for b := from; b <= c.height() && !c.NoHeight; b++ {
		got := readBlockCurrent(final, c, b)
		exp := c.expectedView(b)
		if sameView(got, exp) && got.Note == "" {
			if msg := lookupsOK(final, c, b); msg != "" {
				ok = false
				res.Violate(lib.Violation{Sig: "blocktx-lookup-broken-after-migration", What: msg,
					Replay: btReplay{imageSpec, msg, b}})
			}
			continue
		}
		ok = false
		switch {
		case got.Err == "notfound" && len(exp.Txs) == 0 && !outsideEveryPass(imageSpec, b):
			// the completing run's pass covered this block: it must have stored the empty entry
			res.Hit("oracle:blocktx-empty-block-inside-pass-unreadable")
			res.Violate(lib.Violation{Sig: "blocktx-empty-block-inside-pass-unreadable",
				What: fmt.Sprintf("block %d has no transactions and lies inside the pass of the completing run (image %s): "+
					"the migration must have written its empty entry, the accessors return key not found", b, imageSpec.Layout),
				Replay: btReplay{imageSpec, "build spec, run blocktransactions.Migrator.Migrate once, read block", b}})
		case got.Err == "notfound" && len(exp.Txs) == 0:
			res.Hit("oracle:blocktx-empty-block-unreadable-after-migration")
			res.Violate(lib.Violation{Sig: "blocktx-empty-block-unreadable-after-migration",
				What: fmt.Sprintf("block %d has no transactions; the previous layout read it as an empty list, after the "+
					"completed migration core.GetTransactionsByBlockNumber/GetBlockByNumber return key not found", b),
				Replay: btReplay{imageSpec, "build spec, run blocktransactions.Migrator.Migrate once, read block", b}})
		case got.Err == "ok" && len(got.Txs) == 0 && len(got.Rcs) == 0 && len(exp.Txs) > 0 && imageSpec.Layout[b] == 'n':
			res.Hit("oracle:blocktx-resume-overwrites-migrated-block")
			res.Violate(lib.Violation{Sig: "blocktx-resume-overwrites-migrated-block",
				What: fmt.Sprintf("block %d (%d transactions) was already migrated in the image the run resumed from; "+
					"after the run it reads as an empty block: transactions and receipts are lost", b, len(exp.Txs)),
				Replay: btReplay{imageSpec, "build spec (a crash image of an earlier run), run Migrate once, read block", b}})
		default:
			res.Hit("oracle:blocktx-content-differs-after-migration")
			res.Violate(lib.Violation{Sig: "blocktx-content-differs-after-migration",
				What: fmt.Sprintf("block %d: expected %d txs / %d receipts (ok), got %s %d / %d %s", b, len(exp.Txs),
					len(exp.Rcs), got.Err, len(got.Txs), len(got.Rcs), got.Note),
				Replay: btReplay{imageSpec, "build spec, run Migrate once, read block", b}})
		}
	}
	// the old buckets must be empty
	if c.NoHeight {
		return ok
	}
	if l := layoutOf(final, c.height()); strings.ContainsAny(l, "ob") {
		ok = false
		res.Violate(lib.Violation{Sig: "blocktx-old-entries-left-after-migration",
			What:   "old per-transaction entries remain after Migrate returned complete: " + l,
			Replay: btReplay{imageSpec, "build spec, run Migrate once, scan old buckets", 0}})
	}
	return ok
}

// specOfImage turns a database image back into a spec (same seed and counts, layout read from
// the image), which is the deterministic replay of "resume from this crash image".
func specOfImage(c chainSpec, img *memory.Database) chainSpec {
	out := c
	out.Layout = layoutOf(img, c.height())
	return out
}

// ingestErrorTransition: Migrate returned an error after an injected read fault. The image must be
// what the model's `ingestError` step gives: complete ranges committed or not, at most one range
// with only the new entries of its first k blocks and all its old entries still there.
func (m *btModel) ingestErrorTransition(c chainSpec, pre, post *memory.Database, replay any) {
	a0 := abstractImage(pre, c)
	a1 := abstractImage(post, c)
	ht := heightTok(pre)
	m.ask("bt.set " + ht + " " + strings.Join(a0, " "))
	first := m.ask("bt.first")
	m.res.Compared(1)
	f, err := strconv.Atoi(first)
	if err != nil { // nothing to migrate / refused before any pass: nothing may have changed
		if strings.Join(a0, " ") != strings.Join(a1, " ") {
			m.res.Mismatch(lib.Mismatch{Sig: "blocktx-read-error-image-not-allowed-by-model", Input: replay, Model: "unchanged", Impl: a1})
		}
		return
	}
	h := len(c.Counts) - 1
	nr := (h-f)/btBatch + 1
	bits := make([]byte, nr)
	var partials []string
	for i := range bits {
		bits[i] = '0'
		changed, oldLeft, k := false, false, 0
		for b := f + i*btBatch; b <= h && b < f+(i+1)*btBatch; b++ {
			if a0[b] != a1[b] {
				changed = true
				k = b - (f + i*btBatch) + 1 // the partial batch holds the new entries of blocks 0..k-1 of the range
			}
			if f1 := strings.Split(a1[b], ":"); f1[1] != "-" || f1[2] != "-" {
				oldLeft = true // the range's old entries were not deleted
			}
		}
		partial := changed && oldLeft
		switch {
		case partial:
			partials = append(partials, fmt.Sprintf("%d.%d", i, k))
		case changed:
			bits[i] = '1'
		}
	}
	ps := "-"
	if len(partials) > 0 {
		ps = strings.Join(partials, ",")
	}
	pk := len(partials)
	tok := fmt.Sprintf("E*:%s:%s", string(bits), ps)
	ans := m.ask("bt.migrate " + tok)
	parts := strings.SplitN(ans, " ", 2)
	want := strings.Join(a1, " ")
	if len(parts) != 2 || parts[0] != "failed" || parts[1] != want {
		m.res.Mismatch(lib.Mismatch{Sig: "blocktx-read-error-image-not-allowed-by-model", Input: map[string]any{"case": replay, "step": tok, "pre": a0},
			Model: ans, Impl: "failed " + want})
		return
	}
	m.res.Hit("bt-ingest-error-step-agrees-with-model")
	if pk > 0 {
		m.res.Hit("bt-ingest-error:partial-batch-written")
	}
}

// outsideEveryPass: in the run that completed the migration from image spec, block b (which has no
// old entries) lies outside the pass — below the 10-aligned first block with old entries, or there
// were no old entries at all. Only such blocks are what the known finding
// blocktx-empty-block-unreadable-after-migration is about.
func outsideEveryPass(image chainSpec, b uint64) bool {
	if int(b) >= len(image.Layout) || image.Layout[b] != '-' {
		return false
	}
	first := strings.IndexAny(image.Layout, "ob")
	if first < 0 {
		return true
	}
	return int(b) < first-first%btBatch
}

// sameDumpModuloEmpty compares two databases key by key, leaving out the BlockTransactions entries
// of blocks without transactions (whether an empty block has its entry depends on the
// interruption history as long as the known back-fill finding is open; every OTHER key must agree).
func sameDumpModuloEmpty(c chainSpec, a, b map[string]string) (bool, string) {
	// since 1b3416d (back-fill of empty blocks) the final database is EQUAL to the undisturbed run's, the
	// entries of empty blocks included (theorem blocktx_resume_same_result): compare everything
	if strictTwin {
		return sameDump(a, b)
	}
	ignore := map[string]bool{}
	tmp := memory.New()
	for blk, n := range c.Counts {
		if n == 0 {
			e, _ := core.NewBlockTransactions(nil, nil)
			_ = core.BlockTransactionsBucket.Put(tmp, uint64(blk), &e)
		}
	}
	for k := range dump(tmp) {
		ignore[k] = true
	}
	fa, fb := map[string]string{}, map[string]string{}
	for k, v := range a {
		if !ignore[k] {
			fa[k] = v
		}
	}
	for k, v := range b {
		if !ignore[k] {
			fb[k] = v
		}
	}
	return sameDump(fa, fb)
}
