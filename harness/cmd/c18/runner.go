//go:build verif

package main

import (
	"context"
	"encoding/hex"
	"errors"
	"fmt"
	"sort"
	"strconv"
	"strings"
	"sync"
	"time"

	"github.com/NethermindEth/juno/blockchain/networks"
	"github.com/NethermindEth/juno/db"
	"github.com/NethermindEth/juno/db/memory"
	"github.com/NethermindEth/juno/migration"
	"github.com/NethermindEth/juno/utils/log"
	"verif/harness/lib"
)

// ---- scripted migrations: abstract resumable processes ----------------------------------

// Behaviour kinds of a scripted migration (what Migrate returns):
//
//	complete    (nil, nil)
//	coop        cancelled ? (state, nil) : (nil, nil)                  — like blocktransactions
//	coopErr     cancelled ? (state, wrapped ctx.Err()) : (nil, nil)    — like headstate
//	nilCtx      cancelled ? (nil, wrapped ctx.Err()) : (nil, nil)      — lead L9
//	fail        (nil, other error)
//	failState   (state, other error)
//	inProgress  (state, nil) whatever the context says                 — not well-behaved
//	ctxErrLive  (nil, error wrapping context.Canceled) whatever the context says
//	stateCtxErrLive (state, error wrapping context.Canceled) whatever the context says — a migration whose own
//	            derived context was cancelled (a pipeline stage failed) while the runner's context is live
//	beforeFail  Before returns an error
type migBeh struct {
	Kind  string `json:"kind"`
	State string `json:"state,omitempty"` // hex; "" = empty non-nil state
}

func (b migBeh) wellBehaved() bool {
	return b.Kind != "inProgress" && b.Kind != "ctxErrLive"
}

type startSpec struct {
	Reg      string         `json:"reg"`              // one char per migration: m mandatory, e optional enabled, d optional disabled
	CancelAt int            `json:"cancelAt"`         // tick during which the context is cancelled (0 = before Run, 999 = never)
	CrashAt  int            `json:"crashAt"`          // tick right after which the process dies (0 = before Run, 999 = never)
	Beh      map[int]migBeh `json:"beh"`              // default: complete
	FailAt   int            `json:"failAt,omitempty"` // the runner write that would be this tick fails (0 = never)
	// read faults (an I/O error, not "key not found"): NewRunner's read of the schema metadata; the
	// runner's read of the stored resume token of these migrations
	MetaReadFail bool  `json:"metaReadFail,omitempty"`
	IstReadFail  []int `json:"istReadFail,omitempty"`
}

type diskSpec struct {
	HasMeta bool           `json:"hasMeta"`
	Cur     uint64         `json:"cur"`
	Last    uint64         `json:"last"`
	Ist     map[int]string `json:"ist,omitempty"` // hex
}

type runnerHistory struct {
	Init   diskSpec    `json:"init"`
	Starts []startSpec `json:"starts"`
}

const never = 999

type observed struct {
	beforeFails bool
	called      bool
	st          []byte
	errKind     string // n | c | o
	errText     string
	ctxLive     bool // the runner's context was not cancelled when Migrate returned
}

type startRun struct {
	spec    startSpec
	store   *faultStore
	cancel  context.CancelFunc
	ctx     context.Context
	tick    int
	calls   []string
	obs     map[int]*observed
	orderV  string // first order violation seen inside Migrate ("" = none)
	curAtGo migration.SchemaVersion
}

// onTick is called for every tick (holding store.mu).
func (sr *startRun) onTick() {
	sr.tick++
	if sr.tick == sr.spec.CancelAt {
		sr.cancel()
	}
	if sr.tick == sr.spec.CrashAt {
		sr.store.dead = true
	}
}

type scriptMig struct {
	idx int
	sr  *startRun
}

var errScripted = errors.New("scripted failure")

func showState(b []byte) string {
	if b == nil {
		return "nil"
	}
	if len(b) == 0 {
		return "-"
	}
	return hex.EncodeToString(b)
}

func (m *scriptMig) beh() migBeh {
	if b, ok := m.sr.spec.Beh[m.idx]; ok {
		return b
	}
	return migBeh{Kind: "complete"}
}

func (m *scriptMig) Before(st []byte) error {
	sr := m.sr
	sr.store.mu.Lock()
	sr.onTick()
	sr.calls = append(sr.calls, fmt.Sprintf("B%d:%s", m.idx, showState(st)))
	sr.store.mu.Unlock()
	o := &observed{}
	sr.obs[m.idx] = o
	if m.beh().Kind == "beforeFail" {
		o.beforeFails = true
		return errScripted
	}
	return nil
}

func (m *scriptMig) Migrate(ctx context.Context, database db.KeyValueStore, _ *networks.Network, _ log.StructuredLogger) ([]byte, error) {
	sr := m.sr
	sr.store.mu.Lock()
	sr.onTick()
	sr.calls = append(sr.calls, fmt.Sprintf("M%d", m.idx))
	sr.store.mu.Unlock()
	// order oracle: every earlier migration of the target must be applied by now
	if md, err := migration.GetSchemaMetadata(database); err == nil && sr.orderV == "" {
		for i := 0; i < m.idx; i++ {
			if md.LastTargetVersion.Has(uint8(i)) && !md.CurrentVersion.Has(uint8(i)) {
				sr.orderV = fmt.Sprintf("Migrate of migration %d called while migration %d (in target) is not applied", m.idx, i)
			}
		}
		if md.CurrentVersion.Has(uint8(m.idx)) {
			sr.orderV = fmt.Sprintf("Migrate of migration %d called although it is already recorded as applied", m.idx)
		}
	}
	b := m.beh()
	state, _ := hex.DecodeString(b.State)
	if state == nil {
		state = []byte{}
	}
	cancelled := ctx.Err() != nil
	var st []byte
	var err error
	switch b.Kind {
	case "complete", "beforeFail":
	case "coop":
		if cancelled {
			st = state
		}
	case "coopErr":
		if cancelled {
			st, err = state, fmt.Errorf("scripted: interrupted: %w", ctx.Err())
		}
	case "nilCtx":
		if cancelled {
			err = fmt.Errorf("scripted: interrupted: %w", ctx.Err())
		}
	case "fail":
		err = errScripted
	case "failState":
		st, err = state, errScripted
	case "inProgress":
		st = state
	case "ctxErrLive":
		err = fmt.Errorf("scripted: inner: %w", context.Canceled)
	case "stateCtxErrLive":
		st, err = state, fmt.Errorf("scripted: stage failed, pipeline context cancelled: %w", context.Canceled)
	}
	o := sr.obs[m.idx]
	o.called, o.st = true, st
	o.ctxLive = ctx.Err() == nil
	switch {
	case err == nil:
		o.errKind = "n"
	case errors.Is(err, context.Canceled):
		o.errKind = "c"
	default:
		o.errKind = "o"
	}
	return st, err
}

// ---- one start on the real code --------------------------------------------------------

type startResult struct {
	open         string // ok | newer | optout:<i>f,<j>m,… | readerr | error:…
	result       string // ok | err   (of Run)
	why          string // classifyRunError: which step failed and which migration the error names
	crashed      bool
	disk         string
	calls        string
	obs          map[int]*observed
	orderV       string
	hang         bool
	panicS       string
	failedWrites int
}

func readDisk(d db.KeyValueReader) (string, migration.SchemaMetadata, bool, map[int][]byte) {
	md, err := migration.GetSchemaMetadata(d)
	has := err == nil
	var sb strings.Builder
	if has {
		fmt.Fprintf(&sb, "meta=%x/%x", uint64(md.CurrentVersion), uint64(md.LastTargetVersion))
	} else {
		sb.WriteString("meta=none")
	}
	ist := map[int][]byte{}
	var parts []string
	for i := 0; i < 64; i++ {
		st, err := migration.GetIntermediateState(d, uint8(i))
		if err == nil {
			if st == nil {
				st = []byte{}
			}
			ist[i] = st
			parts = append(parts, fmt.Sprintf("%d:%s", i, showState(st)))
		}
	}
	if len(parts) == 0 {
		sb.WriteString(" ist=-")
	} else {
		sb.WriteString(" ist=" + strings.Join(parts, ","))
	}
	return sb.String(), md, has, ist
}

func buildRegistry(reg string, mk func(i int) migration.Migration) *migration.Registry {
	r := migration.NewRegistry()
	for i, ch := range reg {
		switch ch {
		case 'm':
			r.With(mk(i))
		case 'e':
			r.WithOptional(mk(i), true, fmt.Sprintf("opt-%d", i))
		case 'd':
			r.WithOptional(mk(i), false, fmt.Sprintf("opt-%d", i))
		}
	}
	return r
}

func realStart(d *memory.Database, sp startSpec) startResult {
	var out startResult
	store := newFaultStore(d)
	ctx, cancel := context.WithCancel(context.Background())
	defer cancel()
	sr := &startRun{spec: sp, store: store, cancel: cancel, ctx: ctx, obs: map[int]*observed{}}
	store.hook = func(int, *faultStore) { sr.onTick() }
	store.pre = func() bool {
		if sp.FailAt > 0 && sr.tick+1 == sp.FailAt {
			sr.tick++ // the failed attempt is the tick
			return true
		}
		return false
	}
	if sp.MetaReadFail || len(sp.IstReadFail) > 0 {
		metaKey := db.SchemaMetadata.Key()
		metaLeft := sp.MetaReadFail // only NewRunner's read fails (the first one)
		istKeys := map[string]bool{}
		for _, i := range sp.IstReadFail {
			istKeys[string(db.SchemaIntermediateState.Key([]byte{uint8(i)}))] = true
		}
		var fmu sync.Mutex
		store.getFailKey = func(key []byte) bool {
			fmu.Lock()
			defer fmu.Unlock()
			if metaLeft && string(key) == string(metaKey) {
				metaLeft = false
				return true
			}
			return istKeys[string(key)]
		}
	}
	reg := buildRegistry(sp.Reg, func(i int) migration.Migration { return &scriptMig{idx: i, sr: sr} })
	runner, err := migration.NewRunner(reg, store, &networks.Mainnet, log.NewNopZapLogger())
	if err != nil {
		out.open = classifyOpenError(err)
		out.disk, _, _, _ = readDisk(d)
		return out
	}
	out.open = "ok"
	if sp.CancelAt == 0 {
		cancel()
	}
	if sp.CrashAt == 0 {
		store.dead = true
	}
	var runErr error
	finished := store.runWatched(8*time.Second, 120*time.Second, func() {
		e, panicked, stack := lib.Try(func() error { return runner.Run(ctx) })
		runErr = e
		if panicked {
			out.panicS = e.Error() + "\n" + stack
		}
	})
	if !finished {
		out.hang = true
		return out
	}
	if runErr == nil {
		out.result = "ok"
	} else {
		out.result = "err"
	}
	out.why = classifyRunError(runErr)
	store.mu.Lock()
	out.crashed = store.dead
	out.failedWrites = store.failed
	store.mu.Unlock()
	out.disk, _, _, _ = readDisk(d)
	out.calls = strings.Join(sr.calls, ",")
	if out.calls == "" {
		out.calls = "-"
	}
	out.obs = sr.obs
	out.orderV = sr.orderV
	return out
}

// classifyRunError maps the error of Run to the model's `why=` field: the failing step and the migration the
// error names ("running migration at index i: …"; `@-` = no index): ok | cancelled@ | before@ | migrate@ |
// write@ | read@.
func classifyRunError(err error) string {
	if err == nil {
		return "ok"
	}
	msg := err.Error()
	at := "@-"
	const pfx = "running migration at index "
	if strings.HasPrefix(msg, pfx) {
		rest := msg[len(pfx):]
		if k := strings.Index(rest, ": "); k > 0 {
			at, msg = "@"+rest[:k], rest[k+2:]
		}
	}
	switch {
	case strings.HasPrefix(msg, "getting intermediate state"):
		return "read" + at
	case strings.HasPrefix(msg, "restoring migration state"):
		return "before" + at
	case strings.HasPrefix(msg, "executing migration"):
		return "migrate" + at
	case strings.HasPrefix(msg, "writing intermediate state"), strings.HasPrefix(msg, "writing migration commit batch"),
		strings.HasPrefix(msg, "writing schema metadata"), strings.HasPrefix(msg, "deleting intermediate state"):
		return "write" + at
	case msg == context.Canceled.Error():
		return "cancelled" + at
	}
	return "other:" + msg
}

// classifyOpenError maps NewRunner's error to the model's verdict: `newer` (errNewerDatabase),
// `optout:<i>f,<j>m,…` (the flags the opt-out error names, in the order it names them: `f` = by the flag
// the harness registered (`opt-<i>`), `m` = `--migration-<j>`), `readerr` (the metadata could not be read).
func classifyOpenError(err error) string {
	msg := err.Error()
	switch {
	case errors.Is(err, errInjectedRead):
		return "readerr"
	case strings.Contains(msg, "cannot opt out"):
		a, b := strings.Index(msg, "["), strings.Index(msg, "]")
		if a < 0 || b < a {
			return "error:" + msg
		}
		var toks []string
		for _, f := range strings.Fields(msg[a+1 : b]) {
			switch {
			case strings.HasPrefix(f, "--opt-"):
				toks = append(toks, strings.TrimPrefix(f, "--opt-")+"f")
			case strings.HasPrefix(f, "--migration-"):
				toks = append(toks, strings.TrimPrefix(f, "--migration-")+"m")
			default:
				toks = append(toks, "?"+f)
			}
		}
		return "optout:" + strings.Join(toks, ",")
	case strings.Contains(msg, "newer, incompatible"):
		return "newer"
	}
	return "error:" + msg
}

func (sp startSpec) modelLine(obs map[int]*observed) string {
	var toks []string
	idx := make([]int, 0, len(obs))
	for i := range obs {
		idx = append(idx, i)
	}
	sort.Ints(idx)
	for _, i := range idx {
		o := obs[i]
		switch {
		case o.beforeFails:
			toks = append(toks, fmt.Sprintf("%d:F", i))
		case !o.called:
		case o.st == nil:
			toks = append(toks, fmt.Sprintf("%d:N:%s", i, o.errKind))
		default:
			toks = append(toks, fmt.Sprintf("%d:S%s:%s", i, showState(o.st), o.errKind))
		}
	}
	reg := sp.Reg
	if reg == "" {
		reg = "-"
	}
	if sp.FailAt > 0 {
		toks = append(toks, fmt.Sprintf("fail=%d", sp.FailAt))
	}
	if sp.MetaReadFail {
		toks = append(toks, "rmeta")
	}
	if len(sp.IstReadFail) > 0 {
		p := make([]string, len(sp.IstReadFail))
		for k, i := range sp.IstReadFail {
			p[k] = strconv.Itoa(i)
		}
		toks = append(toks, "rist="+strings.Join(p, ","))
	}
	return strings.TrimSpace(fmt.Sprintf("run %s %d %d %s", reg, sp.CancelAt, sp.CrashAt, strings.Join(toks, " ")))
}

func (ds diskSpec) write(d *memory.Database) error {
	if ds.HasMeta {
		md := migration.SchemaMetadata{CurrentVersion: migration.SchemaVersion(ds.Cur), LastTargetVersion: migration.SchemaVersion(ds.Last)}
		if err := migration.WriteSchemaMetadata(d, md); err != nil {
			return err
		}
	}
	for i, hx := range ds.Ist {
		b, _ := hex.DecodeString(hx)
		if b == nil {
			b = []byte{}
		}
		if err := migration.WriteIntermediateState(d, uint8(i), b); err != nil {
			return err
		}
	}
	return nil
}

func (ds diskSpec) modelLine() string {
	var sb strings.Builder
	if ds.HasMeta {
		fmt.Fprintf(&sb, "disk %x/%x", ds.Cur, ds.Last)
	} else {
		sb.WriteString("disk none")
	}
	idx := make([]int, 0, len(ds.Ist))
	for i := range ds.Ist {
		idx = append(idx, i)
	}
	sort.Ints(idx)
	for _, i := range idx {
		s := ds.Ist[i]
		if s == "" {
			s = "-"
		}
		fmt.Fprintf(&sb, " %d:%s", i, s)
	}
	return sb.String()
}

func targetOf(reg string) (t uint64, count int) {
	for i, ch := range reg {
		if ch == 'm' || ch == 'e' {
			t |= 1 << uint(i)
		}
	}
	return t, len(reg)
}

// ---- a history on the real runner: correspondence + property oracle ---------------------

// runnerHistoryCase runs the starts of hist one after the other on one database with the REAL
// runner, asks the model for the same starts (fed with the returns the scripted migrations were
// observed to give) and evaluates the property on what the real code did. Returns false when a
// violation was recorded.
func (h *harness) runnerHistoryCase(hist runnerHistory, family string) bool {
	res := h.res
	d := memory.New()
	if err := hist.Init.write(d); err != nil {
		res.Fatalf("history init: %v", err)
		return true
	}
	if a := h.bt.ask(hist.Init.modelLine()); a != "ok" {
		res.Mismatch(lib.Mismatch{Sig: "disk-line-rejected", Input: hist.Init.modelLine(), Model: a})
		return true
	}
	good := true
	violate := func(sig, what string) {
		good = false
		res.Hit("oracle:" + sig)
		res.Violate(lib.Violation{Sig: sig, What: what, Replay: hist})
	}
	// completed[i]: Migrate of i was observed to return (nil, nil) at some point of the history
	completed := map[int]bool{}
	for i := 0; i < 64; i++ {
		if hist.Init.HasMeta && hist.Init.Cur&(1<<uint(i)) != 0 {
			completed[i] = true
		}
	}
	wellBehaved := true
	for si, sp := range hist.Starts {
		for _, b := range sp.Beh {
			if !b.wellBehaved() {
				wellBehaved = false
			}
		}
		diskBefore, before, hadMeta, istBefore := readDisk(d)
		if !hadMeta {
			before = migration.SchemaMetadata{}
		}
		t, count := targetOf(sp.Reg)
		r := realStart(d, sp)
		key := fmt.Sprintf("%s|%d|%+v|%x/%x", family, si, sp, uint64(before.CurrentVersion), uint64(before.LastTargetVersion))
		res.Case(key, r.calls != "" && r.calls != "-")
		if r.hang || r.panicS != "" {
			violate("runner-hangs-or-panics", fmt.Sprintf("start %d: hang=%v %s", si, r.hang, r.panicS))
			return false
		}
		res.Hit("runner-open:" + strings.SplitN(r.open, ":", 2)[0])
		if sp.MetaReadFail {
			res.Hit("runner-meta-read-failed")
		}
		if len(sp.IstReadFail) > 0 {
			res.Hit("runner-token-read-fault-planned")
		}
		// --- model
		var line string
		if r.open == "ok" {
			line = sp.modelLine(r.obs)
		} else {
			line = sp.modelLine(nil)
		}
		ans := h.bt.ask(line)
		res.Compared(1)
		var want string
		switch {
		case r.open == "readerr":
			want = "readerr " + r.disk
		case r.open != "ok":
			// the error NewRunner returns is compared too: errNewerDatabase, or the opt-out error with
			// exactly the flags it names (model: newRunnerV)
			want = "refused:" + r.open + " " + r.disk
		case r.crashed:
			want = "crashed " + r.disk
			// the model may also report the Run result of a process that died after its last write
			if i := strings.Index(ans, " calls="); i >= 0 {
				ans = ans[:i]
			}
			if f := strings.SplitN(ans, " ", 2); len(f) == 2 {
				ans = "crashed " + f[1]
			}
		default:
			want = r.result + " " + r.disk + " calls=" + r.calls + " why=" + r.why
			res.Hit("runner-why:" + strings.SplitN(r.why, "@", 2)[0])
		}
		if ans != want {
			res.Mismatch(lib.Mismatch{Sig: "runner-start-differs", Input: map[string]any{"history": hist, "start": si, "line": line},
				Model: ans, Impl: want})
		}
		// --- property oracle on the real code
		curB, lastB := uint64(before.CurrentVersion), uint64(before.LastTargetVersion)
		if sp.MetaReadFail {
			// the applied / opted-into migrations are unknown: nothing may be decided or written
			if r.open == "ok" {
				violate("newrunner-ignores-metadata-read-error", fmt.Sprintf(
					"start %d: reading the schema metadata failed with an I/O error and NewRunner went on as if the database had none "+
						"(before: %s, after: %s)", si, diskBefore, r.disk))
			} else if r.disk != diskBefore {
				violate("refused-start-changes-database", fmt.Sprintf("start %d: %s -> %s", si, diskBefore, r.disk))
			}
			if r.open != "ok" {
				continue
			}
		}
		mustRefuse := curB&^t != 0 || lastB&^t != 0
		if r.open == "ok" && mustRefuse {
			beyond := (lastB &^ t) >> uint(count)
			if curB&^t == 0 && count < 64 && beyond != 0 && (lastB&^t)&((1<<uint(count))-1) == 0 {
				violate("newrunner-accepts-unknown-last-target-bits", fmt.Sprintf(
					"start %d: database records LastTargetVersion=%b (a migration beyond this binary's %d was opted into / started), "+
						"CurrentVersion=%b; NewRunner accepts it and Run overwrites LastTargetVersion", si, lastB, count, curB))
			} else {
				violate("newrunner-accepts-downgrade-or-optout", fmt.Sprintf(
					"start %d: current=%b last=%b target=%b accepted", si, curB, lastB, t))
			}
		}
		if r.open != "ok" && !mustRefuse {
			violate("newrunner-refuses-valid-database", fmt.Sprintf("start %d: current=%b last=%b target=%b refused (%s)", si, curB, lastB, t, r.open))
		}
		if r.open != "ok" {
			res.Hit("runner-refused")
			if r.disk != diskBefore {
				violate("refused-start-changes-database", fmt.Sprintf("start %d: %s -> %s", si, diskBefore, r.disk))
			}
			// the opt-out error must name exactly the registered migrations that were opted out of
			if mustRefuse && strings.HasPrefix(r.open, "optout:") {
				var wantFlags []string
				for i := 0; i < count; i++ {
					if (lastB&^t)&(1<<uint(i)) != 0 {
						k := "m"
						if sp.Reg[i] != 'm' {
							k = "f"
						}
						wantFlags = append(wantFlags, fmt.Sprintf("%d%s", i, k))
					}
				}
				if got := strings.TrimPrefix(r.open, "optout:"); got != strings.Join(wantFlags, ",") {
					violate("optout-error-names-wrong-flags", fmt.Sprintf(
						"start %d: last=%b target=%b registry %s: the error names %q, the migrations opted out of are %q",
						si, lastB, t, sp.Reg, got, strings.Join(wantFlags, ",")))
				}
			}
			continue
		}
		_, after, _, ist := readDisk(d)
		// store-level: the runner owns two buckets (schema metadata, intermediate state) and nothing else; the
		// metadata record and the tokens are compared above through the accessors, here every raw key
		for k := range dump(d) {
			if k[0] != db.SchemaMetadata.Key()[0] && k[0] != db.SchemaIntermediateState.Key()[0] {
				violate("runner-writes-outside-its-buckets", fmt.Sprintf("start %d: key %x (bucket %d) written by the runner", si, k, k[0]))
				break
			}
			if _, was := istBefore[int(k[len(k)-1])]; k[0] == db.SchemaIntermediateState.Key()[0] && !was && (len(k) != 2 || k[1] > 63 || (uint64(1)<<k[1])&t == 0) {
				violate("runner-stores-token-for-unknown-migration", fmt.Sprintf("start %d: token key %x does not belong to a migration of the target %b", si, k, t))
				break
			}
		}
		// token threading on the real code: Before receives exactly the stored token
		for _, c := range strings.Split(r.calls, ",") {
			if !strings.HasPrefix(c, "B") {
				continue
			}
			f := strings.SplitN(c[1:], ":", 2)
			i, _ := strconv.Atoi(f[0])
			wantTok := "nil"
			if st, ok := istBefore[i]; ok {
				wantTok = showState(st)
			}
			if len(f) == 2 && f[1] != wantTok {
				violate("before-receives-other-than-stored-token", fmt.Sprintf(
					"start %d: Before of migration %d received %s, the stored resume token is %s", si, i, f[1], wantTok))
			}
		}
		for _, i := range sp.IstReadFail {
			bit := uint64(1) << uint(i)
			if t&bit == 0 || curB&bit != 0 {
				continue
			}
			if r.obs[i] != nil {
				violate("runner-ignores-resume-token-read-error", fmt.Sprintf(
					"start %d: reading the resume token of migration %d failed with an I/O error and the migration was started anyway", si, i))
			}
			stB, hadB := istBefore[i]
			stA, hadA := ist[i]
			if hadB != hadA || string(stB) != string(stA) || uint64(after.CurrentVersion)&bit != 0 {
				violate("token-read-error-changes-migration-state", fmt.Sprintf(
					"start %d: migration %d whose token could not be read: token %v/%x -> %v/%x, applied=%v", si, i, hadB, stB, hadA, stA,
					uint64(after.CurrentVersion)&bit != 0))
			}
			if r.result == "ok" && !r.crashed && r.obs[i] == nil {
				reached := true
				for j := 0; j < i; j++ {
					if t&(1<<uint(j)) != 0 && uint64(after.CurrentVersion)&(1<<uint(j)) == 0 {
						reached = false
					}
				}
				if reached {
					violate("run-ok-after-token-read-error", fmt.Sprintf("start %d: Run returned nil although the token of pending migration %d could not be read", si, i))
				}
			}
			res.Hit("runner-token-read-failed")
		}
		for i := 0; i < 64; i++ {
			bit := uint64(1) << uint(i)
			o := r.obs[i]
			if o != nil && o.called && o.st == nil && o.errKind == "n" {
				completed[i] = true
			}
			if uint64(after.CurrentVersion)&bit != 0 {
				if _, left := ist[i]; left {
					violate("applied-bit-with-intermediate-state-left", fmt.Sprintf("start %d: migration %d applied but its intermediate state is still stored", si, i))
				}
			}
			if uint64(after.CurrentVersion)&bit != 0 && curB&bit == 0 {
				res.Hit("runner-applied")
				if !completed[i] {
					if o != nil && o.called && o.st == nil && o.errKind == "c" {
						violate("runner-marks-applied-after-nil-state-and-ctx-error", fmt.Sprintf(
							"start %d: Migrate of migration %d returned (nil, error wrapping ctx.Err()) after cancellation; Run returned %s "+
								"and the metadata records the migration as applied, so it is never run again", si, i, r.result))
					} else {
						violate("runner-marks-applied-without-completion", fmt.Sprintf("start %d: migration %d recorded as applied but Migrate never returned (nil, nil)", si, i))
					}
				}
			}
			if uint64(after.CurrentVersion)&bit == 0 && curB&bit != 0 {
				violate("applied-bit-cleared", fmt.Sprintf("start %d: bit %d of CurrentVersion cleared", si, i))
			}
			if o != nil && curB&bit != 0 {
				violate("runner-reruns-applied-migration", fmt.Sprintf("start %d: migration %d called although applied", si, i))
			}
			if o != nil && t&bit == 0 {
				violate("runner-runs-migration-outside-target", fmt.Sprintf("start %d: migration %d called but not in target", si, i))
			}
		}
		// a migration that returned an error while the context was live stops the run: nothing is saved or applied
		// for it, no later migration is called, Run returns the error
		for i, o := range r.obs {
			if o == nil || !o.called || o.errKind == "n" || !o.ctxLive || r.crashed {
				continue
			}
			later := false
			for j, o2 := range r.obs {
				if j > i && o2 != nil {
					later = true
				}
			}
			stA, hadA := ist[i]
			stB, hadB := istBefore[i]
			switch {
			case r.result == "ok" || later:
				violate("runner-continues-after-migration-error", fmt.Sprintf(
					"start %d: Migrate of migration %d returned an error (class %s, state %s) while the context was live; Run returned %s and "+
						"a later migration was called: %v (calls %s)", si, i, o.errKind, showState(o.st), r.result, later, r.calls))
			case hadA != hadB || string(stA) != string(stB):
				violate("runner-saves-state-of-failed-migration", fmt.Sprintf(
					"start %d: Migrate of migration %d failed (class %s) with a live context; its resume token changed from %v/%x to %v/%x",
					si, i, o.errKind, hadB, stB, hadA, stA))
			}
			res.Hit("runner-migrate-error-with-live-context")
		}
		if sp.FailAt > 0 && r.failedWrites > 0 && r.result == "ok" && !r.crashed {
			violate("runner-swallows-failed-write", fmt.Sprintf("start %d: the runner's write at tick %d failed and Run returned nil", si, sp.FailAt))
		}
		if r.failedWrites > 0 {
			res.Hit("runner-write-failed")
		}
		if wellBehaved && r.orderV != "" {
			violate("runner-order-violated", fmt.Sprintf("start %d: %s", si, r.orderV))
		}
		if sp.CrashAt >= 1 && sp.FailAt != 1 && uint64(after.LastTargetVersion) != t {
			violate("last-target-not-recorded", fmt.Sprintf("start %d: LastTargetVersion=%b after a run with target %b", si, uint64(after.LastTargetVersion), t))
		}
		if uint64(after.CurrentVersion)&^(curB|t) != 0 {
			violate("applied-bit-outside-target", fmt.Sprintf("start %d: current %b -> %b with target %b", si, curB, uint64(after.CurrentVersion), t))
		}
		// strictly ascending call order, each index at most once per run
		last := -1
		for _, c := range strings.Split(r.calls, ",") {
			if strings.HasPrefix(c, "M") {
				i, _ := strconv.Atoi(c[1:])
				if i <= last {
					violate("runner-call-order", fmt.Sprintf("start %d: calls %s", si, r.calls))
				}
				last = i
			}
		}
		if r.result == "ok" && !r.crashed && wellBehaved && uint64(after.CurrentVersion)&t != t {
			violate("run-ok-but-target-not-applied", fmt.Sprintf("start %d: Run returned nil, target %b, current %b", si, t, uint64(after.CurrentVersion)))
		}
	}
	return good
}
