//go:build verif

package main

import (
	"context"
	"errors"
	"fmt"
	"strconv"
	"strings"
	"sync"
	"time"

	"github.com/NethermindEth/juno/migration/pipeline"
	"verif/harness/lib"
)

// The real generic pipeline (Source -> stage 1 with `conc` workers -> stage 2 with 1 worker, the
// shape of every migration) with recording states: cancellation when stage 1 (or stage 2) has seen
// k items, a stage error at item f. Each stage's observed run goes to the Lean acceptor
// (`pipe.check`), the property oracle is evaluated on the real trace.

type pipePlan struct {
	N          int  `json:"n"`
	Conc       int  `json:"conc"`
	CancelAt1  int  `json:"cancelAfterStage1Items"` // cancel when stage 1 has been called this often (0 = never)
	CancelAt2  int  `json:"cancelAfterStage2Items"`
	FailAt     int  `json:"failStage1AtItem"` // stage 1 Run fails on this item (-1 = never)
	FailStage2 int  `json:"failStage2AtItem"` // stage 2 Run fails on its k-th input (0 = never)
	PreCancel  bool `json:"preCancel"`
}

type recStage1 struct {
	mu      sync.Mutex
	plan    pipePlan
	cancel  context.CancelFunc
	per     [][]int
	dones   []int
	calls   int
	sentOut int // outputs sent to stage 2, numbered in send order
}

func (s *recStage1) Run(index int, input int, outputs chan<- int) error {
	s.mu.Lock()
	s.per[index] = append(s.per[index], input)
	s.calls++
	if s.plan.CancelAt1 > 0 && s.calls == s.plan.CancelAt1 {
		s.cancel()
	}
	fail := s.plan.FailAt >= 0 && input == s.plan.FailAt
	id := -1
	if !fail {
		id = s.sentOut
		s.sentOut++
	}
	s.mu.Unlock()
	if fail {
		return errScripted
	}
	outputs <- id
	return nil
}

func (s *recStage1) Done(index int, _ chan<- int) error {
	s.mu.Lock()
	s.dones[index]++
	s.mu.Unlock()
	return nil
}

type recStage2 struct {
	mu     sync.Mutex
	plan   pipePlan
	cancel context.CancelFunc
	got    []int
	dones  int
}

func (s *recStage2) Run(_ int, input int, _ chan<- struct{}) error {
	s.mu.Lock()
	defer s.mu.Unlock()
	s.got = append(s.got, input)
	if s.plan.CancelAt2 > 0 && len(s.got) == s.plan.CancelAt2 {
		s.cancel()
	}
	if s.plan.FailStage2 > 0 && len(s.got) == s.plan.FailStage2 {
		return errScripted
	}
	return nil
}

func (s *recStage2) Done(int, chan<- struct{}) error {
	s.mu.Lock()
	s.dones++
	s.mu.Unlock()
	return nil
}

func intsTok(xs []int) string {
	if len(xs) == 0 {
		return "-"
	}
	p := make([]string, len(xs))
	for i, x := range xs {
		p[i] = strconv.Itoa(x)
	}
	return strings.Join(p, ",")
}

func (h *harness) pipeCase(p pipePlan) {
	ctx, cancel := context.WithCancel(context.Background())
	defer cancel()
	sent := 0
	src := pipeline.Source(func(yield func(int) bool) {
		for i := 0; i < p.N; i++ {
			if !yield(i) {
				return
			}
			sent++
		}
	})
	s1 := &recStage1{plan: p, cancel: cancel, per: make([][]int, p.Conc), dones: make([]int, p.Conc)}
	s2 := &recStage2{plan: p, cancel: cancel}
	st1 := pipeline.New(src, p.Conc, s1)
	st2 := pipeline.New(st1, 1, s2)
	if p.PreCancel {
		cancel()
	}
	var res pipeline.Result
	if !lib.WithDeadline(10*time.Second, func() {
		_, wait := st2.Run(ctx)
		res = wait()
	}) {
		h.res.Violate(lib.Violation{Sig: "pipeline-hangs", What: "pipeline run does not return", Replay: p})
		return
	}
	h.res.Case(fmt.Sprintf("pipe|%+v", p), p.N > 0)
	switch {
	case res.Err != nil:
		h.res.Hit("pipe:error")
	case !res.IsDone:
		h.res.Hit("pipe:cancelled")
	default:
		h.res.Hit("pipe:done")
	}
	// acceptor: stage 1 against the source, stage 2 against what stage 1 sent
	b2 := map[bool]string{true: "1", false: "0"}
	ws := make([]string, p.Conc)
	for i := range ws {
		ws[i] = intsTok(s1.per[i])
	}
	l1 := fmt.Sprintf("pipe.check %d %d %d %s %s %s", p.Conc, p.N, sent, b2[res.IsDone], strings.Join(ws, ";"), intsTok(s1.dones))
	l2 := fmt.Sprintf("pipe.check 1 %d %d 1 %s %d", s1.sentOut, s1.sentOut, intsTok(s2.got), s2.dones)
	h.res.Compared(2)
	if a := h.bt.ask(l1); a != "true" {
		h.res.Mismatch(lib.Mismatch{Sig: "pipeline-stage1-run-not-accepted-by-model", Input: map[string]any{"plan": p, "line": l1}, Model: a})
	}
	if a := h.bt.ask(l2); a != "true" {
		// stage 2 has one worker: it must see the outputs each exactly once; the order across
		// stage-1 workers is free, so the acceptor is given them sorted when only the order differs
		sorted := append([]int{}, s2.got...)
		for i := range sorted {
			for j := i + 1; j < len(sorted); j++ {
				if sorted[j] < sorted[i] {
					sorted[i], sorted[j] = sorted[j], sorted[i]
				}
			}
		}
		l2b := fmt.Sprintf("pipe.check 1 %d %d 1 %s %d", s1.sentOut, s1.sentOut, intsTok(sorted), s2.dones)
		if b := h.bt.ask(l2b); b != "true" {
			h.res.Mismatch(lib.Mismatch{Sig: "pipeline-stage2-run-not-accepted-by-model", Input: map[string]any{"plan": p, "line": l2}, Model: a})
		}
	}
	// oracle on the real trace (what the migrations rely on)
	seen := map[int]int{}
	for _, w := range s1.per {
		for _, x := range w {
			seen[x]++
		}
	}
	for i := 0; i < sent; i++ {
		if seen[i] != 1 {
			h.res.Violate(lib.Violation{Sig: "pipeline-item-not-processed-exactly-once",
				What: fmt.Sprintf("item %d was handed out by the source and processed %d times", i, seen[i]), Replay: p})
			return
		}
	}
	if len(seen) != sent {
		h.res.Violate(lib.Violation{Sig: "pipeline-item-not-processed-exactly-once", What: "a stage saw an item the source did not hand out", Replay: p})
	}
	for w, c := range s1.dones {
		if c != 1 {
			h.res.Violate(lib.Violation{Sig: "pipeline-done-not-called-once-per-worker",
				What: fmt.Sprintf("stage 1 worker %d: Done called %d times (the migrations flush their last batch there)", w, c), Replay: p})
			break
		}
	}
	if s2.dones != 1 {
		h.res.Violate(lib.Violation{Sig: "pipeline-done-not-called-once-per-worker", What: fmt.Sprintf("stage 2: Done called %d times", s2.dones), Replay: p})
	}
	for w, items := range s1.per {
		for i := 1; i < len(items); i++ {
			if items[i] <= items[i-1] {
				h.res.Violate(lib.Violation{Sig: "pipeline-worker-sees-items-out-of-order", What: fmt.Sprintf("worker %d: %v", w, items), Replay: p})
			}
		}
	}
	if len(s2.got) != s1.sentOut {
		h.res.Violate(lib.Violation{Sig: "pipeline-drops-output-of-earlier-stage",
			What: fmt.Sprintf("stage 1 sent %d outputs, stage 2 received %d", s1.sentOut, len(s2.got)), Replay: p})
	}
	injected := (p.FailAt >= 0 && seen[p.FailAt] > 0) || (p.FailStage2 > 0 && len(s2.got) >= p.FailStage2)
	if injected != (res.Err != nil) {
		h.res.Violate(lib.Violation{Sig: "pipeline-error-not-reported",
			What: fmt.Sprintf("a stage returned an error: %v, Wait() error: %v", injected, res.Err), Replay: p})
	}
	if res.Err != nil && !errors.Is(res.Err, errScripted) {
		h.res.Violate(lib.Violation{Sig: "pipeline-error-not-reported", What: "Wait() returns another error: " + res.Err.Error(), Replay: p})
	}
	if res.IsDone != (sent == p.N) {
		h.res.Violate(lib.Violation{Sig: "pipeline-isdone-wrong",
			What: fmt.Sprintf("IsDone=%v but the source handed out %d of %d items", res.IsDone, sent, p.N), Replay: p})
	}
}

func (h *harness) pipeAll() {
	for _, n := range []int{0, 1, 2, 5, 9} {
		for _, conc := range []int{1, 2, 4} {
			h.pipeCase(pipePlan{N: n, Conc: conc, FailAt: -1})
			h.pipeCase(pipePlan{N: n, Conc: conc, FailAt: -1, PreCancel: true})
			for k := 1; k <= n; k++ {
				h.pipeCase(pipePlan{N: n, Conc: conc, FailAt: -1, CancelAt1: k})
				h.pipeCase(pipePlan{N: n, Conc: conc, FailAt: -1, CancelAt2: k})
				h.pipeCase(pipePlan{N: n, Conc: conc, FailAt: k - 1})
				h.pipeCase(pipePlan{N: n, Conc: conc, FailAt: -1, FailStage2: k})
			}
		}
	}
	for i, m := 0, h.f.Scale(100, 3000); i < m; i++ {
		r := h.r.Fork(uint64(9000000 + i))
		n := r.Range(0, 40)
		p := pipePlan{N: n, Conc: r.Range(1, 8), FailAt: -1}
		switch r.Intn(5) {
		case 0:
			p.CancelAt1 = r.Range(1, n+1)
		case 1:
			p.CancelAt2 = r.Range(1, n+1)
		case 2:
			p.FailAt = r.Intn(n + 1)
		case 3:
			p.FailStage2 = r.Range(1, n+1)
			p.CancelAt1 = r.Intn(n + 1)
		}
		h.pipeCase(p)
	}
}
