//go:build verif

package main

import (
	"fmt"
	"os"
	"path/filepath"
	"reflect"

	"github.com/NethermindEth/juno/blockchain"
	"github.com/NethermindEth/juno/core"
	"github.com/NethermindEth/juno/core/felt"
	"github.com/NethermindEth/juno/db"
	"github.com/NethermindEth/juno/db/memory"
	"github.com/NethermindEth/juno/db/pebblev2"
	"github.com/NethermindEth/juno/encoder"
	cpebble2 "github.com/cockroachdb/pebble/v2"
	cvfs2 "github.com/cockroachdb/pebble/v2/vfs"
	"verif/harness/lib"
)

type nopLogger struct{}

func (nopLogger) Infof(string, ...any)  {}
func (nopLogger) Errorf(string, ...any) {}
func (nopLogger) Fatalf(string, ...any) {}

// backend opens a fresh store; reopen (if not nil) closes it and opens it again on the same files.
type backend struct {
	name   string
	store  db.KeyValueStore
	reopen func() (db.KeyValueStore, error)
	close  func()
}

func (h *H) openBackend(kind string, tag string) (*backend, error) {
	switch kind {
	case "memory":
		return &backend{name: "memory", store: memory.New(), close: func() {}}, nil
	case "pebble-mem":
		fs := cvfs2.NewMem()
		open := func() (db.KeyValueStore, error) {
			return pebblev2.New("c07-"+tag, func(o *cpebble2.Options) error {
				o.FS = fs
				o.Logger = nopLogger{}
				return nil
			})
		}
		s, err := open()
		if err != nil {
			return nil, err
		}
		b := &backend{name: "pebblev2(memfs)", store: s}
		b.reopen = func() (db.KeyValueStore, error) {
			if err := b.store.Close(); err != nil {
				return nil, err
			}
			ns, err := open()
			if err == nil {
				b.store = ns
			}
			return ns, err
		}
		b.close = func() { b.store.Close() }
		return b, nil
	case "pebble-disk":
		if h.tmpDir == "" {
			return nil, fmt.Errorf("no temp dir")
		}
		dir := filepath.Join(h.tmpDir, tag)
		open := func() (db.KeyValueStore, error) {
			return pebblev2.New(dir, func(o *cpebble2.Options) error {
				o.Logger = nopLogger{}
				return nil
			})
		}
		s, err := open()
		if err != nil {
			return nil, err
		}
		b := &backend{name: "pebblev2(disk)", store: s}
		b.reopen = func() (db.KeyValueStore, error) {
			if err := b.store.Close(); err != nil {
				return nil, err
			}
			ns, err := open()
			if err == nil {
				b.store = ns
			}
			return ns, err
		}
		b.close = func() { b.store.Close(); os.RemoveAll(dir) }
		return b, nil
	}
	return nil, fmt.Errorf("unknown backend %s", kind)
}

var edgeHeights = []uint64{0, 1, 23, 24, 255, 256, 65535, 65536, 1<<32 - 1, 1 << 32, 1<<63 - 1, 1 << 63, 1<<64 - 1}

// genRec generates one block record with arbitrary (not chain-valid) content.
func (h *H) genRec(g *Gen, i int, number uint64) *Rec {
	cfgOf := func() *GenCfg { return Cfg(i, false) }
	hdr := g.Value(reflect.TypeOf(core.Header{}), cfgOf()).Interface().(core.Header)
	hdr.Hash = g.uniqueFelt() // WriteBlockHeader keys on it
	hdr.Number = number
	txs, rcs := h.genBlockItems(g, i)
	if len(rcs) != len(txs) && i%4 != 3 {
		// mostly well-formed blocks (one receipt per transaction); every 4th keeps odd shapes
		rcs = rcs[:min(len(rcs), len(txs))]
		for len(rcs) < len(txs) {
			rcs = append(rcs, g.Receipt(txs[len(rcs)], Cfg(5, false)))
		}
	}
	su := g.Value(reflect.TypeOf(&core.StateUpdate{}), cfgOf()).Interface().(*core.StateUpdate)
	cm := g.Value(reflect.TypeOf(&core.BlockCommitments{}), cfgOf()).Interface().(*core.BlockCommitments)
	rec := &Rec{Header: &hdr, Txs: txs, Rcs: rcs, SU: su, Comm: cm, Classes: map[felt.Felt]*core.DeclaredClassDefinition{}, NewCls: g.R.Bool()}
	for k := g.R.Intn(3); k > 0; k-- {
		cls := g.Value(tClsIface, cfgOf()).Interface().(core.ClassDefinition)
		rec.Classes[*g.uniqueFelt()] = &core.DeclaredClassDefinition{At: g.u64(), Class: cls}
	}
	// CASM hash metadata in its three shapes: declared with V2, declared with V1, V1 then migrated
	rec.Casm = map[felt.SierraClassHash]core.ClassCasmHashMetadata{}
	for k := g.R.Intn(4); k > 0; k-- {
		v1, v2 := felt.CasmClassHash(g.felt()), felt.CasmClassHash(g.felt())
		at := g.u64() >> 1
		var md core.ClassCasmHashMetadata
		switch g.R.Intn(3) {
		case 0:
			md = core.NewCasmHashMetadataDeclaredV2(at, &v2)
		case 1:
			md = core.NewCasmHashMetadataDeclaredV1(at, &v1, &v2)
		default:
			md = core.NewCasmHashMetadataDeclaredV1(at, &v1, &v2)
			_ = md.Migrate(at + 1 + uint64(g.R.Intn(1000)))
		}
		rec.Casm[felt.SierraClassHash(*g.uniqueFelt())] = md
	}
	return rec
}

func recSummary(rec *Rec) map[string]any {
	hb, _ := encoder.Marshal(rec.Header)
	bt, _ := core.NewBlockTransactions(rec.Txs, rec.Rcs)
	bb, _ := core.BlockTransactionsSerializer{}.Marshal(&bt)
	sb, _ := encoder.Marshal(rec.SU)
	cb, _ := encoder.Marshal(rec.Comm)
	kinds := []string{}
	for _, tx := range rec.Txs {
		kinds = append(kinds, reflect.TypeOf(tx).Elem().Name())
	}
	return map[string]any{"number": rec.Header.Number, "txs": kinds, "receipts": len(rec.Rcs), "classes": len(rec.Classes),
		"stored_header": hx(hb), "stored_block_transactions": hx(bb), "stored_state_update": hx(sb), "stored_commitments": hx(cb)}
}

// ---------------------------------------------------------------------------------------------
// Phase "records": arbitrary records written with core.Write*, read back through every accessor,
// on db/memory and db/pebblev2 (also after closing and reopening the store).
// ---------------------------------------------------------------------------------------------

func (h *H) phaseRecords(shard, shards int) {
	groups := h.f.Scale(6, 60)
	perGroup := h.f.Scale(8, 12)
	kinds := []string{"memory", "pebble-mem"}
	if h.f.Thorough() {
		kinds = append(kinds, "pebble-disk")
	}
	for gi := 0; gi < groups; gi++ {
		if gi%shards != shard || !h.want("records", gi) {
			continue
		}
		kind := kinds[gi%len(kinds)]
		if h.only == nil && gi == 1 && !h.f.Thorough() {
			kind = "pebble-disk" // one on-disk group in the quick tier too
		}
		h.recordGroup(gi, kind, perGroup)
	}
}

func (h *H) recordGroup(gi int, kind string, perGroup int) {
	res := h.res
	g := &Gen{R: h.rng("records", gi), rawLimbs: true}
	be, err := h.openBackend(kind, fmt.Sprintf("rec%d", gi))
	if err != nil {
		res.Fatalf("open %s: %v", kind, err)
		return
	}
	defer func() { be.close() }()
	res.Hit("backend:" + be.name)
	// distinct heights: edge values first, then neighbours / random
	heights := map[uint64]bool{}
	var recs []*Rec
	var maxH uint64
	for i := 0; i < perGroup; i++ {
		var n uint64
		for {
			if g.R.Chance(2, 3) {
				n = lib.Pick(g.R, edgeHeights)
			} else {
				n = uint64(g.R.Intn(70000))
			}
			if !heights[n] {
				break
			}
		}
		heights[n] = true
		recs = append(recs, h.genRec(g, gi*perGroup+i, n))
	}
	if gi == 1 {
		// staleness stress: for every transaction kind a fully populated value directly followed by
		// an all-nil value of the SAME concrete type (and the same for receipts): a decoder that
		// reuses the previous element (no reset, pooled struct) leaks omitted / nil fields
		st := h.genRec(g, 2, 77)
		st.Txs, st.Rcs = nil, nil
		for _, k := range txKinds {
			for _, mode := range []int{2, 1, 2} {
				tx := g.Value(reflect.PointerTo(k), &GenCfg{Mode: mode, MaxLen: 3}).Interface().(core.Transaction)
				g.fixTx(tx)
				st.Txs = append(st.Txs, tx)
				st.Rcs = append(st.Rcs, g.Receipt(tx, &GenCfg{Mode: mode, MaxLen: 3}))
			}
		}
		if !heights[77] {
			heights[77] = true
			recs = append(recs, st)
			res.Hit("record:staleness-stress")
		}
	}
	if gi == 0 {
		// one big block (more than 256 transactions: indexes and counts beyond one byte)
		big := h.genRec(g, 1, 300)
		big.Txs, big.Rcs = nil, nil
		for j := 0; j < 300; j++ {
			c := Cfg(1, false) // minimal shapes
			if j%50 == 0 {
				c = Cfg(5+j, false)
			}
			tx := g.Tx(c)
			big.Txs = append(big.Txs, tx)
			big.Rcs = append(big.Rcs, g.Receipt(tx, c))
		}
		if !heights[300] {
			heights[300] = true
			recs = append(recs, big)
		}
	}
	// the L1 head is one record per store: the last written record carries it
	l1 := g.Value(reflect.TypeOf(core.L1Head{}), Cfg(3+gi, false)).Interface().(core.L1Head)
	recs[len(recs)-1].L1 = &l1
	// write all, then read all: a later write must not disturb an earlier record
	for _, rec := range recs {
		err, panicked, _ := lib.Try(func() error { return WriteRec(be.store, rec) })
		if err != nil {
			sig := "write-fails"
			if panicked {
				sig = "write-panics"
			}
			res.Violate(lib.Violation{Sig: sig, What: fmt.Sprintf("storing a record on %s: %v", be.name, err),
				Replay: h.spec("records", gi, recSummary(rec))})
			return
		}
		if rec.Header.Number >= maxH {
			maxH = rec.Header.Number
		}
	}
	// the chain height key holds the last written number; make it the maximum so that "head" is defined
	_ = be.store.Update(func(w db.IndexedBatch) error { return core.WriteChainHeight(w, maxH) })
	mkChecker := func(rec *Rec, ri int, label, tag string) *Checker {
		return &Checker{res: res, backend: be.name + label, sigTag: tag, replay: func(accessor, detail string) any {
			d := recSummary(rec)
			d["accessor"] = accessor
			d["detail"] = detail
			d["record_in_group"] = ri
			d["backend"] = be.name + label
			return h.spec("records", gi, d)
		}}
	}
	// pass 0: plain; pass 1: the store recycles (poisons) every buffer it lent out; pass 2: reopened
	for pass := 0; pass < 3; pass++ {
		store := be.store
		label, tag := "", ""
		switch pass {
		case 1:
			store = newPoisonStore(be.store)
			label, tag = "(buffers recycled)", "after-buffer-reuse-"
			res.Hit("backend:" + be.name + label)
		case 2:
			if be.reopen == nil {
				continue
			}
			ns, err := be.reopen()
			if err != nil {
				res.Fatalf("reopen %s: %v", be.name, err)
				continue
			}
			store = ns
			label = "(reopened)"
			res.Hit("backend:" + be.name + label)
		}
		bc := blockchain.New(store, lib.TestNetwork())
		for ri, rec := range recs {
			c := mkChecker(rec, ri, label, tag)
			ReadBack(c, store, bc, rec, rec.Header.Number == maxH)
			res.Case(fmt.Sprintf("record/%s/%d/%d/%d", kind, gi, ri, pass), len(rec.Txs)+len(rec.Rcs) > 0)
			if pass > 0 {
				continue
			}
			res.Hit(fmt.Sprintf("record:txs=%s", bucket(len(rec.Txs))))
			if len(rec.Txs) != len(rec.Rcs) {
				res.Hit("record:txs!=receipts")
			}
			for _, tx := range rec.Txs {
				res.Hit("tx:" + reflect.TypeOf(tx).Elem().Name() + "/v" + versionOf(tx))
			}
			if ri == 0 {
				res.Sample(10, map[string]any{"phase": "records", "backend": be.name, "number": rec.Header.Number,
					"txs": len(rec.Txs), "receipts": len(rec.Rcs), "accessor_reads": c.n})
			}
		}
	}
	// last: the lazy consumer of the revert path, on recycled buffers, for every record
	ps := newPoisonStore(be.store)
	for ri, rec := range recs {
		// every second record gets a different block at its height afterwards
		var repl *Rec
		if ri%2 == 0 {
			repl = h.genRec(g, 7+ri, rec.Header.Number)
		}
		DeleteCheck(mkChecker(rec, ri, "(buffers recycled)", "after-buffer-reuse-"), ps, rec, repl)
	}
}

func versionOf(tx core.Transaction) string {
	v := tx.TxVersion()
	if v == nil {
		return "nil"
	}
	if v.HasQueryBit() {
		return "query"
	}
	return v.AsFelt().Text(10)
}

// ---------------------------------------------------------------------------------------------
// Phase "chain": valid blocks manufactured by juno (ChainGen), stored through the real
// SanityCheckNewHeight + Store on both state backends, read back through everything.
// ---------------------------------------------------------------------------------------------

func (h *H) phaseChain(shard, shards int) {
	type cfg struct {
		srcNew, dstNew bool
		kind           string
		versions       []string
	}
	all := []string{"0.13.2", "0.13.4", "0.14.0", "0.14.1"}
	cfgs := []cfg{{false, false, "memory", []string{"0.13.2"}}, {true, true, "pebble-mem", []string{"0.13.4"}},
		{false, true, "memory", []string{"0.14.0"}}, {true, false, "pebble-mem", []string{"0.14.1"}}}
	if h.f.Thorough() {
		cfgs = append(cfgs, cfg{false, false, "pebble-disk", all}, cfg{true, true, "pebble-disk", all})
	}
	blocks := h.f.Scale(40, 400)
	for ci, c := range cfgs {
		if ci%shards != shard || !h.want("chain", ci) {
			continue
		}
		h.chainCase(ci, c.srcNew, c.dstNew, c.kind, blocks, c.versions)
	}
}

func (h *H) chainCase(ci int, srcNew, dstNew bool, kind string, blocks int, versions []string) {
	res := h.res
	r := h.rng("chain", ci)
	opt := lib.DefaultGenOptions()
	opt.MaxTxs = 6
	opt.Versions = versions
	g := lib.NewChainGen(r, srcNew, opt)
	be, err := h.openBackend(kind, fmt.Sprintf("chain%d", ci))
	if err != nil {
		res.Fatalf("open %s: %v", kind, err)
		return
	}
	defer func() { be.close() }()
	name := fmt.Sprintf("%s/newState=%v", be.name, dstNew)
	res.Hit("chain-backend:" + name)
	bc := lib.NodeOn(be.store, g.Net, dstNew)
	var recs []*Rec
	for i := 0; i < blocks; i++ {
		spec := &lib.BlockSpec{}
		if i%7 == 3 {
			spec.NoTxs = true // empty block
		}
		b, err := g.Next(spec)
		if err != nil {
			res.Fatalf("chain generator: %v", err)
			return
		}
		cl := b.Clone()
		var comm *core.BlockCommitments
		err, panicked, _ := lib.Try(func() error {
			var e error
			comm, e = bc.SanityCheckNewHeight(cl.Block, cl.SU, cl.Classes)
			if e != nil {
				return fmt.Errorf("sanity: %w", e)
			}
			return bc.Store(cl.Block, comm, cl.SU, cl.Classes)
		})
		if err != nil {
			sig := "chain-store-fails"
			if panicked {
				sig = "chain-store-panics"
			}
			res.Violate(lib.Violation{Sig: sig, What: fmt.Sprintf("storing valid block %d on %s: %v", i, name, err),
				Replay: h.spec("chain", ci, map[string]any{"block": i})})
			return
		}
		rec := &Rec{Header: b.Block.Header, Txs: b.Block.Transactions, Rcs: b.Block.Receipts, SU: b.SU,
			Comm: lib.DeepCopy(comm).(*core.BlockCommitments), Classes: map[felt.Felt]*core.DeclaredClassDefinition{}, NewCls: dstNew}
		for ch, cls := range b.Classes {
			rec.Classes[ch] = &core.DeclaredClassDefinition{At: uint64(i), Class: cls}
		}
		recs = append(recs, rec)
	}
	check := func(store db.KeyValueStore, bc *blockchain.Blockchain, label string) {
		tag := ""
		if label == "(buffers recycled)" {
			tag = "after-buffer-reuse-"
		}
		for i, rec := range recs {
			c := &Checker{res: res, backend: name + label, sigTag: tag, replay: func(accessor, detail string) any {
				d := recSummary(rec)
				d["accessor"] = accessor
				d["detail"] = detail
				d["backend"] = name + label
				d["src_new_state"] = srcNew
				return h.spec("chain", ci, d)
			}}
			ReadBack(c, store, bc, rec, i == len(recs)-1)
			// classes through the state reader as well
			if len(rec.Classes) > 0 {
				sr, closer, err := bc.HeadState()
				if err != nil {
					c.eq("Reader.HeadState", err, nil, nil)
				} else {
					for chash, def := range rec.Classes {
						got, err := sr.Class(&chash)
						c.eq("StateReader.Class", err, got, def)
					}
					closer()
				}
			}
			res.Case(fmt.Sprintf("chain/%d/%d", ci, i), len(rec.Txs) > 0)
			res.Hit("chain:version=" + rec.Header.ProtocolVersion)
			res.Hit(fmt.Sprintf("chain:txs=%s", bucket(len(rec.Txs))))
			for _, tx := range rec.Txs {
				res.Hit("tx:" + reflect.TypeOf(tx).Elem().Name() + "/v" + versionOf(tx))
			}
			if len(rec.Classes) > 0 {
				res.Hit("chain:block-with-classes")
			}
			if i == 0 {
				res.Sample(10, map[string]any{"phase": "chain", "backend": name + label, "blocks": len(recs), "accessor_reads_block0": c.n})
			}
		}
	}
	check(be.store, bc, "")
	ps := newPoisonStore(be.store)
	check(ps, lib.NodeOn(ps, g.Net, dstNew), "(buffers recycled)")
	// reorg as sync does it: RevertHead, then Store of a different block at that height; the
	// removed block's transactions (every kind, incl. an L1 handler without nonce) must be
	// not-found by hash, never another transaction
	for round := 0; round < h.f.Scale(3, 10); round++ {
		if round == 0 {
			// make sure the head about to be removed holds every transaction kind
			txs, rcs := allKindsTxs(g, g.Head().Block.ProtocolVersion, 14)
			b, err := g.Next(&lib.BlockSpec{Txs: txs, Rcs: rcs})
			if err != nil {
				res.Fatalf("chain generator: %v", err)
				return
			}
			if err := lib.StoreOn(bc, b); err != nil {
				res.Violate(lib.Violation{Sig: "chain-store-fails", What: fmt.Sprintf("storing a valid all-kinds block on %s: %v", name, err), Replay: h.spec("chain", ci, nil)})
				return
			}
			recs = append(recs, &Rec{Header: b.Block.Header, Txs: b.Block.Transactions, Rcs: b.Block.Receipts, SU: b.SU})
		}
		old := recs[len(recs)-1]
		if err := g.Revert(); err != nil {
			res.Fatalf("chain generator revert: %v", err)
			return
		}
		if err, panicked, _ := lib.Try(func() error { return bc.RevertHead() }); err != nil {
			sig := "revert-head-fails"
			if panicked {
				sig = "revert-head-panics"
			}
			res.Violate(lib.Violation{Sig: sig, What: fmt.Sprintf("RevertHead on %s: %v", name, err), Replay: h.spec("chain", ci, nil)})
			return
		}
		recs = recs[:len(recs)-1]
		mkc := func(label string) *Checker {
			return &Checker{res: res, backend: name + label, replay: func(accessor, detail string) any {
				d := recSummary(old)
				d["accessor"], d["detail"], d["backend"], d["round"] = accessor, detail, name+label, round
				return h.spec("chain", ci, d)
			}}
		}
		StaleHashCheck(mkc("(after revert)"), be.store, bc, old.Txs)
		txs, rcs := allKindsTxs(g, g.Head().Block.ProtocolVersion, 6)
		b, err := g.Next(&lib.BlockSpec{Txs: txs, Rcs: rcs})
		if err != nil {
			res.Fatalf("chain generator: %v", err)
			return
		}
		cl := b.Clone()
		comm, err := bc.SanityCheckNewHeight(cl.Block, cl.SU, cl.Classes)
		if err == nil {
			err = bc.Store(cl.Block, comm, cl.SU, cl.Classes)
		}
		if err != nil {
			res.Violate(lib.Violation{Sig: "chain-store-fails", What: fmt.Sprintf("storing a valid replacement block on %s: %v", name, err), Replay: h.spec("chain", ci, nil)})
			return
		}
		rec := &Rec{Header: b.Block.Header, Txs: b.Block.Transactions, Rcs: b.Block.Receipts, SU: b.SU,
			Comm: lib.DeepCopy(comm).(*core.BlockCommitments), Classes: map[felt.Felt]*core.DeclaredClassDefinition{}, NewCls: dstNew}
		for chash, cls := range b.Classes {
			rec.Classes[chash] = &core.DeclaredClassDefinition{At: b.Block.Number, Class: cls}
		}
		recs = append(recs, rec)
		res.Hit("chain:revert-and-replace")
		StaleHashCheck(mkc("(after revert and replacement)"), be.store, bc, old.Txs)
		StaleBlockHashCheck(mkc("(after revert and replacement)"), be.store, bc, old.Header)
		ReadBack(mkc("(replacement)"), be.store, bc, rec, true)
	}
	if be.reopen != nil {
		ns, err := be.reopen()
		if err != nil {
			res.Fatalf("reopen %s: %v", be.name, err)
			return
		}
		check(ns, lib.NodeOn(ns, g.Net, dstNew), "(reopened)")
	}
}

// ---------------------------------------------------------------------------------------------
// Phase "utf8": Go strings are arbitrary bytes. The encoder writes a string that is not valid UTF-8
// as a CBOR text string without complaint; the decoder rejects it: the record is stored and can
// never be read again. One dedicated check, one Sig.
// ---------------------------------------------------------------------------------------------

func (h *H) phaseUTF8() {
	if !h.want("utf8", 0) {
		return
	}
	res := h.res
	g := &Gen{R: h.rng("utf8", 0), rawLimbs: true}
	tx := g.Tx(Cfg(1, false))
	rc := g.Receipt(tx, Cfg(1, false))
	rc.Reverted = true
	rc.RevertReason = "execution failed: \xff\xfe"
	hdr := &core.Header{Hash: g.uniqueFelt(), Number: 7, TransactionCount: 1}
	rec := &Rec{Header: hdr, Txs: []core.Transaction{tx}, Rcs: []*core.TransactionReceipt{rc}, SU: &core.StateUpdate{}, Comm: &core.BlockCommitments{}}
	d := memory.New()
	res.Hit("utf8:invalid-revert-reason")
	res.Case("utf8/0", true)
	if err := WriteRec(d, rec); err != nil {
		// rejecting the value at write time is fine: nothing unreadable is stored
		res.Hit("utf8:rejected-at-write")
		return
	}
	got, err := core.GetReceiptByBlockAndIndex(d, 7, 0)
	if err != nil {
		res.Violate(lib.Violation{Sig: "string-with-invalid-utf8-stored-but-unreadable",
			What: "a receipt whose RevertReason is not valid UTF-8 is written without error by WriteTransactionsAndReceipts, " +
				"and every later read of that block fails: " + err.Error(),
			Replay: h.spec("utf8", 0, map[string]any{"revert_reason_hex": hx([]byte(rc.RevertReason)), "accessor": "core.GetReceiptByBlockAndIndex"})})
		return
	}
	if dd := Diff(rc, got); dd != "" {
		res.Violate(lib.Violation{Sig: "string-with-invalid-utf8-altered", What: "read back differs at " + dd,
			Replay: h.spec("utf8", 0, map[string]any{"revert_reason_hex": hx([]byte(rc.RevertReason))})})
		return
	}
	res.Hit("utf8:roundtrips")
	// … and through EVERY accessor, the partial decoders included (execution status, events, hashes)
	c := &Checker{res: res, backend: "memory", replay: func(accessor, detail string) any {
		return h.spec("utf8", 0, map[string]any{"revert_reason_hex": hx([]byte(rc.RevertReason)), "accessor": accessor, "detail": detail})
	}}
	ReadBack(c, d, blockchain.New(d, lib.TestNetwork()), rec, true)
}
