//go:build verif

package main

import (
	"github.com/NethermindEth/juno/db"
)

// ---------------------------------------------------------------------------------------------
// The db.KeyValueReader contract: the value passed to the Get callback is only valid until the
// callback returns (Pebble releases it on closer.Close()), and an iterator's UncopiedValue dies on
// the next positioning call. db/memory never recycles buffers, so a decoder that keeps an alias
// into the callback's slice (e.g. BlockTransactions.Data without a copy) works by accident there.
// poisonStore makes the contract bite deterministically: every callback / uncopied value gets a
// PRIVATE copy which is overwritten with 0xff as soon as its validity ends. Everything an accessor
// returned must still equal what was stored afterwards.
// ---------------------------------------------------------------------------------------------

func poison(b []byte) {
	for i := range b {
		b[i] = 0xff
	}
}

func poisonGet(inner db.KeyValueReader, key []byte, cb func([]byte) error) error {
	return inner.Get(key, func(v []byte) error {
		c := append(make([]byte, 0, len(v)), v...)
		err := cb(c)
		poison(c)
		return err
	})
}

type poisonReader struct{ inner db.KeyValueReader }

func (p poisonReader) Has(key []byte) (bool, error) { return p.inner.Has(key) }
func (p poisonReader) Get(key []byte, cb func([]byte) error) error {
	return poisonGet(p.inner, key, cb)
}

func (p poisonReader) NewIterator(prefix []byte, withUpperBound bool) (db.Iterator, error) {
	it, err := p.inner.NewIterator(prefix, withUpperBound)
	if err != nil {
		return nil, err
	}
	return &poisonIter{Iterator: it}, nil
}

type poisonIter struct {
	db.Iterator
	live [][]byte // uncopied values handed out at the current position
}

func (it *poisonIter) kill() {
	for _, b := range it.live {
		poison(b)
	}
	it.live = nil
}
func (it *poisonIter) First() bool        { it.kill(); return it.Iterator.First() }
func (it *poisonIter) Next() bool         { it.kill(); return it.Iterator.Next() }
func (it *poisonIter) Prev() bool         { it.kill(); return it.Iterator.Prev() }
func (it *poisonIter) Seek(k []byte) bool { it.kill(); return it.Iterator.Seek(k) }
func (it *poisonIter) Close() error       { it.kill(); return it.Iterator.Close() }
func (it *poisonIter) UncopiedValue() ([]byte, error) {
	v, err := it.Iterator.UncopiedValue()
	if err != nil {
		return nil, err
	}
	c := append(make([]byte, 0, len(v)), v...)
	it.live = append(it.live, c)
	return c, nil
}

type poisonSnapshot struct {
	poisonReader
	snap db.Snapshot
}

func (s poisonSnapshot) Close() error { return s.snap.Close() }

type poisonBatch struct {
	db.IndexedBatch
}

func (b poisonBatch) Get(key []byte, cb func([]byte) error) error {
	return poisonGet(b.IndexedBatch, key, cb)
}

func (b poisonBatch) NewIterator(prefix []byte, withUpperBound bool) (db.Iterator, error) {
	return poisonReader{b.IndexedBatch}.NewIterator(prefix, withUpperBound)
}

// poisonStore wraps a store; writes go straight through.
type poisonStore struct {
	db.KeyValueStore
}

func newPoisonStore(inner db.KeyValueStore) *poisonStore { return &poisonStore{inner} }

func (p *poisonStore) Get(key []byte, cb func([]byte) error) error {
	return poisonGet(p.KeyValueStore, key, cb)
}

func (p *poisonStore) NewIterator(prefix []byte, withUpperBound bool) (db.Iterator, error) {
	return poisonReader{p.KeyValueStore}.NewIterator(prefix, withUpperBound)
}

func (p *poisonStore) NewSnapshot() db.Snapshot {
	s := p.KeyValueStore.NewSnapshot()
	return poisonSnapshot{poisonReader{s}, s}
}

func (p *poisonStore) NewIndexedBatch() db.IndexedBatch {
	return poisonBatch{p.KeyValueStore.NewIndexedBatch()}
}

func (p *poisonStore) NewIndexedBatchWithSize(n int) db.IndexedBatch {
	return poisonBatch{p.KeyValueStore.NewIndexedBatchWithSize(n)}
}

func (p *poisonStore) Update(fn func(db.IndexedBatch) error) error {
	return p.KeyValueStore.Update(func(b db.IndexedBatch) error { return fn(poisonBatch{b}) })
}

// Close is a no-op: the wrapped store is owned (and closed) by its backend.
func (p *poisonStore) Close() error { return nil }
