//go:build verif

package main

import (
	"bytes"
	"context"
	"crypto/sha1"
	"encoding/hex"
	"encoding/json"
	"fmt"
	"os"
	"os/exec"
	"path/filepath"
	"strings"
	"time"

	"verif/harness/lib"
)

// runRaceChild (thorough tier): rebuilds this harness with the Go race detector and runs the quick
// cases of the phases that overlap goroutines ("concurrent": accessors and codecs from many actors;
// "oldlayout": the migration's four ingestors) under it. A reported data race is a violation; the
// child's own findings are merged.
func runRaceChild(f lib.Flags, res *lib.Result) {
	wd, err := os.Getwd()
	if err != nil {
		res.Fatalf("race build skipped: %v", err)
		return
	}
	hdir := filepath.Join(wd, "harness")
	if _, err := os.Stat(filepath.Join(hdir, "go.mod")); err != nil {
		res.Fatalf("race build skipped: harness directory not found from %s", wd)
		return
	}
	tag := ""
	args := []string{"build", "-race"}
	if repo := os.Getenv("VERIF_REPO"); repo != "" && repo != "/repo" {
		h := sha1.Sum([]byte(repo))
		tag = "-" + hex.EncodeToString(h[:])[:8]
		args = append(args, "-modfile="+filepath.Join(wd, ".build", "go"+tag+".mod"))
	}
	bin := filepath.Join(wd, ".build", "vh-c07-race"+tag)
	args = append(args, "-tags", "verif", "-o", bin, "./cmd/c07")
	ctx, cancel := context.WithTimeout(context.Background(), 15*time.Minute)
	defer cancel()
	b := exec.CommandContext(ctx, "go", args...)
	b.Dir = hdir
	if out, err := b.CombinedOutput(); err != nil {
		res.Fatalf("race build failed: %v: %s", err, tail(string(out), 400))
		return
	}
	outPath := filepath.Join(wd, ".build", fmt.Sprintf("result-c07-race-%d.json", os.Getpid()))
	defer os.Remove(outPath)
	c := exec.CommandContext(ctx, bin, "--seed", fmt.Sprint(f.Seed+1000), "--tier", "quick", "--driver", f.Driver, "--out", outPath)
	c.Env = append(os.Environ(), "C07_CHILD=1", "C07_ONLY=concurrent,oldlayout", "GORACE=halt_on_error=0")
	var stderr bytes.Buffer
	c.Stderr = &stderr
	c.Stdout = &stderr
	runErr := c.Run()
	text := stderr.String()
	if n := strings.Count(text, "WARNING: DATA RACE"); n > 0 {
		i := strings.Index(text, "WARNING: DATA RACE")
		rep := text[i:]
		if j := strings.Index(rep, "=================="); j > 0 {
			rep = rep[:j]
		}
		res.Violate(lib.Violation{Sig: "data-race-reported-by-the-race-detector",
			What:   fmt.Sprintf("%d data race report(s) while the concurrent accessors / the block-transactions migration ran under -race", n),
			Replay: map[string]any{"report": tail(rep, 6000), "seed": f.Seed + 1000}})
	}
	res.Hit("race-build:runs")
	raw, err := os.ReadFile(outPath)
	if err != nil {
		res.Fatalf("race child produced no result (%v): %s", runErr, tail(text, 400))
		return
	}
	var child struct {
		Cases          int            `json:"cases"`
		Distribution   map[string]int `json:"distribution"`
		Correspondence struct {
			Compared   int            `json:"compared"`
			Mismatches []lib.Mismatch `json:"mismatches"`
		} `json:"correspondence"`
		Violations []lib.Violation `json:"violations"`
		Fatal      []string        `json:"fatal"`
	}
	if err := json.Unmarshal(raw, &child); err != nil {
		res.Fatalf("race child result unreadable: %v", err)
		return
	}
	res.HitN("race-build:cases", child.Cases)
	res.Compared(child.Correspondence.Compared)
	for _, m := range child.Correspondence.Mismatches {
		res.Mismatch(m)
	}
	for _, v := range child.Violations {
		res.Violate(v)
	}
	for _, ft := range child.Fatal {
		res.Fatalf("race child: %s", ft)
	}
	if child.Cases == 0 || child.Correspondence.Compared == 0 {
		res.Fatalf("race child evaluated %d cases, %d comparisons", child.Cases, child.Correspondence.Compared)
	}
}

func tail(s string, n int) string {
	if len(s) > n {
		return s[len(s)-n:]
	}
	return s
}
