//go:build verif

package main

import (
	"fmt"
	"reflect"

	"github.com/NethermindEth/juno/blockchain"
	"github.com/NethermindEth/juno/core"
	"github.com/NethermindEth/juno/core/felt"
	"github.com/NethermindEth/juno/db"
	"verif/harness/lib"
)

// ---------------------------------------------------------------------------------------------
// Phase "produce": "every block the node stores" includes the blocks it produces itself. The
// writers here are Blockchain.StoreGenesis and Blockchain.Finalise WITH a signer (the sequencer
// path), on both state backends. Finalise completes the caller's block in place (state root,
// block hash, signatures); what it left in the caller's block / state update — plus the
// commitments recomputed independently with core.BlockHash — is what every accessor must return.
// Then head blocks are reverted and replaced (RevertHead + Finalise of a different block): the
// transactions of the removed block must be not-found through every by-hash accessor.
// ---------------------------------------------------------------------------------------------

func (h *H) phaseProduce(shard, shards int) {
	type cfg struct {
		newState bool
		kind     string
		version  string
	}
	cfgs := []cfg{{false, "memory", "0.14.1"}, {true, "memory", "0.14.0"}, {false, "pebble-mem", "0.13.2"}, {true, "pebble-mem", "0.13.4"}}
	blocks := h.f.Scale(14, 120)
	for ci, c := range cfgs {
		if ci%shards != shard || !h.want("produce", ci) {
			continue
		}
		h.produceCase(ci, c.newState, c.kind, c.version, blocks)
	}
}

// allKindsTxs draws transactions until every kind x version the generator knows has appeared
// (12 shapes), plus an L1 handler without nonce (hash taken as given, like a legacy deploy).
func allKindsTxs(g *lib.ChainGen, version string, atLeast int) ([]core.Transaction, []*core.TransactionReceipt) {
	seen := map[string]bool{}
	var txs []core.Transaction
	var rcs []*core.TransactionReceipt
	for tries := 0; (len(seen) < 12 || len(txs) < atLeast) && tries < 400; tries++ {
		tx := g.GenTx(version)
		key := reflect.TypeOf(tx).Elem().Name() + "/v" + versionOf(tx)
		if seen[key] && len(txs) >= atLeast {
			continue
		}
		seen[key] = true
		txs = append(txs, tx)
		rcs = append(rcs, g.GenReceipt(tx))
	}
	n := uint64(len(txs))
	a := g.Addr(2)
	l1 := &core.L1HandlerTransaction{Version: new(core.TransactionVersion).SetUint64(0), ContractAddress: &a,
		EntryPointSelector: lib.F(0x5e1), CallData: []felt.Felt{*lib.F(0xabc0 + n + uint64(g.R.Intn(1<<30))), *lib.F(1)},
		TransactionHash: lib.F(0x11aa0000 + uint64(g.R.Intn(1<<30)))}
	txs = append(txs, l1)
	rcs = append(rcs, g.GenReceipt(l1))
	if allowBadUTF8 && len(rcs) > 1 {
		// Go strings are arbitrary bytes: a revert reason that is not valid UTF-8, in a valid block
		rcs[1].Reverted = true
		rcs[1].RevertReason = "execution failed: \xff\xfe (\xc3"
		// an L1 handler that is NOT the last transaction of its block (index code paths that treat
		// the handler specially must keep counting afterwards)
		k := len(txs) - 1
		txs[0], txs[k] = txs[k], txs[0]
		rcs[0], rcs[k] = rcs[k], rcs[0]
	}
	return txs, rcs
}

type producedBlock struct {
	rec *Rec
}

func (h *H) produceCase(ci int, newState bool, kind, version string, blocks int) {
	res := h.res
	r := h.rng("produce", ci)
	opt := lib.DefaultGenOptions()
	opt.Versions = []string{version}
	g := lib.NewChainGen(r, newState, opt) // used as a generator of diffs / transactions only
	be, err := h.openBackend(kind, fmt.Sprintf("produce%d", ci))
	if err != nil {
		res.Fatalf("open %s: %v", kind, err)
		return
	}
	defer func() { be.close() }()
	name := fmt.Sprintf("%s/newState=%v", be.name, newState)
	res.Hit("produce-backend:" + name)
	bc := lib.NodeOn(be.store, g.Net, newState)
	trieBackend := core.DeprecatedTrieBackend
	if newState {
		trieBackend = core.TrieBackend
	}
	mk := func(rec *Rec, label, tag string) *Checker {
		return &Checker{res: res, backend: name + label, sigTag: tag, replay: func(accessor, detail string) any {
			d := recSummary(rec)
			d["accessor"] = accessor
			d["detail"] = detail
			d["backend"] = name + label
			d["writer"] = "Finalise/StoreGenesis"
			return h.spec("produce", ci, d)
		}}
	}
	fail := func(sig, what string, block int) {
		res.Violate(lib.Violation{Sig: sig, What: fmt.Sprintf("%s (block %d on %s)", what, block, name), Replay: h.spec("produce", ci, map[string]any{"block": block})})
	}

	state := lib.NewAbsState()
	var recs []*Rec
	// ---- block 0: StoreGenesis ---------------------------------------------------------------
	gdiff, gclasses := g.GenDiff(state, 0, version)
	{
		d := lib.DeepCopy(gdiff).(*core.StateDiff)
		cl := lib.DeepCopy(gclasses).(map[felt.Felt]core.ClassDefinition)
		if err, panicked, _ := lib.Try(func() error { return bc.StoreGenesis(d, cl) }); err != nil {
			sig := "store-genesis-fails"
			if panicked {
				sig = "store-genesis-panics"
			}
			fail(sig, err.Error(), 0)
			return
		}
		state.Apply(0, gdiff, gclasses)
		hdr, err := core.GetBlockHeaderByNumber(be.store, 0)
		if err != nil {
			fail("genesis-header-unreadable", err.Error(), 0)
			return
		}
		// what StoreGenesis is specified to build (blockchain.go), completed by Finalise
		want := &core.Header{Hash: hdr.Hash, ParentHash: &felt.Zero, Number: 0, GlobalStateRoot: hdr.GlobalStateRoot,
			SequencerAddress: &felt.Zero, EventsBloom: core.EventsBloom(nil), L1GasPriceETH: &felt.Zero, L1GasPriceSTRK: &felt.Zero}
		if d := Diff(want, hdr); d != "" {
			fail("genesis-header-differs-"+fieldOf(d), "stored genesis header differs from what StoreGenesis builds at "+d, 0)
		}
		if hdr.Hash == nil || hdr.GlobalStateRoot == nil {
			fail("genesis-header-incomplete", "hash / state root missing", 0)
			return
		}
		blk := &core.Block{Header: hdr, Transactions: []core.Transaction{}, Receipts: []*core.TransactionReceipt{}}
		_, comm, err := core.BlockHash(lib.DeepCopy(blk).(*core.Block), gdiff, g.Net, hdr.SequencerAddress, trieBackend)
		if err != nil {
			res.Fatalf("produce: recompute genesis commitments: %v", err)
		}
		rec := &Rec{Header: hdr, Txs: blk.Transactions, Rcs: blk.Receipts,
			SU:   &core.StateUpdate{BlockHash: hdr.Hash, NewRoot: hdr.GlobalStateRoot, OldRoot: &felt.Zero, StateDiff: gdiff},
			Comm: comm, Classes: map[felt.Felt]*core.DeclaredClassDefinition{}, NewCls: newState}
		for chash, cls := range gclasses {
			rec.Classes[chash] = &core.DeclaredClassDefinition{At: 0, Class: cls}
		}
		recs = append(recs, rec)
		res.Hit("produce:genesis")
	}
	// ---- blocks 1..: Finalise ------------------------------------------------------------------
	build := func(num uint64, parent *core.Header, txs []core.Transaction, rcs []*core.TransactionReceipt) (*core.Block, *core.StateUpdate, map[felt.Felt]core.ClassDefinition, *core.StateDiff) {
		diff, classes := g.GenDiff(state, num, version)
		var events uint64
		for _, rc := range rcs {
			events += uint64(len(rc.Events))
		}
		hdr := &core.Header{ParentHash: parent.Hash, Number: num, SequencerAddress: lib.F(0x5e9), TransactionCount: uint64(len(txs)),
			EventCount: events, Timestamp: parent.Timestamp + 1 + uint64(r.Intn(30)), ProtocolVersion: version,
			EventsBloom: core.EventsBloom(rcs), L1GasPriceETH: lib.F(uint64(1 + r.Intn(100))), L1GasPriceSTRK: lib.F(uint64(1 + r.Intn(100))),
			L1DAMode:       core.L1DAMode(r.Intn(2)),
			L1DataGasPrice: &core.GasPrice{PriceInWei: lib.F(uint64(1 + r.Intn(100))), PriceInFri: lib.F(uint64(1 + r.Intn(100)))},
			L2GasPrice:     &core.GasPrice{PriceInWei: lib.F(uint64(1 + r.Intn(100))), PriceInFri: lib.F(uint64(1 + r.Intn(100)))}}
		if r.Bool() {
			hdr.Signatures = [][]*felt.Felt{} // a signer replaces it; without signer it must come back as stored
		}
		return &core.Block{Header: hdr, Transactions: txs, Receipts: rcs},
			&core.StateUpdate{OldRoot: parent.GlobalStateRoot, StateDiff: lib.DeepCopy(diff).(*core.StateDiff)}, classes, diff
	}
	finalise := func(num uint64, parent *core.Header, signed bool, big bool) (*Rec, bool) {
		var txs []core.Transaction
		var rcs []*core.TransactionReceipt
		if big {
			txs, rcs = allKindsTxs(g, version, 14)
		} else {
			for i := r.Intn(4); i > 0; i-- {
				tx := g.GenTx(version)
				txs, rcs = append(txs, tx), append(rcs, g.GenReceipt(tx))
			}
			if txs == nil {
				txs, rcs = []core.Transaction{}, []*core.TransactionReceipt{}
			}
		}
		blk, su, classes, diff := build(num, parent, txs, rcs)
		var sign core.BlockSignFunc
		if signed {
			sign = func(blockHash, commitment *felt.Felt) ([]*felt.Felt, error) {
				a := new(felt.Felt).Add(blockHash, lib.F(1))
				return []*felt.Felt{a, new(felt.Felt).Set(commitment)}, nil
			}
		}
		// Finalise works on the caller's objects; the node must not depend on them afterwards, and
		// what it completed in them is the reference
		if err, panicked, _ := lib.Try(func() error { return bc.Finalise(blk, su, classes, sign) }); err != nil {
			sig := "finalise-fails"
			if panicked {
				sig = "finalise-panics"
			}
			fail(sig, err.Error(), int(num))
			return nil, false
		}
		if signed {
			res.Hit("produce:finalise-signed")
			if len(blk.Signatures) != 1 || len(blk.Signatures[0]) != 2 {
				fail("finalise-did-not-sign", fmt.Sprintf("caller's block has signatures %v", blk.Signatures), int(num))
			}
		} else {
			res.Hit("produce:finalise-unsigned")
		}
		ref := lib.DeepCopy(blk).(*core.Block)
		_, comm, err := core.BlockHash(lib.DeepCopy(blk).(*core.Block), diff, g.Net, blk.SequencerAddress, trieBackend)
		if err != nil {
			res.Fatalf("produce: recompute commitments: %v", err)
		}
		rec := &Rec{Header: ref.Header, Txs: ref.Transactions, Rcs: ref.Receipts, SU: lib.DeepCopy(su).(*core.StateUpdate), Comm: comm,
			Classes: map[felt.Felt]*core.DeclaredClassDefinition{}, NewCls: newState}
		for chash, cls := range classes {
			rec.Classes[chash] = &core.DeclaredClassDefinition{At: num, Class: cls}
		}
		state.Apply(num, diff, classes)
		// scribble over the caller's objects: the stored block must be independent of them
		blk.Header.Timestamp, blk.Header.Signatures = 0, nil
		return rec, true
	}
	for i := 1; i <= blocks; i++ {
		rec, ok := finalise(uint64(i), recs[len(recs)-1].Header, i%3 != 0, i == blocks/2 || i == blocks)
		if !ok {
			return
		}
		recs = append(recs, rec)
	}
	check := func(store db.KeyValueStore, bc *blockchain.Blockchain, label, tag string) {
		for i, rec := range recs {
			c := mk(rec, label, tag)
			ReadBack(c, store, bc, rec, i == len(recs)-1)
			res.Case(fmt.Sprintf("produce/%d/%d%s", ci, i, label), true)
			for _, tx := range rec.Txs {
				res.Hit("produced-tx:" + reflect.TypeOf(tx).Elem().Name() + "/v" + versionOf(tx) + nonceTag(tx))
			}
		}
	}
	check(be.store, bc, "", "")
	ps := newPoisonStore(be.store)
	check(ps, lib.NodeOn(ps, g.Net, newState), "(buffers recycled)", "after-buffer-reuse-")

	// ---- revert the head and put a different block there, several times ---------------------------
	absStates := func() *lib.AbsState { return state }
	_ = absStates
	for round := 0; round < h.f.Scale(3, 12); round++ {
		old := recs[len(recs)-1]
		if err, panicked, _ := lib.Try(func() error { return bc.RevertHead() }); err != nil {
			sig := "revert-head-fails"
			if panicked {
				sig = "revert-head-panics"
			}
			fail(sig, err.Error(), len(recs)-1)
			return
		}
		recs = recs[:len(recs)-1]
		// the abstract state is only needed to draw well-formed diffs: rebuild it from the chain
		state = lib.NewAbsState()
		for i, rc := range recs {
			cl := map[felt.Felt]core.ClassDefinition{}
			for chash, d := range rc.Classes {
				cl[chash] = d.Class
			}
			state.Apply(uint64(i), rc.SU.StateDiff, cl)
		}
		c := mk(old, "(after revert)", "")
		StaleHashCheck(c, be.store, bc, old.Txs)
		res.Hit("produce:revert-head")
		rec, ok := finalise(uint64(len(recs)), recs[len(recs)-1].Header, round%2 == 0, true)
		if !ok {
			return
		}
		recs = append(recs, rec)
		c = mk(old, "(after revert and replacement)", "")
		StaleHashCheck(c, be.store, bc, old.Txs)
		StaleBlockHashCheck(c, be.store, bc, old.Header)
		ReadBack(mk(rec, "(replacement)", ""), be.store, bc, rec, true)
	}
	if be.reopen != nil {
		ns, err := be.reopen()
		if err != nil {
			res.Fatalf("reopen %s: %v", be.name, err)
			return
		}
		check(ns, lib.NodeOn(ns, g.Net, newState), "(reopened)", "")
	}
}
