//go:build verif

package main

import (
	"fmt"
	"reflect"
	"unicode/utf8"

	"github.com/NethermindEth/juno/core/felt"
	"verif/harness/lib"
)

// decoderMode probes the real decoder's DecOptions.UTF8 once: the model is parameterised by it.
func (h *H) decoderMode() string {
	_, err := unmarshalAs(reflect.TypeOf(""), []byte{0x61, 0xff})
	if err != nil {
		return "strict"
	}
	return "lenient"
}

// ---------------------------------------------------------------------------------------------
// Phase "typed": the model's type tables against reflection; the model's typed encoder against
// encoder.Marshal; the model's typed decoder against encoder.Unmarshal.
// ---------------------------------------------------------------------------------------------

func (h *H) phaseTyped() {
	res := h.res
	mode := h.decoderMode()
	res.Hit("decoder-utf8-mode:" + mode)
	for ti, st := range typedTables() {
		if h.want("typed", ti*100000) || h.only == nil {
			want := "ok " + Desc(st.t)
			got := h.ask("type " + st.name)
			res.Compared(1)
			if got != want {
				res.Mismatch(lib.Mismatch{Sig: "type-table/" + st.name, Input: st.name, Model: firstDiff(got, want), Impl: firstDiff(want, got)})
			}
		}
		per := h.f.Scale(80, 1500)
		for i := 0; i < per; i++ {
			ci := ti*100000 + i
			if !h.want("typed", ci) {
				continue
			}
			g := &Gen{R: h.rng("typed", ci), rawLimbs: true}
			// strings that are not valid UTF-8 included: the model must accept / reject them exactly as
			// the configured decoder does
			v := g.Value(st.t, Cfg(i, i%5 == 4))
			h.typedCase(st, ci, v, mode)
		}
	}
	// UTF-8 validity: the model's predicate against unicode/utf8 (all strings up to 2 bytes over an
	// edge alphabet, then random ones)
	if h.only == nil {
		alpha := []byte{0x00, 0x41, 0x7f, 0x80, 0xbf, 0xc0, 0xc1, 0xc2, 0xdf, 0xe0, 0xa0, 0x9f, 0xed, 0xef, 0xf0, 0x90, 0x8f, 0xf4, 0xf5, 0xff}
		var cases [][]byte
		cases = append(cases, []byte{})
		for _, a := range alpha {
			cases = append(cases, []byte{a})
			for _, b := range alpha {
				cases = append(cases, []byte{a, b})
			}
		}
		r := h.rng("utf8-pred", 0)
		for i := 0; i < h.f.Scale(2000, 50000); i++ {
			n := 1 + r.Intn(5)
			b := make([]byte, n)
			for j := range b {
				b[j] = lib.Pick(r, alpha)
			}
			cases = append(cases, b)
		}
		lines := make([]string, len(cases))
		for i, c := range cases {
			lines[i] = "utf8 " + hx(c)
		}
		if h.drv != nil {
			var outs []string
			var err error
			drv := h.drv
			if !lib.WithDeadline(askDeadline, func() { outs, err = drv.AskAll(lines) }) {
				err = fmt.Errorf("no answer within %s", askDeadline)
				h.hung = true
			}
			if err != nil {
				res.Fatalf("driver: %v", err)
				h.drv = nil
			} else {
				res.Compared(len(outs))
				res.HitN("utf8-predicate", len(outs))
				for i, o := range outs {
					if o != fmt.Sprint(utf8.Valid(cases[i])) {
						res.Mismatch(lib.Mismatch{Sig: "utf8-valid", Input: hx(cases[i]), Model: o, Impl: fmt.Sprint(utf8.Valid(cases[i]))})
					}
				}
			}
		}
	}
}

func firstDiff(a, b string) string {
	i := 0
	for i < len(a) && i < len(b) && a[i] == b[i] {
		i++
	}
	lo := max(0, i-60)
	hi := min(len(a), i+60)
	return fmt.Sprintf("@%d …%s…", i, a[lo:hi])
}

func (h *H) typedCase(st storable, ci int, v reflect.Value, mode string) {
	res := h.res
	enc, err := marshalAs(st.t, v)
	if err != nil {
		h.marshalFailed("typed", ci, st.name, v.Interface(), err)
		return
	}
	res.Case("typed/"+st.name+"/"+hx(enc), len(enc) > 8)
	res.Hit("typed:" + st.name)
	// model encoder on the rendered value (map entries in reverse canonical order)
	txt, err := RenderString(st.t, v, true)
	if err != nil {
		res.Fatalf("typed: render %s: %v", st.name, err)
		return
	}
	out := h.ask("enc " + st.name + " " + txt)
	res.Compared(1)
	if out != "ok "+hx(enc) {
		res.Mismatch(lib.Mismatch{Sig: "typed-encode/" + st.name, Input: clip(txt), Model: firstDiff(out, "ok "+hx(enc)), Impl: firstDiff("ok "+hx(enc), out)})
	}
	// model decoder against the real decoder
	back, err := unmarshalAs(st.t, enc)
	want := "err"
	if err == nil {
		s, rerr := RenderString(st.t, back, false)
		if rerr != nil {
			res.Fatalf("typed: render decoded %s: %v", st.name, rerr)
			return
		}
		want = "ok " + s
	}
	out = h.ask("decv " + st.name + " " + mode + " " + hx(enc))
	res.Compared(1)
	if out != want {
		res.Mismatch(lib.Mismatch{Sig: "typed-decode/" + st.name, Input: clip(hx(enc)), Model: firstDiff(out, want), Impl: firstDiff(want, out)})
	}
}

var _ = felt.Felt{}
