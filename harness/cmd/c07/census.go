//go:build verif

package main

// Accessor census: every way of reading a stored block record back must be exercised by the
// read-back oracle. The list of accessors is taken from the code, not from the harness:
//   * exported Get* functions of core/accessors.go (go/parser),
//   * the extract* partial decoders of core/block_transaction_serializer.go (go/parser),
//   * the methods of blockchain.Reader (reflection).
// Each must have a non-zero `accessor:` hit count in this run, or be listed below with the reason
// it is not C07's (state / event-filter accessors owned by other properties). An accessor added to
// juno later therefore turns the check red until it is read back here.

import (
	"go/ast"
	"go/parser"
	"go/token"
	"os"
	"path/filepath"
	"reflect"
	"sort"
	"strings"

	"github.com/NethermindEth/juno/blockchain"
)

// not block records / owned elsewhere
var censusExcluded = map[string]string{
	"core.GetContractClassHash":        "state (C03)",
	"core.GetContractNonce":            "state (C03)",
	"core.GetContractDeploymentHeight": "state (C03)",
	"core.GetAggregatedBloomFilter":    "event filters (C09)",
	"core.GetRunningEventFilter":       "event filters (C09)",
	"Reader.HeadState":                 "state (C03); classes are read through it in phase chain",
	"Reader.StateAtBlockHash":          "state (C03)",
	"Reader.StateAtBlockNumber":        "state (C03)",
	"Reader.EventFilter":               "event filters (C09)",
	"Reader.SubscribeL1Head":           "subscription, returns no stored data",
	"Reader.Network":                   "configuration",
	"Reader.GetReverseStateDiff":       "state (C03)",
}

// which read-back hit proves an extractor (partial decoder) was driven
var extractorAccessor = map[string]string{
	"extractTransaction":                "core.GetTransactionByBlockAndIndex",
	"extractReceipt":                    "core.GetReceiptByBlockAndIndex",
	"extractTransactionAndReceipt":      "core.GetTransactionAndReceiptByBlockAndIndex",
	"extractExecutionStatus":            "core.GetTransactionExecutionStatusByBlockAndIndex",
	"extractAllTransactionHashes":       "core.GetTransactionHashesByBlockNumber",
	"extractAllTransactions":            "core.GetTransactionsByBlockNumber",
	"extractAllReceipts":                "core.GetReceiptsByBlockNumber",
	"extractAllTransactionsAndReceipts": "core.GetTransactionsAndReceiptsByBlockNumber",
	"extractAllTransactionEvents":       "core.GetTransactionEventsByBlockNumber",
	"extractAll":                        "core.GetTransactionsByBlockNumberIter",
}

func parseFile(path string) (*ast.File, error) {
	return parser.ParseFile(token.NewFileSet(), path, nil, parser.SkipObjectResolution)
}

func (h *H) accessorCensus() {
	res := h.res
	repo := os.Getenv("VERIF_REPO")
	if repo == "" {
		repo = "/repo"
	}
	var names []string
	af, err := parseFile(filepath.Join(repo, "core", "accessors.go"))
	if err != nil {
		res.Fatalf("accessor census: cannot parse core/accessors.go: %v", err)
		return
	}
	for _, d := range af.Decls {
		if fd, ok := d.(*ast.FuncDecl); ok && fd.Recv == nil && strings.HasPrefix(fd.Name.Name, "Get") {
			names = append(names, "core."+fd.Name.Name)
		}
	}
	sf, err := parseFile(filepath.Join(repo, "core", "block_transaction_serializer.go"))
	if err != nil {
		res.Fatalf("accessor census: cannot parse core/block_transaction_serializer.go: %v", err)
		return
	}
	nExtract := 0
	for _, d := range sf.Decls {
		gd, ok := d.(*ast.GenDecl)
		if !ok || gd.Tok != token.TYPE {
			continue
		}
		for _, sp := range gd.Specs {
			ts := sp.(*ast.TypeSpec)
			if _, isStruct := ts.Type.(*ast.StructType); !isStruct || !strings.HasPrefix(ts.Name.Name, "extract") {
				continue
			}
			nExtract++
			acc, known := extractorAccessor[ts.Name.Name]
			if !known {
				res.Fatalf("accessor census: partial decoder %s of core/block_transaction_serializer.go is not read back by the harness", ts.Name.Name)
				continue
			}
			if res.Distribution["accessor:"+acc] == 0 {
				res.Fatalf("accessor census: partial decoder %s (through %s) was never driven in this run", ts.Name.Name, acc)
			}
			res.Hit("accessor-census:extractor")
		}
	}
	rt := reflect.TypeOf((*blockchain.Reader)(nil)).Elem()
	for i := 0; i < rt.NumMethod(); i++ {
		names = append(names, "Reader."+rt.Method(i).Name)
	}
	sort.Strings(names)
	for _, n := range names {
		if res.Distribution["accessor:"+n] > 0 {
			res.Hit("accessor-census:read-back")
			continue
		}
		if why, ok := censusExcluded[n]; ok && why != "" {
			res.Hit("accessor-census:excluded")
			continue
		}
		res.Fatalf("accessor census: %s returns stored data and is not read back by the harness (accessor:%s has no hits)", n, n)
	}
	if nExtract < 10 || len(names) < 40 {
		res.Fatalf("accessor census: found only %d extractors / %d accessors in the source: the census itself is broken", nExtract, len(names))
	}
}
