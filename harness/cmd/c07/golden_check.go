//go:build verif

package main

import (
	"encoding/hex"
	"reflect"
	"strings"

	"verif/harness/lib"
)

type goldenRecord struct {
	name, hex, render, shape string
}

// ---------------------------------------------------------------------------------------------
// Phase "golden": records encoded by an earlier version of the code (golden.go, generated once at
// the pinned commit) must still decode to the same values — a renumbered registry tag, a renamed
// or retagged field, a changed felt / bloom / big.Int codec breaks every existing database without
// breaking any encode-then-decode round trip of the new code. The same values must also still
// ENCODE to the same bytes (otherwise nodes of two versions disagree on stored bytes; reported as a
// mismatch, not a violation).
// ---------------------------------------------------------------------------------------------

func (h *H) phaseGolden() {
	if h.only != nil && h.only.Phase != "golden" {
		return
	}
	res := h.res
	typeOf := func(name string) reflect.Type {
		base, _, _ := strings.Cut(name, "/")
		for _, st := range typedTables() {
			if st.name == base {
				return st.t
			}
		}
		return nil
	}
	fresh := map[string]string{}
	for _, c := range goldenCases() {
		if b, err := marshalAs(c.t, c.v); err == nil {
			fresh[c.name] = hx(b)
		}
	}
	for i, gr := range golden {
		t := typeOf(gr.name)
		if t == nil {
			continue
		}
		if descHash(t) != gr.shape {
			// the record type itself changed since the corpus was generated (field added, renamed,
			// retyped): that is reported by the type-table tie; comparing renderings would only
			// restate it
			// … but the corpus no longer covers that record kind: a lost tie is a harness failure
			// (regenerate golden.go with C07_DUMP_GOLDEN=1 once the type change is accepted)
			res.Hit("golden:skipped-type-changed:" + gr.name)
			// … unless the change makes the OLD record unreadable or read as ANOTHER concrete type
			// (a renumbered registry tag): that is a failing input, not just a stale corpus
			if b, herr := hex.DecodeString(gr.hex); herr == nil {
				back, err := unmarshalAs(t, b)
				_, want, isIface := strings.Cut(gr.name, "/")
				switch {
				case err != nil:
					res.Violate(lib.Violation{Sig: "record-of-earlier-version-unreadable-" + gr.name,
						What:   "a " + gr.name + " record written by the pinned version no longer decodes: " + err.Error(),
						Replay: h.spec("golden", i, map[string]any{"type": gr.name, "hex": clip(gr.hex)})})
				case isIface && back.Kind() == reflect.Interface && !back.IsNil() && back.Elem().Type().Elem().Name() != want:
					res.Violate(lib.Violation{Sig: "record-of-earlier-version-reads-as-another-type-" + gr.name,
						What:   "a " + gr.name + " record written by the pinned version now decodes as " + back.Elem().Type().Elem().Name(),
						Replay: h.spec("golden", i, map[string]any{"type": gr.name, "hex": clip(gr.hex)})})
				}
			}
			res.Fatalf("golden corpus is stale for %s: the record type changed since the corpus was generated", gr.name)
			continue
		}
		res.Hit("golden:" + gr.name)
		res.Case("golden/"+gr.name, true)
		b, _ := hex.DecodeString(gr.hex)
		back, err := unmarshalAs(t, b)
		if err != nil {
			res.Violate(lib.Violation{Sig: "record-of-earlier-version-unreadable-" + gr.name,
				What:   "a " + gr.name + " record written by the pinned version no longer decodes: " + err.Error(),
				Replay: h.spec("golden", i, map[string]any{"type": gr.name, "hex": clip(gr.hex)})})
			continue
		}
		s, err := RenderString(t, back, false)
		if err != nil || s != gr.render {
			res.Violate(lib.Violation{Sig: "record-of-earlier-version-reads-differently-" + gr.name,
				What:   "a " + gr.name + " record written by the pinned version decodes to a different value: " + firstDiff(s, gr.render) + " vs " + firstDiff(gr.render, s),
				Replay: h.spec("golden", i, map[string]any{"type": gr.name, "hex": clip(gr.hex)})})
			continue
		}
		res.Compared(1)
		if f, ok := fresh[gr.name]; ok && f != gr.hex {
			res.Mismatch(lib.Mismatch{Sig: "golden-bytes-changed/" + gr.name, Input: gr.name, Model: firstDiff(gr.hex, f), Impl: firstDiff(f, gr.hex)})
		}
	}
}
