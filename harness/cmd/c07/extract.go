//go:build verif

package main

// Round 4: the extractors of core/block_transaction_serializer.go and the `uint64 → int` index
// conversion of the by-index accessors against their transcription (ModelChain.lean), on the
// stored bytes of one block, through the REAL accessors (the blob is put under its key in a
// memory database).

import (
	"errors"
	"fmt"
	"reflect"
	"regexp"
	"strings"

	"github.com/NethermindEth/juno/core"
	"github.com/NethermindEth/juno/core/felt"
	"github.com/NethermindEth/juno/db"
	"github.com/NethermindEth/juno/db/memory"
	"github.com/NethermindEth/juno/encoder"
	"verif/harness/lib"
)

// u64Indexes: indexes straddling the block size and every wrap boundary of the conversion chain
// uint64 → int (→ any narrower type a refactoring might introduce).
func u64Indexes(n int, r *lib.RNG) []uint64 {
	us := []uint64{0, uint64(n), uint64(n) + 1, 1<<8 - 1, 1 << 8, 1 << 16, 1<<31 - 1, 1 << 31, 1<<32 - 1, 1 << 32, 1<<63 - 1, 1 << 63, 1<<64 - 1}
	if n > 0 {
		k := uint64(r.Intn(n))
		us = append(us, uint64(n)-1, k, 1<<8+k, 1<<16+k, 1<<32+k, 1<<63+k, 1<<64-1-k)
	}
	return us
}

func resText(err error, panicked bool, ok func() string) string {
	switch {
	case panicked:
		return "panic"
	case err == nil:
		return "ok " + ok()
	case errors.Is(err, db.ErrKeyNotFound):
		return "notfound"
	default:
		return "err"
	}
}

var failIndexRe = regexp.MustCompile(`(?:in transaction|decoding element) (\d+)`)

func (h *H) blobExtractors(ci int, g *Gen, stored []byte, txs []core.Transaction, rcs []*core.TransactionReceipt, items [][]byte) {
	res := h.res
	mode := h.decoderMode()
	d := memory.New()
	if err := d.Put(blobKey(9), stored); err != nil {
		res.Fatalf("extract: put: %v", err)
		return
	}
	cmp := func(name, req, impl string) {
		out := strings.TrimRight(h.ask(req), " ")
		res.Compared(1)
		res.Hit("extract:" + name)
		if out != impl {
			res.Mismatch(lib.Mismatch{Sig: "extract/" + name, Input: map[string]any{"phase": "blob", "case": ci, "txs": len(txs), "rcs": len(rcs), "request": clip(req)},
				Model: firstDiff(out, impl), Impl: firstDiff(impl, out)})
		}
	}
	marshalTx := func(tx core.Transaction) string {
		b, _ := marshalAs(tTxIface, reflect.ValueOf(tx))
		return hx(b)
	}
	marshalRc := func(rc *core.TransactionReceipt) string {
		b, _ := encoder.Marshal(rc)
		return hx(b)
	}
	viol := func(sig, what string, u uint64) {
		res.Violate(lib.Violation{Sig: sig, What: what, Replay: h.spec("blob", ci, map[string]any{"stored_block_transactions": hx(stored), "index": fmt.Sprint(u), "txs": len(txs), "rcs": len(rcs)})})
	}
	for _, u := range u64Indexes(max(len(txs), len(rcs)), g.R) {
		var tx core.Transaction
		var err error
		perr, panicked, _ := lib.Try(func() error { tx, err = core.GetTransactionByBlockAndIndex(d, 9, u); return nil })
		_ = perr
		cmp("GetTransactionByBlockAndIndex", fmt.Sprintf("txat %s %d", hx(stored), u), resText(err, panicked, func() string { return marshalTx(tx) }))
		// the property's oracle: an index that holds no transaction is ErrKeyNotFound — never an item
		if u >= uint64(len(txs)) && (panicked || !errors.Is(err, db.ErrKeyNotFound)) {
			viol("readback-core.GetTransactionByBlockAndIndex-out-of-range", fmt.Sprintf("index %d of a block with %d transactions returned %v / %v instead of ErrKeyNotFound", u, len(txs), tx, err), u)
		}
		var rc *core.TransactionReceipt
		_, panicked, _ = lib.Try(func() error { rc, err = core.GetReceiptByBlockAndIndex(d, 9, u); return nil })
		cmp("GetReceiptByBlockAndIndex", fmt.Sprintf("rcat %s %d", hx(stored), u), resText(err, panicked, func() string { return marshalRc(rc) }))
		if u >= uint64(len(rcs)) && (panicked || !errors.Is(err, db.ErrKeyNotFound)) {
			viol("readback-core.GetReceiptByBlockAndIndex-out-of-range", fmt.Sprintf("index %d of a block with %d receipts returned %v instead of ErrKeyNotFound", u, len(rcs), err), u)
		}
		var tx2 core.Transaction
		var rc2 *core.TransactionReceipt
		_, panicked, _ = lib.Try(func() error { tx2, rc2, err = core.GetTransactionAndReceiptByBlockAndIndex(d, 9, u); return nil })
		cmp("GetTransactionAndReceiptByBlockAndIndex", fmt.Sprintf("pairat %s %d", hx(stored), u), resText(err, panicked, func() string { return marshalTx(tx2) + " " + marshalRc(rc2) }))
		if (u >= uint64(len(txs)) || u >= uint64(len(rcs))) && (panicked || !errors.Is(err, db.ErrKeyNotFound)) {
			viol("readback-core.GetTransactionAndReceiptByBlockAndIndex-out-of-range", fmt.Sprintf("index %d of a block with %d transactions and %d receipts returned %v instead of ErrKeyNotFound", u, len(txs), len(rcs), err), u)
		} else if err == nil && u < uint64(len(txs)) && u < uint64(len(rcs)) {
			if dd := Diff(core.TransactionAndReceipt{Transaction: txs[u], Receipt: rcs[u]}, core.TransactionAndReceipt{Transaction: tx2, Receipt: rc2}); dd != "" {
				viol("readback-core.GetTransactionAndReceiptByBlockAndIndex-differs", "differs from what was stored at "+dd, u)
			}
		}
		var st core.TransactionExecutionStatus
		_, panicked, _ = lib.Try(func() error { st, err = core.GetTransactionExecutionStatusByBlockAndIndex(d, 9, u); return nil })
		cmp("GetTransactionExecutionStatusByBlockAndIndex", fmt.Sprintf("statusat %s %s %d", mode, hx(stored), u),
			resText(err, panicked, func() string { return render(reflect.TypeOf(false), st.Reverted) + " " + render(reflect.TypeOf(""), st.RevertReason) }))
		if u >= uint64(len(rcs)) && (panicked || !errors.Is(err, db.ErrKeyNotFound)) {
			viol("readback-core.GetTransactionExecutionStatusByBlockAndIndex-out-of-range", fmt.Sprintf("index %d of a block with %d receipts returned %v instead of ErrKeyNotFound", u, len(rcs), err), u)
		}
	}
	// whole-block extractors
	{
		var ts []core.Transaction
		var rs []*core.TransactionReceipt
		var err error
		_, panicked, _ := lib.Try(func() error { ts, rs, err = core.GetTransactionsAndReceiptsByBlockNumber(d, 9); return nil })
		cmp("GetTransactionsAndReceiptsByBlockNumber", "allpair "+hx(stored), resText(err, panicked, func() string {
			parts := []string{fmt.Sprint(len(ts)), fmt.Sprint(len(rs))}
			for _, t := range ts {
				parts = append(parts, marshalTx(t))
			}
			for _, r := range rs {
				parts = append(parts, marshalRc(r))
			}
			return strings.Join(parts, " ")
		}))
	}
	h.blobWholeProjections("blob", ci, d, stored, mode)
}

// blobWholeProjections: extractAllTransactionHashes / extractAllTransactionEvents on one stored blob
// (under key 9 of d) against the model, including WHICH element a failure is reported for.
func (h *H) blobWholeProjections(phase string, ci int, d db.KeyValueReader, stored []byte, mode string) {
	res := h.res
	cmp := func(name, req, impl string) {
		out := strings.TrimRight(h.ask(req), " ")
		res.Compared(1)
		res.Hit("extract:" + name)
		if out != impl {
			res.Mismatch(lib.Mismatch{Sig: "extract/" + name, Input: map[string]any{"phase": phase, "case": ci, "request": clip(req)},
				Model: firstDiff(out, impl), Impl: firstDiff(impl, out)})
		}
	}
	var hashes []felt.Felt
	var err error
	_, panicked, _ := lib.Try(func() error { hashes, err = core.GetTransactionHashesByBlockNumber(d, 9); return nil })
	impl := resText(err, panicked, func() string {
		parts := []string{fmt.Sprint(len(hashes))}
		for _, x := range hashes {
			parts = append(parts, render(tFelt, x))
		}
		return strings.Join(parts, " ")
	})
	if impl == "err" {
		if m := failIndexRe.FindStringSubmatch(err.Error()); m != nil {
			impl = "err " + m[1]
			res.Hit("extract:GetTransactionHashesByBlockNumber/failing-element-named")
		}
	}
	cmp("GetTransactionHashesByBlockNumber", "hashes "+mode+" "+hx(stored), strings.TrimRight(impl, " "))
	var evs []core.TransactionEvents
	_, panicked, _ = lib.Try(func() error { evs, err = core.GetTransactionEventsByBlockNumber(d, 9); return nil })
	impl = resText(err, panicked, func() string {
		parts := []string{fmt.Sprint(len(evs))}
		for _, e := range evs {
			parts = append(parts, render(reflect.TypeOf([]*core.Event{}), e.Events), render(tFeltPtr, e.TransactionHash))
		}
		return strings.Join(parts, " ")
	})
	cmp("GetTransactionEventsByBlockNumber", "events "+mode+" "+hx(stored), strings.TrimRight(impl, " "))
}
