//go:build verif

package main

// Round 4, phase "rewriters": everything stored is returned unchanged by every accessor ALSO after
// every code path that rewrites or rebuilds the block-record buckets. The first writer
// (Store / Finalise / RevertHead) is covered by phases chain / produce / store; here a valid chain is
// stored and then, on copies of the database, each of the other writers runs:
//
//   history-pruner migration   prunes below a cutoff, WIPES the three reverse-lookup buckets and its
//                              restorer rebuilds them (a second copy of the index-writing loop)
//   state-diff-length migration rewrites every block's commitments
//   l1-handler-mapping migration (deprecated) rebuilds the L1 message index from the per-tx layout
//   block-transactions migration rewrites per-transaction entries (buckets 10/11) into the combined blob
//   pruner.PruneBlockDataUpto   byte-range deletes between ENCODED keys (8-byte BE, canonical CBOR)
//
// After each, every retained record is read back through every accessor (ReadBack), what must be
// gone is checked to be gone, and the block-record buckets are compared key by key with the model
// (the model runs the history-pruner migration and the range deletes itself; the other two must
// leave exactly the store the plain writes produce). Blocks carry L1 handlers at the first, a
// middle and the last position.

import (
	"context"
	"errors"
	"fmt"
	"strings"

	"github.com/NethermindEth/juno/blockchain"
	"github.com/NethermindEth/juno/core"
	"github.com/NethermindEth/juno/core/felt"
	"github.com/NethermindEth/juno/db"
	"github.com/NethermindEth/juno/db/memory"
	"github.com/NethermindEth/juno/migration"
	"github.com/NethermindEth/juno/migration/blocktransactions"
	"github.com/NethermindEth/juno/migration/blocktransactions/txlayout"
	"github.com/NethermindEth/juno/migration/deprecated/l1handlermapping"
	"github.com/NethermindEth/juno/migration/historyprunner"
	"github.com/NethermindEth/juno/migration/statedifflength"
	"github.com/NethermindEth/juno/pruner"
	"github.com/NethermindEth/juno/utils/log"
	"verif/harness/lib"
)

func (h *H) phaseRewriters(shard, shards int) {
	type cfg struct {
		srcNew  bool
		version string
	}
	cfgs := []cfg{{false, "0.13.2"}, {true, "0.14.0"}}
	for ci, c := range cfgs {
		if ci%shards != shard || !h.want("rewriters", ci) {
			continue
		}
		h.rewritersCase(ci, c.srcNew, c.version)
	}
}

// l1Positions moves L1 handlers to the first, a middle and the last position of the block.
func l1Positions(g *lib.ChainGen, version string, round int) ([]core.Transaction, []*core.TransactionReceipt) {
	txs, rcs := allKindsTxs(g, version, 7)
	var l1s, others []int
	for i, tx := range txs {
		if _, ok := tx.(*core.L1HandlerTransaction); ok {
			l1s = append(l1s, i)
		} else {
			others = append(others, i)
		}
	}
	if len(l1s) == 0 || len(others) < 2 {
		return txs, rcs
	}
	// order: [L1] others… [L1] others… [L1]; with fewer handlers the positions rotate per round
	var order []int
	switch {
	case len(l1s) >= 3:
		mid := len(others) / 2
		order = append(order, l1s[0])
		order = append(order, others[:mid]...)
		order = append(order, l1s[1])
		order = append(order, others[mid:]...)
		order = append(order, l1s[2:]...)
	default:
		pos := []int{0, len(others) / 2, len(others)}[round%3]
		order = append(order, others[:pos]...)
		order = append(order, l1s...)
		order = append(order, others[pos:]...)
	}
	nt := make([]core.Transaction, len(order))
	nr := make([]*core.TransactionReceipt, len(order))
	for k, i := range order {
		nt[k], nr[k] = txs[i], rcs[i]
	}
	return nt, nr
}

func l1PositionTags(txs []core.Transaction) []string {
	var out []string
	for i, tx := range txs {
		if _, ok := tx.(*core.L1HandlerTransaction); !ok {
			continue
		}
		switch {
		case i == 0:
			out = append(out, "first")
		case i == len(txs)-1:
			out = append(out, "last")
		default:
			out = append(out, "middle")
		}
	}
	return out
}

func runMigration(m migration.Migration, d db.KeyValueStore) error {
	var state []byte
	for run := 0; run < 20; run++ {
		if err := m.Before(state); err != nil {
			return fmt.Errorf("before: %w", err)
		}
		next, err := m.Migrate(context.Background(), d, lib.TestNetwork(), log.NewNopZapLogger())
		if err != nil {
			return err
		}
		if next == nil {
			return nil
		}
		state = next
	}
	return errors.New("migration did not finish after 20 runs")
}

func (h *H) rewritersCase(ci int, srcNew bool, version string) {
	res := h.res
	r := h.rng("rewriters", ci)
	opt := lib.DefaultGenOptions()
	opt.MaxTxs = 4
	opt.Versions = []string{version}
	g := lib.NewChainGen(r, srcNew, opt)
	base := memory.New()
	bc := lib.NodeOn(base, g.Net, false)
	mode := h.decoderMode()
	blocks := h.f.Scale(30, 120)
	var recs []*Rec
	var sbs []*storedBytes
	for i := 0; i < blocks; i++ {
		var spec *lib.BlockSpec
		switch {
		case i%3 == 1:
			txs, rcs := l1Positions(g, version, i/3)
			spec = &lib.BlockSpec{Txs: txs, Rcs: rcs}
		case i%7 == 5:
			spec = &lib.BlockSpec{NoTxs: true}
		}
		b, err := g.Next(spec)
		if err != nil {
			res.Fatalf("chain generator: %v", err)
			return
		}
		cl := b.Clone()
		comm, err := bc.SanityCheckNewHeight(cl.Block, cl.SU, cl.Classes)
		if err == nil {
			err = bc.Store(cl.Block, comm, cl.SU, cl.Classes)
		}
		if err != nil {
			res.Violate(lib.Violation{Sig: "chain-store-fails", What: fmt.Sprintf("storing a valid block: %v", err), Replay: h.spec("rewriters", ci, nil)})
			return
		}
		rec := &Rec{Header: b.Block.Header, Txs: b.Block.Transactions, Rcs: b.Block.Receipts, SU: b.SU, Comm: lib.DeepCopy(comm).(*core.BlockCommitments)}
		sb, err := encodeRec(rec)
		if err != nil {
			res.Fatalf("rewriters: encode: %v", err)
			return
		}
		recs, sbs = append(recs, rec), append(sbs, sb)
		for _, p := range l1PositionTags(rec.Txs) {
			res.Hit("rewriters:l1-handler-position/" + p)
		}
	}
	height := uint64(len(recs) - 1)
	var allL1 []string
	for _, rec := range recs {
		allL1 = append(allL1, l1Pairs(rec.Txs)...)
	}
	// the model's store after the plain writes (used by every sub-case)
	loadModel := func(t *storeTie) bool {
		if out := h.ask("s.reset"); out != "ok" {
			res.Fatalf("store tie: s.reset answered %q", out)
			return false
		}
		for i, rec := range recs {
			t.modelWrite(rec, sbs[i])
		}
		return true
	}
	mkc := func(rec *Rec, tag, what string) *Checker {
		return &Checker{res: res, backend: "memory(" + what + ")", sigTag: tag, replay: func(accessor, detail string) any {
			d := recSummary(rec)
			d["accessor"], d["detail"], d["after"] = accessor, detail, what
			d["l1_handler_positions"] = l1PositionTags(rec.Txs)
			return h.spec("rewriters", ci, d)
		}}
	}
	gone := func(c *Checker, d db.KeyValueReader, bcx *blockchain.Blockchain, rec *Rec, hashMayStay bool) {
		StaleHashCheck(c, d, bcx, rec.Txs)
		if !hashMayStay {
			StaleBlockHashCheck(c, d, bcx, rec.Header)
		}
	}

	// ---- (0) sanity: the copy reads back and equals the model ------------------------------------
	{
		t := &storeTie{h: h, phase: "rewriters", ci: ci, mode: mode}
		t.log("%d blocks stored", len(recs))
		if !loadModel(t) || !t.compareStore(base, "chain-stored") {
			return
		}
	}

	// ---- (a) history-pruner migration ---------------------------------------------------------------
	for _, retained := range []uint64{3, uint64(len(recs)) / 2} {
		d := base.Copy()
		l1Head := height - 2
		if err := core.WriteL1Head(d, &core.L1Head{BlockNumber: l1Head, BlockHash: recs[l1Head].Header.Hash, StateRoot: recs[l1Head].Header.GlobalStateRoot}); err != nil {
			res.Fatalf("rewriters: WriteL1Head: %v", err)
			return
		}
		floor := l1Head - retained
		what := fmt.Sprintf("history-pruner migration, retained %d, cutoff %d, head %d", retained, floor, height)
		t := &storeTie{h: h, phase: "rewriters", ci: ci, mode: mode}
		t.log("%d blocks stored; %s", len(recs), what)
		err, panicked, _ := lib.Try(func() error { return runMigration(historyprunner.New(retained, 0), d) })
		if err != nil {
			sig := "history-pruner-migration-fails"
			if panicked {
				sig = "history-pruner-migration-panics"
			}
			res.Violate(lib.Violation{Sig: sig, What: what + ": " + err.Error(), Replay: h.spec("rewriters", ci, map[string]any{"retained": retained})})
			continue
		}
		res.Hit("rewriters:history-pruner-migration")
		res.Case(fmt.Sprintf("rewriters/%d/hp/%d", ci, retained), true)
		bcx := blockchain.New(d, g.Net)
		for i, rec := range recs {
			if uint64(i) >= floor {
				ReadBack(mkc(rec, "after-history-pruner-migration-", what), d, bcx, rec, uint64(i) == height)
			} else {
				gone(mkc(rec, "after-history-pruner-migration-", what), d, bcx, rec, uint64(i) == floor-1)
			}
		}
		// the block just below the cutoff keeps its header (BlockHashLag window) and gets its
		// hash -> number entry re-seeded: by hash it is that header or not found, never another block's
		if below := recs[floor-1]; true {
			c := mkc(below, "after-history-pruner-migration-", what)
			hd, err := core.GetBlockHeaderByHash(d, below.Header.Hash)
			if !errors.Is(err, db.ErrKeyNotFound) {
				c.eq("core.GetBlockHeaderByHash", err, hd, below.Header)
				num, err := bcx.BlockNumberByHash(below.Header.Hash)
				c.eq("Reader.BlockNumberByHash", err, num, below.Header.Number)
			}
		}
		if loadModel(t) {
			req := fmt.Sprintf("s.hpmigrate %s %d %d %d %s", mode, floor, height, len(allL1)/2, strings.Join(allL1, " "))
			out := h.ask(strings.TrimRight(req, " "))
			res.Compared(1)
			if out != "ok" {
				t.mismatch("store-hpmigrate-result", out, "ok")
			}
			t.compareStore(d, "history-pruner-migration")
			for _, i := range []uint64{floor - 1, floor, height} {
				t.compareReaders(d, bcx, recs[i], "after-history-pruner-migration")
			}
		}
	}

	// ---- (b) state-diff-length migration: commitments written before the field existed ------------
	{
		d := base.Copy()
		what := "state-diff-length migration"
		for _, rec := range recs {
			old := *rec.Comm
			old.StateDiffLength = 0
			if err := core.WriteBlockCommitment(d, rec.Header.Number, &old); err != nil {
				res.Fatalf("rewriters: WriteBlockCommitment: %v", err)
				return
			}
		}
		err, panicked, _ := lib.Try(func() error { return runMigration(&statedifflength.Migrator{}, d) })
		if err != nil {
			sig := "state-diff-length-migration-fails"
			if panicked {
				sig = "state-diff-length-migration-panics"
			}
			res.Violate(lib.Violation{Sig: sig, What: err.Error(), Replay: h.spec("rewriters", ci, nil)})
		} else {
			res.Hit("rewriters:state-diff-length-migration")
			res.Case(fmt.Sprintf("rewriters/%d/sdl", ci), true)
			bcx := blockchain.New(d, g.Net)
			for i, rec := range recs {
				want := *rec
				cm := *rec.Comm
				cm.StateDiffLength = rec.SU.StateDiff.Length()
				want.Comm = &cm
				ReadBack(mkc(&want, "after-state-diff-length-migration-", what), d, bcx, &want, uint64(i) == height)
			}
			// every other bucket untouched, commitments = the plain writes when the chain's own
			// commitments already carry the length
			t := &storeTie{h: h, phase: "rewriters", ci: ci, mode: mode}
			t.log("%d blocks stored; commitments rewritten without StateDiffLength; %s", len(recs), what)
			same := true
			for _, rec := range recs {
				same = same && rec.Comm.StateDiffLength == rec.SU.StateDiff.Length()
			}
			if same && loadModel(t) {
				t.compareStore(d, "state-diff-length-migration")
			}
		}
	}

	// ---- (c) per-transaction layout -> l1-handler-mapping + block-transactions migrations -------
	{
		d := base.Copy()
		what := "l1-handler-mapping and block-transactions migrations from the per-transaction layout"
		err := d.Update(func(w db.IndexedBatch) error {
			for _, rec := range recs {
				if err := core.BlockTransactionsBucket.Delete(w, rec.Header.Number); err != nil {
					return err
				}
				if err := txlayout.TransactionLayoutPerTx.WriteTransactionsAndReceipts(w, rec.Header.Number, rec.Txs, rec.Rcs); err != nil {
					return err
				}
				for _, tx := range rec.Txs {
					if l1, ok := tx.(*core.L1HandlerTransaction); ok {
						if err := core.DeleteL1HandlerTxnHashByMsgHash(w, l1.MessageHash()); err != nil {
							return err
						}
					}
				}
			}
			return nil
		})
		if err != nil {
			res.Fatalf("rewriters: writing the per-transaction layout: %v", err)
			return
		}
		err, panicked, _ := lib.Try(func() error {
			if e := runMigration(&l1handlermapping.Migrator{}, d); e != nil {
				return fmt.Errorf("l1handlermapping: %w", e)
			}
			return runMigration(blocktransactions.Migrator{}, d)
		})
		if err != nil {
			sig := "block-transactions-migration-fails"
			if panicked {
				sig = "block-transactions-migration-panics"
			}
			res.Violate(lib.Violation{Sig: sig, What: err.Error(), Replay: h.spec("rewriters", ci, nil)})
		} else {
			res.Hit("rewriters:block-transactions-migration")
			res.Case(fmt.Sprintf("rewriters/%d/bt", ci), true)
			bcx := blockchain.New(d, g.Net)
			for i, rec := range recs {
				ReadBack(mkc(rec, "after-block-transactions-migration-", what), d, bcx, rec, uint64(i) == height)
			}
			t := &storeTie{h: h, phase: "rewriters", ci: ci, mode: mode}
			t.log("%d blocks stored; rewritten into the per-transaction layout; %s", len(recs), what)
			if loadModel(t) {
				t.compareStore(d, "block-transactions-migration")
			}
			// the old buckets are gone
			for _, b := range []db.Bucket{db.TransactionsByBlockNumberAndIndex, db.ReceiptsByBlockNumberAndIndex} {
				it, err := d.NewIterator(b.Key(), true)
				if err == nil {
					if it.First() {
						res.Violate(lib.Violation{Sig: "block-transactions-migration-leaves-old-entries", What: fmt.Sprintf("bucket %d still has entries", b),
							Replay: h.spec("rewriters", ci, nil)})
					}
					it.Close()
				}
			}
		}
	}

	// ---- (d) PruneBlockDataUpto at bounds around the key-width boundaries ---------------------------
	{
		t := &storeTie{h: h, phase: "rewriters", ci: ci, mode: mode}
		t.log("%d blocks stored", len(recs))
		if !loadModel(t) {
			return
		}
		d := base.Copy()
		bcx := blockchain.New(d, g.Net)
		done := uint64(0)
		for _, end := range []uint64{0, 1, 9, 10, 11, 12, 23, 24, 25, height, height + 1, height + 300} {
			if end < done {
				continue
			}
			done = end
			if err := pruner.PruneBlockDataUpto(d, end); err != nil {
				res.Violate(lib.Violation{Sig: "prune-block-data-fails", What: err.Error(), Replay: h.spec("rewriters", ci, map[string]any{"end": end})})
				break
			}
			t.log("PruneBlockDataUpto(%d)", end)
			if out := h.ask(fmt.Sprintf("s.prune %d", end)); out != "ok" {
				res.Fatalf("s.prune answered %q", out)
				break
			}
			res.Hit("rewriters:prune-block-data")
			// oracle: blocks at and above the bound are untouched
			for i, rec := range recs {
				if uint64(i) >= end && (uint64(i) == end || uint64(i) == height || uint64(i) == end+1) {
					ReadBack(mkc(rec, "after-prune-block-data-", fmt.Sprintf("PruneBlockDataUpto(%d)", end)), d, bcx, rec, uint64(i) == height)
				}
			}
			if !t.compareStore(d, "prune-block-data") {
				break
			}
		}
	}
}

var _ = felt.Zero
