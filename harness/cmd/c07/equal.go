//go:build verif

package main

import (
	"fmt"
	"math/big"
	"reflect"
	"strings"

	"github.com/bits-and-blooms/bloom/v3"
)

// ---------------------------------------------------------------------------------------------
// Equality of a stored value and a value read back. This is the definition the oracle uses:
//
//   * exact, field by field, including nil-vs-empty for slices and maps and nil-vs-present for
//     pointers (transaction / receipt / state-diff hashes and the RPC encodings depend on them);
//   * a field declared `cbor:",omitempty"` is compared with its NORMAL FORM: stored empty (nil or
//     len 0) must read back as nil, anything else exactly. This is what the codec is proved to do
//     (Props.struct_roundtrip_omitempty, omitempty_empty_slice_comes_back_nil); which fields are
//     omitempty is pinned by the type-table tie (InvokeTransaction.ProofFacts and the two index
//     lists of the blob header), so putting omitempty on another field is reported there. The
//     property text asks for the nil-vs-empty distinctions "the hashes depend on": the transaction
//     hash only looks at len(ProofFacts) > 0 and rpc/v10 turns nil into [] again on output;
//   * bloom filters by (*BloomFilter).Equal, big integers by Cmp (internal slack is not content).
// ---------------------------------------------------------------------------------------------

// Diff returns "" when stored and got are equal, otherwise the path and kind of the first difference.
func Diff(stored, got any) string {
	return diffValue(reflect.ValueOf(stored), reflect.ValueOf(got), "", false)
}

func diffValue(a, b reflect.Value, path string, omitempty bool) string {
	if !a.IsValid() || !b.IsValid() {
		if a.IsValid() != b.IsValid() {
			return path + ": one side is an untyped nil"
		}
		return ""
	}
	if a.Type() != b.Type() {
		return fmt.Sprintf("%s: type %s vs %s", path, a.Type(), b.Type())
	}
	switch a.Type() {
	case tBloomPtr:
		x, y := a.Interface().(*bloom.BloomFilter), b.Interface().(*bloom.BloomFilter)
		if (x == nil) != (y == nil) {
			return fmt.Sprintf("%s: bloom nil=%v vs nil=%v", path, x == nil, y == nil)
		}
		if x != nil && !x.Equal(y) {
			return path + ": bloom filters differ"
		}
		return ""
	case tBigPtr:
		x, y := a.Interface().(*big.Int), b.Interface().(*big.Int)
		if (x == nil) != (y == nil) {
			return fmt.Sprintf("%s: big.Int nil=%v vs nil=%v", path, x == nil, y == nil)
		}
		if x != nil && x.Cmp(y) != 0 {
			return fmt.Sprintf("%s: big.Int %s vs %s", path, x, y)
		}
		return ""
	}
	switch a.Kind() {
	case reflect.Pointer, reflect.Interface:
		if a.IsNil() || b.IsNil() {
			if a.IsNil() != b.IsNil() {
				return fmt.Sprintf("%s: nil=%v vs nil=%v", path, a.IsNil(), b.IsNil())
			}
			return ""
		}
		return diffValue(a.Elem(), b.Elem(), path, false)
	case reflect.Slice:
		if omitempty && a.Len() == 0 {
			// normal form of an `omitempty` field (theorem struct_roundtrip_omitempty): an empty
			// value is not written, so it reads back as the zero value — nil, exactly
			if !b.IsNil() {
				return fmt.Sprintf("%s: omitempty field stored empty (len 0) read back non-nil (len %d)", path, b.Len())
			}
			return ""
		}
		if a.IsNil() != b.IsNil() {
			return fmt.Sprintf("%s: slice nil=%v (len %d) vs nil=%v (len %d)", path, a.IsNil(), a.Len(), b.IsNil(), b.Len())
		}
		if a.Len() != b.Len() {
			return fmt.Sprintf("%s: len %d vs %d", path, a.Len(), b.Len())
		}
		for i := 0; i < a.Len(); i++ {
			if d := diffValue(a.Index(i), b.Index(i), fmt.Sprintf("%s[%d]", path, i), false); d != "" {
				return d
			}
		}
		return ""
	case reflect.Array:
		for i := 0; i < a.Len(); i++ {
			if d := diffValue(a.Index(i), b.Index(i), fmt.Sprintf("%s[%d]", path, i), false); d != "" {
				return d
			}
		}
		return ""
	case reflect.Map:
		if a.IsNil() != b.IsNil() {
			return fmt.Sprintf("%s: map nil=%v vs nil=%v", path, a.IsNil(), b.IsNil())
		}
		if a.Len() != b.Len() {
			return fmt.Sprintf("%s: map len %d vs %d", path, a.Len(), b.Len())
		}
		it := a.MapRange()
		for it.Next() {
			bv := b.MapIndex(it.Key())
			if !bv.IsValid() {
				return fmt.Sprintf("%s: key %v missing", path, it.Key())
			}
			if d := diffValue(it.Value(), bv, fmt.Sprintf("%s[%v]", path, it.Key()), false); d != "" {
				return d
			}
		}
		return ""
	case reflect.Struct:
		for i := 0; i < a.NumField(); i++ {
			f := a.Type().Field(i)
			if !f.IsExported() {
				// unexported fields only occur in types compared as a whole (handled above) or
				// compared through their accessors by the caller
				continue
			}
			om := strings.Contains(","+f.Tag.Get("cbor")+",", ",omitempty,")
			if d := diffValue(a.Field(i), b.Field(i), path+"."+f.Name, om); d != "" {
				return d
			}
		}
		return ""
	default:
		if a.CanInterface() && b.CanInterface() {
			if !reflect.DeepEqual(a.Interface(), b.Interface()) {
				return fmt.Sprintf("%s: %v vs %v", path, a.Interface(), b.Interface())
			}
			return ""
		}
		return ""
	}
}

// shapeOf is a short stable description of the first difference, for Violation.Sig (no data).
func diffKind(d string) string {
	switch {
	case strings.Contains(d, "slice nil="):
		return "nil-vs-empty-slice"
	case strings.Contains(d, "map nil="):
		return "nil-vs-empty-map"
	case strings.Contains(d, ": nil="):
		return "nil-vs-present"
	case strings.Contains(d, "len "):
		return "length"
	case strings.Contains(d, "type "):
		return "type"
	default:
		return "value"
	}
}

// fieldOf strips indexes and data from a diff path: ".Receipts[3].Events[0].Keys" -> "Receipts.Events.Keys".
func fieldOf(d string) string {
	p := d
	if i := strings.Index(p, ":"); i >= 0 {
		p = p[:i]
	}
	var out []byte
	depth := 0
	for i := 0; i < len(p); i++ {
		switch p[i] {
		case '[':
			depth++
		case ']':
			depth--
		default:
			if depth == 0 {
				out = append(out, p[i])
			}
		}
	}
	return strings.TrimPrefix(string(out), ".")
}
