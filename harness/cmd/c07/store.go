//go:build verif

package main

// Round 4: the store-level tie. The Lean driver keeps a key/value store between requests
// (ModelStore / ModelChain); the harness performs the same operations on the real database with
// the real code (Blockchain.Store / RevertHead, or core.Write* / DeleteTransactionsAndReceipts on
// arbitrary records) and after EVERY operation compares
//   * the complete content of the block-record buckets (key, value length, value checksum) with the
//     model's store, and
//   * the two-step / whole-block readers (block by number / hash, head, height, transaction and
//     receipt by hash, header / state update by hash, L1 message lookup) with the model's readers.

import (
	"bytes"
	"errors"
	"fmt"
	"reflect"
	"sort"
	"strings"

	"github.com/NethermindEth/juno/blockchain"
	"github.com/NethermindEth/juno/core"
	"github.com/NethermindEth/juno/core/felt"
	"github.com/NethermindEth/juno/db"
	"github.com/NethermindEth/juno/encoder"
	"github.com/NethermindEth/juno/l1/eth"
	"verif/harness/lib"
)

// the buckets the store model covers (everything writeBlockContent / deleteBlockContent touch
// except classes, CASM metadata, the state and the event filters)
var modelBuckets = []db.Bucket{db.ChainHeight, db.BlockHeaderNumbersByHash, db.BlockHeadersByNumber,
	db.TransactionBlockNumbersAndIndicesByHash, db.StateUpdatesByBlockNumber, db.BlockCommitments,
	db.L1HandlerTxnHashByMsgHash, db.BlockTransactions,
	// round 5: the per-transaction layout of earlier binaries (empty unless a phase writes it)
	db.TransactionsByBlockNumberAndIndex, db.ReceiptsByBlockNumberAndIndex}

func cksum(b []byte) uint64 {
	h := uint64(7)
	for _, x := range b {
		h = (h*257 + uint64(x) + 1) % 36028797018963913
	}
	return h
}

type kvEntry struct {
	k, v []byte
}

// dumpModelBuckets reads every entry of the modelled buckets from the real store.
func dumpModelBuckets(d db.KeyValueReader) ([]kvEntry, error) {
	var out []kvEntry
	for _, b := range modelBuckets {
		it, err := d.NewIterator(b.Key(), true)
		if err != nil {
			return nil, err
		}
		for it.First(); it.Valid(); it.Next() {
			v, err := it.Value()
			if err != nil {
				it.Close()
				return nil, err
			}
			out = append(out, kvEntry{append([]byte{}, it.Key()...), append([]byte{}, v...)})
		}
		if err := it.Close(); err != nil {
			return nil, err
		}
	}
	sort.Slice(out, func(i, j int) bool { return bytes.Compare(out[i].k, out[j].k) < 0 })
	return out, nil
}

func digestOf(es []kvEntry) string {
	parts := make([]string, len(es))
	for i, e := range es {
		parts[i] = fmt.Sprintf("%s:%d:%d", hx(e.k), len(e.v), cksum(e.v))
	}
	return fmt.Sprintf("ok %d %s", len(es), strings.Join(parts, ","))
}

// digestDiff names the first entries that differ (for the mismatch report).
func digestDiff(model, impl string) (string, string) {
	split := func(s string) map[string]string {
		m := map[string]string{}
		f := strings.SplitN(s, " ", 3)
		if len(f) < 3 {
			return m
		}
		for _, e := range strings.Split(f[2], ",") {
			if i := strings.IndexByte(e, ':'); i > 0 {
				m[e[:i]] = e[i+1:]
			}
		}
		return m
	}
	mm, im := split(model), split(impl)
	var onlyM, onlyI, diff []string
	for k, v := range mm {
		if w, ok := im[k]; !ok {
			onlyM = append(onlyM, k)
		} else if w != v {
			diff = append(diff, k)
		}
	}
	for k := range im {
		if _, ok := mm[k]; !ok {
			onlyI = append(onlyI, k)
		}
	}
	sort.Strings(onlyM)
	sort.Strings(onlyI)
	sort.Strings(diff)
	c := func(xs []string) []string { return xs[:min(len(xs), 4)] }
	return fmt.Sprintf("only in model: %v; differing values: %v", c(onlyM), c(diff)),
		fmt.Sprintf("only in the database: %v; differing values: %v", c(onlyI), c(diff))
}

// storeTie drives one (real store, model store) pair.
type storeTie struct {
	h     *H
	phase string
	ci    int
	mode  string
	steps []string // operation log (the replay of a store-level difference)
}

func (t *storeTie) log(format string, a ...any) { t.steps = append(t.steps, fmt.Sprintf(format, a...)) }

func (t *storeTie) mismatch(sig string, model, impl string) {
	t.h.res.Mismatch(lib.Mismatch{Sig: sig, Input: map[string]any{"phase": t.phase, "case": t.ci, "seed": t.h.f.Seed,
		"ops": append([]string{}, t.steps[max(0, len(t.steps)-12):]...)}, Model: clip(model), Impl: clip(impl)})
}

// l1Pairs: (transaction hash, message hash) of every L1 handler, as the driver wants them.
func l1Pairs(txs []core.Transaction) []string {
	var out []string
	for _, tx := range txs {
		if l1, ok := tx.(*core.L1HandlerTransaction); ok {
			th := l1.Hash().Bytes()
			out = append(out, hx(th[:]), hx(l1.MessageHash()))
		}
	}
	return out
}

func countL1(txs []core.Transaction) int {
	n := 0
	for _, tx := range txs {
		if _, ok := tx.(*core.L1HandlerTransaction); ok {
			n++
		}
	}
	return n
}

type storedBytes struct {
	hdr, blob, su, comm []byte
	txs, rcs            [][]byte
}

func encodeRec(rec *Rec) (*storedBytes, error) {
	sb := &storedBytes{}
	var err error
	if sb.hdr, err = encoder.Marshal(rec.Header); err != nil {
		return nil, err
	}
	bt, err := core.NewBlockTransactions(rec.Txs, rec.Rcs)
	if err != nil {
		return nil, err
	}
	if sb.blob, err = (core.BlockTransactionsSerializer{}).Marshal(&bt); err != nil {
		return nil, err
	}
	if sb.su, err = encoder.Marshal(rec.SU); err != nil {
		return nil, err
	}
	if sb.comm, err = encoder.Marshal(rec.Comm); err != nil {
		return nil, err
	}
	for _, tx := range rec.Txs {
		b, err := marshalAs(tTxIface, reflect.ValueOf(tx))
		if err != nil {
			return nil, err
		}
		sb.txs = append(sb.txs, b)
	}
	for _, rc := range rec.Rcs {
		b, err := encoder.Marshal(rc)
		if err != nil {
			return nil, err
		}
		sb.rcs = append(sb.rcs, b)
	}
	return sb, nil
}

// modelWrite: the model derives the record (block hash, index entries) from the stored bytes alone
// and applies writeBlockContent's writes.
func (t *storeTie) modelWrite(rec *Rec, sb *storedBytes) {
	l1 := l1Pairs(rec.Txs)
	req := fmt.Sprintf("s.write %s %d %s %s %s %s %d %s", t.mode, rec.Header.Number, hx(sb.hdr), hx(sb.blob), hx(sb.su), hx(sb.comm),
		len(l1)/2, strings.Join(l1, " "))
	out := t.h.ask(strings.TrimRight(req, " "))
	t.h.res.Compared(1)
	hb := rec.Header.Hash.Bytes()
	want := fmt.Sprintf("ok %s %d %d", hx(hb[:]), len(rec.Txs), countL1(rec.Txs))
	if out != want {
		t.mismatch("store-write-derived-record", out, want)
	}
}

func (t *storeTie) compareStore(d db.KeyValueReader, after string) bool {
	es, err := dumpModelBuckets(d)
	if err != nil {
		t.h.res.Fatalf("store tie: cannot iterate the database: %v", err)
		return false
	}
	impl := digestOf(es)
	model := t.h.ask("s.digest")
	t.h.res.Compared(len(es) + 1)
	t.h.res.Hit("store-diff:after-" + after)
	if model != impl {
		m, i := digestDiff(model, impl)
		t.mismatch("store-diff/after-"+after, m, i)
		return false
	}
	return true
}

func resOf(err error, okText func() string) string {
	switch {
	case err == nil:
		return "ok " + okText()
	case errors.Is(err, db.ErrKeyNotFound):
		return "notfound"
	default:
		return "err"
	}
}

func optOf(err error, okText func() string) string {
	switch {
	case err == nil:
		return "ok " + okText()
	case errors.Is(err, db.ErrKeyNotFound):
		return "none"
	default:
		return "err"
	}
}

func blockText(b *core.Block) string {
	hb, _ := encoder.Marshal(b.Header)
	parts := []string{hx(hb), fmt.Sprint(len(b.Transactions)), fmt.Sprint(len(b.Receipts))}
	for _, tx := range b.Transactions {
		x, _ := marshalAs(tTxIface, reflect.ValueOf(tx))
		parts = append(parts, hx(x))
	}
	for _, rc := range b.Receipts {
		x, _ := encoder.Marshal(rc)
		parts = append(parts, hx(x))
	}
	return strings.Join(parts, " ")
}

// compareReaders: the model's readers against the real accessors for one block that is (present)
// or is no longer (reverted) in the store. The real result is re-encoded: stored bytes are
// canonical, so a correct read re-encodes to the stored item.
func (t *storeTie) compareReaders(d db.KeyValueReader, bc *blockchain.Blockchain, rec *Rec, tag string) {
	res := t.h.res
	cmp := func(name, req, impl string) {
		out := t.h.ask(req)
		res.Compared(1)
		res.Hit("store-reader:" + name + "/" + tag)
		if out != impl {
			t.mismatch("store-reader/"+name+"/"+tag, firstDiff(out, impl), firstDiff(impl, out))
		}
	}
	n := rec.Header.Number
	hb := rec.Header.Hash.Bytes()
	b, err := core.GetBlockByNumber(d, n)
	cmp("GetBlockByNumber", fmt.Sprintf("s.block %d", n), resOf(err, func() string { return blockText(b) }))
	b, err = bc.BlockByHash(rec.Header.Hash)
	cmp("BlockByHash", "s.blockbyhash "+hx(hb[:]), resOf(err, func() string { return blockText(b) }))
	hd, err := core.GetBlockHeaderByHash(d, rec.Header.Hash)
	cmp("GetBlockHeaderByHash", "s.hdrbyhash "+hx(hb[:]), optOf(err, func() string { x, _ := encoder.Marshal(hd); return hx(x) }))
	su, err := core.GetStateUpdateByHash(d, rec.Header.Hash)
	cmp("GetStateUpdateByHash", "s.subyhash "+hx(hb[:]), optOf(err, func() string { x, _ := encoder.Marshal(su); return hx(x) }))
	for i, tx := range rec.Txs {
		if i > 2 && i < len(rec.Txs)-1 {
			if _, isL1 := tx.(*core.L1HandlerTransaction); !isL1 {
				continue // first three, last, and every L1 handler
			}
		}
		th := tx.Hash().Bytes()
		got, err := core.GetTransactionByHash(d, (*felt.TransactionHash)(tx.Hash()))
		cmp("GetTransactionByHash", "s.txbyhash "+hx(th[:]), resOf(err, func() string { x, _ := marshalAs(tTxIface, reflect.ValueOf(got)); return hx(x) }))
		rc, bh, num, err := bc.Receipt(tx.Hash())
		cmp("Receipt", "s.rcbyhash "+t.mode+" "+hx(th[:]), resOf(err, func() string {
			x, _ := encoder.Marshal(rc)
			bhb := bh.Bytes()
			return fmt.Sprintf("%s %s %d", hx(x), hx(bhb[:]), num)
		}))
		if l1, ok := tx.(*core.L1HandlerTransaction); ok {
			eh := eth.HashFromBytes(l1.MessageHash())
			got, err := bc.L1HandlerTxnHash(&eh)
			cmp("L1HandlerTxnHash", "s.l1 "+hx(l1.MessageHash()), optOf(err, func() string { x := got.Bytes(); return hx(x[:]) }))
		}
	}
}

func (t *storeTie) compareHead(d db.KeyValueReader, bc *blockchain.Blockchain) {
	res := t.h.res
	height, err := core.GetChainHeight(d)
	impl := optOf(err, func() string { return fmt.Sprint(height) })
	out := t.h.ask("s.height")
	res.Compared(1)
	res.Hit("store-reader:GetChainHeight")
	if out != impl {
		t.mismatch("store-reader/GetChainHeight", out, impl)
	}
	b, err := bc.Head()
	impl = resOf(err, func() string { return blockText(b) })
	out = t.h.ask("s.head")
	res.Compared(1)
	res.Hit("store-reader:Head")
	if out != impl {
		t.mismatch("store-reader/Head", firstDiff(out, impl), firstDiff(impl, out))
	}
}

// ---------------------------------------------------------------------------------------------
// Phase "store": a valid chain through the real Store / RevertHead, the model in lock-step.
// ---------------------------------------------------------------------------------------------

func (h *H) phaseStore(shard, shards int) {
	type cfg struct {
		srcNew, dstNew bool
		kind, version  string
	}
	cfgs := []cfg{{false, false, "memory", "0.13.2"}, {true, true, "pebble-mem", "0.14.1"}}
	if h.f.Thorough() {
		cfgs = append(cfgs, cfg{false, true, "pebble-disk", "0.13.4"}, cfg{true, false, "memory", "0.14.0"})
	}
	for ci, c := range cfgs {
		if ci%shards != shard || !h.want("store", ci) {
			continue
		}
		h.storeChainCase(ci, c.srcNew, c.dstNew, c.kind, c.version)
	}
}

func (h *H) storeChainCase(ci int, srcNew, dstNew bool, kind, version string) {
	res := h.res
	r := h.rng("store", ci)
	opt := lib.DefaultGenOptions()
	opt.MaxTxs = 5
	opt.Versions = []string{version}
	g := lib.NewChainGen(r, srcNew, opt)
	be, err := h.openBackend(kind, fmt.Sprintf("store%d", ci))
	if err != nil {
		res.Fatalf("open %s: %v", kind, err)
		return
	}
	defer func() { be.close() }()
	bc := lib.NodeOn(be.store, g.Net, dstNew)
	t := &storeTie{h: h, phase: "store", ci: ci, mode: h.decoderMode()}
	if out := h.ask("s.reset"); out != "ok" {
		res.Fatalf("store tie: s.reset answered %q", out)
		return
	}
	var chain []*Rec
	storeNext := func(spec *lib.BlockSpec, what string) bool {
		b, err := g.Next(spec)
		if err != nil {
			res.Fatalf("chain generator: %v", err)
			return false
		}
		cl := b.Clone()
		comm, err := bc.SanityCheckNewHeight(cl.Block, cl.SU, cl.Classes)
		if err == nil {
			err = bc.Store(cl.Block, comm, cl.SU, cl.Classes)
		}
		if err != nil {
			res.Violate(lib.Violation{Sig: "chain-store-fails", What: fmt.Sprintf("storing a valid block: %v", err), Replay: h.spec("store", ci, nil)})
			return false
		}
		rec := &Rec{Header: b.Block.Header, Txs: b.Block.Transactions, Rcs: b.Block.Receipts, SU: b.SU, Comm: lib.DeepCopy(comm).(*core.BlockCommitments)}
		sb, err := encodeRec(rec)
		if err != nil {
			res.Fatalf("store tie: encode: %v", err)
			return false
		}
		t.log("Store block %d (%s, %d txs, %d L1 handlers)", rec.Header.Number, what, len(rec.Txs), countL1(rec.Txs))
		t.modelWrite(rec, sb)
		chain = append(chain, rec)
		res.Case(fmt.Sprintf("store/%d/%d/%s", ci, len(t.steps), hx(sb.blob)), len(rec.Txs) > 0)
		res.Hit("store-op:store/" + what)
		ok := t.compareStore(be.store, "store")
		t.compareReaders(be.store, bc, rec, "present")
		t.compareHead(be.store, bc)
		return ok
	}
	revert := func() bool {
		old := chain[len(chain)-1]
		if err := g.Revert(); err != nil {
			res.Fatalf("chain generator revert: %v", err)
			return false
		}
		if err, panicked, _ := lib.Try(func() error { return bc.RevertHead() }); err != nil {
			sig := "revert-head-fails"
			if panicked {
				sig = "revert-head-panics"
			}
			res.Violate(lib.Violation{Sig: sig, What: fmt.Sprintf("RevertHead: %v", err), Replay: h.spec("store", ci, nil)})
			return false
		}
		l1 := l1Pairs(old.Txs)
		t.log("RevertHead (block %d, %d txs, %d L1 handlers)", old.Header.Number, len(old.Txs), countL1(old.Txs))
		out := h.ask(strings.TrimRight(fmt.Sprintf("s.revert %s %d %s", t.mode, len(l1)/2, strings.Join(l1, " ")), " "))
		res.Compared(1)
		if out != "ok" {
			t.mismatch("store-revert-result", out, "ok")
		}
		chain = chain[:len(chain)-1]
		res.Hit("store-op:revert")
		ok := t.compareStore(be.store, "revert")
		t.compareReaders(be.store, bc, old, "reverted")
		t.compareHead(be.store, bc)
		if len(chain) > 0 {
			t.compareReaders(be.store, bc, chain[len(chain)-1], "present")
		}
		return ok
	}
	steps := h.f.Scale(16, 120)
	for i := 0; i < steps; i++ {
		var ok bool
		switch {
		case i%6 == 2:
			txs, rcs := allKindsTxs(g, version, 8)
			ok = storeNext(&lib.BlockSpec{Txs: txs, Rcs: rcs}, "all-kinds")
		case i%6 == 4:
			ok = storeNext(&lib.BlockSpec{NoTxs: true}, "empty")
		case i%6 == 3 || i%6 == 5:
			// revert the head (an all-kinds block / an empty block), then a replacement
			ok = revert()
			if ok && i%12 == 5 && len(chain) > 0 {
				ok = revert() // two in a row
				if ok {
					ok = storeNext(nil, "replacement")
				}
			}
			if ok {
				ok = storeNext(nil, "replacement")
			}
		default:
			ok = storeNext(nil, "random")
		}
		if !ok {
			return
		}
	}
	// down to the empty chain: the genesis revert deletes the height key
	if ci == 0 {
		for len(chain) > 0 {
			if !revert() {
				return
			}
		}
		res.Hit("store-op:revert-to-empty")
	}
}

// ---------------------------------------------------------------------------------------------
// Phase "storerec": arbitrary records at edge heights written with core.Write* (as
// writeBlockContent does), DeleteTransactionsAndReceipts, replacement — the model in lock-step.
// ---------------------------------------------------------------------------------------------

func (h *H) phaseStoreRec(shard, shards int) {
	groups := h.f.Scale(4, 40)
	for gi := 0; gi < groups; gi++ {
		if gi%shards != shard || !h.want("storerec", gi) {
			continue
		}
		h.storeRecGroup(gi)
	}
}

func (h *H) storeRecGroup(gi int) {
	res := h.res
	g := &Gen{R: h.rng("storerec", gi), rawLimbs: true}
	kind := []string{"memory", "pebble-mem"}[gi%2]
	be, err := h.openBackend(kind, fmt.Sprintf("storerec%d", gi))
	if err != nil {
		res.Fatalf("open %s: %v", kind, err)
		return
	}
	defer func() { be.close() }()
	t := &storeTie{h: h, phase: "storerec", ci: gi, mode: h.decoderMode()}
	if out := h.ask("s.reset"); out != "ok" {
		res.Fatalf("store tie: s.reset answered %q", out)
		return
	}
	bc := blockchain.New(be.store, lib.TestNetwork())
	heights := map[uint64]bool{}
	var recs []*Rec
	n := h.f.Scale(7, 10)
	for i := 0; i < n; i++ {
		var num uint64
		for {
			if i < len(edgeHeights) && gi%2 == 0 {
				num = edgeHeights[(i+gi/2*n)%len(edgeHeights)]
			} else if g.R.Chance(1, 2) {
				num = lib.Pick(g.R, edgeHeights)
			} else {
				num = uint64(g.R.Intn(70000))
			}
			if !heights[num] {
				break
			}
			num = uint64(g.R.Intn(1 << 40))
			if !heights[num] {
				break
			}
		}
		heights[num] = true
		rec := h.genRec(g, gi*16+i, num)
		rec.Classes, rec.Casm = nil, nil
		sb, err := encodeRec(rec)
		if err != nil {
			h.marshalFailed("storerec", gi, "record", rec.Header.Number, err)
			return
		}
		if err := WriteRec(be.store, rec); err != nil {
			res.Violate(lib.Violation{Sig: "write-fails", What: err.Error(), Replay: h.spec("storerec", gi, recSummary(rec))})
			return
		}
		t.log("write record at height %d (%d txs, %d receipts, %d L1 handlers)", num, len(rec.Txs), len(rec.Rcs), countL1(rec.Txs))
		t.modelWrite(rec, sb)
		recs = append(recs, rec)
		res.Case(fmt.Sprintf("storerec/%d/%d", gi, i), len(rec.Txs) > 0)
		res.Hit("store-op:write-record")
		if !t.compareStore(be.store, "write-record") {
			return
		}
		t.compareReaders(be.store, bc, rec, "present")
		t.compareHead(be.store, bc)
	}
	// every earlier record still reads the same through the model's and the real readers
	for _, rec := range recs {
		t.compareReaders(be.store, bc, rec, "present")
	}
	// delete transactions and receipts of every second record, put another block at that height
	for ri, rec := range recs {
		if ri%2 == 1 {
			continue
		}
		num := rec.Header.Number
		var derr error
		perr, panicked, _ := lib.Try(func() error {
			derr = be.store.Update(func(txn db.IndexedBatch) error { return core.DeleteTransactionsAndReceipts(txn, txn, num) })
			return nil
		})
		impl := resOf(derr, func() string { return "" })
		if panicked {
			impl = "panic"
			_ = perr
		}
		l1 := l1Pairs(rec.Txs)
		t.log("DeleteTransactionsAndReceipts at height %d", num)
		out := h.ask(strings.TrimRight(fmt.Sprintf("s.deltx %s %d %d %s", t.mode, num, len(l1)/2, strings.Join(l1, " ")), " "))
		res.Compared(1)
		res.Hit("store-op:delete-transactions")
		if strings.TrimSpace(impl) != out {
			t.mismatch("store-deltx-result", out, impl)
		}
		if !t.compareStore(be.store, "delete-transactions") {
			return
		}
		t.compareReaders(be.store, bc, rec, "txs-deleted")
		if ri%4 == 0 {
			// deleting again: the blob is gone, ErrKeyNotFound on both sides, nothing changes
			derr = be.store.Update(func(txn db.IndexedBatch) error { return core.DeleteTransactionsAndReceipts(txn, txn, num) })
			out := h.ask(fmt.Sprintf("s.deltx %s %d 0", t.mode, num))
			res.Compared(1)
			res.Hit("store-op:delete-transactions-again")
			if impl := resOf(derr, func() string { return "" }); strings.TrimSpace(impl) != out {
				t.mismatch("store-deltx-again-result", out, impl)
			}
			t.compareStore(be.store, "delete-transactions-again")
		}
		repl := h.genRec(g, gi*16+9+ri, num)
		repl.Classes, repl.Casm = nil, nil
		sb, err := encodeRec(repl)
		if err != nil {
			h.marshalFailed("storerec", gi, "record", num, err)
			return
		}
		if err := WriteRec(be.store, repl); err != nil {
			res.Violate(lib.Violation{Sig: "replacement-write-fails", What: err.Error(), Replay: h.spec("storerec", gi, recSummary(repl))})
			return
		}
		t.log("write replacement record at height %d", num)
		t.modelWrite(repl, sb)
		res.Hit("store-op:write-replacement")
		if !t.compareStore(be.store, "write-replacement") {
			return
		}
		t.compareReaders(be.store, bc, repl, "present")
		t.compareReaders(be.store, bc, rec, "replaced")
	}
}
