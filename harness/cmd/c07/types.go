//go:build verif

package main

import (
	"fmt"
	"math/big"
	"reflect"
	"sort"
	"strings"

	"github.com/NethermindEth/juno/core"
	"github.com/NethermindEth/juno/core/felt"
	"github.com/NethermindEth/juno/encoder"
)

// ---------------------------------------------------------------------------------------------
// The typed tie. The Lean model has a table (GoType) for every stored record type; here the same
// description is computed from the REAL Go types by reflection (field names, `cbor` tags,
// omitempty, embedding, element types) and from the encoder's behaviour (tag numbers), and the two
// are compared as strings. A field that is added, renamed, retagged or retyped changes the
// description. Values are rendered by the same walk into a neutral syntax that the Lean driver
// parses, encodes with ITS table, and the bytes are compared with encoder.Marshal.
//
// Description syntax:  u8|u16|u32|u64  bool  str  bytes  felt  raw  disc
//                      ptr(T)  slice(T)  map(K,V)  struct{key:0|1:T;...}  iface{tag:T;...}
// Value syntax (space separated tokens, prefix form):
//   n | u<dec> | T | F | s<hex> | b<hex> | f<hex>,<hex>,<hex>,<hex> | r<hex of the item's CBOR>
//   L<k> v*k | S<k> v*k | M<k> (key value)*k | I<idx> v
// ---------------------------------------------------------------------------------------------

var (
	tFeltLike = map[reflect.Type]bool{}
	tRawTypes = map[reflect.Type]bool{tBloomPtr: true, tBigPtr: true, tSegLen: true}
)

func isFeltLike(t reflect.Type) bool {
	// felt.Felt and every named type over [4]uint64 (TransactionVersion, class hash types, ...)
	return t.Kind() == reflect.Array && t.Len() == 4 && t.Elem().Kind() == reflect.Uint64
}

type fieldInfo struct {
	key       string
	omitempty bool
	index     []int
	typ       reflect.Type
}

// structFields resolves the CBOR-visible fields of a struct the way encoding/json and fxamacker do
// for the shapes that occur here: exported fields, `cbor:"name,omitempty"` tags, anonymous struct
// fields without a tag are flattened (shallower fields win), sorted length-first then bytewise.
func structFields(t reflect.Type) []fieldInfo {
	type cand struct {
		fieldInfo
		depth int
	}
	var cands []cand
	var walk func(t reflect.Type, index []int, depth int)
	walk = func(t reflect.Type, index []int, depth int) {
		for i := 0; i < t.NumField(); i++ {
			f := t.Field(i)
			tag := f.Tag.Get("cbor")
			if tag == "-" {
				continue
			}
			idx := append(append([]int{}, index...), i)
			name, opts, _ := strings.Cut(tag, ",")
			if f.Anonymous && name == "" {
				ft := f.Type
				if ft.Kind() == reflect.Pointer {
					ft = ft.Elem()
				}
				if ft.Kind() == reflect.Struct {
					walk(ft, idx, depth+1)
					continue
				}
			}
			if !f.IsExported() {
				continue
			}
			if name == "" {
				name = f.Name
			}
			cands = append(cands, cand{fieldInfo{key: name, omitempty: strings.Contains(","+opts+",", ",omitempty,"), index: idx, typ: f.Type}, depth})
		}
	}
	walk(t, nil, 0)
	best := map[string]cand{}
	count := map[string]int{}
	for _, c := range cands {
		b, ok := best[c.key]
		if !ok || c.depth < b.depth {
			best[c.key] = c
			count[c.key] = 1
		} else if c.depth == b.depth {
			count[c.key]++
		}
	}
	var out []fieldInfo
	for k, c := range best {
		if count[k] == 1 {
			out = append(out, c.fieldInfo)
		}
	}
	sort.Slice(out, func(i, j int) bool {
		if len(out[i].key) != len(out[j].key) {
			return len(out[i].key) < len(out[j].key)
		}
		return out[i].key < out[j].key
	})
	return out
}

// ifaceAlts: the concrete types registered for an interface, with the tag number the encoder
// really writes (read off an encoded zero value).
type altInfo struct {
	tag uint64
	typ reflect.Type // struct type (values are pointers to it)
}

func tagOf(v any) (uint64, error) {
	b, err := encoder.Marshal(v)
	if err != nil {
		return 0, err
	}
	// major type 6 head
	if len(b) == 0 || b[0]>>5 != 6 {
		return 0, fmt.Errorf("not tagged: %x", b[:min(len(b), 8)])
	}
	switch b[0] & 31 {
	case 24:
		return uint64(b[1]), nil
	case 25:
		return uint64(b[1])<<8 | uint64(b[2]), nil
	case 26:
		return uint64(b[1])<<24 | uint64(b[2])<<16 | uint64(b[3])<<8 | uint64(b[4]), nil
	default:
		if b[0]&31 < 24 {
			return uint64(b[0] & 31), nil
		}
		return 0, fmt.Errorf("unexpected tag head %x", b[0])
	}
}

func ifaceAlts(t reflect.Type) []altInfo {
	var kinds []reflect.Type
	switch t {
	case tTxIface:
		kinds = txKinds
	case tClsIface:
		kinds = classKinds
	default:
		panic("unknown interface " + t.String())
	}
	var out []altInfo
	for _, k := range kinds {
		tag, err := tagOf(reflect.New(k).Interface())
		if err != nil {
			panic(err)
		}
		out = append(out, altInfo{tag, k})
	}
	sort.Slice(out, func(i, j int) bool { return out[i].tag < out[j].tag })
	return out
}

// Desc is the description of a Go type in the shared syntax.
func Desc(t reflect.Type) string {
	if tRawTypes[t] {
		return "raw"
	}
	if isFeltLike(t) {
		return "felt"
	}
	switch t.Kind() {
	case reflect.Uint8:
		return "u8"
	case reflect.Uint16:
		return "u16"
	case reflect.Uint32:
		return "u32"
	case reflect.Uint64, reflect.Uint:
		return "u64"
	case reflect.Bool:
		return "bool"
	case reflect.String:
		return "str"
	case reflect.Pointer:
		return "ptr(" + Desc(t.Elem()) + ")"
	case reflect.Slice:
		if t.Elem().Kind() == reflect.Uint8 {
			return "bytes"
		}
		return "slice(" + Desc(t.Elem()) + ")"
	case reflect.Array:
		if t.Elem().Kind() == reflect.Uint8 {
			return "bytes"
		}
		return "?array"
	case reflect.Map:
		return "map(" + Desc(t.Key()) + "," + Desc(t.Elem()) + ")"
	case reflect.Struct:
		var parts []string
		for _, f := range structFields(t) {
			om := "0"
			if f.omitempty {
				om = "1"
			}
			parts = append(parts, f.key+":"+om+":"+Desc(f.typ))
		}
		return "struct{" + strings.Join(parts, ";") + "}"
	case reflect.Interface:
		var parts []string
		for _, a := range ifaceAlts(t) {
			parts = append(parts, fmt.Sprintf("%d:%s", a.tag, Desc(a.typ)))
		}
		return "iface{" + strings.Join(parts, ";") + "}"
	}
	return "?" + t.Kind().String()
}

// Render writes v (of static type t) in the value syntax.
func Render(t reflect.Type, v reflect.Value, sb *strings.Builder, renderReverse bool) error {
	w := func(s string) {
		if sb.Len() > 0 {
			sb.WriteByte(' ')
		}
		sb.WriteString(s)
	}
	if tRawTypes[t] {
		var b []byte
		var err error
		switch t {
		case tBigPtr:
			b, err = encoder.Marshal(v.Interface().(*big.Int))
		default:
			b, err = encoder.Marshal(v.Interface())
		}
		if err != nil {
			return err
		}
		w("r" + hx(b))
		return nil
	}
	if isFeltLike(t) {
		w(fmt.Sprintf("f%x,%x,%x,%x", v.Index(0).Uint(), v.Index(1).Uint(), v.Index(2).Uint(), v.Index(3).Uint()))
		return nil
	}
	switch t.Kind() {
	case reflect.Uint8, reflect.Uint16, reflect.Uint32, reflect.Uint64, reflect.Uint:
		w(fmt.Sprintf("u%d", v.Uint()))
	case reflect.Bool:
		if v.Bool() {
			w("T")
		} else {
			w("F")
		}
	case reflect.String:
		w("s" + hx([]byte(v.String())))
	case reflect.Pointer:
		if v.IsNil() {
			w("n")
			return nil
		}
		return Render(t.Elem(), v.Elem(), sb, renderReverse)
	case reflect.Slice:
		if v.IsNil() {
			w("n")
			return nil
		}
		if t.Elem().Kind() == reflect.Uint8 {
			w("b" + hx(v.Bytes()))
			return nil
		}
		w(fmt.Sprintf("L%d", v.Len()))
		for i := 0; i < v.Len(); i++ {
			if err := Render(t.Elem(), v.Index(i), sb, renderReverse); err != nil {
				return err
			}
		}
	case reflect.Array:
		if t.Elem().Kind() != reflect.Uint8 {
			return fmt.Errorf("unsupported array %s", t)
		}
		b := make([]byte, v.Len())
		for i := range b {
			b[i] = byte(v.Index(i).Uint())
		}
		w("b" + hx(b))
	case reflect.Map:
		if v.IsNil() {
			w("n")
			return nil
		}
		w(fmt.Sprintf("M%d", v.Len()))
		// canonical order (length of the encoded key first, then bytewise) when comparing decoded
		// values; the reverse of it when feeding the model's encoder, which must sort by itself
		keys := v.MapKeys()
		enc := map[any]string{}
		for _, k := range keys {
			b, err := encoder.Marshal(k.Interface())
			if err != nil {
				return err
			}
			enc[k.Interface()] = string(b)
		}
		sort.Slice(keys, func(i, j int) bool {
			a, b := enc[keys[i].Interface()], enc[keys[j].Interface()]
			less := len(a) < len(b) || (len(a) == len(b) && a < b)
			if renderReverse {
				return !less && a != b
			}
			return less
		})
		for _, k := range keys {
			if err := Render(t.Key(), k, sb, renderReverse); err != nil {
				return err
			}
			if err := Render(t.Elem(), v.MapIndex(k), sb, renderReverse); err != nil {
				return err
			}
		}
	case reflect.Struct:
		fs := structFields(t)
		w(fmt.Sprintf("S%d", len(fs)))
		for _, f := range fs {
			if err := Render(f.typ, v.FieldByIndex(f.index), sb, renderReverse); err != nil {
				return err
			}
		}
	case reflect.Interface:
		if v.IsNil() {
			w("n")
			return nil
		}
		conc := v.Elem() // pointer to struct
		for i, a := range ifaceAlts(t) {
			if conc.Type() == reflect.PointerTo(a.typ) {
				w(fmt.Sprintf("I%d", i))
				return Render(a.typ, conc.Elem(), sb, renderReverse)
			}
		}
		return fmt.Errorf("unregistered implementation %s", conc.Type())
	default:
		return fmt.Errorf("unsupported kind %s", t.Kind())
	}
	return nil
}

// RenderString; reverse: write map entries in reverse canonical order.
func RenderString(t reflect.Type, v reflect.Value, reverse bool) (string, error) {
	var sb strings.Builder
	err := Render(t, v, &sb, reverse)
	return sb.String(), err
}

// typedTables: the record types that have a table in the Lean model (Tables.lean), by name.
func typedTables() []storable {
	return []storable{
		{"Header", reflect.TypeOf(core.Header{})},
		{"Transaction", tTxIface},
		{"TransactionReceipt", reflect.TypeOf(core.TransactionReceipt{})},
		{"StateUpdate", reflect.TypeOf(core.StateUpdate{})},
		{"BlockCommitments", reflect.TypeOf(core.BlockCommitments{})},
		{"L1Head", reflect.TypeOf(core.L1Head{})},
		{"ClassDefinition", tClsIface},
	}
}

// LeanSource prints Tables.lean definitions for the typed tables (developer aid: `c07 --dump-tables`).
func leanType(t reflect.Type) string {
	if tRawTypes[t] {
		return ".raw"
	}
	if isFeltLike(t) {
		return ".felt"
	}
	switch t.Kind() {
	case reflect.Uint8:
		return ".uint 8"
	case reflect.Uint16:
		return ".uint 16"
	case reflect.Uint32:
		return ".uint 32"
	case reflect.Uint64, reflect.Uint:
		return ".uint 64"
	case reflect.Bool:
		return ".bool"
	case reflect.String:
		return ".str"
	case reflect.Pointer:
		return ".ptr (" + leanType(t.Elem()) + ")"
	case reflect.Slice:
		if t.Elem().Kind() == reflect.Uint8 {
			return ".bytes"
		}
		return ".slice (" + leanType(t.Elem()) + ")"
	case reflect.Array:
		return ".bytes"
	case reflect.Map:
		return ".map (" + leanType(t.Key()) + ") (" + leanType(t.Elem()) + ")"
	case reflect.Struct:
		var parts []string
		for _, f := range structFields(t) {
			bs := make([]string, len(f.key))
			for i := range f.key {
				bs[i] = fmt.Sprint(f.key[i])
			}
			parts = append(parts, fmt.Sprintf("(/- %s -/ [%s], %v, %s)", f.key, strings.Join(bs, ","), f.omitempty, leanType(f.typ)))
		}
		return ".struct [\n    " + strings.Join(parts, ",\n    ") + "]"
	case reflect.Interface:
		var parts []string
		for _, a := range ifaceAlts(t) {
			parts = append(parts, fmt.Sprintf("(%d, %s)", a.tag, leanType(a.typ)))
		}
		return ".iface [\n  " + strings.Join(parts, ",\n  ") + "]"
	}
	return "?"
}

var _ = felt.Felt{}
