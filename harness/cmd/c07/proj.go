//go:build verif

package main

import (
	"fmt"
	"reflect"
	"sort"

	"github.com/NethermindEth/juno/core"
	"github.com/NethermindEth/juno/core/felt"
	"github.com/NethermindEth/juno/db"
	"github.com/NethermindEth/juno/db/memory"
	"github.com/NethermindEth/juno/encoder"
	"github.com/bits-and-blooms/bloom/v3"
	"github.com/fxamacker/cbor/v2"
	"verif/harness/lib"
)

// ---------------------------------------------------------------------------------------------
// Phase "proj": the partial decoders against the full decoder on EVERY kind of record, not only on
// what the current encoder writes: stored records are re-shaped at the CBOR level (a key dropped —
// as in records written before a field existed —, a value null, entries reordered, unknown keys,
// duplicate keys), written raw under the real database keys, and read through the real full and
// partial accessors. Specification of agreement, per accessor:
//   value-typed projection (TransactionCount, Reverted, RevertReason, Events): equal to the field of
//     the full decoder's result;
//   pointer-typed projection (Hash, GlobalStateRoot, EventsBloom, Timestamp (*uint64), and
//     TransactionHash with its zero check): equal to the field, and an error exactly when the field
//     of the full decoder's result is nil / zero.
// The same bytes go to the Lean model of both decoders.
// ---------------------------------------------------------------------------------------------

type entry struct {
	key    string // text key; "" with intKey set for an integer key
	raw    []byte // encoded value
	intKey *uint64
}

func cborHead(major byte, n uint64) []byte {
	switch {
	case n < 24:
		return []byte{major<<5 | byte(n)}
	case n < 256:
		return []byte{major<<5 | 24, byte(n)}
	case n < 65536:
		return []byte{major<<5 | 25, byte(n >> 8), byte(n)}
	case n < 1<<32:
		return []byte{major<<5 | 26, byte(n >> 24), byte(n >> 16), byte(n >> 8), byte(n)}
	default:
		return []byte{major<<5 | 27, byte(n >> 56), byte(n >> 48), byte(n >> 40), byte(n >> 32), byte(n >> 24), byte(n >> 16), byte(n >> 8), byte(n)}
	}
}

func assemble(tag *uint64, es []entry) []byte {
	var out []byte
	if tag != nil {
		out = append(out, cborHead(6, *tag)...)
	}
	out = append(out, cborHead(5, uint64(len(es)))...)
	for _, e := range es {
		if e.intKey != nil {
			out = append(out, cborHead(0, *e.intKey)...)
		} else {
			out = append(out, cborHead(3, uint64(len(e.key)))...)
			out = append(out, e.key...)
		}
		out = append(out, e.raw...)
	}
	return out
}

// entriesOf splits an encoded struct (optionally tag-wrapped) into its entries, in stored order.
func entriesOf(b []byte) (*uint64, []entry, error) {
	var tag *uint64
	if len(b) > 0 && b[0]>>5 == 6 {
		var rt cbor.RawTag
		if err := cbor.Unmarshal(b, &rt); err != nil {
			return nil, nil, err
		}
		tag = &rt.Number
		b = rt.Content
	}
	var m map[string]cbor.RawMessage
	if err := cbor.Unmarshal(b, &m); err != nil {
		return nil, nil, err
	}
	var es []entry
	for k, v := range m {
		es = append(es, entry{key: k, raw: v})
	}
	sort.Slice(es, func(i, j int) bool {
		if len(es[i].key) != len(es[j].key) {
			return len(es[i].key) < len(es[j].key)
		}
		return es[i].key < es[j].key
	})
	return tag, es, nil
}

type variant struct {
	name string
	es   []entry
}

// variants re-shapes a record. wanted are the keys the projections materialise.
func variants(r *lib.RNG, es []entry, wanted []string, donor []entry, allKeys bool) []variant {
	cp := func() []entry { return append([]entry{}, es...) }
	var vs []variant
	vs = append(vs, variant{"as-stored", cp()})
	// reverse order
	rev := cp()
	for i, j := 0, len(rev)-1; i < j; i, j = i+1, j-1 {
		rev[i], rev[j] = rev[j], rev[i]
	}
	vs = append(vs, variant{"reversed", rev})
	// drop / null a wanted key, and a random key
	keys := append([]string{}, wanted...)
	if allKeys {
		// exhaustive: every key of the record dropped / null, one at a time
		keys = nil
		for _, e := range es {
			keys = append(keys, e.key)
		}
	} else if len(es) > 0 {
		keys = append(keys, es[r.Intn(len(es))].key)
	}
	for _, k := range keys {
		var dropped, nulled []entry
		for _, e := range es {
			if e.key == k {
				nulled = append(nulled, entry{key: k, raw: []byte{0xf6}})
				continue
			}
			dropped = append(dropped, e)
			nulled = append(nulled, e)
		}
		vs = append(vs, variant{"dropped", dropped}, variant{"null", nulled})
	}
	// unknown text key, integer key
	five := uint64(5)
	unk := append(cp(), entry{key: "Zz", raw: []byte{0x01}}, entry{intKey: &five, raw: []byte{0x82, 0x01, 0x02}})
	vs = append(vs, variant{"unknown-keys", unk})
	unk2 := append([]entry{{key: "A", raw: []byte{0xa1, 0x61, 0x78, 0xf6}}}, cp()...)
	vs = append(vs, variant{"unknown-keys", unk2})
	// duplicate key: a second value for a wanted key, before and after the original (the first wins)
	if len(donor) > 0 {
		for _, k := range wanted {
			var dv []byte
			for _, e := range donor {
				if e.key == k {
					dv = e.raw
				}
			}
			if dv == nil {
				continue
			}
			vs = append(vs, variant{"duplicate-after", append(cp(), entry{key: k, raw: dv})})
			vs = append(vs, variant{"duplicate-before", append([]entry{{key: k, raw: dv}}, cp()...)})
		}
	}
	return vs
}

func blobKey(n uint64) []byte {
	k, _ := encoder.Marshal(n)
	return db.BlockTransactions.Key(k)
}

// small shapes: every record is re-shaped ~25 ways and each variant goes to the model 2-6 times
func projCfg(i int) *GenCfg {
	c := Cfg(i, false)
	c.BigLens = false
	c.MaxLen = 3
	return c
}

func (h *H) phaseProj(shard, shards int) {
	n := h.f.Scale(24, 600)
	mode := h.decoderMode()
	for i := 0; i < n; i++ {
		if i%shards != shard || !h.want("proj", i) {
			continue
		}
		g := &Gen{R: h.rng("proj", i), rawLimbs: true}
		h.projHeader(g, i, mode)
		h.projBlob(g, i, mode)
	}
}

func render(t reflect.Type, v any) string {
	s, err := RenderString(t, reflect.ValueOf(v), false)
	if err != nil {
		return "render-error:" + err.Error()
	}
	return s
}

func okOrErr(err error, s string) string {
	if err != nil {
		return "err"
	}
	return "ok " + s
}

var (
	tFeltPtr = reflect.TypeOf((*felt.Felt)(nil))
	tU64     = reflect.TypeOf(uint64(0))
)

func (h *H) projHeader(g *Gen, ci int, mode string) {
	res := h.res
	hdr := g.Value(reflect.TypeOf(core.Header{}), projCfg(3+ci)).Interface().(core.Header)
	donor := g.Value(reflect.TypeOf(core.Header{}), projCfg(1_000_000)).Interface().(core.Header)
	donor.Hash, donor.GlobalStateRoot = g.uniqueFelt(), g.uniqueFelt()
	if donor.EventsBloom == nil {
		donor.EventsBloom = bloom.New(core.EventsBloomLength, core.EventsBloomHashFuncs)
	}
	hb, err := encoder.Marshal(&hdr)
	db0, err2 := encoder.Marshal(&donor)
	if err != nil || err2 != nil {
		if err == nil {
			err = err2
		}
		h.marshalFailed("proj", ci, "Header", hdr, err)
		return
	}
	_, es, err := entriesOf(hb)
	_, des, err2 := entriesOf(db0)
	if err != nil || err2 != nil {
		res.Fatalf("proj: split header: %v %v", err, err2)
		return
	}
	wanted := []string{"Hash", "GlobalStateRoot", "TransactionCount", "Timestamp", "EventsBloom"}
	for vi, v := range variants(g.R, es, wanted, des, ci%6 == 0) {
		raw := assemble(nil, v.es)
		mem := memory.New()
		const num = 42
		if err := mem.Put(db.BlockHeaderByNumberKey(num), raw); err != nil {
			res.Fatalf("proj: put: %v", err)
			return
		}
		var d db.KeyValueStore = newPoisonStore(mem) // reads see recycled buffers
		res.Hit("proj-header:" + v.name)
		res.Case(fmt.Sprintf("proj-header/%s", hx(raw)), true)
		replay := func(acc, detail string) any {
			return h.spec("proj", ci, map[string]any{"record": "header", "variant": v.name, "variant_index": vi, "stored_hex": hx(raw), "accessor": acc, "detail": detail})
		}
		viol := func(acc, kind, detail string) {
			res.Violate(lib.Violation{Sig: "partial-vs-full-" + acc + "-" + kind, What: fmt.Sprintf("%s on a header record (%s): %s", acc, v.name, detail), Replay: replay(acc, detail)})
		}
		var full *core.Header
		var fullErr error
		if perr, p, _ := lib.Try(func() error { full, fullErr = core.GetBlockHeaderByNumber(d, num); return nil }); p {
			viol("core.GetBlockHeaderByNumber", "panic", perr.Error())
			continue
		}
		// model of the full decoder
		res.Compared(1)
		wantFull := "err"
		if fullErr == nil {
			wantFull = "ok " + render(reflect.TypeOf(core.Header{}), *full)
		}
		if out := h.ask("decv Header " + mode + " " + hx(raw)); out != wantFull {
			res.Mismatch(lib.Mismatch{Sig: "full-decoder/Header/" + v.name, Input: clip(hx(raw)), Model: firstDiff(out, wantFull), Impl: firstDiff(wantFull, out)})
		}
		type pr struct {
			acc   string
			got   string // "ok <render>" | "err"
			field string // rendering of the same field of the full result; "" = nil/zero ⇒ error expected
			must  bool   // pointer-typed: error iff nil
		}
		var prs []pr
		hash, err := core.GetBlockHeaderHashByNumber(d, num)
		prs = append(prs, pr{"GetBlockHeaderHashByNumber", okOrErr(err, render(tFeltPtr, hash)), "", true})
		root, err := core.GetGlobalStateRootByBlockNumber(d, num)
		prs = append(prs, pr{"GetGlobalStateRootByBlockNumber", okOrErr(err, render(tFeltPtr, root)), "", true})
		cnt, err := core.GetBlockTransactionCountByNumber(d, num)
		prs = append(prs, pr{"GetBlockTransactionCountByNumber", okOrErr(err, render(tU64, cnt)), "", false})
		ts, err := core.GetBlockHeaderTimestampByNumber(d, num)
		prs = append(prs, pr{"GetBlockHeaderTimestampByNumber", okOrErr(err, render(tU64, ts)), "", false})
		bl, err := core.GetBlockHeaderEventsBloomByNumber(d, num)
		prs = append(prs, pr{"GetBlockHeaderEventsBloomByNumber", okOrErr(err, render(tBloomPtr, bl)), "", true})
		if fullErr == nil {
			fieldOr := func(isNil bool, s string) string {
				if isNil {
					return ""
				}
				return "ok " + s
			}
			prs[0].field = fieldOr(full.Hash == nil, render(tFeltPtr, full.Hash))
			prs[1].field = fieldOr(full.GlobalStateRoot == nil, render(tFeltPtr, full.GlobalStateRoot))
			prs[2].field = "ok " + render(tU64, full.TransactionCount)
			prs[3].field = "ok " + render(tU64, full.Timestamp)
			prs[4].field = fieldOr(full.EventsBloom == nil, render(tBloomPtr, full.EventsBloom))
		}
		// was the Timestamp key present and non-null in this variant? (the projection's *uint64
		// distinguishes absence from 0; the full decoder cannot)
		tsPresent := false
		for _, e := range v.es {
			if e.key == "Timestamp" && !(len(e.raw) == 1 && (e.raw[0] == 0xf6 || e.raw[0] == 0xf7)) {
				tsPresent = true
			}
		}
		for i, p := range prs {
			res.Hit("proj-accessor:" + p.acc)
			// model of the partial decoder
			res.Compared(1)
			if out := h.ask("acc " + p.acc + " " + mode + " " + hx(raw)); out != p.got {
				res.Mismatch(lib.Mismatch{Sig: "partial-decoder/" + p.acc + "/" + v.name, Input: clip(hx(raw)), Model: firstDiff(out, p.got), Impl: firstDiff(p.got, out)})
			}
			if fullErr != nil {
				continue // the full decoder rejects the record: nothing to agree with
			}
			switch {
			case p.field == "": // nil in the full result: the projection must report it missing
				if p.got != "err" {
					viol(p.acc, "nil-field-not-reported", "full decoder: field is nil; partial decoder returned "+clip(p.got))
				}
			case i == 3 && !tsPresent:
				if p.got != "err" {
					viol(p.acc, "absent-not-reported", "Timestamp key absent/null; partial decoder returned "+clip(p.got))
				}
			case p.got != p.field:
				viol(p.acc, "differs", fmt.Sprintf("full decoder: %s; partial decoder: %s", clip(p.field), clip(p.got)))
			}
		}
	}
}

func (h *H) projBlob(g *Gen, ci int, mode string) {
	res := h.res
	// a block of 3 transactions / receipts; the middle one is re-shaped
	var txs []core.Transaction
	var rcs []*core.TransactionReceipt
	for j := 0; j < 3; j++ {
		tx := g.Tx(projCfg(3 + ci + j))
		txs = append(txs, tx)
		rcs = append(rcs, g.Receipt(tx, projCfg(3+ci+j)))
	}
	donorTx := g.Tx(projCfg(2))
	donorRc := g.Receipt(donorTx, projCfg(2))
	var txb, rcb [][]byte
	for j := range txs {
		b, err := marshalAs(tTxIface, reflect.ValueOf(txs[j]))
		b2, err2 := encoder.Marshal(rcs[j])
		if err != nil || err2 != nil {
			if err == nil {
				err = err2
			}
			h.marshalFailed("proj", ci, "Transaction/TransactionReceipt", []any{txs[j], rcs[j]}, err)
			return
		}
		txb, rcb = append(txb, b), append(rcb, b2)
	}
	dtb, _ := marshalAs(tTxIface, reflect.ValueOf(donorTx))
	drb, _ := encoder.Marshal(donorRc)
	tag, tes, err := entriesOf(txb[1])
	_, res1, err2 := entriesOf(rcb[1])
	_, dtes, err3 := entriesOf(dtb)
	_, dres, err4 := entriesOf(drb)
	if err != nil || err2 != nil || err3 != nil || err4 != nil {
		res.Fatalf("proj: split items: %v %v %v %v", err, err2, err3, err4)
		return
	}
	put := func(items [][]byte, nt int) (db.KeyValueStore, []byte) {
		var idx core.BlockTransactionsIndexes
		var data []byte
		for j, it := range items {
			if j < nt {
				idx.Transactions = append(idx.Transactions, len(data))
			} else {
				idx.Receipts = append(idx.Receipts, len(data))
			}
			data = append(data, it...)
		}
		hb, _ := encoder.Marshal(idx)
		raw := append(hb, data...)
		d := memory.New()
		_ = d.Put(blobKey(9), raw)
		return newPoisonStore(d), raw
	}
	// --- receipts -----------------------------------------------------------------------------
	for vi, v := range variants(g.R, res1, []string{"Reverted", "RevertReason", "Events", "TransactionHash"}, dres, ci%6 == 1) {
		item := assemble(nil, v.es)
		d, raw := put([][]byte{txb[0], txb[1], txb[2], rcb[0], item, rcb[2]}, 3)
		res.Hit("proj-receipt:" + v.name)
		h.blobWholeProjections("proj", ci, d, raw, mode)
		// the premise of the reset in AllMapped / Iter: the CBOR library decodes INTO what the value
		// already holds (absent key and null leave a scalar field as it was)
		{
			var reused struct {
				Reverted     bool
				RevertReason string
			}
			e1 := encoder.Unmarshal(rcb[0], &reused)
			e2 := encoder.Unmarshal(item, &reused)
			impl := "err"
			if e1 == nil && e2 == nil {
				impl = "ok " + render(reflect.TypeOf(false), reused.Reverted) + " " + render(reflect.TypeOf(""), reused.RevertReason)
			}
			res.Compared(1)
			res.Hit("decode-into-existing-value:" + v.name)
			if out := h.ask("into " + mode + " " + hx(rcb[0]) + " " + hx(item)); out != impl {
				res.Mismatch(lib.Mismatch{Sig: "decode-into-existing-value/" + v.name, Input: clip(hx(item)), Model: firstDiff(out, impl), Impl: firstDiff(impl, out)})
			}
		}
		res.Case("proj-receipt/"+hx(item), true)
		viol := func(acc, kind, detail string) {
			res.Violate(lib.Violation{Sig: "partial-vs-full-" + acc + "-" + kind, What: fmt.Sprintf("%s on a receipt record (%s): %s", acc, v.name, detail),
				Replay: h.spec("proj", ci, map[string]any{"record": "receipt", "variant": v.name, "variant_index": vi, "stored_block_transactions": hx(raw), "receipt_hex": hx(item), "index": 1, "accessor": acc})})
		}
		full, fullErr := core.GetReceiptByBlockAndIndex(d, 9, 1)
		res.Compared(1)
		wantFull := "err"
		if fullErr == nil {
			wantFull = "ok " + render(reflect.TypeOf(&core.TransactionReceipt{}), full)
		}
		if out := h.ask("decv TransactionReceipt " + mode + " " + hx(item)); out != wantFull {
			res.Mismatch(lib.Mismatch{Sig: "full-decoder/TransactionReceipt/" + v.name, Input: clip(hx(item)), Model: firstDiff(out, wantFull), Impl: firstDiff(wantFull, out)})
		}
		st, stErr := core.GetTransactionExecutionStatusByBlockAndIndex(d, 9, 1)
		gotSt := okOrErr(stErr, render(reflect.TypeOf(false), st.Reverted)+" "+render(reflect.TypeOf(""), st.RevertReason))
		res.Compared(1)
		res.Hit("proj-accessor:GetTransactionExecutionStatusByBlockAndIndex")
		if out := h.ask("acc ExecutionStatus " + mode + " " + hx(item)); out != gotSt {
			res.Mismatch(lib.Mismatch{Sig: "partial-decoder/ExecutionStatus/" + v.name, Input: clip(hx(item)), Model: firstDiff(out, gotSt), Impl: firstDiff(gotSt, out)})
		}
		evs, evErr := core.GetTransactionEventsByBlockNumber(d, 9)
		gotEv := "err"
		if evErr == nil && len(evs) == 3 {
			gotEv = "ok " + render(reflect.TypeOf([]*core.Event{}), evs[1].Events) + " " + render(tFeltPtr, evs[1].TransactionHash)
		}
		res.Compared(1)
		res.Hit("proj-accessor:GetTransactionEventsByBlockNumber")
		if out := h.ask("acc TransactionEvents " + mode + " " + hx(item)); out != gotEv {
			res.Mismatch(lib.Mismatch{Sig: "partial-decoder/TransactionEvents/" + v.name, Input: clip(hx(item)), Model: firstDiff(out, gotEv), Impl: firstDiff(gotEv, out)})
		}
		if fullErr == nil && full != nil {
			wantSt := "ok " + render(reflect.TypeOf(false), full.Reverted) + " " + render(reflect.TypeOf(""), full.RevertReason)
			if gotSt != wantSt {
				viol("core.GetTransactionExecutionStatusByBlockAndIndex", "differs", fmt.Sprintf("full decoder: %s; partial decoder: %s", clip(wantSt), clip(gotSt)))
			}
			wantEv := "ok " + render(reflect.TypeOf([]*core.Event{}), full.Events) + " " + render(tFeltPtr, full.TransactionHash)
			if gotEv != wantEv {
				viol("core.GetTransactionEventsByBlockNumber", "differs", fmt.Sprintf("full decoder: %s; partial decoder: %s", clip(wantEv), clip(gotEv)))
			}
			// neighbours are untouched by the re-shaped middle record
			for _, j := range []int{0, 2} {
				if evErr != nil || len(evs) != 3 {
					break
				}
				if d := Diff(core.TransactionEvents{Events: rcs[j].Events, TransactionHash: rcs[j].TransactionHash}, evs[j]); d != "" {
					viol("core.GetTransactionEventsByBlockNumber", "neighbour", "neighbouring receipt changed at "+d)
				}
			}
		}
	}
	// --- transactions ---------------------------------------------------------------------------
	for vi, v := range variants(g.R, tes, []string{"TransactionHash"}, dtes, ci%6 == 2) {
		item := assemble(tag, v.es)
		d, raw := put([][]byte{txb[0], item, txb[2], rcb[0], rcb[1], rcb[2]}, 3)
		res.Hit("proj-tx:" + v.name)
		h.blobWholeProjections("proj", ci, d, raw, mode)
		res.Case("proj-tx/"+hx(item), true)
		viol := func(acc, kind, detail string) {
			res.Violate(lib.Violation{Sig: "partial-vs-full-" + acc + "-" + kind, What: fmt.Sprintf("%s on a transaction record (%s): %s", acc, v.name, detail),
				Replay: h.spec("proj", ci, map[string]any{"record": "transaction", "variant": v.name, "variant_index": vi, "stored_block_transactions": hx(raw), "transaction_hex": hx(item), "index": 1, "accessor": acc})})
		}
		full, fullErr := core.GetTransactionByBlockAndIndex(d, 9, 1)
		res.Compared(1)
		wantFull := "err"
		if fullErr == nil {
			p := reflect.New(tTxIface)
			p.Elem().Set(reflect.ValueOf(full))
			s, _ := RenderString(tTxIface, p.Elem(), false)
			wantFull = "ok " + s
		}
		if out := h.ask("decv Transaction " + mode + " " + hx(item)); out != wantFull {
			res.Mismatch(lib.Mismatch{Sig: "full-decoder/Transaction/" + v.name, Input: clip(hx(item)), Model: firstDiff(out, wantFull), Impl: firstDiff(wantFull, out)})
		}
		hashes, hErr := core.GetTransactionHashesByBlockNumber(d, 9)
		// per record: the model answers for the re-shaped item; the real accessor fails as a whole
		// when one hash is missing
		gotH := "err"
		if hErr == nil && len(hashes) == 3 {
			gotH = "ok " + render(tFelt, hashes[1])
		}
		res.Compared(1)
		res.Hit("proj-accessor:GetTransactionHashesByBlockNumber")
		if out := h.ask("acc TransactionHash " + mode + " " + hx(item)); out != gotH {
			res.Mismatch(lib.Mismatch{Sig: "partial-decoder/TransactionHash/" + v.name, Input: clip(hx(item)), Model: firstDiff(out, gotH), Impl: firstDiff(gotH, out)})
		}
		if fullErr == nil {
			fh := full.Hash()
			switch {
			case fh == nil || fh.IsZero():
				if gotH != "err" {
					viol("core.GetTransactionHashesByBlockNumber", "nil-field-not-reported", "full decoder: hash nil/zero; partial decoder returned "+gotH)
				}
			case gotH != "ok "+render(tFelt, *fh):
				viol("core.GetTransactionHashesByBlockNumber", "differs", fmt.Sprintf("full decoder: %s; partial decoder: %s", render(tFelt, *fh), gotH))
			}
			if hErr == nil && len(hashes) == 3 && (hashes[0] != *txs[0].Hash() || hashes[2] != *txs[2].Hash()) {
				viol("core.GetTransactionHashesByBlockNumber", "neighbour", "neighbouring transaction hash changed")
			}
		}
	}
}
