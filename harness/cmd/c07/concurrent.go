//go:build verif

package main

// Round 5, phase "concurrent": the accessors and codecs under overlapping goroutines, with the
// SEQUENTIAL oracle per actor. The node reads block records from many RPC handlers while the
// synchroniser stores blocks, and the block-transactions migration encodes blobs from four ingestors
// at once; a scratch buffer, memo or pooled value shared between calls (package-level buffer in a
// serializer, a reused projection value, a cached key slice) is right in every single-threaded test
// and wrong only when two calls overlap.
//
//   * G actors share ONE store and one blockchain.Reader. Each owns records at its own heights /
//     hashes (edge heights included). Its expected results are computed BEFORE any goroutine starts
//     (stored bytes of every piece).
//   * behind a start barrier every actor, in rounds: writes its records (own Update each), reads
//     each back through every accessor (ReadBack, sigs `readback-concurrent-…`), and runs the codecs
//     directly: encoder.Marshal of header / state update / commitments, NewBlockTransactions +
//     serializer, every partial decoder on the stored blob — all compared with the sequential bytes /
//     values.
//   * nothing depends on timing: every comparison is against what the SAME actor stored.
//
// The thorough tier runs this phase (and "oldlayout") a second time in a child built with -race.

import (
	"bytes"
	"fmt"
	"reflect"
	"sync"

	"github.com/NethermindEth/juno/blockchain"
	"github.com/NethermindEth/juno/core"
	"github.com/NethermindEth/juno/core/felt"
	"github.com/NethermindEth/juno/encoder"
	"verif/harness/lib"
)

func (h *H) phaseConcurrent(shard, shards int) {
	kinds := []string{"memory", "pebble-mem"}
	if h.f.Thorough() {
		kinds = append(kinds, "pebble-disk", "memory")
	}
	for ci, kind := range kinds {
		if ci%shards != shard || !h.want("concurrent", ci) {
			continue
		}
		h.concurrentCase(ci, kind)
	}
}

type actorPlan struct {
	id   int
	recs []*Rec
	sbs  []*storedBytes
}

func (h *H) concurrentCase(ci int, kind string) {
	res := h.res
	be, err := h.openBackend(kind, fmt.Sprintf("concurrent%d", ci))
	if err != nil {
		res.Fatalf("open %s: %v", kind, err)
		return
	}
	defer func() { be.close() }()
	d := be.store
	bc := blockchain.New(d, lib.TestNetwork())
	actors := h.f.Scale(8, 16)
	perActor := 3
	rounds := h.f.Scale(5, 12)
	codecIters := h.f.Scale(200, 2000)

	// ---- sequential: every actor's records and the bytes they must be stored as -------------------
	var plans []*actorPlan
	for a := 0; a < actors; a++ {
		g := &Gen{R: h.rng("concurrent", ci).Fork(uint64(a)), rawLimbs: true, seq: uint64(a) << 20}
		p := &actorPlan{id: a}
		heights := []uint64{uint64(a), 256 + uint64(a), 1<<32 + uint64(a), 65536 + uint64(a), 1<<63 + uint64(a)}
		for j := 0; j < perActor; j++ {
			rec := h.genRec(g, 4+(a+j)%6, heights[(j+a)%len(heights)])
			rec.Classes, rec.Casm = nil, nil
			if len(rec.Rcs) != len(rec.Txs) {
				rec.Rcs = rec.Rcs[:min(len(rec.Rcs), len(rec.Txs))]
				for len(rec.Rcs) < len(rec.Txs) {
					rec.Rcs = append(rec.Rcs, g.Receipt(rec.Txs[len(rec.Rcs)], Cfg(5, false)))
				}
			}
			sb, err := encodeRec(rec)
			if err != nil {
				h.marshalFailed("concurrent", ci, "record", rec.Header.Number, err)
				return
			}
			p.recs, p.sbs = append(p.recs, rec), append(p.sbs, sb)
			res.Case(fmt.Sprintf("concurrent/%d/%d/%d/%s", ci, a, j, hx(sb.blob)), len(rec.Txs) > 0)
		}
		plans = append(plans, p)
	}

	// ---- concurrent --------------------------------------------------------------------------------
	start := make(chan struct{})
	var wg sync.WaitGroup
	viol := func(sig, what string, a, j int) {
		res.Violate(lib.Violation{Sig: sig, What: what, Replay: h.spec("concurrent", ci, map[string]any{
			"backend": be.name, "actor": a, "record": j, "actors": actors,
			"note": "re-run the case: every actor's expectation is what it stored itself (sequential oracle per actor)"})})
	}
	for _, p := range plans {
		wg.Add(1)
		go func() {
			defer wg.Done()
			<-start
			err, panicked, stack := lib.Try(func() error {
				for r := 0; r < rounds; r++ {
					for j, rec := range p.recs {
						if err := WriteRec(d, rec); err != nil {
							viol("concurrent-write-fails", err.Error(), p.id, j)
							return nil
						}
						c := &Checker{res: res, backend: be.name + "(concurrent)", sigTag: "concurrent-", replay: func(accessor, detail string) any {
							dd := recSummary(rec)
							dd["accessor"], dd["detail"], dd["actor"], dd["actors"] = accessor, detail, p.id, actors
							return h.spec("concurrent", ci, dd)
						}}
						ReadBack(c, d, bc, rec, false)
						res.Hit("concurrent:readback")
					}
					h.concurrentCodecs(p, codecIters/rounds+1, viol)
				}
				return nil
			})
			if panicked {
				viol("concurrent-panic", fmt.Sprintf("%v\n%s", err, stack), p.id, -1)
			}
		}()
	}
	close(start)
	if !lib.WithDeadline(migrationDeadline, func() { wg.Wait() }) {
		res.Violate(lib.Violation{Sig: "concurrent-accessors-do-not-terminate", What: fmt.Sprintf("%d actors on %s did not finish within %s", actors, be.name, migrationDeadline),
			Replay: h.spec("concurrent", ci, nil)})
		be.close = func() {}
		return
	}
	res.Hit("concurrent:backend/" + be.name)
	// ---- afterwards, sequentially: everything every actor stored is there -------------------------
	for _, p := range plans {
		for _, rec := range p.recs {
			c := &Checker{res: res, backend: be.name + "(after the concurrent run)", sigTag: "after-concurrent-run-", replay: func(accessor, detail string) any {
				dd := recSummary(rec)
				dd["accessor"], dd["detail"], dd["actor"] = accessor, detail, p.id
				return h.spec("concurrent", ci, dd)
			}}
			ReadBack(c, d, bc, rec, false)
		}
	}
}

// concurrentCodecs: the codecs called directly, compared with the bytes / values computed before the
// goroutines started.
func (h *H) concurrentCodecs(p *actorPlan, iters int, viol func(sig, what string, a, j int)) {
	res := h.res
	for it := 0; it < iters; it++ {
		j := it % len(p.recs)
		rec, sb := p.recs[j], p.sbs[j]
		check := func(typ string, got []byte, err error, want []byte) {
			res.Hit("concurrent:encode/" + typ)
			if err != nil {
				viol("concurrent-encode-fails-"+typ, err.Error(), p.id, j)
			} else if !bytes.Equal(got, want) {
				viol("concurrent-encode-differs-from-sequential-"+typ,
					fmt.Sprintf("%s of actor %d encoded under concurrency differs from its sequential encoding (%d vs %d bytes, first difference %s)",
						typ, p.id, len(got), len(want), firstDiff(hx(got), hx(want))), p.id, j)
			}
		}
		b, err := encoder.Marshal(rec.Header)
		check("Header", b, err, sb.hdr)
		b, err = encoder.Marshal(rec.SU)
		check("StateUpdate", b, err, sb.su)
		b, err = encoder.Marshal(rec.Comm)
		check("BlockCommitments", b, err, sb.comm)
		bt, err := core.NewBlockTransactions(rec.Txs, rec.Rcs)
		if err == nil {
			b, err = core.BlockTransactionsSerializer{}.Marshal(&bt)
		}
		check("BlockTransactions", b, err, sb.blob)
		// the partial decoders on the stored blob
		dec := func(name string, f func() (any, error), want any) {
			res.Hit("concurrent:decode/" + name)
			got, err := f()
			if err != nil {
				viol("concurrent-decode-fails-"+name, err.Error(), p.id, j)
			} else if dd := Diff(want, got); dd != "" {
				viol("concurrent-decode-differs-from-stored-"+name, fmt.Sprintf("%s of actor %d differs at %s", name, p.id, dd), p.id, j)
			}
		}
		dec("AllTransactions", func() (any, error) {
			var out []core.Transaction
			err := core.BlockTransactionsAllTransactionsPartialSerializer.UnmarshalPartial(struct{}{}, sb.blob, &out)
			return normTxs(out), err
		}, normTxs(rec.Txs))
		dec("AllReceipts", func() (any, error) {
			var out []*core.TransactionReceipt
			err := core.BlockTransactionsAllReceiptsPartialSerializer.UnmarshalPartial(struct{}{}, sb.blob, &out)
			return normRcs(out), err
		}, normRcs(rec.Rcs))
		wantHashes := make([]felt.Felt, len(rec.Txs))
		for k, tx := range rec.Txs {
			wantHashes[k] = *tx.Hash()
		}
		dec("AllTransactionHashes", func() (any, error) {
			var out []felt.Felt
			err := core.BlockTransactionsAllTransactionHashesPartialSerializer.UnmarshalPartial(struct{}{}, sb.blob, &out)
			if len(out) == 0 {
				out = []felt.Felt{}
			}
			return out, err
		}, wantHashes)
		wantEvents := make([]core.TransactionEvents, len(rec.Rcs))
		for k, rc := range rec.Rcs {
			wantEvents[k] = core.TransactionEvents{Events: rc.Events, TransactionHash: rc.TransactionHash}
		}
		dec("AllTransactionEvents", func() (any, error) {
			var out []core.TransactionEvents
			err := core.BlockTransactionsAllTransactionEventsPartialSerializer.UnmarshalPartial(struct{}{}, sb.blob, &out)
			if len(out) == 0 {
				out = []core.TransactionEvents{}
			}
			return out, err
		}, wantEvents)
		if n := len(rec.Rcs); n > 0 {
			k := it % n
			dec("ExecutionStatus", func() (any, error) {
				var out core.TransactionExecutionStatus
				err := core.BlockTransactionsExecutionStatusPartialSerializer.UnmarshalPartial(k, sb.blob, &out)
				return out, err
			}, core.TransactionExecutionStatus{Reverted: rec.Rcs[k].Reverted, RevertReason: rec.Rcs[k].RevertReason})
		}
		var hd *core.Header
		err = encoder.Unmarshal(sb.hdr, &hd)
		dec("Header", func() (any, error) { return hd, err }, rec.Header)
	}
}

var _ = reflect.TypeOf
