//go:build verif

package main

import (
	"fmt"
	"reflect"
	"unicode/utf8"

	"github.com/NethermindEth/juno/core"
	"github.com/NethermindEth/juno/core/felt"
	"github.com/NethermindEth/juno/db"
	"github.com/NethermindEth/juno/encoder"
	"verif/harness/lib"
)

// ---------------------------------------------------------------------------------------------
// Phase "binary": the fixed-layout codecs and database keys against the model (ModelBin.lean):
// key of a block number in the 8-byte-BE buckets and in the CBOR-keyed block-transactions bucket,
// BlockNumIndexKey, the DeclaredClassDefinition wrapper, ClassCasmHashMetadata in its four shapes.
// Also the exhaustive small spaces: every string of at most two bytes for the UTF-8 predicate.
// ---------------------------------------------------------------------------------------------

func (h *H) phaseBinary() {
	if h.only != nil {
		return
	}
	res := h.res
	g := &Gen{R: h.rng("binary", 0), rawLimbs: true}
	cmp := func(sig, line, want string) {
		res.Compared(1)
		if out := h.ask(line); out != want {
			res.Mismatch(lib.Mismatch{Sig: "binary/" + sig, Input: clip(line), Model: clip(out), Impl: clip(want)})
		}
	}
	nums := append([]uint64{}, edgeU64...)
	for i := 0; i < h.f.Scale(40, 2000); i++ {
		nums = append(nums, g.u64())
	}
	for _, n := range nums {
		res.Hit("binary:keys")
		cmp("key-header", fmt.Sprintf("key num %d %d", byte(db.BlockHeadersByNumber), n), "ok "+hx(db.BlockHeaderByNumberKey(n)))
		cmp("key-state-update", fmt.Sprintf("key num %d %d", byte(db.StateUpdatesByBlockNumber), n), "ok "+hx(db.StateUpdateByBlockNumKey(n)))
		cmp("key-commitments", fmt.Sprintf("key num %d %d", byte(db.BlockCommitments), n), "ok "+hx(db.BlockCommitmentsKey(n)))
		cmp("key-block-transactions", fmt.Sprintf("key bt %d", n), "ok "+hx(blobKey(n)))
		i := g.u64()
		k := db.BlockNumIndexKey{Number: n, Index: i}
		cmp("numidx", fmt.Sprintf("numidx %d %d", n, i), "ok "+hx(k.Marshal()))
		var back db.BlockNumIndexKey
		if err := back.UnmarshalBinary(k.Marshal()); err != nil || back != k {
			res.Violate(lib.Violation{Sig: "roundtrip-BlockNumIndexKey", What: fmt.Sprintf("%+v read back as %+v (err=%v)", k, back, err),
				Replay: h.spec("binary", 0, map[string]any{"number": n, "index": i})})
		}
	}
	// declared class wrapper
	for i := 0; i < h.f.Scale(20, 300); i++ {
		cls := g.Value(tClsIface, Cfg(i, false)).Interface().(core.ClassDefinition)
		at := g.u64()
		inner, err := marshalAs(tClsIface, reflect.ValueOf(cls))
		stored, err2 := encoder.Marshal(&core.DeclaredClassDefinition{At: at, Class: cls})
		if err != nil || err2 != nil {
			h.marshalFailed("binary", i, "DeclaredClassDefinition", cls, fmt.Errorf("%v %v", err, err2))
			continue
		}
		res.Hit("binary:declared-class")
		cmp("declared-class", fmt.Sprintf("declared %d %s", at, hx(inner)), "ok "+hx(stored))
	}
	// CASM hash metadata, four shapes
	for i := 0; i < h.f.Scale(40, 1000); i++ {
		v1f, v2f := g.felt(), g.felt()
		v1, v2 := felt.CasmClassHash(v1f), felt.CasmClassHash(v2f)
		at := g.u64() >> 1
		var md core.ClassCasmHashMetadata
		mig := uint64(0)
		v1hex := "n"
		switch i % 4 {
		case 0:
			md = core.NewCasmHashMetadataDeclaredV2(at, &v2)
		case 1:
			md = core.NewCasmHashMetadataDeclaredV1(at, &v1, &v2)
			v1hex = hx(v1f.Marshal())
		default:
			md = core.NewCasmHashMetadataDeclaredV1(at, &v1, &v2)
			v1hex = hx(v1f.Marshal())
			mig = at + 1 + g.u64()>>2
			if err := md.Migrate(mig); err != nil {
				mig = 0
			}
		}
		res.Hit(fmt.Sprintf("binary:casm-metadata/shape%d", i%4))
		b, err := md.MarshalBinary()
		if err != nil {
			h.marshalFailed("binary", i, "ClassCasmHashMetadata", md, err)
			continue
		}
		cmp("casm-marshal", fmt.Sprintf("casm %d %s %d %s", at, hx(v2f.Marshal()), mig, v1hex), "ok "+hx(b))
		cmp("casm-unmarshal", "uncasm "+hx(b), fmt.Sprintf("ok %d %s %d %s", at, hx(v2f.Marshal()), mig, v1hex))
		var back core.ClassCasmHashMetadata
		if err := back.UnmarshalBinary(b); err != nil || !reflect.DeepEqual(back, md) {
			res.Violate(lib.Violation{Sig: "roundtrip-ClassCasmHashMetadata", What: fmt.Sprintf("%+v read back as %+v (err=%v)", md, back, err),
				Replay: h.spec("binary", 0, map[string]any{"hex": hx(b), "shape": i % 4})})
		}
	}
	// UTF-8 predicate: exhaustive over all strings of at most two bytes
	var cases [][]byte
	cases = append(cases, []byte{})
	for a := 0; a < 256; a++ {
		cases = append(cases, []byte{byte(a)})
		for b := 0; b < 256; b++ {
			cases = append(cases, []byte{byte(a), byte(b)})
		}
	}
	lines := make([]string, len(cases))
	for i, c := range cases {
		lines[i] = "utf8 " + hx(c)
	}
	if h.drv != nil {
		var outs []string
		var err error
		drv := h.drv
		if !lib.WithDeadline(askDeadline, func() { outs, err = drv.AskAll(lines) }) {
			err = fmt.Errorf("no answer within %s", askDeadline)
			h.hung = true
		}
		if err != nil {
			res.Fatalf("driver: %v", err)
			h.drv = nil
			return
		}
		res.Compared(len(outs))
		res.HitN("utf8-predicate(exhaustive<=2 bytes)", len(outs))
		for i, o := range outs {
			if o != fmt.Sprint(utf8.Valid(cases[i])) {
				res.Mismatch(lib.Mismatch{Sig: "utf8-valid", Input: hx(cases[i]), Model: o, Impl: fmt.Sprint(utf8.Valid(cases[i]))})
			}
		}
	}
}
