//go:build verif

// Harness for C07: everything stored for a block is returned unchanged by every accessor; the
// partial decoders agree with the full decoder; encode-then-decode is the identity.
//
// It drives the real juno packages (encoder, core accessors, blockchain.Reader, db/memory,
// db/pebblev2) and the Lean model (c07drv) on the same generated inputs.
package main

import (
	"encoding/hex"
	"encoding/json"
	"fmt"
	"os"
	"reflect"
	"strings"
	"sync"
	"time"

	"github.com/NethermindEth/juno/core"
	"github.com/NethermindEth/juno/core/felt"
	"github.com/NethermindEth/juno/db"
	"github.com/NethermindEth/juno/encoder"
	_ "github.com/NethermindEth/juno/encoder/registry"
	"verif/harness/lib"
)

func hx(b []byte) string {
	if len(b) == 0 {
		return "-"
	}
	return hex.EncodeToString(b)
}

// replaySpec identifies one generated case: generation is a pure function of (seed, phase, case).
type replaySpec struct {
	Phase  string `json:"phase"`
	Case   int    `json:"case"`
	Seed   uint64 `json:"seed"`
	Tier   string `json:"tier"`
	Detail any    `json:"detail,omitempty"`
}

type replayFile struct {
	Replay replaySpec `json:"replay"`
}

// askDeadline bounds one request to the model driver (the largest legitimate request, a 650 KB
// item, takes a few seconds).
const askDeadline = 180 * time.Second

type H struct {
	hung   bool // the driver stopped answering: do not wait for it on shutdown
	f      lib.Flags
	res    *lib.Result
	drv    *lib.Driver
	root   *lib.RNG
	only   *replaySpec // when replaying: run just this case
	tmpDir string
}

func (h *H) want(phase string, i int) bool {
	return h.only == nil || (h.only.Phase == phase && h.only.Case == i)
}

func (h *H) rng(phase string, i int) *lib.RNG {
	var p uint64
	for _, c := range []byte(phase) {
		p = p*131 + uint64(c)
	}
	return h.root.Fork(p).Fork(uint64(i))
}

func (h *H) spec(phase string, i int, detail any) replaySpec {
	return replaySpec{Phase: phase, Case: i, Seed: h.f.Seed, Tier: h.f.Tier, Detail: detail}
}

func (h *H) ask(line string) string {
	if h.drv == nil {
		h.res.Fatalf("model driver not available for request %q", clip(line)[:min(len(line), 40)])
		return "no-driver"
	}
	type ans struct {
		out string
		err error
	}
	ch := make(chan ans, 1)
	drv := h.drv
	if os.Getenv("C07_TRACE") != "" {
		t0 := time.Now()
		defer func() {
			if d := time.Since(t0); d > 300*time.Millisecond {
				fmt.Fprintf(os.Stderr, "slow ask %.1fs: %s (%d bytes)\n", d.Seconds(), line[:min(len(line), 40)], len(line))
			}
		}()
	}
	go func() {
		o, e := drv.Ask(line)
		ch <- ans{o, e}
	}()
	var out string
	var err error
	select {
	case a := <-ch:
		out, err = a.out, a.err
	case <-time.After(askDeadline):
		// a driver that neither answers nor dies: give it up (the reader goroutine is abandoned)
		h.res.Fatalf("model driver did not answer within %s", askDeadline)
		h.drv, h.hung = nil, true
		return "driver-timeout"
	}
	if err != nil {
		h.res.Fatalf("model driver died: %v", err)
		h.drv = nil
		return "driver-error"
	}
	if out == "bad-op" {
		h.res.Fatalf("model driver answered bad-op to %q", clip(line)[:min(len(line), 60)])
	}
	return out
}

func main() {
	if os.Getenv("C07_DUMP_GOLDEN") != "" {
		dumpGolden()
		return
	}
	if os.Getenv("C07_DUMP_TABLES") != "" {
		// developer aid: print the Lean type tables derived from the real Go types
		for _, st := range typedTables() {
			fmt.Printf("def t%s : GoType :=\n  %s\n\n", st.name, leanType(st.t))
		}
		return
	}
	f := lib.ParseFlags()
	res := lib.NewResult("a case = one generated value / block record / chain block pushed through encode, store and every " +
		"accessor; non-trivial = distinct (kind, encoded bytes) with at least one populated container or non-zero field")
	h := &H{f: f, res: res, root: lib.NewRNG(f.Seed)}
	if f.Replay != "" {
		b, err := os.ReadFile(f.Replay)
		var rf replayFile
		if err == nil {
			err = json.Unmarshal(b, &rf)
		}
		if err != nil || rf.Replay.Phase == "" {
			res.Fatalf("cannot read replay %s: %v", f.Replay, err)
			lib.Finish(f, res)
		}
		h.only = &rf.Replay
		h.root = lib.NewRNG(rf.Replay.Seed)
		h.f.Seed = rf.Replay.Seed
		h.f.Tier = rf.Replay.Tier
	}
	dir, err := os.MkdirTemp("", "c07-*")
	if err == nil {
		h.tmpDir = dir
		defer os.RemoveAll(dir)
	}

	allowBadUTF8 = h.decoderMode() == "lenient"
	// independent phases (and shards of the big ones) run concurrently, each with its own Lean
	// driver process; every case derives its RNG from (seed, phase, case), so the split does not
	// change what is generated
	type task struct {
		name string
		run  func(h *H)
	}
	var tasks []task
	tasks = append(tasks, task{"typed", func(h *H) { h.phaseTyped() }}, task{"projection-tables", func(h *H) { h.phaseProjTables() }},
		task{"binary", func(h *H) { h.phaseBinary() }}, task{"golden", func(h *H) { h.phaseGolden() }})
	for sh := 0; sh < 6; sh++ {
		tasks = append(tasks, task{fmt.Sprintf("proj/%d", sh), func(h *H) { h.phaseProj(sh, 6) }})
	}
	tasks = append(tasks, task{"codec", func(h *H) { h.phaseCodec() }})
	for sh := 0; sh < 3; sh++ {
		tasks = append(tasks, task{fmt.Sprintf("blob/%d", sh), func(h *H) { h.phaseBlob(sh, 3) }})
	}
	for sh := 0; sh < 3; sh++ {
		tasks = append(tasks, task{fmt.Sprintf("records/%d", sh), func(h *H) { h.phaseRecords(sh, 3) }})
	}
	for sh := 0; sh < 2; sh++ {
		tasks = append(tasks, task{fmt.Sprintf("chain/%d", sh), func(h *H) { h.phaseChain(sh, 2) }})
	}
	for sh := 0; sh < 4; sh++ {
		tasks = append(tasks, task{fmt.Sprintf("produce/%d", sh), func(h *H) { h.phaseProduce(sh, 4) }})
	}
	for sh := 0; sh < 2; sh++ {
		tasks = append(tasks, task{fmt.Sprintf("store/%d", sh), func(h *H) { h.phaseStore(sh, 2) }})
	}
	for sh := 0; sh < 2; sh++ {
		tasks = append(tasks, task{fmt.Sprintf("storerec/%d", sh), func(h *H) { h.phaseStoreRec(sh, 2) }})
	}
	for sh := 0; sh < 2; sh++ {
		tasks = append(tasks, task{fmt.Sprintf("rewriters/%d", sh), func(h *H) { h.phaseRewriters(sh, 2) }})
	}
	for sh := 0; sh < 4; sh++ {
		tasks = append(tasks, task{fmt.Sprintf("oldlayout/%d", sh), func(h *H) { h.phaseOldLayout(sh, 4) }})
	}
	for sh := 0; sh < 2; sh++ {
		tasks = append(tasks, task{fmt.Sprintf("concurrent/%d", sh), func(h *H) { h.phaseConcurrent(sh, 2) }})
	}
	for sh := 0; sh < 3; sh++ {
		tasks = append(tasks, task{fmt.Sprintf("casm/%d", sh), func(h *H) { h.phaseCasm(sh, 3) }})
	}
	tasks = append(tasks,
		task{"utf8", func(h *H) { h.phaseUTF8() }}, task{"limits/0", func(h *H) { h.phaseLimits(0, 14) }})
	for sh := 1; sh < 14; sh++ {
		tasks = append(tasks, task{fmt.Sprintf("limits/%d", sh), func(h *H) { h.phaseLimits(sh, 14) }})
	}
	var mu sync.Mutex
	timings := map[string]float64{}
	var wg sync.WaitGroup
	sem := make(chan struct{}, 24)
	// C07_ONLY=phase,phase… restricts the run to those phases (developer aid; the -race twin of the
	// thorough tier uses it): the fixed-size tie checks below are skipped then
	onlyPhases := map[string]bool{}
	for _, p := range strings.Split(os.Getenv("C07_ONLY"), ",") {
		if p != "" {
			onlyPhases[p] = true
		}
	}
	if len(onlyPhases) > 0 {
		var keep []task
		for _, tk := range tasks {
			if onlyPhases[strings.SplitN(tk.name, "/", 2)[0]] {
				keep = append(keep, tk)
			}
		}
		tasks = keep
	}
	for _, tk := range tasks {
		wg.Add(1)
		go func() {
			defer wg.Done()
			sem <- struct{}{}
			defer func() { <-sem }()
			hh := *h
			drv, err := lib.StartDriver(f.Driver)
			if err != nil {
				res.Fatalf("driver: %v", err)
			} else {
				hh.drv = drv
				defer func() {
					if !hh.hung {
						drv.Close()
					}
				}()
			}
			t0 := time.Now()
			if err, panicked, stack := lib.Try(func() error { tk.run(&hh); return nil }); panicked {
				res.Fatalf("harness task %s panicked: %v\n%s", tk.name, err, stack)
				res.Mismatch(lib.Mismatch{Sig: "harness-panic/" + tk.name, Model: "", Impl: err.Error()})
			}
			mu.Lock()
			timings[tk.name] = float64(time.Since(t0).Milliseconds()) / 1000
			mu.Unlock()
		}()
	}
	wg.Wait()
	res.SetExtra("phase_seconds", timings)
	if f.Thorough() && os.Getenv("C07_CHILD") == "" && h.only == nil && len(onlyPhases) == 0 {
		runRaceChild(f, res)
	}
	if h.only == nil && len(onlyPhases) == 0 {
		// ties must not silently disappear: minimum hit counts of the comparisons that have a fixed size
		need := map[string]int{"projection-table:compared": 9, "decoder-utf8-mode:" + h.decoderMode(): 1}
		for _, a := range []string{"GetBlockHeaderHashByNumber", "GetGlobalStateRootByBlockNumber", "GetBlockTransactionCountByNumber",
			"GetBlockHeaderTimestampByNumber", "GetBlockHeaderEventsBloomByNumber", "GetTransactionExecutionStatusByBlockAndIndex",
			"GetTransactionEventsByBlockNumber", "GetTransactionHashesByBlockNumber"} {
			need["proj-accessor:"+a] = 1
		}
		for _, k := range []string{"casm:method-sequences", "casm:chain-block/declares-v1", "casm:chain-block/declares-v2", "casm:chain-block/migrates",
			"casm:chain-revert/migrating-block", "casm:chain-revert/declaring-block", "casm:chain-read/historical"} {
			need[k] = 1
		}
		for _, gr := range golden {
			need["golden:"+gr.name] = 1
		}
		for _, st := range typedTables() {
			need["typed:"+st.name] = 1
		}
		for k, n := range need {
			if res.Distribution[k] < n {
				res.Fatalf("tie lost: %q was hit %d times, expected at least %d", k, res.Distribution[k], n)
			}
		}
		h.accessorCensus()
		if len(golden) != 12 {
			res.Fatalf("golden corpus has %d records, expected 12", len(golden))
		}
	}

	if h.tmpDir != "" {
		os.RemoveAll(h.tmpDir)
	}
	lib.Finish(f, res)
}

// ---------------------------------------------------------------------------------------------
// Phase "codec": every storable type, encode -> (real decode == value) and (Lean decode,
// re-encode == bytes).
// ---------------------------------------------------------------------------------------------

type storable struct {
	name string
	t    reflect.Type // the type handed to encoder.Marshal / Unmarshal (as stored)
}

func storables() []storable {
	return []storable{
		{"Header", reflect.TypeOf(&core.Header{})},
		{"Transaction", tTxIface},
		{"TransactionReceipt", reflect.TypeOf(&core.TransactionReceipt{})},
		{"StateUpdate", reflect.TypeOf(&core.StateUpdate{})},
		{"BlockCommitments", reflect.TypeOf(&core.BlockCommitments{})},
		{"ClassDefinition", tClsIface},
		{"DeclaredClassDefinition", reflect.TypeOf(&core.DeclaredClassDefinition{})},
		{"L1Head", reflect.TypeOf(&core.L1Head{})},
		{"BlockTransactionsIndexes", reflect.TypeOf(core.BlockTransactionsIndexes{})},
		{"Event", reflect.TypeOf(&core.Event{})},
		{"ExecutionResources", reflect.TypeOf(&core.ExecutionResources{})},
		{"StateDiff", reflect.TypeOf(&core.StateDiff{})},
		{"uint64", reflect.TypeOf(uint64(0))},
		{"Felt", reflect.TypeOf(&felt.Felt{})},
		{"[]Felt", reflect.TypeOf([]felt.Felt{})},
		{"felt.Slice", tFeltSlice},
		{"string", reflect.TypeOf("")},
	}
}

// marshalIface encodes v as a value of static type t (interface types need the interface-typed
// variable so that the registered tag is written, exactly as the blob writer does).
func marshalAs(t reflect.Type, v reflect.Value) ([]byte, error) {
	if t.Kind() == reflect.Interface {
		p := reflect.New(t)
		p.Elem().Set(v)
		return encoder.Marshal(p.Elem().Interface())
	}
	return encoder.Marshal(v.Interface())
}

func unmarshalAs(t reflect.Type, b []byte) (reflect.Value, error) {
	p := reflect.New(t)
	err := encoder.Unmarshal(b, p.Interface())
	return p.Elem(), err
}

func describe(v any) string {
	s := fmt.Sprintf("%+v", v)
	if len(s) > 600 {
		s = s[:600] + "…"
	}
	return s
}

func (h *H) phaseCodec() {
	per := h.f.Scale(60, 1500)
	for si, st := range storables() {
		for i := 0; i < per; i++ {
			ci := si*100000 + i
			if !h.want("codec", ci) {
				continue
			}
			g := &Gen{R: h.rng("codec", ci), rawLimbs: true}
			v := g.Value(st.t, Cfg(i, false))
			h.codecCase(st, ci, v)
		}
	}
}

func (h *H) codecCase(st storable, ci int, v reflect.Value) {
	res := h.res
	var enc []byte
	err, panicked, _ := lib.Try(func() error {
		var e error
		enc, e = marshalAs(st.t, v)
		return e
	})
	if err != nil {
		sig := "marshal-fails-" + st.name
		if panicked {
			sig = "marshal-panics-" + st.name
		}
		res.Violate(lib.Violation{Sig: sig, What: fmt.Sprintf("encoder.Marshal(%s) failed: %v", st.name, err),
			Replay: h.spec("codec", ci, map[string]any{"type": st.name, "value": describe(v.Interface())})})
		return
	}
	res.Case(st.name+"/"+hx(enc), len(enc) > 8)
	res.Hit("codec:" + st.name)
	res.Sample(6, map[string]any{"phase": "codec", "type": st.name, "bytes": len(enc), "hex_prefix": hx(enc[:min(len(enc), 48)])})
	// (1) the real decoder gives the value back
	var back reflect.Value
	err, panicked, _ = lib.Try(func() error {
		var e error
		back, e = unmarshalAs(st.t, enc)
		return e
	})
	if err != nil {
		sig := "roundtrip-" + st.name + "-decode-error-" + errClass(err)
		if panicked {
			sig = "roundtrip-" + st.name + "-decode-panics"
		}
		res.Violate(lib.Violation{Sig: sig, What: fmt.Sprintf("encoder.Unmarshal of encoder.Marshal(%s) failed: %v", st.name, err),
			Replay: h.spec("codec", ci, map[string]any{"type": st.name, "hex": hx(enc), "value": describe(v.Interface())})})
	} else if d := Diff(v.Interface(), back.Interface()); d != "" {
		res.Violate(lib.Violation{Sig: "roundtrip-" + st.name + "-" + diffKind(d) + "-" + fieldOf(d),
			What:   fmt.Sprintf("decode(encode(%s)) differs from the value at %s", st.name, d),
			Replay: h.spec("codec", ci, map[string]any{"type": st.name, "hex": hx(enc), "value": describe(v.Interface())})})
	}
	// (2) re-encoding the decoded value gives the same bytes (canonical, deterministic)
	if err == nil {
		if enc2, e := marshalAs(st.t, back); e != nil || string(enc2) != string(enc) {
			res.Violate(lib.Violation{Sig: "reencode-" + st.name + "-differs",
				What:   fmt.Sprintf("encode(decode(encode(%s))) differs from encode(%s) (err=%v)", st.name, st.name, e),
				Replay: h.spec("codec", ci, map[string]any{"type": st.name, "hex": hx(enc), "hex2": hx(enc2)})})
		}
	}
	// (3) Lean: decode to the data model, encode again: must reproduce the library's bytes
	out := h.ask("dec " + hx(enc))
	res.Compared(1)
	if out != "ok "+hx(enc) {
		res.Mismatch(lib.Mismatch{Sig: "cbor-decode-reencode/" + st.name, Input: clip(hx(enc)), Model: clip(out), Impl: "ok " + clip(hx(enc))})
	}
}

// marshalFailed: a generated value of a storable type that the encoder refuses (or panics on)
// cannot be stored at all.
func (h *H) marshalFailed(phase string, ci int, typ string, v any, err error) {
	h.res.Violate(lib.Violation{Sig: "marshal-fails-" + typ, What: fmt.Sprintf("encoder.Marshal(%s) failed: %v", typ, err),
		Replay: h.spec(phase, ci, map[string]any{"type": typ, "value": describe(v)})})
}

func clip(s string) string {
	if len(s) > 400 {
		return s[:400] + "…"
	}
	return s
}

// ---------------------------------------------------------------------------------------------
// Phase "blob": NewBlockTransactions + serializer against the Lean blob model.
// ---------------------------------------------------------------------------------------------

func blockSizes(r *lib.RNG, i int) (nt, nr int) {
	// exhaustive: every (transactions, receipts) count pair up to 4 x 4, then the head-width sizes
	if i < 25 {
		return i / 5, i % 5
	}
	sizes := [][2]int{{5, 5}, {23, 23}, {24, 24}, {30, 30}, {25, 3}}
	if i-25 < len(sizes) {
		return sizes[i-25][0], sizes[i-25][1]
	}
	n := r.Intn(9)
	if r.Chance(1, 6) {
		return n, r.Intn(9)
	}
	return n, n
}

func (h *H) genBlockItems(g *Gen, i int) ([]core.Transaction, []*core.TransactionReceipt) {
	nt, nr := blockSizes(g.R, i)
	txs := make([]core.Transaction, nt)
	for j := range txs {
		txs[j] = g.Tx(Cfg(3+g.R.Intn(8), false))
	}
	rcs := make([]*core.TransactionReceipt, nr)
	for j := range rcs {
		var tx core.Transaction
		if j < nt {
			tx = txs[j]
		} else {
			tx = g.Tx(Cfg(5, false))
		}
		rcs[j] = g.Receipt(tx, Cfg(3+g.R.Intn(8), false))
	}
	if nt == 0 && g.R.Bool() {
		txs = nil
	}
	if nr == 0 && g.R.Bool() {
		rcs = nil
	}
	return txs, rcs
}

func (h *H) phaseBlob(shard, shards int) {
	n := h.f.Scale(60, 1500)
	res := h.res
	for i := 0; i < n; i++ {
		if i%shards != shard || !h.want("blob", i) {
			continue
		}
		g := &Gen{R: h.rng("blob", i), rawLimbs: true}
		txs, rcs := h.genBlockItems(g, i)
		res.Hit(fmt.Sprintf("blob:txs=%s,rcs=%s", bucket(len(txs)), bucket(len(rcs))))
		var items []string
		var itemBytes [][]byte
		for _, tx := range txs {
			b, err := marshalAs(tTxIface, reflect.ValueOf(tx))
			if err != nil {
				h.marshalFailed("blob", i, "Transaction", tx, err)
			}
			items = append(items, hx(b))
			itemBytes = append(itemBytes, b)
		}
		for _, rc := range rcs {
			b, err := encoder.Marshal(rc)
			if err != nil {
				h.marshalFailed("blob", i, "TransactionReceipt", rc, err)
			}
			items = append(items, hx(b))
			itemBytes = append(itemBytes, b)
		}
		bt, err := core.NewBlockTransactions(txs, rcs)
		if err != nil {
			res.Violate(lib.Violation{Sig: "blob-build-fails", What: err.Error(), Replay: h.spec("blob", i, nil)})
			continue
		}
		stored, err := core.BlockTransactionsSerializer{}.Marshal(&bt)
		if err != nil {
			res.Violate(lib.Violation{Sig: "blob-marshal-fails", What: err.Error(), Replay: h.spec("blob", i, nil)})
			continue
		}
		res.Case("blob/"+hx(stored), len(txs)+len(rcs) > 0)
		// model: same layout from the same item encodings
		out := h.ask(fmt.Sprintf("build %d %d %s", len(txs), len(rcs), strings.Join(items, " ")))
		res.Compared(1)
		if out != "ok "+hx(stored) {
			res.Mismatch(lib.Mismatch{Sig: "blob-build", Input: map[string]any{"txs": len(txs), "rcs": len(rcs)}, Model: clip(out), Impl: clip(hx(stored))})
		}
		// model: header parse
		wantIdx := fmt.Sprintf("ok t=%s r=%s d=%d", joinInts(bt.Indexes.Transactions), joinInts(bt.Indexes.Receipts), len(bt.Data))
		out = h.ask("blob " + hx(stored))
		res.Compared(1)
		if out != wantIdx {
			res.Mismatch(lib.Mismatch{Sig: "blob-unmarshal", Input: clip(hx(stored)), Model: out, Impl: wantIdx})
		}
		// model: every item slice, and one past the end, against the real lazy slices
		var back core.BlockTransactions
		if err := (core.BlockTransactionsSerializer{}).Unmarshal(stored, &back); err != nil {
			res.Violate(lib.Violation{Sig: "blob-unmarshal-fails", What: err.Error(), Replay: h.spec("blob", i, map[string]any{"hex": hx(stored)})})
			continue
		}
		if d := Diff(normIdx(bt), normIdx(back)); d != "" {
			res.Violate(lib.Violation{Sig: "blob-unmarshal-differs-" + fieldOf(d), What: "Unmarshal(Marshal(blob)) differs at " + d,
				Replay: h.spec("blob", i, map[string]any{"hex": hx(stored)})})
		}
		// the model is asked for the first, the last, one random and the one-past-the-end index
		// (every index is covered by alltx / allrc below); the real lazy slices for every index
		probe := func(n int) map[int]bool {
			m := map[int]bool{0: true, n: true}
			if n > 0 {
				m[n-1] = true
				m[g.R.Intn(n)] = true
			}
			return m
		}
		ptx, prc := probe(len(txs)), probe(len(rcs))
		for j := 0; j <= len(txs); j++ {
			if ptx[j] {
				out = h.ask(fmt.Sprintf("tx %s %d", hx(stored), j))
				res.Compared(1)
				want := "notfound"
				if j < len(txs) {
					want = "ok " + hx(itemBytes[j])
				}
				if out != want {
					res.Mismatch(lib.Mismatch{Sig: "blob-tx-slice", Input: map[string]any{"index": j, "txs": len(txs), "rcs": len(rcs)}, Model: clip(out), Impl: clip(want)})
				}
			}
			got, err := back.Transactions().Get(j)
			if j < len(txs) {
				if err != nil {
					res.Violate(lib.Violation{Sig: "blob-tx-get-error", What: fmt.Sprintf("Transactions().Get(%d) of %d: %v", j, len(txs), err), Replay: h.spec("blob", i, nil)})
				} else if d := Diff(txs[j], got); d != "" {
					res.Violate(lib.Violation{Sig: "blob-tx-get-differs", What: fmt.Sprintf("Transactions().Get(%d) of %d differs at %s", j, len(txs), d), Replay: h.spec("blob", i, nil)})
				}
			} else if err != db.ErrKeyNotFound {
				res.Violate(lib.Violation{Sig: "blob-tx-get-out-of-range", What: fmt.Sprintf("Transactions().Get(%d) of %d returned %v", j, len(txs), err), Replay: h.spec("blob", i, nil)})
			}
		}
		for j := 0; j <= len(rcs); j++ {
			if prc[j] {
				out = h.ask(fmt.Sprintf("rc %s %d", hx(stored), j))
				res.Compared(1)
				want := "notfound"
				if j < len(rcs) {
					want = "ok " + hx(itemBytes[len(txs)+j])
				}
				if out != want {
					res.Mismatch(lib.Mismatch{Sig: "blob-rc-slice", Input: map[string]any{"index": j, "txs": len(txs), "rcs": len(rcs)}, Model: clip(out), Impl: clip(want)})
				}
			}
			got, err := back.Receipts().Get(j)
			if j < len(rcs) {
				if err != nil {
					res.Violate(lib.Violation{Sig: "blob-rc-get-error", What: fmt.Sprintf("Receipts().Get(%d) of %d: %v", j, len(rcs), err), Replay: h.spec("blob", i, nil)})
				} else if d := Diff(rcs[j], got); d != "" {
					res.Violate(lib.Violation{Sig: "blob-rc-get-differs", What: fmt.Sprintf("Receipts().Get(%d) of %d differs at %s", j, len(rcs), d), Replay: h.spec("blob", i, nil)})
				}
			} else if err != db.ErrKeyNotFound {
				res.Violate(lib.Violation{Sig: "blob-rc-get-out-of-range", What: fmt.Sprintf("Receipts().Get(%d) of %d returned %v", j, len(rcs), err), Replay: h.spec("blob", i, nil)})
			}
		}
		wantAll := func(bs [][]byte) string {
			hs := make([]string, len(bs))
			for k, b := range bs {
				hs[k] = hx(b)
			}
			return "ok " + strings.Join(hs, ",")
		}
		res.Compared(2)
		if out = h.ask("alltx " + hx(stored)); out != wantAll(itemBytes[:len(txs)]) {
			res.Mismatch(lib.Mismatch{Sig: "blob-alltx", Input: map[string]any{"txs": len(txs), "rcs": len(rcs)}, Model: clip(out), Impl: clip(wantAll(itemBytes[:len(txs)]))})
		}
		if out = h.ask("allrc " + hx(stored)); out != wantAll(itemBytes[len(txs):]) {
			res.Mismatch(lib.Mismatch{Sig: "blob-allrc", Input: map[string]any{"txs": len(txs), "rcs": len(rcs)}, Model: clip(out), Impl: clip(wantAll(itemBytes[len(txs):]))})
		}
		h.blobExtractors(i, g, stored, txs, rcs, itemBytes)
	}
}

// normIdx: nil and empty index lists are the same blob.
func normIdx(b core.BlockTransactions) core.BlockTransactions {
	if len(b.Indexes.Transactions) == 0 {
		b.Indexes.Transactions = nil
	}
	if len(b.Indexes.Receipts) == 0 {
		b.Indexes.Receipts = nil
	}
	if len(b.Data) == 0 {
		b.Data = nil
	}
	return b
}

func joinInts(xs []int) string {
	s := make([]string, len(xs))
	for i, x := range xs {
		s[i] = fmt.Sprint(x)
	}
	return strings.Join(s, ",")
}

func bucket(n int) string {
	switch {
	case n <= 2:
		return fmt.Sprint(n)
	case n < 24:
		return "3-23"
	default:
		return "24+"
	}
}
