//go:build verif

package main

// Round 5, phase "oldlayout": a database as an EARLIER binary left it — transactions and receipts in the
// per-transaction buckets 10 / 11 (key = bucket ‖ be64(number) ‖ be64(index)), written by the frozen
// copy of the old writer (migration/blocktransactions/txlayout) — and the code that upgrades it
// (blocktransactions.Migrator: prefix scans of both old buckets per block, blob rebuilt from the raw
// items, ranges of 10 blocks, four ingestors, already-migrated ranges, empty blocks back-filled).
//
//   * arbitrary records (not chain-valid) on contiguous heights that straddle the key-width and
//     0xff boundaries (…255|256…, …65535|65536…, …2^32-1|2^32…): prefixes ending in 0xff / 0xffff / 0xffffffff
//   * histories: everything old; holes (ranges already migrated between old ranges — what an
//     interrupted upgrade leaves); ≥ 10 leading empty blocks (reached only by the back-fill); a
//     database without any old entry; a header whose TransactionCount disagrees with the entries
//   * before the upgrade: the old layout's own accessors (txlayout.TransactionLayoutPerTx.*) must
//     return what was stored; the model's scan / per-transaction readers = the real ones
//   * the upgrade under a deadline (a migration that never returns is a finding, not a harness hang)
//   * after it: every record through every accessor (ReadBack), the old buckets empty, the complete
//     block-record buckets = the model's store after ITS run of the migration
//   * dbutils.UpperBound against the model on every byte string over {00,01,fe,ff} up to length 3

import (
	"bytes"
	"errors"
	"fmt"
	"reflect"
	"strings"
	"time"

	"github.com/NethermindEth/juno/blockchain"
	"github.com/NethermindEth/juno/core"
	"github.com/NethermindEth/juno/core/felt"
	"github.com/NethermindEth/juno/db"
	"github.com/NethermindEth/juno/db/dbutils"
	"github.com/NethermindEth/juno/db/typed/key"
	"github.com/NethermindEth/juno/db/typed/prefix"
	"github.com/NethermindEth/juno/migration/blocktransactions"
	"github.com/NethermindEth/juno/migration/blocktransactions/txlayout"
	"verif/harness/lib"
)

// the raw (undecoded) views of the two old buckets, built the way the migration builds them
var (
	rawOldTxs = prefix.NewPrefixedBucket(
		core.TransactionsByBlockNumberAndIndexBucket.RawValue(),
		prefix.Prefix(key.Uint64, prefix.Prefix(key.Uint64, prefix.End[[]byte]())),
	)
	rawOldRcs = prefix.NewPrefixedBucket(
		core.ReceiptsByBlockNumberAndIndexBucket.RawValue(),
		prefix.Prefix(key.Uint64, prefix.Prefix(key.Uint64, prefix.End[[]byte]())),
	)
)

const migrationDeadline = 240 * time.Second

// case number of the UpperBound tie (for --replay)
const upperBoundCase = 1000

type oldLayoutCfg struct {
	name     string
	base     uint64
	blocks   int
	kind     string
	layout   func(i int) bool // block i (offset from base) is in the old layout
	empty    func(i int, r *lib.RNG) bool
	bigBlock int // offset+1 of a block with 260 transactions (0: none)
	badHdr   int // offset of a block whose header count is one too many (-1: none)
	wantErr  bool
}

func oldLayoutCases(thorough bool) []oldLayoutCfg {
	every := func(k int) func(int, *lib.RNG) bool { return func(i int, _ *lib.RNG) bool { return i%k == k-1 } }
	cs := []oldLayoutCfg{
		{name: "all-old/base-0", base: 0, blocks: 45, kind: "memory", layout: func(int) bool { return true }, empty: every(7), badHdr: -1},
		{name: "holes/straddles-255-256", base: 240, blocks: 32, kind: "pebble-mem",
			layout: func(i int) bool { return (i/10)%2 == 1 }, empty: every(6), badHdr: -1},
		{name: "leading-empty-blocks/straddles-65535-65536", base: 65520, blocks: 30, kind: "memory",
			layout: func(int) bool { return true }, empty: func(i int, _ *lib.RNG) bool { return i < 12 || i == 29 }, badHdr: -1},
		{name: "all-old/straddles-2^32", base: 1<<32 - 16, blocks: 30, kind: "memory", layout: func(int) bool { return true },
			empty: func(i int, r *lib.RNG) bool { return r.Chance(1, 5) }, badHdr: -1},
		{name: "index-crosses-255-256", base: 20, blocks: 12, kind: "memory", layout: func(int) bool { return true }, empty: every(5),
			badHdr: -1, bigBlock: 4},
		{name: "no-old-entries", base: 0, blocks: 15, kind: "memory", layout: func(int) bool { return true },
			empty: func(int, *lib.RNG) bool { return true }, badHdr: -1},
		{name: "header-count-disagrees", base: 0, blocks: 8, kind: "memory", layout: func(int) bool { return true },
			empty: func(int, *lib.RNG) bool { return false }, badHdr: 5, wantErr: true},
	}
	if thorough {
		cs = append(cs,
			oldLayoutCfg{name: "holes/base-0", base: 0, blocks: 130, kind: "pebble-disk",
				layout: func(i int) bool { return (i/10)%3 != 1 }, empty: every(4), badHdr: -1},
			oldLayoutCfg{name: "all-old/straddles-2^16/pebble", base: 65500, blocks: 80, kind: "pebble-mem", layout: func(int) bool { return true },
				empty: func(i int, r *lib.RNG) bool { return r.Chance(1, 3) }, badHdr: -1},
			oldLayoutCfg{name: "new-then-old", base: 1000, blocks: 60, kind: "memory", layout: func(i int) bool { return i >= 27 },
				empty: every(9), badHdr: -1},
		)
	}
	return cs
}

func (h *H) phaseOldLayout(shard, shards int) {
	for ci, c := range oldLayoutCases(h.f.Thorough()) {
		if ci%shards != shard || !h.want("oldlayout", ci) {
			continue
		}
		h.oldLayoutCase(ci, c)
	}
	if shard == 0 && h.want("oldlayout", upperBoundCase) {
		h.upperBoundTie()
	}
}

// upperBoundTie: dbutils.UpperBound = the model's, exhaustively on short strings over the edge bytes.
func (h *H) upperBoundTie() {
	res := h.res
	alpha := []byte{0x00, 0x01, 0xfe, 0xff}
	var all [][]byte
	all = append(all, []byte{})
	for l, level := 1, [][]byte{{}}; l <= 3; l++ {
		var next [][]byte
		for _, p := range level {
			for _, a := range alpha {
				next = append(next, append(append([]byte{}, p...), a))
			}
		}
		all = append(all, next...)
		level = next
	}
	for _, n := range []uint64{0, 255, 256, 65535, 1<<32 - 1, 1<<64 - 1} {
		all = append(all, db.TransactionsByBlockNumberAndIndex.Key(key.Uint64.Marshal(n)))
	}
	for _, p := range all {
		ub := dbutils.UpperBound(p)
		want := "none"
		if ub != nil {
			want = "ok " + hx(ub)
		}
		out := h.ask("ub " + hx(p))
		res.Compared(1)
		res.Hit("upper-bound:compared")
		if len(p) > 0 && p[len(p)-1] == 0xff {
			res.Hit("upper-bound:prefix-ends-in-ff")
		}
		if out != want {
			res.Mismatch(lib.Mismatch{Sig: "upper-bound", Input: hx(p), Model: out, Impl: want})
		}
		// the property of an upper bound, on the real function: every extension of the prefix lies
		// below it, and the bound itself does not carry the prefix
		if ub != nil {
			for _, ext := range [][]byte{{}, {0x00}, {0xff}, {0xff, 0xff, 0xff, 0xff, 0xff, 0xff, 0xff, 0xff, 0xff}} {
				k := append(append([]byte{}, p...), ext...)
				if bytes.Compare(k, ub) >= 0 {
					res.Violate(lib.Violation{Sig: "upper-bound-excludes-a-key-with-the-prefix",
						What:   fmt.Sprintf("UpperBound(%x) = %x is not above the key %x", p, ub, k),
						Replay: h.spec("oldlayout", upperBoundCase, map[string]any{"prefix": hx(p), "key": hx(k)})})
				}
			}
			if bytes.HasPrefix(ub, p) && len(p) > 0 {
				res.Violate(lib.Violation{Sig: "upper-bound-includes-foreign-keys",
					What:   fmt.Sprintf("UpperBound(%x) = %x still carries the prefix", p, ub),
					Replay: h.spec("oldlayout", upperBoundCase, map[string]any{"prefix": hx(p)})})
			}
		}
	}
}

type rawEntry struct{ k, v []byte }

func collectScan(seq func(func(prefix.Entry[[]byte], error) bool)) ([]rawEntry, error) {
	var out []rawEntry
	var ferr error
	seq(func(e prefix.Entry[[]byte], err error) bool {
		if err != nil {
			ferr = err
			return false
		}
		out = append(out, rawEntry{append([]byte{}, e.Key...), append([]byte{}, e.Value...)})
		return true
	})
	return out, ferr
}

func scanDigest(es []rawEntry) string {
	parts := make([]string, len(es))
	for i, e := range es {
		parts[i] = fmt.Sprintf("%s:%d:%d", hx(e.k), len(e.v), cksum(e.v))
	}
	return fmt.Sprintf("ok %d %s", len(es), strings.Join(parts, ","))
}

func itemsText(es []rawEntry) string {
	parts := []string{"ok", fmt.Sprint(len(es))}
	for _, e := range es {
		parts = append(parts, hx(e.v))
	}
	return strings.Join(parts, " ")
}

// ReadBackOld: the per-transaction layout's own accessors on a record an earlier binary stored.
func ReadBackOld(c *Checker, d db.KeyValueStore, rec *Rec) {
	l := txlayout.TransactionLayoutPerTx
	n := rec.Header.Number
	guard := func(name string, f func()) {
		if err, panicked, _ := lib.Try(func() error { f(); return nil }); panicked {
			c.fail(name, "panic", "", err.Error())
		}
	}
	guard("old-layout", func() {
		txs, err := l.TransactionsByBlockNumber(d, n)
		c.eq("txlayout.PerTx.TransactionsByBlockNumber", err, normTxs(txs), normTxs(rec.Txs))
		rcs, err := l.ReceiptsByBlockNumber(d, n)
		c.eq("txlayout.PerTx.ReceiptsByBlockNumber", err, normRcs(rcs), normRcs(rec.Rcs))
		b, err := l.BlockByNumber(d, n)
		if err == nil {
			b = normBlock(b)
		}
		c.eq("txlayout.PerTx.BlockByNumber", err, b, normBlock(&core.Block{Header: rec.Header, Transactions: rec.Txs, Receipts: rec.Rcs}))
		var it []core.Transaction
		var iterErr error
		for tx, err := range l.TransactionsByBlockNumberIter(d, n) {
			if err != nil {
				iterErr = err
				break
			}
			it = append(it, tx)
		}
		c.eq("txlayout.PerTx.TransactionsByBlockNumberIter", iterErr, normTxs(it), normTxs(rec.Txs))
		for i, tx := range rec.Txs {
			got, err := l.TransactionByBlockAndIndex(d, n, uint64(i))
			c.eq("txlayout.PerTx.TransactionByBlockAndIndex", err, got, tx)
			rc, err := l.ReceiptByBlockAndIndex(d, n, uint64(i))
			c.eq("txlayout.PerTx.ReceiptByBlockAndIndex", err, rc, rec.Rcs[i])
			got, err = l.TransactionByHash(d, (*felt.TransactionHash)(tx.Hash()))
			c.eq("txlayout.PerTx.TransactionByHash", err, got, tx)
		}
		for _, i := range []uint64{uint64(len(rec.Txs)), uint64(len(rec.Txs)) + 255, 1 << 32, 1<<64 - 1} {
			c.notFound("txlayout.PerTx.TransactionByBlockAndIndex", func() error { _, err := l.TransactionByBlockAndIndex(d, n, i); return err })
			c.notFound("txlayout.PerTx.ReceiptByBlockAndIndex", func() error { _, err := l.ReceiptByBlockAndIndex(d, n, i); return err })
		}
	})
}

func (h *H) oldLayoutCase(ci int, c oldLayoutCfg) {
	res := h.res
	g := &Gen{R: h.rng("oldlayout", ci), rawLimbs: true}
	be, err := h.openBackend(c.kind, fmt.Sprintf("oldlayout%d", ci))
	if err != nil {
		res.Fatalf("open %s: %v", c.kind, err)
		return
	}
	defer func() { be.close() }()
	d := be.store
	mode := h.decoderMode()
	t := &storeTie{h: h, phase: "oldlayout", ci: ci, mode: mode}
	if out := h.ask("s.reset"); out != "ok" {
		res.Fatalf("store tie: s.reset answered %q", out)
		return
	}
	res.Hit("oldlayout:history/" + c.name)
	t.log("history %q: %d blocks from height %d on %s", c.name, c.blocks, c.base, c.kind)
	bc := blockchain.New(d, lib.TestNetwork())

	// ---- the database an earlier binary (and, for the holes, an interrupted upgrade) left ---------
	var recs []*Rec
	var old []bool
	for i := 0; i < c.blocks; i++ {
		num := c.base + uint64(i)
		rec := h.genRec(g, 3+i%5, num)
		rec.Classes, rec.Casm = nil, nil
		if c.empty(i, g.R) {
			rec.Txs, rec.Rcs = nil, nil
		} else {
			// 1..5 transactions of random kinds; one block of the first history has 260 (the index
			// half of the key crosses 255|256)
			nt := 1 + g.R.Intn(5)
			if c.bigBlock == i+1 {
				nt = 260
			}
			rec.Txs, rec.Rcs = nil, nil
			for j := 0; j < nt; j++ {
				ct, cr := Cfg(3+g.R.Intn(8), false), Cfg(3+g.R.Intn(6), false)
				if nt > 100 {
					// small items in the big block (the model lays the blob out with list appends)
					ct.BigLens, ct.MaxLen, cr.BigLens, cr.MaxLen = false, 2, false, 2
					if j%16 != 0 {
						ct.Mode, cr.Mode = 1, 1
					}
				}
				tx := g.Tx(ct)
				rec.Txs = append(rec.Txs, tx)
				rec.Rcs = append(rec.Rcs, g.Receipt(tx, cr))
			}
			res.Hit("oldlayout:txs-in-block/" + bucket(nt))
		}
		rec.Header.TransactionCount = uint64(len(rec.Txs))
		isOld := c.layout(i)
		if i == c.badHdr {
			rec.Header.TransactionCount++
		}
		sb, err := encodeRec(rec)
		if err != nil {
			h.marshalFailed("oldlayout", ci, "record", num, err)
			return
		}
		if err := WriteRec(d, rec); err != nil {
			res.Violate(lib.Violation{Sig: "write-fails", What: err.Error(), Replay: h.spec("oldlayout", ci, recSummary(rec))})
			return
		}
		t.modelWrite(rec, sb)
		if isOld {
			// as the earlier binary stored it: no combined entry, one entry per transaction and receipt
			err := d.Update(func(w db.IndexedBatch) error {
				if err := core.BlockTransactionsBucket.Delete(w, num); err != nil {
					return err
				}
				return txlayout.TransactionLayoutPerTx.WriteTransactionsAndReceipts(w, num, rec.Txs, rec.Rcs)
			})
			if err != nil {
				res.Fatalf("oldlayout: writing the per-transaction layout: %v", err)
				return
			}
			btKey := db.BlockTransactions.Key(key.Cbor[uint64]().Marshal(num))
			if out := h.ask("s.del " + hx(btKey)); out != "ok" {
				res.Fatalf("s.del answered %q", out)
				return
			}
			items := make([]string, 0, len(sb.txs)+len(sb.rcs))
			for _, b := range sb.txs {
				items = append(items, hx(b))
			}
			for _, b := range sb.rcs {
				items = append(items, hx(b))
			}
			out := h.ask(strings.TrimRight(fmt.Sprintf("s.putold %s %d %d %d %s", mode, num, len(sb.txs), len(sb.rcs), strings.Join(items, " ")), " "))
			res.Compared(1)
			if out != "ok" {
				t.mismatch("store-putold-result", out, "ok")
			}
			res.Hit("oldlayout:block/old-layout")
			if len(rec.Txs) == 0 {
				res.Hit("oldlayout:block/old-layout-empty")
			}
		} else {
			res.Hit("oldlayout:block/already-combined")
		}
		if num&0xff == 0xff {
			res.Hit("oldlayout:block-number-ends-in-ff")
		}
		recs, old = append(recs, rec), append(old, isOld)
		res.Case(fmt.Sprintf("oldlayout/%d/%d/%s", ci, i, hx(sb.blob)), len(rec.Txs) > 0)
	}
	t.log("%d blocks written (%d in the per-transaction layout)", len(recs), countTrue(old))
	if !t.compareStore(d, "old-layout-written") {
		return
	}
	mkc := func(rec *Rec, tag, what string) *Checker {
		return &Checker{res: res, backend: be.name + "(" + what + ")", sigTag: tag, replay: func(accessor, detail string) any {
			dd := recSummary(rec)
			dd["accessor"], dd["detail"], dd["history"] = accessor, detail, c.name
			return h.spec("oldlayout", ci, dd)
		}}
	}

	// ---- before the upgrade: the old layout's accessors, the scans -------------------------------
	for i, rec := range recs {
		if !old[i] {
			continue
		}
		num := rec.Header.Number
		ReadBackOld(mkc(rec, "old-layout-", "per-transaction layout"), d, rec)
		if i%3 == 0 || num&0xff == 0xff || (num+1)&0xff == 0xff || num&0xff == 0 {
			for _, b := range []struct {
				id   int
				scan func() ([]rawEntry, error)
			}{
				{10, func() ([]rawEntry, error) { return collectScan(rawOldTxs.Prefix().Add(num).Scan(d)) }},
				{11, func() ([]rawEntry, error) { return collectScan(rawOldRcs.Prefix().Add(num).Scan(d)) }},
			} {
				es, err := b.scan()
				if err != nil {
					res.Violate(lib.Violation{Sig: "old-layout-scan-fails", What: err.Error(), Replay: h.spec("oldlayout", ci, map[string]any{"number": num})})
					continue
				}
				out := h.ask(fmt.Sprintf("s.old.items %d %d", b.id, num))
				res.Compared(1)
				res.Hit("oldlayout:scan-block/compared")
				if want := itemsText(es); out != want {
					t.mismatch("old-layout-scan-block", firstDiff(out, want), firstDiff(want, out))
				}
				// oracle: the scan of block n returns exactly the stored items of block n, in order
				want := [][]byte{}
				sbx, _ := encodeRec(rec)
				if b.id == 10 {
					want = sbx.txs
				} else {
					want = sbx.rcs
				}
				ok := len(es) == len(want)
				for j := 0; ok && j < len(es); j++ {
					ok = bytes.Equal(es[j].v, want[j])
				}
				if !ok {
					res.Violate(lib.Violation{Sig: fmt.Sprintf("old-layout-scan-of-a-block-differs-from-what-was-stored-bucket-%d", b.id),
						What:   fmt.Sprintf("Prefix().Add(%d).Scan returned %d entries, %d were stored (or the items differ)", num, len(es), len(want)),
						Replay: h.spec("oldlayout", ci, map[string]any{"number": num, "bucket": b.id, "history": c.name})})
				}
			}
			if len(rec.Txs) > 0 {
				j := g.R.Intn(len(rec.Txs))
				for _, bk := range []db.Bucket{db.TransactionsByBlockNumberAndIndex, db.ReceiptsByBlockNumberAndIndex} {
					k := bk.Key(db.BlockNumIndexKey{Number: num, Index: uint64(j)}.Marshal())
					var v []byte
					err := d.Get(k, func(b []byte) error { v = append([]byte{}, b...); return nil })
					out := h.ask(fmt.Sprintf("s.old.get %d %d %d", byte(bk), num, j))
					res.Compared(1)
					if want := optOf(err, func() string { return hx(v) }); out != want {
						t.mismatch("old-layout-get", out, want)
					}
				}
			}
		}
	}
	for _, b := range []struct {
		id   byte
		scan func() ([]rawEntry, error)
	}{
		{10, func() ([]rawEntry, error) { return collectScan(rawOldTxs.Prefix().Scan(d)) }},
		{11, func() ([]rawEntry, error) { return collectScan(rawOldRcs.Prefix().Scan(d)) }},
	} {
		es, err := b.scan()
		if err != nil {
			res.Violate(lib.Violation{Sig: "old-layout-scan-fails", What: err.Error(), Replay: h.spec("oldlayout", ci, nil)})
			continue
		}
		out := h.ask("s.scan " + hx([]byte{b.id}))
		res.Compared(len(es) + 1)
		res.Hit("oldlayout:scan-bucket/compared")
		if want := scanDigest(es); out != want {
			t.mismatch("old-layout-scan-bucket", firstDiff(out, want), firstDiff(want, out))
		}
	}

	// ---- the upgrade ---------------------------------------------------------------------------------
	var merr error
	var panicked bool
	finished := lib.WithDeadline(migrationDeadline, func() {
		merr, panicked, _ = lib.Try(func() error { return runMigration(blocktransactions.Migrator{}, d) })
	})
	if !finished {
		res.Violate(lib.Violation{Sig: "block-transactions-migration-does-not-terminate",
			What:   fmt.Sprintf("history %q: Migrate did not return within %s", c.name, migrationDeadline),
			Replay: h.spec("oldlayout", ci, map[string]any{"history": c.name})})
		be.close = func() {} // the migration still owns the store
		return
	}
	t.log("blocktransactions.Migrator.Migrate")
	out := h.ask("s.btmigrate " + mode + " 4")
	res.Compared(1)
	res.Hit("oldlayout:migration/compared")
	implRes := "ok"
	switch {
	case panicked:
		implRes = "panic"
	case errors.Is(merr, db.ErrKeyNotFound):
		implRes = "notfound"
	case merr != nil:
		implRes = "err"
	}
	if out != implRes {
		t.mismatch("store-btmigrate-result", out, implRes+fmt.Sprintf(" (%v)", merr))
	}
	if c.wantErr {
		// a header count that disagrees with the stored entries: the upgrade must refuse, not guess
		if merr == nil {
			res.Violate(lib.Violation{Sig: "block-transactions-migration-accepts-a-count-that-disagrees-with-the-entries",
				What:   fmt.Sprintf("block %d: header says %d transactions, %d are stored; the migration reported success", recs[c.badHdr].Header.Number, recs[c.badHdr].Header.TransactionCount, len(recs[c.badHdr].Txs)),
				Replay: h.spec("oldlayout", ci, map[string]any{"history": c.name})})
		}
		res.Hit("oldlayout:migration/refused")
		return
	}
	if merr != nil {
		sig := "block-transactions-migration-fails"
		if panicked {
			sig = "block-transactions-migration-panics"
		}
		res.Violate(lib.Violation{Sig: sig, What: fmt.Sprintf("history %q: %v", c.name, merr), Replay: h.spec("oldlayout", ci, map[string]any{"history": c.name})})
		return
	}
	res.Hit("oldlayout:migration/done")
	// ---- after it: everything stored comes back through every accessor -----------------------------
	what := "block-transactions migration, history " + c.name
	for i, rec := range recs {
		ReadBack(mkc(rec, "after-block-transactions-migration-", what), d, bc, rec, i == len(recs)-1)
	}
	for _, b := range []db.Bucket{db.TransactionsByBlockNumberAndIndex, db.ReceiptsByBlockNumberAndIndex} {
		it, err := d.NewIterator(b.Key(), true)
		if err == nil {
			if it.First() {
				res.Violate(lib.Violation{Sig: "block-transactions-migration-leaves-old-entries", What: fmt.Sprintf("bucket %d still has entries (first key %x)", b, it.Key()),
					Replay: h.spec("oldlayout", ci, map[string]any{"history": c.name})})
			}
			it.Close()
		}
	}
	t.compareStore(d, "block-transactions-migration")
	for _, i := range []int{0, len(recs) / 2, len(recs) - 1} {
		t.compareReaders(d, bc, recs[i], "after-block-transactions-migration")
	}
}

func countTrue(xs []bool) int {
	n := 0
	for _, x := range xs {
		if x {
			n++
		}
	}
	return n
}

var _ = reflect.TypeOf
