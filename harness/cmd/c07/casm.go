//go:build verif

package main

// Round 6, phase "casm": the compiled-class hash of a declared class at every height.
//
// What the node stores for a declared Sierra class besides its definition is a small record
// (core.ClassCasmHashMetadata: declaration height, V2 hash, migration height, V1 hash) whose METHODS
// decide what `StateReader.CompiledClassHash`, `CompiledClassHashV2` and the historical readers
// return. A block writes it (declared classes; two protocol paths), a later block rewrites it
// (migrated classes), a reorg deletes it / rewrites it back.
//
//   case 0   the record's methods, exhaustively over a small space: both constructors × declaration
//            heights around 0 and 2^64 × EVERY sequence of ≤ 3 operations out of {Migrate(d-1), Migrate(d),
//            Migrate(d+1), Migrate(d+3), Unmigrate, write + read back}: per-operation outcome (error
//            class), final record bytes, and CasmHash / CasmHashV2 / IsDeclaredWithV2 / IsMigrated /
//            CasmHashAt(h) / IsMigratedAt(h) at the heights around d and around the migration —
//            = the model (`casmops`, `casmq`), and the ORACLE: the hash at a height is the declared V1
//            hash until the migration height, the V2 hash from it on, not found below the declaration.
//   case 1.. chains through the real SanityCheckNewHeight + Store that cross 0.14.0 → 0.14.1 (classes
//            declared with the V1 hash, later migrated; classes declared with V2), both state backends,
//            memory / Pebble: after EVERY block and every RevertHead (down over migrating and declaring
//            blocks, then forward again) the stored record bytes of every class = the model's bucket
//            (`s.casm.store` / `s.casm.revert` / `s.get`), and the head reader and the historical reader
//            of EVERY height = the model's readers and = the generator's own abstract state of that
//            height (the oracle: what block x declared / migrated is what height x reads).

import (
	"errors"
	"fmt"
	"sort"
	"strings"

	"github.com/NethermindEth/juno/blockchain"
	"github.com/NethermindEth/juno/core"
	"github.com/NethermindEth/juno/core/felt"
	"github.com/NethermindEth/juno/db"
	"verif/harness/lib"
)

func (h *H) phaseCasm(shard, shards int) {
	type cfg struct {
		srcNew, dstNew bool
		kind           string
		v1Blocks       int
	}
	cfgs := []cfg{{false, false, "memory", 10}, {true, true, "pebble-mem", 7}}
	if h.f.Thorough() {
		cfgs = append(cfgs, cfg{false, true, "pebble-disk", 14}, cfg{true, false, "memory", 5})
	}
	if shard == 0 && h.want("casm", 0) {
		h.casmMethods()
	}
	for i, c := range cfgs {
		ci := i + 1
		if ci%shards != shard || !h.want("casm", ci) {
			continue
		}
		h.casmChain(ci, c.srcNew, c.dstNew, c.kind, c.v1Blocks)
	}
}

func casmErrClass(err error) string {
	switch {
	case err == nil:
		return "ok"
	case errors.Is(err, core.ErrCannotMigrateV2Declared):
		return "err:v2-declared"
	case errors.Is(err, core.ErrCannotMigrateBeforeDeclared):
		return "err:before-declared"
	case errors.Is(err, core.ErrCannotMigrateAlreadyMigrated):
		return "err:already-migrated"
	case errors.Is(err, core.ErrCannotUnmigrateNotMigrated):
		return "err:not-migrated"
	}
	return "err:other(" + err.Error() + ")"
}

func tfs(b bool) string {
	if b {
		return "T"
	}
	return "F"
}

// casmOp: kind 'm' (Migrate at), 'u', 'r'
type casmOp struct {
	kind byte
	at   uint64
}

func (o casmOp) String() string {
	if o.kind == 'm' {
		return fmt.Sprintf("m%d", o.at)
	}
	return string(o.kind)
}

func (h *H) casmMethods() {
	res := h.res
	v1f, v2f := *lib.F(0x1111), *lib.F(0x2222)
	v1, v2 := felt.CasmClassHash(v1f), felt.CasmClassHash(v2f)
	v1hex, v2hex := hx(v1f.Marshal()), hx(v2f.Marshal())
	const maxU = ^uint64(0)
	decls := []uint64{0, 1, 5, 1 << 32, maxU - 3, maxU - 1, maxU}
	nseq := 0
	for _, d := range decls {
		alphabet := []casmOp{{'m', d - 1}, {'m', d}, {'m', d + 1}, {'m', d + 3}, {'u', 0}, {'r', 0}}
		if d == 0 {
			alphabet[0] = casmOp{'m', 2}
		}
		var seqs [][]casmOp
		var rec func(prefix []casmOp, left int)
		rec = func(prefix []casmOp, left int) {
			seqs = append(seqs, append([]casmOp{}, prefix...))
			if left == 0 {
				return
			}
			for _, o := range alphabet {
				rec(append(prefix, o), left-1)
			}
		}
		rec(nil, 3)
		for _, isV2 := range []bool{false, true} {
			for _, seq := range seqs {
				nseq++
				var md core.ClassCasmHashMetadata
				v1arg := "n"
				if isV2 {
					md = core.NewCasmHashMetadataDeclaredV2(d, &v2)
				} else {
					md = core.NewCasmHashMetadataDeclaredV1(d, &v1, &v2)
					v1arg = v1hex
				}
				// the specification's own bookkeeping (the oracle): current migration height
				specMig := uint64(0)
				var outs, names []string
				replay := func(extra map[string]any) any {
					m := map[string]any{"declared_at": d, "declared_with_v2": isV2, "ops": names}
					for k, v := range extra {
						m[k] = v
					}
					return h.spec("casm", 0, m)
				}
				for _, o := range seq {
					names = append(names, o.String())
					var err error
					want := "ok"
					switch o.kind {
					case 'm':
						err = md.Migrate(o.at)
						switch {
						case isV2:
							want = "err:v2-declared"
						case o.at <= d:
							want = "err:before-declared"
						case specMig > 0:
							want = "err:already-migrated"
						default:
							specMig = o.at
						}
					case 'u':
						err = md.Unmigrate()
						if specMig == 0 {
							want = "err:not-migrated"
						}
						specMig = 0
					case 'r':
						var b []byte
						b, err = md.MarshalBinary()
						if err == nil {
							var back core.ClassCasmHashMetadata
							err = back.UnmarshalBinary(b)
							md = back
						}
					}
					got := casmErrClass(err)
					outs = append(outs, got)
					res.Hit("casm:op-" + string(o.kind) + "/" + strings.SplitN(got, "(", 2)[0])
					if got != want {
						res.Violate(lib.Violation{Sig: "casm-metadata-operation-" + string(o.kind) + "-accepts-or-refuses-wrongly",
							What:   fmt.Sprintf("class declared at %d (v2=%v) after %v: operation answered %s, must answer %s", d, isV2, names, got, want),
							Replay: replay(nil)})
					}
				}
				b, err := md.MarshalBinary()
				if err != nil {
					res.Violate(lib.Violation{Sig: "casm-metadata-marshal-fails", What: err.Error(), Replay: replay(nil)})
					continue
				}
				line := fmt.Sprintf("casmops %d %s %s %s", d, v2hex, v1arg, strings.Join(names, " "))
				final := strings.TrimPrefix(h.ask("uncasm "+hx(b)), "ok ")
				res.Compared(1)
				if out, want := h.ask(strings.TrimSpace(line)), strings.TrimSpace(strings.Join(outs, " ")+" | "+final); strings.TrimSpace(out) != want {
					res.Mismatch(lib.Mismatch{Sig: "casm/operations", Input: clip(line), Model: clip(out), Impl: clip(want)})
				}
				// queries on the final record
				heights := []uint64{0, d - 1, d, d + 1, d + 2, d + 3, d + 4, maxU}
				if d == 0 {
					heights[1] = 1
				}
				var hs []string
				ch := md.CasmHash()
				ch2 := md.CasmHashV2()
				impl := []string{"ok", hx((*felt.Felt)(&ch).Marshal()), hx((*felt.Felt)(&ch2).Marshal()), tfs(md.IsDeclaredWithV2()), tfs(md.IsMigrated())}
				for _, x := range heights {
					hs = append(hs, fmt.Sprint(x))
					got, err := md.CasmHashAt(x)
					g := "notfound"
					switch {
					case err == nil:
						g = hx((*felt.Felt)(&got).Marshal())
					case !errors.Is(err, db.ErrKeyNotFound):
						g = "err(" + err.Error() + ")"
					}
					impl = append(impl, g, tfs(md.IsMigratedAt(x)))
					// oracle: the three periods of the class's life
					want := v1hex
					switch {
					case x < d:
						want = "notfound"
					case isV2, specMig > 0 && x >= specMig:
						want = v2hex
					}
					res.Hit("casm:hash-at/" + map[bool]string{true: "notfound", false: map[bool]string{true: "v2", false: "v1"}[want == v2hex]}[want == "notfound"])
					if g != want {
						res.Violate(lib.Violation{Sig: "casm-hash-at-height-is-not-the-hash-in-force",
							What: fmt.Sprintf("class declared at %d (v2=%v), operations %v (migrated at %d): CasmHashAt(%d) = %s, in force at that height: %s",
								d, isV2, names, specMig, x, g, want),
							Replay: replay(map[string]any{"height": x})})
					}
				}
				wantHead := v1hex
				if isV2 || specMig > 0 {
					wantHead = v2hex
				}
				if impl[1] != wantHead || impl[2] != v2hex {
					res.Violate(lib.Violation{Sig: "casm-hash-at-head-is-not-the-hash-in-force",
						What:   fmt.Sprintf("class declared at %d (v2=%v), operations %v: CasmHash() = %s CasmHashV2() = %s, expected %s / %s", d, isV2, names, impl[1], impl[2], wantHead, v2hex),
						Replay: replay(nil)})
				}
				res.Compared(1)
				q := "casmq " + final + " " + strings.Join(hs, " ")
				if out, want := h.ask(q), strings.Join(impl, " "); out != want {
					res.Mismatch(lib.Mismatch{Sig: "casm/queries", Input: clip(q), Model: clip(out), Impl: clip(want)})
				}
				res.Case(fmt.Sprintf("casm/0/%d/%v/%s", d, isV2, strings.Join(names, ",")), len(seq) > 0)
			}
		}
	}
	res.Hit("casm:method-sequences")
	_ = nseq
}

// ---------------------------------------------------------------------------------------------

type casmWorld struct {
	h      *H
	ci     int
	name   string
	g      *lib.ChainGen
	bc     *blockchain.Blockchain
	store  db.KeyValueStore
	known  map[felt.Felt]bool // every sierra class hash ever declared on any branch
	failed bool
}

func (w *casmWorld) replay(extra map[string]any) any {
	m := map[string]any{"backend": w.name, "height": w.g.Height() - 1}
	for k, v := range extra {
		m[k] = v
	}
	return w.h.spec("casm", w.ci, m)
}

func sortedFelts(m map[felt.Felt]bool) []felt.Felt {
	out := make([]felt.Felt, 0, len(m))
	for k := range m {
		out = append(out, k)
	}
	sort.Slice(out, func(i, j int) bool { return out[i].Cmp(&out[j]) < 0 })
	return out
}

func casmKey(c *felt.Felt) []byte { return db.ClassCasmHashMetadata.Key(c.Marshal()) }

// check compares, for every class ever declared: stored record bytes, head readers, historical reader of
// every height — with the model and with the generator's abstract states.
func (w *casmWorld) check(label string) {
	h, res := w.h, w.h.res
	head := w.g.Height() - 1
	if head < 0 {
		return
	}
	var heights []string
	for x := 0; x <= head; x++ {
		heights = append(heights, fmt.Sprint(x))
	}
	headState, closeHead, err := w.bc.HeadState()
	if err != nil {
		res.Violate(lib.Violation{Sig: "casm-head-state-unavailable", What: err.Error(), Replay: w.replay(nil)})
		w.failed = true
		return
	}
	defer closeHead()
	for _, c := range sortedFelts(w.known) {
		sc := felt.SierraClassHash(c)
		// stored bytes
		var raw []byte
		err := w.store.Get(casmKey(&c), func(v []byte) error { raw = append([]byte{}, v...); return nil })
		implRaw := "none"
		if err == nil {
			implRaw = "ok " + hx(raw)
		} else if !errors.Is(err, db.ErrKeyNotFound) {
			implRaw = "err " + err.Error()
		}
		res.Compared(1)
		if out := h.ask("s.get " + hx(casmKey(&c))); out != implRaw {
			res.Mismatch(lib.Mismatch{Sig: "casm/stored-record" + label, Input: c.String(), Model: clip(out), Impl: clip(implRaw)})
		}
		// readers
		impl := []string{}
		cur, errH := headState.CompiledClassHash(&sc)
		cur2, errH2 := headState.CompiledClassHashV2(&sc)
		want, declared := w.g.HeadState().Casm[c]
		switch {
		case errH == nil && errH2 == nil:
			impl = append(impl, "ok", hx((*felt.Felt)(&cur).Marshal()), hx((*felt.Felt)(&cur2).Marshal()))
		case errors.Is(errH, db.ErrKeyNotFound) && errors.Is(errH2, db.ErrKeyNotFound):
			impl = append(impl, "missing")
		default:
			impl = append(impl, fmt.Sprintf("err(%v / %v)", errH, errH2))
		}
		if declared {
			res.Hit("casm:chain-read/head-declared")
			if errH != nil || !(*felt.Felt)(&cur).Equal(&want) {
				res.Violate(lib.Violation{Sig: "compiled-class-hash-at-head-differs-from-stored",
					What: fmt.Sprintf("%s%s: StateReader.CompiledClassHash(%s) = %s (err=%v), the chain's state diffs put %s in force",
						w.name, label, c.String(), (*felt.Felt)(&cur).String(), errH, want.String()),
					Replay: w.replay(map[string]any{"class": c.String()})})
				w.failed = true
			}
		} else {
			res.Hit("casm:chain-read/head-not-declared")
			if !errors.Is(errH, db.ErrKeyNotFound) {
				res.Violate(lib.Violation{Sig: "compiled-class-hash-of-undeclared-class-resolves",
					What:   fmt.Sprintf("%s%s: StateReader.CompiledClassHash(%s) = %s (err=%v) for a class the current chain does not declare", w.name, label, c.String(), (*felt.Felt)(&cur).String(), errH),
					Replay: w.replay(map[string]any{"class": c.String()})})
				w.failed = true
			}
		}
		if impl[0] == "ok" {
			for x := 0; x <= head; x++ {
				hist, closeHist, err := w.bc.StateAtBlockNumber(uint64(x))
				if err != nil {
					impl = append(impl, "err-state("+err.Error()+")")
					continue
				}
				got, err := hist.CompiledClassHash(&sc)
				closeHist()
				g := "notfound"
				switch {
				case err == nil:
					g = hx((*felt.Felt)(&got).Marshal())
				case !errors.Is(err, db.ErrKeyNotFound):
					g = "err(" + err.Error() + ")"
				}
				impl = append(impl, g)
				wantAt, was := w.g.States[x].Casm[c]
				wantS := "notfound"
				if was {
					wantS = hx(wantAt.Marshal())
				}
				res.Hit("casm:chain-read/historical")
				if g != wantS {
					res.Violate(lib.Violation{Sig: "compiled-class-hash-at-height-differs-from-stored",
						What: fmt.Sprintf("%s%s: historical CompiledClassHash(%s) at block %d = %s, the chain's state diffs put %s in force at that height (head %d)",
							w.name, label, c.String(), x, g, wantS, head),
						Replay: w.replay(map[string]any{"class": c.String(), "at": x})})
					w.failed = true
				}
			}
		}
		res.Compared(1)
		q := "s.casm.read " + hx(c.Marshal())
		if impl[0] == "ok" {
			q += " " + strings.Join(heights, " ")
		}
		if out, wantM := h.ask(q), strings.Join(impl, " "); out != wantM {
			res.Mismatch(lib.Mismatch{Sig: "casm/readers" + label, Input: clip(q), Model: clip(out), Impl: clip(wantM)})
		}
	}
}

// diffLine renders the CASM part of a block for the model: declared (sorted), migrated (sorted).
func casmDiffArgs(b *lib.Bundle) (decl []string, declKeys []string, mig []string, ndecl int) {
	var dk []felt.Felt
	for c := range b.SU.StateDiff.DeclaredV1Classes {
		dk = append(dk, c)
	}
	sort.Slice(dk, func(i, j int) bool { return dk[i].Cmp(&dk[j]) < 0 })
	for _, c := range dk {
		casm := b.SU.StateDiff.DeclaredV1Classes[c]
		defOk, v2c := "0", "-"
		if def, ok := b.Classes[c]; ok {
			if sc, ok := def.(*core.SierraClass); ok && sc.Compiled != nil {
				defOk = "1"
				hv2 := sc.Compiled.Hash(core.HashVersionV2)
				v2c = hx(hv2.Marshal())
			}
		}
		decl = append(decl, hx(c.Marshal()), hx(casm.Marshal()), defOk, v2c)
		declKeys = append(declKeys, hx(c.Marshal()))
	}
	var mk []felt.Felt
	for c := range b.SU.StateDiff.MigratedClasses {
		mk = append(mk, felt.Felt(c))
	}
	sort.Slice(mk, func(i, j int) bool { return mk[i].Cmp(&mk[j]) < 0 })
	for _, c := range mk {
		mig = append(mig, hx(c.Marshal()))
	}
	return decl, declKeys, mig, len(dk)
}

func (w *casmWorld) storeNext(version string, wantDeclare, wantMigrate, noDeclare bool) bool {
	h, res, g := w.h, w.h.res, w.g
	// draw diffs until one has the wanted feature (the generator declares / migrates at random)
	prev := g.HeadState()
	num := uint64(g.Height())
	var diff *core.StateDiff
	var classes map[felt.Felt]core.ClassDefinition
	for try := 0; try < 60; try++ {
		diff, classes = g.GenDiff(prev, num, version)
		if (!wantDeclare || len(diff.DeclaredV1Classes) > 0) && (!wantMigrate || len(diff.MigratedClasses) > 0) &&
			(!noDeclare || len(diff.DeclaredV1Classes) == 0) {
			break
		}
	}
	b, err := g.Next(&lib.BlockSpec{Version: version, Diff: diff, Classes: classes})
	if err != nil {
		res.Fatalf("casm: chain generator: %v", err)
		return false
	}
	if err, panicked, _ := lib.Try(func() error { return lib.StoreOn(w.bc, b) }); err != nil {
		sig := "chain-store-fails"
		if panicked {
			sig = "chain-store-panics"
		}
		res.Violate(lib.Violation{Sig: sig, What: fmt.Sprintf("storing valid block %d on %s: %v", num, w.name, err), Replay: w.replay(nil)})
		return false
	}
	for c := range b.SU.StateDiff.DeclaredV1Classes {
		w.known[c] = true
	}
	ver, _ := core.ParseBlockVersion(version)
	isV2 := "0"
	if ver.GreaterThanEqual(core.Ver0_14_1) {
		isV2 = "1"
	}
	decl, _, mig, nd := casmDiffArgs(b)
	if nd > 0 {
		res.Hit("casm:chain-block/declares-v" + map[string]string{"0": "1", "1": "2"}[isV2])
	}
	if len(mig) > 0 {
		res.Hit("casm:chain-block/migrates")
	}
	res.Hit("casm:chain-block/version=" + version)
	line := strings.TrimSpace(fmt.Sprintf("s.casm.store %s %d %d %s %s", isV2, num, nd, strings.Join(decl, " "), strings.Join(mig, " ")))
	res.Compared(1)
	if out := h.ask(strings.Join(strings.Fields(line), " ")); out != "ok" {
		res.Mismatch(lib.Mismatch{Sig: "casm/store-block", Input: clip(line), Model: out, Impl: "ok"})
	}
	res.Case(fmt.Sprintf("casm/%d/%d/%s", w.ci, num, b.Block.Hash.String()), nd > 0 || len(mig) > 0)
	w.check("")
	return !w.failed
}

func (w *casmWorld) revert() bool {
	h, res, g := w.h, w.h.res, w.g
	b := g.Head()
	_, declKeys, mig, nd := casmDiffArgs(b)
	if err := g.Revert(); err != nil {
		res.Fatalf("casm: chain generator revert: %v", err)
		return false
	}
	if err, panicked, _ := lib.Try(func() error { return w.bc.RevertHead() }); err != nil {
		sig := "revert-head-fails"
		if panicked {
			sig = "revert-head-panics"
		}
		res.Violate(lib.Violation{Sig: sig, What: fmt.Sprintf("RevertHead on %s: %v", w.name, err), Replay: w.replay(nil)})
		return false
	}
	if nd > 0 {
		res.Hit("casm:chain-revert/declaring-block")
	}
	if len(mig) > 0 {
		res.Hit("casm:chain-revert/migrating-block")
	}
	res.Hit("casm:chain-revert")
	line := strings.Join(strings.Fields(fmt.Sprintf("s.casm.revert %d %s %s", nd, strings.Join(declKeys, " "), strings.Join(mig, " "))), " ")
	res.Compared(1)
	if out := h.ask(line); out != "ok" {
		res.Mismatch(lib.Mismatch{Sig: "casm/revert-block", Input: clip(line), Model: out, Impl: "ok"})
	}
	w.check("(after revert)")
	return !w.failed
}

func (h *H) casmChain(ci int, srcNew, dstNew bool, kind string, v1Blocks int) {
	res := h.res
	r := h.rng("casm", ci)
	opt := lib.DefaultGenOptions()
	opt.MaxTxs = 2
	opt.Versions = []string{"0.14.0", "0.14.1"}
	g := lib.NewChainGen(r, srcNew, opt)
	be, err := h.openBackend(kind, fmt.Sprintf("casm%d", ci))
	if err != nil {
		res.Fatalf("open %s: %v", kind, err)
		return
	}
	defer func() { be.close() }()
	w := &casmWorld{h: h, ci: ci, name: fmt.Sprintf("%s/newState=%v", be.name, dstNew), g: g, store: be.store,
		bc: lib.NodeOn(be.store, g.Net, dstNew), known: map[felt.Felt]bool{}}
	res.Hit("casm:chain-backend/" + w.name)
	if out := h.ask("s.reset"); out != "ok" {
		res.Fatalf("casm: s.reset answered %q", out)
		return
	}
	// declared with the V1 hash (0.14.0): three of the generator's four Sierra classes, so that one is
	// left to be declared with V2 …
	for i := 0; i < v1Blocks; i++ {
		decl := i == 1 || i == 3 || i == 5
		if !w.storeNext("0.14.0", decl, false, !decl) {
			return
		}
	}
	// … then 0.14.1: migrations of those classes and V2 declarations
	n2 := h.f.Scale(10, 40)
	for i := 0; i < n2; i++ {
		if !w.storeNext("0.14.1", i%4 == 3, i%4 != 3, false) {
			return
		}
	}
	// reorg: down over migrating and declaring blocks (into the 0.14.0 part), checking after every step …
	down := n2 + 2
	if down > g.Height()-1 {
		down = g.Height() - 1
	}
	for i := 0; i < down; i++ {
		if !w.revert() {
			return
		}
	}
	// … and forward again on the other branch
	for i := 0; i < h.f.Scale(6, 20); i++ {
		v := "0.14.1"
		if i == 0 {
			v = "0.14.0"
		}
		if !w.storeNext(v, i%3 == 0, i%3 != 0, false) {
			return
		}
	}
	if be.reopen != nil {
		ns, err := be.reopen()
		if err != nil {
			res.Fatalf("reopen %s: %v", be.name, err)
			return
		}
		w.store, w.bc = ns, lib.NodeOn(ns, g.Net, dstNew)
		w.check("(reopened)")
	}
}
