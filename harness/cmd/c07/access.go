//go:build verif

package main

import (
	"errors"
	"fmt"
	"reflect"
	"unicode/utf8"

	"github.com/NethermindEth/juno/blockchain"
	"github.com/NethermindEth/juno/core"
	"github.com/NethermindEth/juno/core/felt"
	corestate "github.com/NethermindEth/juno/core/state"
	"github.com/NethermindEth/juno/db"
	"github.com/NethermindEth/juno/l1/eth"
	"verif/harness/lib"
)

// Rec is everything stored for one block (what writeBlockContent + the state's class writes put
// into the database).
type Rec struct {
	Header  *core.Header
	Txs     []core.Transaction
	Rcs     []*core.TransactionReceipt
	SU      *core.StateUpdate
	Comm    *core.BlockCommitments
	Classes map[felt.Felt]*core.DeclaredClassDefinition
	NewCls  bool // classes written through core/state (new backend) instead of core (legacy)
	Casm    map[felt.SierraClassHash]core.ClassCasmHashMetadata
	L1      *core.L1Head // written with the record when not nil (one per store: last write wins)
}

// WriteRec stores a record with the same writers and in the same order as
// blockchain/statebackend.writeBlockContent, inside one Update like the real Store.
func WriteRec(d db.KeyValueStore, rec *Rec) error {
	return d.Update(func(w db.IndexedBatch) error {
		if err := core.WriteBlockHeader(w, rec.Header); err != nil {
			return fmt.Errorf("WriteBlockHeader: %w", err)
		}
		if err := core.WriteTransactionsAndReceipts(w, rec.Header.Number, rec.Txs, rec.Rcs); err != nil {
			return fmt.Errorf("WriteTransactionsAndReceipts: %w", err)
		}
		if err := core.WriteStateUpdateByBlockNum(w, rec.Header.Number, rec.SU); err != nil {
			return fmt.Errorf("WriteStateUpdateByBlockNum: %w", err)
		}
		if err := core.WriteBlockCommitment(w, rec.Header.Number, rec.Comm); err != nil {
			return fmt.Errorf("WriteBlockCommitment: %w", err)
		}
		if err := core.WriteL1HandlerMsgHashes(w, rec.Txs); err != nil {
			return fmt.Errorf("WriteL1HandlerMsgHashes: %w", err)
		}
		for h, c := range rec.Classes {
			var err error
			if rec.NewCls {
				err = corestate.WriteClass(w, &h, c)
			} else {
				err = core.WriteClass(w, &h, c)
			}
			if err != nil {
				return fmt.Errorf("WriteClass: %w", err)
			}
		}
		if rec.L1 != nil {
			if err := core.WriteL1Head(w, rec.L1); err != nil {
				return fmt.Errorf("WriteL1Head: %w", err)
			}
		}
		for ch, md := range rec.Casm {
			if err := core.WriteClassCasmHashMetadata(w, &ch, &md); err != nil {
				return fmt.Errorf("WriteClassCasmHashMetadata: %w", err)
			}
		}
		return core.WriteChainHeight(w, rec.Header.Number)
	})
}

// Checker accumulates the outcome of reading one record back.
type Checker struct {
	res     *lib.Result
	backend string
	replay  func(accessor, detail string) any
	bad     int
	n       int
	partial map[string]bool
	// sigTag distinguishes the pass: "" (plain read-back) or "after-buffer-reuse-" (the store
	// recycles the buffers it lent to the Get callback / iterator)
	sigTag string
}

// violation sig: accessor + kind of difference + field (no data, no backend: stable across seeds).
func (c *Checker) fail(accessor, kind, field, detail string) {
	c.bad++
	sig := "readback-" + c.sigTag + accessor + "-" + kind
	if field != "" {
		sig += "-" + field
	}
	c.res.Violate(lib.Violation{Sig: sig,
		What:   fmt.Sprintf("%s on %s: %s", accessor, c.backend, detail),
		Replay: c.replay(accessor, detail)})
}

// failSig records a violation under a cause-specific signature.
func (c *Checker) failSig(sig, detail string) {
	c.bad++
	c.res.Violate(lib.Violation{Sig: sig, What: fmt.Sprintf("%s [%s]", detail, c.backend), Replay: c.replay(sig, detail)})
}

// eq checks one accessor result against what was stored.
func (c *Checker) eq(accessor string, err error, got, want any) {
	c.n++
	c.res.Hit("accessor:" + accessor)
	if err != nil {
		c.fail(accessor, "error", errClass(err), "returned error: "+err.Error())
		return
	}
	if d := Diff(want, got); d != "" {
		c.fail(accessor, diffKind(d), fieldOf(d), "differs from what was stored at "+d)
	}
}

// notFound checks that an out-of-range read is ErrKeyNotFound.
func (c *Checker) notFound(accessor string, f func() error) {
	c.n++
	c.res.Hit("accessor:" + accessor + "(out-of-range)")
	var err error
	perr, panicked, _ := lib.Try(func() error { err = f(); return nil })
	if panicked {
		c.fail(accessor, "panic", "out-of-range", "out-of-range index: "+perr.Error())
		return
	}
	if !errors.Is(err, db.ErrKeyNotFound) {
		c.fail(accessor, "out-of-range", "", fmt.Sprintf("out-of-range index returned %v instead of ErrKeyNotFound", err))
	}
}

func errClass(err error) string {
	s := err.Error()
	switch {
	case errors.Is(err, db.ErrKeyNotFound):
		return "notfound"
	case contains(s, "invalid UTF-8"):
		return "invalid-utf8"
	case contains(s, "missing"):
		return "missing-field"
	case contains(s, "cbor:"):
		return "cbor"
	default:
		return "other"
	}
}

func contains(s, sub string) bool {
	for i := 0; i+len(sub) <= len(s); i++ {
		if s[i:i+len(sub)] == sub {
			return true
		}
	}
	return false
}

// listEq compares top-level transaction / receipt lists: by length and element (the blob cannot
// and need not distinguish a nil list from an empty one: both are "no items").
func normTxs(x []core.Transaction) []core.Transaction {
	if len(x) == 0 {
		return []core.Transaction{}
	}
	return x
}

func normRcs(x []*core.TransactionReceipt) []*core.TransactionReceipt {
	if len(x) == 0 {
		return []*core.TransactionReceipt{}
	}
	return x
}

func normBlock(b *core.Block) *core.Block {
	if b == nil {
		return nil
	}
	return &core.Block{Header: b.Header, Transactions: normTxs(b.Transactions), Receipts: normRcs(b.Receipts)}
}

// DeleteCheck runs the lazy consumer used by RevertHead (DeleteTransactionsAndReceipts iterates
// over the stored transactions to find the hash-index and L1-message entries to delete) and checks
// that exactly the block's index entries are gone.
func DeleteCheck(c *Checker, d db.KeyValueStore, rec, replacement *Rec) {
	n := rec.Header.Number
	var err error
	perr, panicked, _ := lib.Try(func() error {
		err = d.Update(func(txn db.IndexedBatch) error { return core.DeleteTransactionsAndReceipts(txn, txn, n) })
		return nil
	})
	c.n++
	c.res.Hit("accessor:core.DeleteTransactionsAndReceipts")
	if panicked {
		c.fail("core.DeleteTransactionsAndReceipts", "panic", "", perr.Error())
		return
	}
	if err != nil {
		c.fail("core.DeleteTransactionsAndReceipts", "error", errClass(err), err.Error())
		return
	}
	// the index entries themselves (GetTransactionByHash would also be not-found merely because
	// the blob is gone)
	for i, tx := range rec.Txs {
		kind := reflect.TypeOf(tx).Elem().Name()
		c.res.Hit("delete-check:" + kind + nonceTag(tx))
		if _, err := core.TransactionBlockNumbersAndIndicesByHashBucket.Get(d, (*felt.TransactionHash)(tx.Hash())); !errors.Is(err, db.ErrKeyNotFound) {
			c.failSig("delete-leaves-tx-hash-index-"+kind, fmt.Sprintf("transaction %d (%s) of the deleted block still has its hash -> (block, index) entry (err=%v)", i, kind, err))
		}
		if l1, ok := tx.(*core.L1HandlerTransaction); ok {
			if _, err := core.GetL1HandlerTxnHashByMsgHash(d, l1.MessageHash()); !errors.Is(err, db.ErrKeyNotFound) {
				c.failSig("delete-leaves-l1-message-index", fmt.Sprintf("L1 message of transaction %d still resolves (err=%v)", i, err))
			}
		}
	}
	if _, err := core.GetTransactionsByBlockNumber(d, n); !errors.Is(err, db.ErrKeyNotFound) {
		c.failSig("delete-leaves-block-transactions", fmt.Sprintf("block transactions still readable (err=%v)", err))
	}
	if replacement == nil {
		return
	}
	// a different block takes the height: the old hashes must not resolve to anything
	if err := WriteRec(d, replacement); err != nil {
		c.failSig("replacement-write-fails", err.Error())
		return
	}
	StaleHashCheck(c, d, blockchain.New(d, lib.TestNetwork()), rec.Txs)
}

func nonceTag(tx core.Transaction) string {
	if l1, ok := tx.(*core.L1HandlerTransaction); ok {
		if l1.Nonce == nil {
			return "/no-nonce"
		}
		return "/nonce"
	}
	return ""
}

// StaleHashCheck: transactions of a block that was removed (and whose height now holds another
// block) must be not-found through every by-hash accessor — never another transaction.
// StaleBlockHashCheck: the hash of a reverted block must not resolve to anything any more (in
// particular not to the block that replaced it).
func StaleBlockHashCheck(c *Checker, d db.KeyValueReader, bc *blockchain.Blockchain, old *core.Header) {
	report := func(acc string, err error, got any) {
		c.n++
		c.res.Hit("stale-block-hash-check")
		if errors.Is(err, db.ErrKeyNotFound) {
			return
		}
		what := fmt.Sprintf("%s of the reverted block's hash returned err=%v", acc, err)
		if err == nil {
			what = fmt.Sprintf("%s of the reverted block's hash resolves to %s", acc, describe(got))
		}
		c.failSig("reverted-block-hash-still-resolves-"+acc, what)
	}
	hd, err := core.GetBlockHeaderByHash(d, old.Hash)
	report("core.GetBlockHeaderByHash", err, hd)
	n, err := bc.BlockNumberByHash(old.Hash)
	report("Reader.BlockNumberByHash", err, n)
	b, err := bc.BlockByHash(old.Hash)
	report("Reader.BlockByHash", err, b)
	su, err := bc.StateUpdateByHash(old.Hash)
	report("Reader.StateUpdateByHash", err, su)
}

func StaleHashCheck(c *Checker, d db.KeyValueReader, bc *blockchain.Blockchain, old []core.Transaction) {
	for i, tx := range old {
		kind := reflect.TypeOf(tx).Elem().Name()
		c.res.Hit("stale-hash-check:" + kind + nonceTag(tx))
		th := (*felt.TransactionHash)(tx.Hash())
		report := func(acc string, err error, got any) {
			c.n++
			if errors.Is(err, db.ErrKeyNotFound) {
				return
			}
			what := fmt.Sprintf("%s of removed transaction %d (%s) returned err=%v", acc, i, kind, err)
			if err == nil {
				what = fmt.Sprintf("%s of removed transaction %d (%s) resolves to %s", acc, i, kind, describe(got))
			}
			c.failSig("removed-tx-hash-still-resolves-"+acc, what)
		}
		got, err := core.GetTransactionByHash(d, th)
		report("core.GetTransactionByHash", err, got)
		got, err = bc.TransactionByHash(tx.Hash())
		report("Reader.TransactionByHash", err, got)
		rc, _, _, err := bc.Receipt(tx.Hash())
		report("Reader.Receipt", err, rc)
		bn, idx, err := bc.BlockNumberAndIndexByTxHash(th)
		report("Reader.BlockNumberAndIndexByTxHash", err, [2]uint64{bn, idx})
		if l1, ok := tx.(*core.L1HandlerTransaction); ok {
			eh := eth.HashFromBytes(l1.MessageHash())
			h, err := bc.L1HandlerTxnHash(&eh)
			report("Reader.L1HandlerTxnHash", err, h)
		}
	}
}

// ReadBack reads rec through every accessor of package core and of blockchain.Reader and compares
// with what was stored. isHead says whether rec is the chain head (Head / HeadsHeader / Height).
func ReadBack(c *Checker, d db.KeyValueStore, bc *blockchain.Blockchain, rec *Rec, isHead bool) {
	guard := func(name string, f func()) {
		if err, panicked, _ := lib.Try(func() error { f(); return nil }); panicked {
			c.fail(name, "panic", "", err.Error())
		}
	}
	h := rec.Header
	n := h.Number
	wantBlock := normBlock(&core.Block{Header: h, Transactions: rec.Txs, Receipts: rec.Rcs})
	wantTxs, wantRcs := normTxs(rec.Txs), normRcs(rec.Rcs)

	// ---- headers: full decoder ------------------------------------------------------------
	guard("header", func() {
		got, err := core.GetBlockHeaderByNumber(d, n)
		c.eq("core.GetBlockHeaderByNumber", err, got, h)
		got, err = core.GetBlockHeaderByHash(d, h.Hash)
		c.eq("core.GetBlockHeaderByHash", err, got, h)
		num, err := core.GetBlockHeaderNumberByHash(d, h.Hash)
		c.eq("core.GetBlockHeaderNumberByHash", err, num, n)
		got, err = bc.BlockHeaderByNumber(n)
		c.eq("Reader.BlockHeaderByNumber", err, got, h)
		got, err = bc.BlockHeaderByHash(h.Hash)
		c.eq("Reader.BlockHeaderByHash", err, got, h)
		num, err = bc.BlockNumberByHash(h.Hash)
		c.eq("Reader.BlockNumberByHash", err, num, n)
	})
	// ---- headers: partial decoders (projections) --------------------------------------------
	guard("header-projections", func() {
		hash, err := core.GetBlockHeaderHashByNumber(d, n)
		c.eq("core.GetBlockHeaderHashByNumber", err, hash, h.Hash)
		hash, err = bc.BlockHeaderHashByNumber(n)
		c.eq("Reader.BlockHeaderHashByNumber", err, hash, h.Hash)
		cnt, err := core.GetBlockTransactionCountByNumber(d, n)
		c.eq("core.GetBlockTransactionCountByNumber", err, cnt, h.TransactionCount)
		cnt, err = bc.BlockTransactionCountByNumber(n)
		c.eq("Reader.BlockTransactionCountByNumber", err, cnt, h.TransactionCount)
		ts, err := core.GetBlockHeaderTimestampByNumber(d, n)
		c.eq("core.GetBlockHeaderTimestampByNumber", err, ts, h.Timestamp)
		// the pointer-valued projections report a nil field as an error ("missing …"): that is
		// the specified behaviour, and the stored value is indeed nil
		root, err := core.GetGlobalStateRootByBlockNumber(d, n)
		if h.GlobalStateRoot == nil {
			c.expectMissing("core.GetGlobalStateRootByBlockNumber", err)
			_, err = bc.GlobalStateRootByBlockNumber(n)
			c.expectMissing("Reader.GlobalStateRootByBlockNumber", err)
		} else {
			c.eq("core.GetGlobalStateRootByBlockNumber", err, root, h.GlobalStateRoot)
			root, err = bc.GlobalStateRootByBlockNumber(n)
			c.eq("Reader.GlobalStateRootByBlockNumber", err, root, h.GlobalStateRoot)
		}
		bl, err := core.GetBlockHeaderEventsBloomByNumber(d, n)
		if h.EventsBloom == nil {
			c.expectMissing("core.GetBlockHeaderEventsBloomByNumber", err)
		} else {
			c.eq("core.GetBlockHeaderEventsBloomByNumber", err, bl, h.EventsBloom)
		}
		h2, r2, err := core.GetBlockHeaderHashAndStateRootByNumber(d, n)
		if h.GlobalStateRoot == nil {
			c.expectMissing("core.GetBlockHeaderHashAndStateRootByNumber", err)
		} else {
			c.eq("core.GetBlockHeaderHashAndStateRootByNumber", err, []*felt.Felt{h2, r2}, []*felt.Felt{h.Hash, h.GlobalStateRoot})
		}
	})
	// ---- whole block ------------------------------------------------------------------------
	guard("block", func() {
		b, err := core.GetBlockByNumber(d, n)
		c.eq("core.GetBlockByNumber", err, normBlock(b), wantBlock)
		b, err = bc.BlockByNumber(n)
		c.eq("Reader.BlockByNumber", err, normBlock(b), wantBlock)
		b, err = bc.BlockByHash(h.Hash)
		c.eq("Reader.BlockByHash", err, normBlock(b), wantBlock)
		if isHead {
			b, err = bc.Head()
			c.eq("Reader.Head", err, normBlock(b), wantBlock)
			hh, err := bc.HeadsHeader()
			c.eq("Reader.HeadsHeader", err, hh, h)
			height, err := bc.Height()
			c.eq("Reader.Height", err, height, n)
			height, err = core.GetChainHeight(d)
			c.eq("core.GetChainHeight", err, height, n)
		}
	})
	// ---- all transactions / receipts ----------------------------------------------------------
	guard("lists", func() {
		txs, err := core.GetTransactionsByBlockNumber(d, n)
		c.eq("core.GetTransactionsByBlockNumber", err, normTxs(txs), wantTxs)
		if err == nil && len(wantTxs) == 0 {
			// an empty block reads as an empty list, not nil (the RPC layer serialises [] vs null)
			c.n++
			c.res.Hit("accessor:empty-block-lists")
			rcs0, err0 := core.GetReceiptsByBlockNumber(d, n)
			if txs == nil || (err0 == nil && len(wantRcs) == 0 && rcs0 == nil) {
				c.fail("core.GetTransactionsByBlockNumber", "nil-list-for-empty-block", "", "an empty block's transaction / receipt list is read back as nil instead of empty")
			}
		}
		txs, err = bc.TransactionsByBlockNumber(n)
		c.eq("Reader.TransactionsByBlockNumber", err, normTxs(txs), wantTxs)
		var it []core.Transaction
		var iterErr error
		for tx, err := range core.GetTransactionsByBlockNumberIter(d, n) {
			if err != nil {
				iterErr = err
				break
			}
			it = append(it, tx)
		}
		c.eq("core.GetTransactionsByBlockNumberIter", iterErr, normTxs(it), wantTxs)
		rcs, err := core.GetReceiptsByBlockNumber(d, n)
		c.eq("core.GetReceiptsByBlockNumber", err, normRcs(rcs), wantRcs)
		txs, rcs, err = core.GetTransactionsAndReceiptsByBlockNumber(d, n)
		c.eq("core.GetTransactionsAndReceiptsByBlockNumber", err, normBlock(&core.Block{Header: h, Transactions: txs, Receipts: rcs}), wantBlock)
		txs, rcs, err = bc.TransactionsAndReceiptsByBlockNumber(n)
		c.eq("Reader.TransactionsAndReceiptsByBlockNumber", err, normBlock(&core.Block{Header: h, Transactions: txs, Receipts: rcs}), wantBlock)
		// full (non-partial) decoder of the blob, then its lazy slices
		bt, err := core.BlockTransactionsBucket.Get(d, n)
		if err != nil {
			c.eq("core.BlockTransactionsBucket.Get", err, nil, nil)
		} else {
			txs, err = bt.Transactions().All()
			c.eq("BlockTransactions.Transactions.All", err, normTxs(txs), wantTxs)
			rcs, err = bt.Receipts().All()
			c.eq("BlockTransactions.Receipts.All", err, normRcs(rcs), wantRcs)
		}
		// partial decoders over the whole block
		wantHashes := make([]felt.Felt, len(rec.Txs))
		for i, tx := range rec.Txs {
			wantHashes[i] = *tx.Hash()
		}
		hashes, err := core.GetTransactionHashesByBlockNumber(d, n)
		c.partialList("core.GetTransactionHashesByBlockNumber", err, hashes, wantHashes)
		hashes, err = bc.TransactionHashesByBlockNumber(n)
		c.partialList("Reader.TransactionHashesByBlockNumber", err, hashes, wantHashes)
		wantEvents := make([]core.TransactionEvents, len(rec.Rcs))
		for i, rc := range rec.Rcs {
			wantEvents[i] = core.TransactionEvents{Events: rc.Events, TransactionHash: rc.TransactionHash}
		}
		evs, err := core.GetTransactionEventsByBlockNumber(d, n)
		c.partialList("core.GetTransactionEventsByBlockNumber", err, evs, wantEvents)
	})
	// ---- per index ------------------------------------------------------------------------
	guard("by-index", func() {
		for i := range rec.Txs {
			u := uint64(i)
			tx, err := core.GetTransactionByBlockAndIndex(d, n, u)
			c.eq("core.GetTransactionByBlockAndIndex", err, tx, rec.Txs[i])
			tx, err = bc.TransactionByBlockNumberAndIndex(n, u)
			c.eq("Reader.TransactionByBlockNumberAndIndex", err, tx, rec.Txs[i])
			th := (*felt.TransactionHash)(rec.Txs[i].Hash())
			tx, err = core.GetTransactionByHash(d, th)
			c.eq("core.GetTransactionByHash", err, tx, rec.Txs[i])
			tx, err = bc.TransactionByHash(rec.Txs[i].Hash())
			c.eq("Reader.TransactionByHash", err, tx, rec.Txs[i])
			bn, idx, err := bc.BlockNumberAndIndexByTxHash(th)
			c.eq("Reader.BlockNumberAndIndexByTxHash", err, [2]uint64{bn, idx}, [2]uint64{n, u})
			if l1, ok := rec.Txs[i].(*core.L1HandlerTransaction); ok {
				mh := l1.MessageHash()
				got, err := core.GetL1HandlerTxnHashByMsgHash(d, mh)
				c.eq("core.GetL1HandlerTxnHashByMsgHash", err, got, *l1.TransactionHash)
				eh := eth.HashFromBytes(mh)
				got, err = bc.L1HandlerTxnHash(&eh)
				c.eq("Reader.L1HandlerTxnHash", err, got, *l1.TransactionHash)
			}
		}
		for i := range rec.Rcs {
			u := uint64(i)
			rc, err := core.GetReceiptByBlockAndIndex(d, n, u)
			c.eq("core.GetReceiptByBlockAndIndex", err, rc, rec.Rcs[i])
			if !utf8.ValidString(rec.Rcs[i].RevertReason) {
				c.res.Hit("readback:receipt-with-invalid-utf8-revert-reason")
			}
			st, err := core.GetTransactionExecutionStatusByBlockAndIndex(d, n, u)
			want := core.TransactionExecutionStatus{Reverted: rec.Rcs[i].Reverted, RevertReason: rec.Rcs[i].RevertReason}
			c.eq("core.GetTransactionExecutionStatusByBlockAndIndex", err, st, want)
			st, err = bc.TransactionExecutionStatusByBlockNumberAndIndex(n, u)
			c.eq("Reader.TransactionExecutionStatusByBlockNumberAndIndex", err, st, want)
			if i < len(rec.Txs) {
				tx, rc, err := core.GetTransactionAndReceiptByBlockAndIndex(d, n, u)
				c.eq("core.GetTransactionAndReceiptByBlockAndIndex", err, core.TransactionAndReceipt{Transaction: tx, Receipt: rc},
					core.TransactionAndReceipt{Transaction: rec.Txs[i], Receipt: rec.Rcs[i]})
				tx, rcv, bh, err := bc.TransactionAndReceiptByBlockNumberAndIndex(n, u)
				c.eq("Reader.TransactionAndReceiptByBlockNumberAndIndex", err,
					[]any{tx, &rcv, bh}, []any{rec.Txs[i], rec.Rcs[i], h.Hash})
				rc2, bh2, num2, err := bc.Receipt(rec.Txs[i].Hash())
				c.eq("Reader.Receipt", err, []any{rc2, bh2, num2}, []any{rec.Rcs[i], h.Hash, n})
			}
		}
		// one past the end (and far past): ErrKeyNotFound, never a neighbour, never a panic
		for _, off := range []uint64{0, 1, 1 << 20} {
			i := uint64(len(rec.Txs)) + off
			c.notFound("core.GetTransactionByBlockAndIndex", func() error { _, err := core.GetTransactionByBlockAndIndex(d, n, i); return err })
			j := uint64(len(rec.Rcs)) + off
			c.notFound("core.GetReceiptByBlockAndIndex", func() error { _, err := core.GetReceiptByBlockAndIndex(d, n, j); return err })
			c.notFound("core.GetTransactionExecutionStatusByBlockAndIndex", func() error {
				_, err := core.GetTransactionExecutionStatusByBlockAndIndex(d, n, j)
				return err
			})
			k := uint64(max(len(rec.Txs), len(rec.Rcs))) + off
			c.notFound("core.GetTransactionAndReceiptByBlockAndIndex", func() error {
				_, _, err := core.GetTransactionAndReceiptByBlockAndIndex(d, n, k)
				return err
			})
		}
	})
	// ---- state update, commitments, classes ---------------------------------------------------
	guard("state-update", func() {
		su, err := core.GetStateUpdateByBlockNum(d, n)
		c.eq("core.GetStateUpdateByBlockNum", err, su, rec.SU)
		su, err = core.GetStateUpdateByHash(d, h.Hash)
		c.eq("core.GetStateUpdateByHash", err, su, rec.SU)
		su, err = bc.StateUpdateByNumber(n)
		c.eq("Reader.StateUpdateByNumber", err, su, rec.SU)
		su, err = bc.StateUpdateByHash(h.Hash)
		c.eq("Reader.StateUpdateByHash", err, su, rec.SU)
		cm, err := core.GetBlockCommitmentByBlockNum(d, n)
		c.eq("core.GetBlockCommitmentByBlockNum", err, cm, rec.Comm)
		cm, err = bc.BlockCommitmentsByNumber(n)
		c.eq("Reader.BlockCommitmentsByNumber", err, cm, rec.Comm)
		for ch, def := range rec.Classes {
			if rec.NewCls {
				got, err := corestate.GetClass(d, &ch)
				c.eq("state.GetClass", err, got, def)
			} else {
				got, err := core.GetClass(d, &ch)
				c.eq("core.GetClass", err, got, def)
			}
			ok, err := core.HasClass(d, &ch)
			c.eq("core.HasClass", err, ok, true)
		}
		if rec.L1 != nil {
			got, err := core.GetL1Head(d)
			c.eq("core.GetL1Head", err, &got, rec.L1)
			got, err = bc.L1Head()
			c.eq("Reader.L1Head", err, &got, rec.L1)
		}
		for ch, md := range rec.Casm {
			got, err := core.GetClassCasmHashMetadata(d, &ch)
			c.n++
			c.res.Hit("accessor:core.GetClassCasmHashMetadata")
			if err != nil {
				c.fail("core.GetClassCasmHashMetadata", "error", errClass(err), err.Error())
			} else if !reflect.DeepEqual(got, md) {
				c.fail("core.GetClassCasmHashMetadata", "value", "", fmt.Sprintf("stored %+v, read %+v", md, got))
			}
		}
	})
}

func (c *Checker) expectMissing(accessor string, err error) {
	c.n++
	c.res.Hit("accessor:" + accessor + "(nil-field)")
	if err == nil {
		c.fail(accessor, "nil-field-not-reported", "", "stored field is nil but the projection returned a value without error")
	} else if errClass(err) != "missing-field" {
		// only the accessor's own "missing …" error is the specified report of a nil field; a decode
		// error of the projection is a different failure
		c.fail(accessor, "nil-field-wrong-error", errClass(err), "stored field is nil; expected the \"missing …\" error, got: "+err.Error())
	}
}

// partialList compares a projected list (nil and empty are both "no items").
func (c *Checker) partialList(accessor string, err error, got, want any) {
	gv, wv := reflect.ValueOf(got), reflect.ValueOf(want)
	if err == nil && gv.Len() == 0 && wv.Len() == 0 {
		c.n++
		c.res.Hit("accessor:" + accessor)
		return
	}
	c.eq(accessor, err, got, want)
}
