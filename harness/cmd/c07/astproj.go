//go:build verif

package main

import (
	"fmt"
	"go/ast"
	"go/parser"
	"go/token"
	"os"
	"path/filepath"
	"reflect"
	"sort"
	"strings"

	"github.com/NethermindEth/juno/core"
	"verif/harness/lib"
)

// ---------------------------------------------------------------------------------------------
// The projection structs of core/partial_cbor.go are unexported, so reflection cannot see them.
// Their declarations are read from the source of package core (go/parser, no execution), resolved
// with Go's embedding rule (a shallower field hides an embedded one with the same key), and
// compared with the model's projection tables. This is the one source-level part of the tie; it is
// tolerant: a type that cannot be found or a field type that cannot be interpreted is a note, not
// a failure (the behavioural "proj" phase does not depend on it).
// What it notices that behaviour cannot: a change of the projection tables the theorems are about
// (e.g. a shadow field that lost its `cbor:"…"` rename). A record key the skeleton does not name
// is only noted: that costs allocations, not correctness.
// ---------------------------------------------------------------------------------------------

type srcField struct {
	name     string // Go name ("" for embedded)
	key      string
	typ      ast.Expr
	embedded string // name of the embedded struct type
}

func parseCoreStructs(dir string) (map[string][]srcField, error) {
	fset := token.NewFileSet()
	files, err := filepath.Glob(filepath.Join(dir, "*.go"))
	if err != nil {
		return nil, err
	}
	out := map[string][]srcField{}
	for _, f := range files {
		if strings.HasSuffix(f, "_test.go") {
			continue
		}
		af, err := parser.ParseFile(fset, f, nil, parser.SkipObjectResolution)
		if err != nil {
			continue
		}
		for _, d := range af.Decls {
			gd, ok := d.(*ast.GenDecl)
			if !ok || gd.Tok != token.TYPE {
				continue
			}
			for _, sp := range gd.Specs {
				ts := sp.(*ast.TypeSpec)
				st, ok := ts.Type.(*ast.StructType)
				if !ok {
					continue
				}
				var fs []srcField
				for _, fld := range st.Fields.List {
					tag := ""
					if fld.Tag != nil {
						tag = reflect.StructTag(strings.Trim(fld.Tag.Value, "`")).Get("cbor")
					}
					name, _, _ := strings.Cut(tag, ",")
					if len(fld.Names) == 0 {
						if id, ok := fld.Type.(*ast.Ident); ok {
							fs = append(fs, srcField{embedded: id.Name})
						}
						continue
					}
					for _, n := range fld.Names {
						k := name
						if k == "" {
							k = n.Name
						}
						fs = append(fs, srcField{name: n.Name, key: k, typ: fld.Type})
					}
				}
				out[ts.Name.Name] = fs
			}
		}
	}
	return out, nil
}

// exprDesc interprets the field types that occur in projections.
func exprDesc(e ast.Expr) (string, bool) {
	switch t := e.(type) {
	case *ast.Ident:
		switch t.Name {
		case "discardedCBOR":
			return "disc", true
		case "uint64":
			return "u64", true
		case "bool":
			return "bool", true
		case "string":
			return "str", true
		case "Event":
			return Desc(reflect.TypeOf(core.Event{})), true
		}
	case *ast.StarExpr:
		if s, ok := exprDesc(t.X); ok {
			if s == "raw" {
				return "raw", true // *bloom.BloomFilter is a raw item as a whole
			}
			return "ptr(" + s + ")", true
		}
	case *ast.ArrayType:
		if t.Len == nil {
			if s, ok := exprDesc(t.Elt); ok {
				return "slice(" + s + ")", true
			}
		}
	case *ast.SelectorExpr:
		if x, ok := t.X.(*ast.Ident); ok {
			switch x.Name + "." + t.Sel.Name {
			case "felt.Felt":
				return "felt", true
			case "bloom.BloomFilter":
				return "raw", true
			}
		}
	}
	return "", false
}

// resolveProjection: description of a projection struct after embedding / shadowing.
func resolveProjection(structs map[string][]srcField, name string) (string, error) {
	fs, ok := structs[name]
	if !ok {
		return "", fmt.Errorf("type %s not found", name)
	}
	type cand struct {
		key, desc string
		depth     int
	}
	best := map[string]cand{}
	var walk func(fs []srcField, depth int) error
	walk = func(fs []srcField, depth int) error {
		for _, f := range fs {
			if f.embedded != "" {
				inner, ok := structs[f.embedded]
				if !ok {
					return fmt.Errorf("embedded type %s not found", f.embedded)
				}
				if err := walk(inner, depth+1); err != nil {
					return err
				}
				continue
			}
			if !ast.IsExported(f.name) {
				continue
			}
			d, ok := exprDesc(f.typ)
			if !ok {
				return fmt.Errorf("field %s.%s: type not interpreted", name, f.name)
			}
			if b, ok := best[f.key]; !ok || depth < b.depth {
				best[f.key] = cand{f.key, d, depth}
			}
		}
		return nil
	}
	if err := walk(fs, 0); err != nil {
		return "", err
	}
	var cs []cand
	for _, c := range best {
		cs = append(cs, c)
	}
	sort.Slice(cs, func(i, j int) bool {
		if len(cs[i].key) != len(cs[j].key) {
			return len(cs[i].key) < len(cs[j].key)
		}
		return cs[i].key < cs[j].key
	})
	parts := make([]string, len(cs))
	for i, c := range cs {
		parts[i] = c.key + ":0:" + c.desc
	}
	return "struct{" + strings.Join(parts, ";") + "}", nil
}

var projectionNames = []string{
	"headerHashProjection", "headerGlobalStateRootProjection", "headerTransactionCountProjection",
	"headerTimestampProjection", "headerEventsBloomProjection", "headerHashAndStateRootProjection",
	"receiptExecutionStatusProjection", "receiptEventsProjection", "transactionHashProjection",
}

func (h *H) phaseProjTables() {
	if h.only != nil {
		return
	}
	res := h.res
	repo := os.Getenv("VERIF_REPO")
	if repo == "" {
		repo = "/repo"
	}
	structs, err := parseCoreStructs(filepath.Join(repo, "core"))
	if err != nil || len(structs) == 0 {
		res.Fatalf("projection tables: cannot read %s/core: %v", repo, err)
		return
	}
	for _, name := range projectionNames {
		want, err := resolveProjection(structs, name)
		if err != nil {
			res.Fatalf("projection tables: %v (not compared)", err)
			res.Hit("projection-table:not-compared")
			continue
		}
		got := h.ask("type " + name)
		res.Compared(1)
		res.Hit("projection-table:compared")
		if got != "ok "+want {
			res.Mismatch(lib.Mismatch{Sig: "projection-table/" + name, Input: name, Model: firstDiff(got, "ok "+want), Impl: firstDiff("ok "+want, got)})
		}
	}
	// every key of the record types is named by the skeleton / union (reflection on the real
	// record types against the parsed projection)
	check := func(proj string, rec reflect.Type) {
		d, err := resolveProjection(structs, proj)
		if err != nil {
			return
		}
		for _, f := range structFields(rec) {
			res.Compared(1)
			if !strings.Contains(d, "{"+f.key+":") && !strings.Contains(d, ";"+f.key+":") {
				// an allocation optimisation of partial_cbor.go, not part of the property: information only
				res.Note("projection %s does not name key %s of %s (unmatched-key path, results unaffected)", proj, f.key, rec.Name())
				res.Hit("projection-misses-field(note)")
			}
		}
	}
	check("headerHashProjection", reflect.TypeOf(core.Header{}))
	check("receiptEventsProjection", reflect.TypeOf(core.TransactionReceipt{}))
	for _, k := range txKinds {
		check("transactionHashProjection", k)
	}
}
