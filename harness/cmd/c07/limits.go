//go:build verif

package main

import (
	"encoding/json"
	"fmt"
	"reflect"
	"strings"

	"github.com/NethermindEth/juno/core"
	"github.com/NethermindEth/juno/core/felt"
	"github.com/NethermindEth/juno/db/memory"
	"github.com/NethermindEth/juno/encoder"
	"github.com/fxamacker/cbor/v2"
	"verif/harness/lib"
)

// ---------------------------------------------------------------------------------------------
// Phase "limits": the decoder has size limits the encoder does not have (DecOptions
// MaxArrayElements, MaxMapPairs, MaxNestedLevels; library defaults 131072 / 131072 / 32,
// encoder/encoder.go raises some of them). A value just above a limit is written without error
// and can never be read again. One value per container kind and field, at the library defaults
// and one above: big felt arrays (Sierra program, CASM bytecode, calldata, signature, event data,
// declared-class list, entry points), big maps (nonces, one contract's storage diff, deployed
// contracts), deep nesting (SegmentLengths is the only recursive stored type).
// The configured array limit itself (10 485 760 elements, ~50 MB of felts) is a deliberate bound and
// is not probed; it is recorded as an assumption.
// ---------------------------------------------------------------------------------------------

const libDefaultLimit = 131072

// headWidthLengths: one below / at / above every switch of a CBOR length head (24, 256, 65536;
// 2^32 is not feasible in memory).
var headWidthLengths = []int{23, 24, 255, 256, 257, 65535, 65536, 65537}

type limitCase struct {
	kind  string // array | map | nesting
	field string
	n     int
	t     reflect.Type
	v     any
	// store writes the value with the real writer and reads it with the real accessor
	store func() (any, error)
}

func feltsN(n int) []felt.Felt {
	out := make([]felt.Felt, n)
	for i := range out {
		if i%1000 == 0 {
			out[i].SetUint64(uint64(i))
		}
	}
	return out
}

func feltMapN(n int) map[felt.Felt]*felt.Felt {
	m := make(map[felt.Felt]*felt.Felt, n)
	for i := 0; i < n; i++ {
		var k felt.Felt
		k.SetUint64(uint64(i))
		v := k
		m[k] = &v
	}
	return m
}

func nestedSegments(depth int) core.SegmentLengths {
	sl := core.SegmentLengths{Length: 1}
	for i := 0; i < depth; i++ {
		sl = core.SegmentLengths{Children: []core.SegmentLengths{sl, {Length: uint64(i)}}}
	}
	return sl
}

func (h *H) limitCases() (cs []func() limitCase, kinds []string) {
	g := &Gen{R: h.rng("limits", 0)}
	add := func(kind string, mk func() limitCase) { cs = append(cs, mk); kinds = append(kinds, kind) }
	txCase := func(field string, n int, tx core.Transaction) limitCase {
		g.fixTx(tx)
		return limitCase{kind: "array", field: field, n: n, t: tTxIface, v: tx, store: func() (any, error) {
			d := memory.New()
			if err := core.WriteTransactionsAndReceipts(d, 3, []core.Transaction{tx}, []*core.TransactionReceipt{{TransactionHash: tx.Hash()}}); err != nil {
				return nil, fmt.Errorf("write: %w", err)
			}
			return core.GetTransactionByBlockAndIndex(newPoisonStore(d), 3, 0)
		}}
	}
	classCase := func(kind, field string, n int, cls core.ClassDefinition) limitCase {
		def := &core.DeclaredClassDefinition{At: 5, Class: cls}
		return limitCase{kind: kind, field: field, n: n, t: reflect.TypeOf(def), v: def, store: func() (any, error) {
			d := memory.New()
			ch := g.uniqueFelt()
			if err := core.WriteClass(d, ch, def); err != nil {
				return nil, fmt.Errorf("write: %w", err)
			}
			return core.GetClass(newPoisonStore(d), ch)
		}}
	}
	suCase := func(kind, field string, n int, sd *core.StateDiff) limitCase {
		su := &core.StateUpdate{BlockHash: g.uniqueFelt(), StateDiff: sd}
		return limitCase{kind: kind, field: field, n: n, t: reflect.TypeOf(su), v: su, store: func() (any, error) {
			d := memory.New()
			if err := core.WriteStateUpdateByBlockNum(d, 9, su); err != nil {
				return nil, fmt.Errorf("write: %w", err)
			}
			return core.GetStateUpdateByBlockNum(newPoisonStore(d), 9)
		}}
	}
	// head-width boundaries of every length-prefixed container: 1-byte / 2-byte / 4-byte length
	// switches of the library's head writer AND of felt.Slice's own hand-written copy of it
	for _, n := range headWidthLengths {
		add("array", func() limitCase {
			return classCase("array", "SierraClass.Program", n, &core.SierraClass{Program: feltsN(n), Compiled: &core.CasmClass{}})
		})
		add("array", func() limitCase {
			return classCase("array", "CasmClass.Bytecode", n, &core.SierraClass{Compiled: &core.CasmClass{Bytecode: feltsN(n)}})
		})
		add("array", func() limitCase {
			return txCase("InvokeTransaction.CallData", n, &core.InvokeTransaction{CallData: feltsN(n)})
		})
		add("array", func() limitCase {
			ps := make([]*felt.Felt, n)
			for i := range ps {
				if i%3 != 0 {
					ps[i] = lib.F(uint64(i))
				}
			}
			return suCase("array", "StateDiff.DeclaredV0Classes", n, &core.StateDiff{DeclaredV0Classes: ps})
		})
		add("array", func() limitCase {
			return classCase("array", "DeprecatedCairoClass.Externals", n, &core.DeprecatedCairoClass{Externals: make([]core.DeprecatedEntryPoint, n)})
		})
		add("string", func() limitCase {
			return classCase("string", "DeprecatedCairoClass.Program", n, &core.DeprecatedCairoClass{Program: strings.Repeat("x", n)})
		})
		add("bytes", func() limitCase {
			return classCase("bytes", "DeprecatedCairoClass.Abi", n, &core.DeprecatedCairoClass{Abi: json.RawMessage(strings.Repeat("[", n))})
		})
		if n <= 65537 {
			add("map", func() limitCase { return suCase("map", "StateDiff.Nonces", n, &core.StateDiff{Nonces: feltMapN(n)}) })
		}
	}
	for _, n := range []int{libDefaultLimit, libDefaultLimit + 1} {
		add("array", func() limitCase {
			return classCase("array", "SierraClass.Program", n, &core.SierraClass{Program: feltsN(n), Compiled: &core.CasmClass{}})
		})
		add("map", func() limitCase { return suCase("map", "StateDiff.Nonces", n, &core.StateDiff{Nonces: feltMapN(n)}) })
	}
	n := libDefaultLimit + 1
	add("array", func() limitCase {
		return classCase("array", "CasmClass.Bytecode", n, &core.SierraClass{Compiled: &core.CasmClass{Bytecode: feltsN(n)}})
	})
	add("array", func() limitCase {
		return classCase("array", "DeprecatedCairoClass.Externals", n, &core.DeprecatedCairoClass{Externals: make([]core.DeprecatedEntryPoint, n)})
	})
	add("array", func() limitCase {
		return txCase("InvokeTransaction.CallData", n, &core.InvokeTransaction{CallData: feltsN(n)})
	})
	add("array", func() limitCase {
		return txCase("DeclareTransaction.TransactionSignature", n, &core.DeclareTransaction{TransactionSignature: feltsN(n)})
	})
	add("array", func() limitCase {
		return suCase("array", "StateDiff.DeclaredV0Classes", n, &core.StateDiff{DeclaredV0Classes: make([]*felt.Felt, n)})
	})
	add("map", func() limitCase {
		return suCase("map", "StateDiff.StorageDiffs[contract]", n, &core.StateDiff{StorageDiffs: map[felt.Felt]map[felt.Felt]*felt.Felt{*lib.F(1): feltMapN(n)}})
	})
	// event data inside a receipt inside the blob
	add("array", func() limitCase {
		tx := g.Tx(Cfg(1, false))
		rc := &core.TransactionReceipt{TransactionHash: tx.Hash(), Events: []*core.Event{{Data: feltsN(n)}}}
		return limitCase{kind: "array", field: "Event.Data", n: n, t: reflect.TypeOf(rc), v: rc, store: func() (any, error) {
			d := memory.New()
			if err := core.WriteTransactionsAndReceipts(d, 3, []core.Transaction{tx}, []*core.TransactionReceipt{rc}); err != nil {
				return nil, fmt.Errorf("write: %w", err)
			}
			return core.GetReceiptByBlockAndIndex(newPoisonStore(d), 3, 0)
		}}
	})
	// nesting: every level of SegmentLengths adds a map and an array level; the first depth the
	// decoder refuses is searched below (depths 1..40), so the case is "just above" whatever the
	// configured MaxNestedLevels is (up to 80 CBOR levels)
	for depth := 1; depth <= 40; depth++ {
		add("nesting", func() limitCase {
			return classCase("nesting", "CasmClass.BytecodeSegmentLengths", depth,
				&core.SierraClass{Compiled: &core.CasmClass{BytecodeSegmentLengths: nestedSegments(depth)}})
		})
	}
	return cs, kinds
}

// probeLimits finds the decoder's effective limits with synthetic items decoded into a
// cbor.RawMessage (only the well-formedness pass runs: nothing is allocated per element).
func probeLimits() (maxArray, maxMap, maxNest int) {
	accepts := func(b []byte) bool {
		var raw cbor.RawMessage
		return encoder.Unmarshal(b, &raw) == nil
	}
	sized := func(major byte, n, per int) []byte {
		b := append(cborHead(major, uint64(n)), make([]byte, n*per)...)
		return b
	}
	pick := func(major byte, per int) int {
		switch {
		case !accepts(sized(major, libDefaultLimit+1, per)):
			return libDefaultLimit
		case !accepts(sized(major, 10485761, per)):
			return 10485760
		default:
			return 1 << 31
		}
	}
	maxArray, maxMap = pick(4, 1), pick(5, 2)
	nested := func(d int) []byte {
		b := make([]byte, d+1)
		for i := 0; i < d; i++ {
			b[i] = 0x81
		}
		return b
	}
	lo, hi := 0, 1
	for accepts(nested(hi)) && hi < 1<<16 {
		lo, hi = hi, hi*2
	}
	for lo+1 < hi {
		mid := (lo + hi) / 2
		if accepts(nested(mid)) {
			lo = mid
		} else {
			hi = mid
		}
	}
	return maxArray, maxMap, lo
}

func (h *H) phaseLimits(shard, shards int) {
	if !h.want("limits", 0) {
		return
	}
	res := h.res
	maxArray, maxMap, maxNest := probeLimits()
	if shard == 0 {
		res.Hit(fmt.Sprintf("decoder-limits:array=%d,map=%d,nesting=%d", maxArray, maxMap, maxNest))
		h.feltSliceHeaders()
	}
	mks, kinds := h.limitCases()
	for ci, mk := range mks {
		// nesting cases stay together (the search stops at the first failing depth)
		if kinds[ci] == "nesting" {
			if shard != 0 {
				continue
			}
		} else if ci%shards != shard {
			continue
		}
		c := mk()
		label := fmt.Sprintf("limits:%s/%s", c.kind, c.field)
		res.Hit(label)
		res.Case(fmt.Sprintf("limits/%s/%s/%d", c.kind, c.field, c.n), true)
		res.Hit(fmt.Sprintf("len:%s:%s:%d", c.kind, c.field, c.n))
		above := map[string]string{"array": "array-above-%d-elements", "map": "map-above-%d-pairs", "nesting": "nesting-above-decoder-limit",
			"string": "string-above-%d-bytes", "bytes": "bytes-above-%d-bytes"}[c.kind]
		if c.kind != "nesting" {
			lim := libDefaultLimit
			if c.n <= lim {
				above = c.kind + "-of-length-%d"
				lim = c.n
			}
			above = fmt.Sprintf(above, lim)
		}
		fail := func(stage string, err error) {
			res.Violate(lib.Violation{Sig: above + "-stored-but-unreadable",
				What:   fmt.Sprintf("%s with %s size %d is written without error but %s fails: %v", c.field, c.kind, c.n, stage, err),
				Replay: h.spec("limits", 0, map[string]any{"kind": c.kind, "field": c.field, "size": c.n, "stage": stage})})
		}
		// codec level
		var enc []byte
		err, panicked, _ := lib.Try(func() error {
			var e error
			enc, e = marshalAs(c.t, reflect.ValueOf(c.v))
			return e
		})
		if err != nil {
			// the encoder has no size limits: a value it refuses (or panics on) cannot be stored at
			// all, which is as much a loss as an unreadable record
			sig := "marshal-fails-at-size-" + c.kind
			if panicked {
				sig = "marshal-panics-at-size-" + c.kind
			}
			res.Violate(lib.Violation{Sig: sig, What: fmt.Sprintf("%s with %s size %d cannot be encoded: %v", c.field, c.kind, c.n, err),
				Replay: h.spec("limits", 0, map[string]any{"kind": c.kind, "field": c.field, "size": c.n})})
			continue
		}
		// the typed model (type tables, felt limbs, key order) encodes and decodes the same value
		// (maps only up to 257 entries: the model sorts by insertion, quadratic in the entry count)
		if c.kind != "nesting" && c.n <= 65537 && (c.kind != "map" || c.n <= 257) {
			mode := h.decoderMode()
			switch v := c.v.(type) {
			case *core.DeclaredClassDefinition:
				cv := reflect.New(tClsIface).Elem()
				cv.Set(reflect.ValueOf(v.Class))
				h.typedCase(storable{"ClassDefinition", tClsIface}, 0, cv, mode)
			case *core.StateUpdate:
				h.typedCase(storable{"StateUpdate", reflect.TypeOf(core.StateUpdate{})}, 0, reflect.ValueOf(*v), mode)
			case core.Transaction:
				tv := reflect.New(tTxIface).Elem()
				tv.Set(reflect.ValueOf(v))
				h.typedCase(storable{"Transaction", tTxIface}, 0, tv, mode)
			}
		}
		// the model reproduces the bytes (data-model level), whatever the size
		if c.kind != "nesting" && c.n <= 65537 {
			inner := enc
			if def, ok := c.v.(*core.DeclaredClassDefinition); ok {
				inner, _ = marshalAs(tClsIface, reflect.ValueOf(def.Class))
			}
			res.Compared(1)
			if out := h.ask("dec " + hx(inner)); out != "ok "+hx(inner) {
				res.Mismatch(lib.Mismatch{Sig: "cbor-decode-reencode/length-" + c.kind, Input: fmt.Sprintf("%s length %d", c.field, c.n), Model: clip(out), Impl: clip(hx(inner))})
			}
		}
		var back reflect.Value
		err, _, _ = lib.Try(func() error {
			var e error
			back, e = unmarshalAs(c.t, enc)
			return e
		})
		if c.kind == "nesting" {
			// the model's limited decoder, given the probed limits, accepts exactly what the real one does
			want := "ok"
			if err != nil {
				want = "rejected"
			}
			// (a DeclaredClassDefinition is a byte string around 8 bytes + the class item: the limits
			// apply to the class item inside)
			inner := enc
			if def, ok := c.v.(*core.DeclaredClassDefinition); ok {
				inner, _ = marshalAs(tClsIface, reflect.ValueOf(def.Class))
			}
			res.Compared(1)
			if out := h.ask(fmt.Sprintf("lim %d %d %d %s", maxArray, maxMap, maxNest, hx(inner))); out != want {
				res.Mismatch(lib.Mismatch{Sig: "decoder-limits/nesting", Input: fmt.Sprintf("SegmentLengths depth %d, limit %d", c.n, maxNest), Model: out, Impl: want})
			}
		}
		if err != nil {
			fail("encoder.Unmarshal of its own encoder.Marshal output", err)
			if c.kind == "nesting" {
				break // deeper values fail the same way
			}
			continue
		}
		if d := Diff(c.v, back.Interface()); d != "" {
			res.Violate(lib.Violation{Sig: "limits-roundtrip-differs-" + c.kind, What: c.field + ": decode(encode v) differs at " + d,
				Replay: h.spec("limits", 0, map[string]any{"kind": c.kind, "field": c.field, "size": c.n})})
			continue
		}
		// through the real writer / accessor (on a store that recycles its buffers)
		var got any
		err, _, _ = lib.Try(func() error {
			var e error
			got, e = c.store()
			return e
		})
		if err != nil {
			// the codec round trip of the same value succeeded: not a size limit
			res.Violate(lib.Violation{Sig: "limits-accessor-fails-" + c.kind,
				What:   fmt.Sprintf("%s (%s size %d) round-trips through the codec but the write/read accessors fail: %v", c.field, c.kind, c.n, err),
				Replay: h.spec("limits", 0, map[string]any{"kind": c.kind, "field": c.field, "size": c.n})})
			continue
		}
		if d := Diff(c.v, unwrapStored(c.v, got)); d != "" {
			res.Violate(lib.Violation{Sig: "limits-readback-differs-" + c.kind, What: c.field + ": read back differs at " + d,
				Replay: h.spec("limits", 0, map[string]any{"kind": c.kind, "field": c.field, "size": c.n})})
		}
	}
	_ = encoder.Marshal
}

// unwrapStored aligns static types (a transaction comes back as the interface value).
func unwrapStored(stored, got any) any { return got }

// feltSliceHeaders: felt.Slice writes and reads its CBOR array header with its own code
// (core/felt/slice.go encodeCBORArrayHeader / decodeCBORArrayHeader). The header of Marshal's output
// and the length the real decoder gets back are compared with the model's transcription
// (sliceHeader / decSliceHeader; proved equal to the canonical head for lengths < 2^32) at every
// width boundary.
func (h *H) feltSliceHeaders() {
	res := h.res
	lens := append([]int{0, 1, 2}, headWidthLengths...)
	lens = append(lens, 1000, 70000, libDefaultLimit+1)
	for _, n := range lens {
		s := felt.Slice[felt.Felt](make([]felt.Felt, n)) // zero felts: 5 bytes each
		b, err := s.MarshalCBOR()
		res.Hit(fmt.Sprintf("len:felt.Slice-header:%d", n))
		if err != nil || len(b) < 5*n {
			res.Violate(lib.Violation{Sig: "felt-slice-marshal-fails", What: fmt.Sprintf("felt.Slice of %d felts: MarshalCBOR err=%v len=%d", n, err, len(b)),
				Replay: h.spec("limits", 0, map[string]any{"felt_slice_length": n})})
			continue
		}
		hdr := b[:len(b)-5*n]
		res.Compared(2)
		if out := h.ask(fmt.Sprintf("fsh %d", n)); out != "ok "+hx(hdr) {
			res.Mismatch(lib.Mismatch{Sig: "felt-slice-header/encode", Input: n, Model: out, Impl: "ok " + hx(hdr)})
		}
		var back felt.Slice[felt.Felt]
		err = back.UnmarshalCBOR(b)
		want := fmt.Sprintf("ok %d %d", n, len(hdr))
		if out := h.ask("unfsh " + hx(b[:min(len(b), 16)])); out != want {
			res.Mismatch(lib.Mismatch{Sig: "felt-slice-header/decode", Input: n, Model: out, Impl: want})
		}
		if err != nil || len(back) != n {
			res.Violate(lib.Violation{Sig: "felt-slice-roundtrip-fails", What: fmt.Sprintf("felt.Slice of %d felts read back as %d (err=%v)", n, len(back), err),
				Replay: h.spec("limits", 0, map[string]any{"felt_slice_length": n})})
		}
	}
}
