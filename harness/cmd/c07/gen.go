//go:build verif

package main

import (
	"encoding/json"
	"fmt"
	"math/big"
	"reflect"
	"strings"

	"github.com/NethermindEth/juno/core"
	"github.com/NethermindEth/juno/core/felt"
	"github.com/NethermindEth/juno/l1/eth"
	"github.com/bits-and-blooms/bloom/v3"
	"verif/harness/lib"
)

// ---------------------------------------------------------------------------------------------
// Reflection-driven value generator: every exported field of every storable type is filled, so a
// field added to a struct later is populated (and must round-trip) without touching the harness.
// Shapes are biased to edges: nil / empty / one / many, head-width boundaries of CBOR
// (23|24, 255|256, 65535|65536, 2^32), felts {0, 1, 2, p-1, 2^251-ish, random}.
// ---------------------------------------------------------------------------------------------

var (
	tFelt      = reflect.TypeOf(felt.Felt{})
	tTxVersion = reflect.TypeOf(core.TransactionVersion{})
	tBloomPtr  = reflect.TypeOf((*bloom.BloomFilter)(nil))
	tBigPtr    = reflect.TypeOf((*big.Int)(nil))
	tRawJSON   = reflect.TypeOf(json.RawMessage(nil))
	tTxIface   = reflect.TypeOf((*core.Transaction)(nil)).Elem()
	tClsIface  = reflect.TypeOf((*core.ClassDefinition)(nil)).Elem()
	tEthAddr   = reflect.TypeOf(eth.Address{})
	tFeltSlice = reflect.TypeOf(felt.Slice[felt.Felt](nil))
	tSegLen    = reflect.TypeOf(core.SegmentLengths{})
)

var txKinds = []reflect.Type{
	reflect.TypeOf(core.DeclareTransaction{}),
	reflect.TypeOf(core.DeployTransaction{}),
	reflect.TypeOf(core.InvokeTransaction{}),
	reflect.TypeOf(core.L1HandlerTransaction{}),
	reflect.TypeOf(core.DeployAccountTransaction{}),
}

var classKinds = []reflect.Type{
	reflect.TypeOf(core.DeprecatedCairoClass{}),
	reflect.TypeOf(core.SierraClass{}),
}

// GenCfg shapes one generated value.
type GenCfg struct {
	Mode        int  // 0 random, 1 everything nil/zero/empty-as-nil, 2 everything populated, 3 empty (non-nil) containers
	BadUTF8     bool // allow strings that are not valid UTF-8
	MaxLen      int  // normal maximum container length
	BigLens     bool // occasionally use lengths 24 / 256+ (CBOR head widths)
	depth       int
	seenBadUTF8 bool
}

type Gen struct {
	R        *lib.RNG
	seq      uint64
	rawLimbs bool // also produce felts given by small raw limbs (short limb encodings)
}

func (g *Gen) felt() felt.Felt {
	r := g.R
	var f felt.Felt
	if g.rawLimbs && r.Chance(1, 4) {
		// raw Montgomery limbs below the modulus: a valid element whose limbs encode in 1..9 bytes
		// each (exercises the variable-width path of felt's own CBOR codec and key ordering)
		for i := 0; i < 3; i++ {
			f[i] = lib.Pick(r, []uint64{0, 1, 23, 24, 255, 256, 65535, 65536, 1<<32 - 1, 1 << 32, 1<<64 - 1})
		}
		f[3] = lib.Pick(r, []uint64{0, 1, 23, 24, 255, 256, 65536, 1 << 32, 0x7ffffffffffffff})
		return f
	}
	switch r.Intn(10) {
	case 0:
		// zero
	case 1:
		f.SetUint64(1)
	case 2:
		f.SetUint64(uint64(r.Intn(300)))
	case 3:
		// p - 1
		f.SetUint64(1)
		f.Neg(&f)
	case 4:
		f.SetString("0x7ffffffffffffffffffffffffffffffffffffffffffffffffffffffffffffff")
	case 5:
		f.SetUint64(r.Uint64())
	default:
		f.SetBytes(r.Bytes(32))
	}
	return f
}

// uniqueFelt is never repeated within a run (transaction hashes, class hashes, addresses used as keys).
func (g *Gen) uniqueFelt() *felt.Felt {
	g.seq++
	b := g.R.Bytes(32)
	b[0] = 0 // < p
	b[1] = byte(g.seq >> 24)
	b[2] = byte(g.seq >> 16)
	b[3] = byte(g.seq >> 8)
	b[4] = byte(g.seq)
	return new(felt.Felt).SetBytes(b)
}

var edgeU64 = []uint64{0, 1, 23, 24, 255, 256, 65535, 65536, 1<<32 - 1, 1 << 32, 1 << 63, 1<<64 - 1}

func (g *Gen) u64() uint64 {
	if g.R.Chance(1, 2) {
		return lib.Pick(g.R, edgeU64)
	}
	return g.R.Uint64() >> uint(g.R.Intn(64))
}

func (g *Gen) str(c *GenCfg) string {
	r := g.R
	switch c.Mode {
	case 1, 3:
		return ""
	}
	switch k := r.Intn(12); {
	case k == 0 && c.Mode == 0:
		return ""
	case k == 1:
		return "0.13.2"
	case k == 2:
		return "héllo wörld ✓ 🚀" // multi-byte UTF-8 (2, 3 and 4 byte sequences)
	case k == 3:
		return strings.Repeat("x", 23+r.Intn(3)) // around the 1-byte head limit
	case k == 4 && c.BigLens:
		return strings.Repeat("abcdefgh", 32+r.Intn(2)) // ≥ 256 bytes
	case k == 5 && c.BadUTF8:
		c.seenBadUTF8 = true
		return lib.Pick(r, []string{"\xff", "revert \xc3(", "ok\x80", "\xed\xa0\x80"}) // invalid UTF-8
	case k == 6:
		return "Error in the called contract (0x1): \"quoted\"\n\ttab\x00nul"
	default:
		return fmt.Sprintf("s%d", r.Intn(1000))
	}
}

func (g *Gen) length(c *GenCfg) (n int, isNil bool) {
	r := g.R
	switch c.Mode {
	case 1:
		return 0, true
	case 3:
		return 0, false
	case 2:
		return 1 + r.Intn(c.MaxLen), false
	}
	switch r.Intn(8) {
	case 0:
		return 0, true
	case 1:
		return 0, false
	case 2:
		return 1, false
	case 3:
		if c.BigLens && c.depth <= 2 {
			return lib.Pick(r, []int{23, 24, 25, 255, 256, 257}), false
		}
	}
	return 1 + r.Intn(c.MaxLen), false
}

func (g *Gen) nilPtr(c *GenCfg) bool {
	switch c.Mode {
	case 1:
		return true
	case 2, 3:
		return false
	}
	return g.R.Chance(1, 4)
}

// Value generates a value of type t.
func (g *Gen) Value(t reflect.Type, c *GenCfg) reflect.Value {
	r := g.R
	c.depth++
	defer func() { c.depth-- }()
	switch t {
	case tFelt:
		return reflect.ValueOf(g.felt())
	case tTxVersion:
		var v core.TransactionVersion
		switch r.Intn(6) {
		case 0:
			v.SetUint64(0)
		case 1:
			v.SetUint64(1)
		case 2:
			v.SetUint64(2)
		case 3, 4:
			v.SetUint64(3)
		default:
			// query bit set: 2^128 + n
			f := new(felt.Felt).SetBytes(append([]byte{1}, make([]byte, 16)...))
			f.Add(f, new(felt.Felt).SetUint64(uint64(r.Intn(4))))
			v = core.TransactionVersion(*f)
		}
		return reflect.ValueOf(v)
	case tBloomPtr:
		if g.nilPtr(c) {
			return reflect.Zero(t)
		}
		b := bloom.New(core.EventsBloomLength, core.EventsBloomHashFuncs)
		for i := r.Intn(5); i > 0; i-- {
			b.Add(r.Bytes(1 + r.Intn(40)))
		}
		return reflect.ValueOf(b)
	case tBigPtr:
		if g.nilPtr(c) {
			return reflect.Zero(t)
		}
		switch r.Intn(6) {
		case 0:
			return reflect.ValueOf(new(big.Int))
		case 1:
			return reflect.ValueOf(big.NewInt(1))
		case 2:
			p, _ := new(big.Int).SetString("800000000000011000000000000000000000000000000000000000000000001", 16)
			return reflect.ValueOf(p)
		case 3:
			return reflect.ValueOf(new(big.Int).SetUint64(1<<64 - 1))
		case 4:
			return reflect.ValueOf(new(big.Int).Lsh(big.NewInt(1), 64)) // first value that needs a bignum tag
		default:
			return reflect.ValueOf(new(big.Int).SetBytes(r.Bytes(1 + r.Intn(40))))
		}
	case tRawJSON:
		n, isNil := g.length(c)
		if isNil {
			return reflect.Zero(t)
		}
		if n == 0 {
			return reflect.ValueOf(json.RawMessage{})
		}
		return reflect.ValueOf(json.RawMessage(lib.Pick(r, []string{`[]`, `{}`, `[{"type":"function","name":"f"}]`, `{"a": [1, 2, {"b": null}]}`, `"s"`})))
	case tEthAddr:
		var a eth.Address
		if c.Mode != 1 && !r.Chance(1, 5) {
			copy(a[:], r.Bytes(20))
		}
		return reflect.ValueOf(a)
	case tTxIface:
		v := reflect.New(t).Elem()
		v.Set(g.Value(reflect.PointerTo(lib.Pick(r, txKinds)), &GenCfg{Mode: modeNoNilTop(c.Mode), BadUTF8: c.BadUTF8, MaxLen: c.MaxLen, BigLens: c.BigLens}))
		return v
	case tClsIface:
		v := reflect.New(t).Elem()
		v.Set(g.Value(reflect.PointerTo(lib.Pick(r, classKinds)), &GenCfg{Mode: modeNoNilTop(c.Mode), BadUTF8: c.BadUTF8, MaxLen: c.MaxLen, BigLens: c.BigLens}))
		return v
	case tSegLen:
		// recursive type: bound the depth
		v := reflect.New(t).Elem()
		v.FieldByName("Length").SetUint(g.u64())
		if c.depth < 6 && c.Mode != 1 {
			n, isNil := g.length(c)
			if n > 3 {
				n = 3
			}
			if !isNil {
				s := reflect.MakeSlice(reflect.SliceOf(t), n, n)
				for i := 0; i < n; i++ {
					s.Index(i).Set(g.Value(t, c))
				}
				v.FieldByName("Children").Set(s)
			}
		}
		return v
	}
	switch t.Kind() {
	case reflect.Bool:
		if c.Mode == 1 {
			return reflect.ValueOf(false).Convert(t)
		}
		return reflect.ValueOf(c.Mode == 2 || r.Bool()).Convert(t)
	case reflect.Uint8, reflect.Uint16, reflect.Uint32, reflect.Uint64, reflect.Uint:
		v := reflect.New(t).Elem()
		if c.Mode == 1 {
			return v
		}
		u := g.u64()
		switch t.Kind() {
		case reflect.Uint8:
			u &= 0xff
		case reflect.Uint16:
			u &= 0xffff
		case reflect.Uint32:
			u &= 0xffffffff
		}
		v.SetUint(u)
		return v
	case reflect.Int, reflect.Int64, reflect.Int32:
		v := reflect.New(t).Elem()
		if c.Mode != 1 {
			v.SetInt(int64(g.u64() >> 1))
			if r.Chance(1, 4) {
				v.SetInt(-v.Int() - 1)
			}
		}
		return v
	case reflect.String:
		return reflect.ValueOf(g.str(c)).Convert(t)
	case reflect.Pointer:
		if c.depth > 1 && g.nilPtr(c) {
			return reflect.Zero(t)
		}
		p := reflect.New(t.Elem())
		p.Elem().Set(g.Value(t.Elem(), c))
		return p
	case reflect.Slice:
		n, isNil := g.length(c)
		if isNil {
			return reflect.Zero(t)
		}
		if t.Elem().Kind() == reflect.Struct && t.Elem() != tFelt && n > 6 {
			n = 6
		}
		s := reflect.MakeSlice(t, n, n)
		for i := 0; i < n; i++ {
			s.Index(i).Set(g.Value(t.Elem(), c))
		}
		return s
	case reflect.Array:
		a := reflect.New(t).Elem()
		for i := 0; i < t.Len(); i++ {
			a.Index(i).Set(g.Value(t.Elem(), c))
		}
		return a
	case reflect.Map:
		n, isNil := g.length(c)
		if isNil {
			return reflect.Zero(t)
		}
		m := reflect.MakeMapWithSize(t, n)
		if t.Key().Kind() == reflect.Uint32 { // map[Resource]ResourceBounds
			for _, k := range []uint64{1, 2, 3}[:min(n, 3)] {
				kv := reflect.New(t.Key()).Elem()
				kv.SetUint(k)
				m.SetMapIndex(kv, g.Value(t.Elem(), c))
			}
			return m
		}
		for i := 0; i < n; i++ {
			m.SetMapIndex(g.Value(t.Key(), c), g.Value(t.Elem(), c))
		}
		return m
	case reflect.Struct:
		v := reflect.New(t).Elem()
		for i := 0; i < t.NumField(); i++ {
			f := t.Field(i)
			if !f.IsExported() {
				continue
			}
			v.Field(i).Set(g.Value(f.Type, c))
		}
		return v
	case reflect.Interface:
		panic("generator: unknown interface type " + t.String())
	default:
		panic("generator: unsupported kind " + t.Kind().String() + " in " + t.String())
	}
}

func modeNoNilTop(m int) int { return m }

// Cfg returns the configuration of the i-th case of a family: the first cases are the
// deterministic shapes (all nil, all populated, all empty), the rest random.
// allowBadUTF8: the configured decoder accepts text strings that are not valid UTF-8 (probed once
// in main): Go strings are arbitrary bytes, so EVERY generated record may then carry such strings
// and must read back byte for byte through every accessor. With a strict decoder the one dedicated
// case of phase "utf8" reports the defect and the other phases stay on valid strings.
var allowBadUTF8 bool

func Cfg(i int, badUTF8 bool) *GenCfg {
	c := &GenCfg{MaxLen: 4, BigLens: true, BadUTF8: badUTF8 || allowBadUTF8}
	switch i {
	case 0:
		c.Mode = 1
	case 1:
		c.Mode = 2
	case 2:
		c.Mode = 3
	}
	return c
}

// fixTx makes a generated transaction storable through WriteTransactionsAndReceipts: the hash is
// present and unique, an L1 handler has what MessageHash dereferences.
func (g *Gen) fixTx(tx core.Transaction) {
	h := g.uniqueFelt()
	switch t := tx.(type) {
	case *core.InvokeTransaction:
		t.TransactionHash = h
	case *core.DeclareTransaction:
		t.TransactionHash = h
	case *core.DeployTransaction:
		t.TransactionHash = h
	case *core.DeployAccountTransaction:
		t.TransactionHash = h
	case *core.L1HandlerTransaction:
		t.TransactionHash = h
		if len(t.CallData) == 0 {
			t.CallData = []felt.Felt{g.felt()}
		}
		// unique message hash per handler: the from-address carries the sequence number
		t.CallData[0] = *g.uniqueFelt()
		if t.ContractAddress == nil {
			f := g.felt()
			t.ContractAddress = &f
		}
		if t.EntryPointSelector == nil {
			f := g.felt()
			t.EntryPointSelector = &f
		}
	}
}

// Tx generates one storable transaction.
func (g *Gen) Tx(c *GenCfg) core.Transaction {
	tx := g.Value(tTxIface, c).Interface().(core.Transaction)
	g.fixTx(tx)
	return tx
}

// Receipt generates a receipt for tx.
func (g *Gen) Receipt(tx core.Transaction, c *GenCfg) *core.TransactionReceipt {
	rc := g.Value(reflect.TypeOf(core.TransactionReceipt{}), c).Interface().(core.TransactionReceipt)
	rc.TransactionHash = tx.Hash()
	return &rc
}
