//go:build verif

// chainsmoke: self-test of harness/lib/chain.go (not a property check).
package main

import (
	"fmt"
	"os"

	"github.com/NethermindEth/juno/core/felt"
	"verif/harness/lib"
)

func main() {
	fail := false
	for _, srcNew := range []bool{false, true} {
		for _, dstNew := range []bool{false, true} {
			r := lib.NewRNG(7)
			g := lib.NewChainGen(r, srcNew, lib.DefaultGenOptions())
			dst, _ := lib.NewNode(g.Net, dstNew)
			stored := 0
			for i := 0; i < 120; i++ {
				if g.Height() > 2 && r.Chance(1, 6) {
					if err := g.Revert(); err != nil {
						fmt.Println("FAIL gen revert:", err)
						fail = true
						break
					}
					if err := dst.RevertHead(); err != nil {
						fmt.Printf("FAIL dst revert (src new=%v dst new=%v) at height %d: %v\n", srcNew, dstNew, g.Height(), err)
						fail = true
						break
					}
					continue
				}
				b, err := g.Next(nil)
				if err != nil {
					fmt.Println("FAIL next:", err)
					fail = true
					break
				}
				if err := lib.StoreOn(dst, b); err != nil {
					fmt.Printf("FAIL store (src new=%v dst new=%v) block %d: %v\n", srcNew, dstNew, b.Block.Number, err)
					fail = true
					break
				}
				stored++
			}
			// compare head state with the abstract state
			st := g.HeadState()
			reader, closer, err := dst.HeadState()
			if err != nil {
				fmt.Println("FAIL headstate:", err)
				fail = true
				continue
			}
			bad := 0
			for a, c := range st.Contracts {
				for k, v := range c.Storage {
					got, err := reader.ContractStorage(&a, &k)
					if err != nil || !got.Equal(&v) {
						bad++
					}
				}
				if st.Deployed[a] {
					ch, err := reader.ContractClassHash(&a)
					if err != nil || !ch.Equal(&c.Class) {
						bad++
					}
					n, err := reader.ContractNonce(&a)
					if err != nil || !n.Equal(&c.Nonce) {
						bad++
					}
				}
			}
			_ = closer()
			h, _ := dst.Height()
			var root felt.Felt
			if hd := g.Head(); hd != nil {
				root = *hd.Block.GlobalStateRoot
			}
			fmt.Printf("src new=%v dst new=%v: stored=%d height=%d contracts=%d classes=%d bad=%d root=%s\n",
				srcNew, dstNew, stored, h, len(st.Contracts), len(st.Classes), bad, root.String()[:12])
			if bad > 0 {
				fail = true
			}
		}
	}
	if fail {
		os.Exit(1)
	}
}
