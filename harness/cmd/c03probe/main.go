//go:build verif

// throw-away probe (deleted before finishing)
package main

import (
	"fmt"

	"github.com/NethermindEth/juno/core"
	"github.com/NethermindEth/juno/core/felt"
	"verif/harness/lib"
)

func emptyDiff() *core.StateDiff {
	return &core.StateDiff{
		StorageDiffs:      map[felt.Felt]map[felt.Felt]*felt.Felt{},
		Nonces:            map[felt.Felt]*felt.Felt{},
		DeployedContracts: map[felt.Felt]*felt.Felt{},
		DeclaredV0Classes: []*felt.Felt{},
		DeclaredV1Classes: map[felt.Felt]*felt.Felt{},
		ReplacedClasses:   map[felt.Felt]*felt.Felt{},
		MigratedClasses:   map[felt.SierraClassHash]felt.CasmClassHash{},
	}
}

func st(a, k, v uint64) *core.StateDiff {
	d := emptyDiff()
	d.StorageDiffs[*lib.F(a)] = map[felt.Felt]*felt.Felt{*lib.F(k): lib.F(v)}
	return d
}

func main() {
	for _, srcNew := range []bool{false, true} {
		for _, dstNew := range []bool{false, true} {
			fmt.Printf("=== src new=%v dst new=%v\n", srcNew, dstNew)
			g := lib.NewChainGen(lib.NewRNG(1), srcNew, lib.DefaultGenOptions())
			dst, _ := lib.NewNode(g.Net, dstNew)
			diffs := []*core.StateDiff{st(1, 7, 5), emptyDiff(), st(1, 7, 0), emptyDiff(), st(1, 8, 9), emptyDiff()}
			for i, d := range diffs {
				b, err := g.Next(&lib.BlockSpec{Diff: d, Version: "0.13.2", NoTxs: true})
				if err != nil {
					fmt.Println("next:", err)
					break
				}
				if err := lib.StoreOn(dst, b); err != nil {
					fmt.Printf("store block %d: %v\n", i, err)
					break
				}
				fmt.Printf("block %d root %s\n", i, b.Block.GlobalStateRoot.String())
			}
			h, _ := dst.Height()
			for n := uint64(0); n <= h; n++ {
				r, _, err := dst.StateAtBlockNumber(n)
				if err != nil {
					fmt.Println("stateat", n, err)
					continue
				}
				a := lib.F(1)
				v, err := r.ContractStorage(a, lib.F(7))
				ch, err2 := r.ContractClassHash(a)
				nn, err3 := r.ContractNonce(a)
				fmt.Printf("  n=%d storage[7]=%s err=%v  classhash=%s err=%v nonce=%s err=%v\n", n, v.String(), err, ch.String(), err2, nn.String(), err3)
			}
			r, _, _ := dst.HeadState()
			v, err := r.ContractStorage(lib.F(1), lib.F(7))
			ch, err2 := r.ContractClassHash(lib.F(1))
			fmt.Printf("  head storage[7]=%s err=%v classhash=%s err=%v\n", v.String(), err, ch.String(), err2)
		}
	}
}
