//go:build verif

package main

import (
	"bytes"
	"context"
	"encoding/json"
	"fmt"
	"time"

	"github.com/NethermindEth/juno/blockchain"
	"github.com/NethermindEth/juno/clients/feeder"
	"github.com/NethermindEth/juno/core/felt"
	"github.com/NethermindEth/juno/core/pending"
	"github.com/NethermindEth/juno/db/memory"
	"github.com/NethermindEth/juno/jsonrpc"
	"github.com/NethermindEth/juno/rpc"
	"github.com/NethermindEth/juno/rpc/rpccore"
	rpcv10 "github.com/NethermindEth/juno/rpc/v10"
	rpcv8 "github.com/NethermindEth/juno/rpc/v8"
	rpcv9 "github.com/NethermindEth/juno/rpc/v9"
	"github.com/NethermindEth/juno/starknet"
	"github.com/NethermindEth/juno/sync"
	"github.com/NethermindEth/juno/sync/preconfirmed"
	"github.com/NethermindEth/juno/utils/log"
	"verif/harness/lib"
)

// Versions served by the node, in the order used everywhere in this harness.
var versions = []string{"v8", "v9", "v10"}

// rpcNode is a node under test: a real Blockchain (either state backend) with the three real
// method tables of rpc/handlers.go mounted on three real jsonrpc.Servers, exactly as node.go
// does (validators included). The sync reader is juno's own NoopSynchronizer: no pending /
// pre_confirmed data. The VM is nil: no method that executes transactions is ever called.
type rpcNode struct {
	bc       *blockchain.Blockchain
	kv       *memory.Database // the node's database (read directly for the store-level comparison)
	newState bool
	servers  map[string]*jsonrpc.Server
	reqID    int

	syncReader *preConfReader
	feeder     *stubFeeder
	handler    *rpc.Handler              // to switch the feeder client off and on again
	submitted  *rpccore.TransactionCache // the submitted-transactions cache of the three handlers
}

// stubFeeder is the feeder gateway. By default that of a node in sync with the network: it knows no
// transaction the node does not have (NOT_RECEIVED). (node.go always configures a feeder client, so
// the production path of getTransactionStatus for an unknown hash goes through it.) A query of the
// feeder family makes it answer something else for one call (see setFeeder). Every other method of
// the interface is nil: the read methods under test must not call them.
type stubFeeder struct {
	feeder.Reader
	calls int
	fail  bool
	next  *starknet.TransactionStatus
}

const (
	stubRevertReason  = "feeder-says-reverted"
	stubFailureCode   = "FEEDER_CODE"
	stubFailureReason = "feeder-says-rejected"
)

func (f *stubFeeder) TransactionStatus(_ context.Context, _ *felt.Felt) (starknet.TransactionStatus, error) {
	f.calls++
	if f.fail {
		return starknet.TransactionStatus{}, fmt.Errorf("feeder gateway unreachable")
	}
	if f.next != nil {
		return *f.next, nil
	}
	return starknet.TransactionStatus{FinalityStatus: starknet.NotReceived}, nil
}

// preConfReader is a sync reader with pre_confirmed data PRESENT: one pre-confirmed block on top
// of the current head with transactions and a state diff of its own (supplied by the world).
// With `chain == nil` it behaves like juno's NoopSynchronizer.
type preConfReader struct {
	sync.NoopSynchronizer
	chain func() (preconfirmed.ChainReader, error)
}

func (p *preConfReader) PreConfirmedChain() (preconfirmed.ChainReader, error) {
	if p.chain == nil {
		return preconfirmed.ChainReader{}, pending.ErrPreConfirmedNotFound
	}
	return p.chain()
}

func newRPCNode(bc *blockchain.Blockchain, kv *memory.Database, newState bool) (*rpcNode, error) {
	logger := log.NewNopZapLogger()
	sr := &preConfReader{}
	fd := &stubFeeder{}
	cache := rpccore.NewTransactionCache(10000*time.Hour, 16) // never expires within a run (no wall-clock dependence)
	h := rpc.New(bc, sr, nil, "verif", logger, bc.Network()).WithFeeder(fd).WithSubmittedTransactionsCache(cache)
	n := &rpcNode{bc: bc, kv: kv, newState: newState, servers: map[string]*jsonrpc.Server{}, syncReader: sr, feeder: fd, handler: h, submitted: cache}
	type tbl struct {
		name    string
		methods []jsonrpc.Method
		val     jsonrpc.Validator
	}
	m8, _ := h.MethodsV0_8()
	m9, _ := h.MethodsV0_9()
	m10, _ := h.MethodsV0_10()
	for _, t := range []tbl{{"v8", m8, rpcv8.Validator()}, {"v9", m9, rpcv9.Validator()}, {"v10", m10, rpcv10.Validator()}} {
		srv := jsonrpc.NewServer(4, logger).WithValidator(t.val)
		if err := srv.RegisterMethods(t.methods...); err != nil {
			return nil, fmt.Errorf("register %s: %w", t.name, err)
		}
		n.servers[t.name] = srv
	}
	return n, nil
}

// rpcResp is a decoded JSON-RPC response.
type rpcResp struct {
	Result json.RawMessage
	Code   int    // 0 = success
	Msg    string // error message
	Data   json.RawMessage
	Broken string // non-empty: transport-level problem (panic, hang, malformed response)
}

type wireResp struct {
	Version string          `json:"jsonrpc"`
	Result  json.RawMessage `json:"result"`
	Error   *struct {
		Code    int             `json:"code"`
		Message string          `json:"message"`
		Data    json.RawMessage `json:"data"`
	} `json:"error"`
	ID json.RawMessage `json:"id"`
}

// call sends one request through jsonrpc.Server.HandleReader. params is either a []any
// (positional) or a map[string]any (by name) or nil.
func (n *rpcNode) call(version, method string, params any) rpcResp {
	n.reqID++
	req := map[string]any{"jsonrpc": "2.0", "method": method, "id": n.reqID}
	if params != nil {
		req["params"] = params
	}
	body, err := json.Marshal(req)
	if err != nil {
		return rpcResp{Broken: "marshal request: " + err.Error()}
	}
	var out []byte
	var herr error
	var perr error
	var panicked bool
	done := lib.WithDeadline(10*time.Minute, func() { // generous: a loaded machine can stall a call for a long time; a real hang is still found
		perr, panicked, _ = lib.Try(func() error {
			out, _, herr = n.servers[version].HandleReader(context.Background(), bytes.NewReader(body))
			return nil
		})
	})
	if !done {
		return rpcResp{Broken: "hang"}
	}
	if panicked {
		return rpcResp{Broken: "panic: " + perr.Error()}
	}
	if herr != nil {
		return rpcResp{Broken: "HandleReader error: " + herr.Error()}
	}
	var w wireResp
	dec := json.NewDecoder(bytes.NewReader(out))
	dec.UseNumber()
	if err := dec.Decode(&w); err != nil {
		return rpcResp{Broken: "malformed response: " + err.Error()}
	}
	if w.Error != nil {
		return rpcResp{Code: w.Error.Code, Msg: w.Error.Message, Data: w.Error.Data}
	}
	if w.Result == nil {
		return rpcResp{Broken: "response has neither result nor error"}
	}
	return rpcResp{Result: w.Result}
}
