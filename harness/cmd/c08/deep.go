//go:build verif

package main

import (
	"encoding/json"
	"fmt"
	"sort"

	"github.com/NethermindEth/juno/core"
	"github.com/NethermindEth/juno/core/felt"
	"verif/harness/lib"
)

// ---------------------------------------------------------------------------------------------
// Deep comparison: beyond the projection the model knows, the answers are compared field by
// field with the bundle the generator manufactured (header fields, gas prices, commitments,
// transaction payload fields, receipts with events and messages, the whole state diff).
// Only fields whose meaning is fixed by the API specification and identical in the three
// versions are compared (plus the v10-only header commitments); JSON shaping beyond that is
// juno's handler tests' business. A problem is reported as "<field>: want X got Y".
// ---------------------------------------------------------------------------------------------

type problems []string

func (p *problems) addf(format string, a ...any) { *p = append(*p, fmt.Sprintf(format, a...)) }

// catch converts projection panics (missing / ill-typed fields) into a problem.
func (p *problems) catch(where string) {
	if r := recover(); r != nil {
		if pe, ok := r.(projErr); ok {
			p.addf("%s: %s", where, pe.why)
			return
		}
		panic(r)
	}
}

func (p *problems) feltEq(o jobj, k string, want *felt.Felt) {
	if want == nil {
		return
	}
	got := feltOf(field(o, k), k)
	if got != hx(want) {
		p.addf("%s: want %s got %s", k, hx(want), got)
	}
}

func (p *problems) numEq(o jobj, k string, want uint64) {
	if got := numOf(field(o, k), k); got != want {
		p.addf("%s: want %d got %d", k, want, got)
	}
}

func (p *problems) strEq(o jobj, k, want string) {
	if got := strOf(field(o, k), k); got != want {
		p.addf("%s: want %q got %q", k, want, got)
	}
}

func (p *problems) feltsEq(o jobj, k string, want []felt.Felt) {
	l := listOf(field(o, k), k)
	if len(l) != len(want) {
		p.addf("%s: want %d elements got %d", k, len(want), len(l))
		return
	}
	for i := range want {
		if got := feltOf(l[i], k); got != hx(&want[i]) {
			p.addf("%s[%d]: want %s got %s", k, i, hx(&want[i]), got)
			return
		}
	}
}

func priceEq(p *problems, o jobj, k string, wei, fri *felt.Felt) {
	po := objOf(field(o, k), k)
	if got := feltOf(field(po, "price_in_wei"), k+".price_in_wei"); wei != nil && got != hx(wei) {
		p.addf("%s.price_in_wei: want %s got %s", k, hx(wei), got)
	}
	if got := feltOf(field(po, "price_in_fri"), k+".price_in_fri"); fri != nil && got != hx(fri) {
		p.addf("%s.price_in_fri: want %s got %s", k, hx(fri), got)
	}
}

func finalityName(f string) string {
	if f == "L1" {
		return "ACCEPTED_ON_L1"
	}
	return "ACCEPTED_ON_L2"
}

// deepHeader checks a block object's header against bundle n.
func (w *world) deepHeader(ver string, o jobj, n int) (p problems) {
	defer p.catch("header")
	b := w.g.Bundles[n].Block
	p.feltEq(o, "block_hash", b.Hash)
	p.feltEq(o, "parent_hash", b.ParentHash)
	p.numEq(o, "block_number", b.Number)
	p.feltEq(o, "new_root", b.GlobalStateRoot)
	p.numEq(o, "timestamp", b.Timestamp)
	p.feltEq(o, "sequencer_address", b.SequencerAddress)
	p.strEq(o, "starknet_version", b.ProtocolVersion)
	p.strEq(o, "status", finalityName(w.finality(n)))
	priceEq(&p, o, "l1_gas_price", b.L1GasPriceETH, b.L1GasPriceSTRK)
	if b.L1DataGasPrice != nil {
		priceEq(&p, o, "l1_data_gas_price", b.L1DataGasPrice.PriceInWei, b.L1DataGasPrice.PriceInFri)
	}
	if b.L2GasPrice != nil {
		priceEq(&p, o, "l2_gas_price", b.L2GasPrice.PriceInWei, b.L2GasPrice.PriceInFri)
	}
	da := "BLOB"
	if b.L1DAMode == core.Calldata {
		da = "CALLDATA"
	}
	p.strEq(o, "l1_da_mode", da)
	if ver == "v10" {
		p.numEq(o, "transaction_count", b.TransactionCount)
		p.numEq(o, "event_count", b.EventCount)
		if c := w.commitments[*b.Hash]; c != nil {
			p.feltEq(o, "transaction_commitment", orZero(c.TransactionCommitment))
			p.feltEq(o, "event_commitment", orZero(c.EventCommitment))
			p.feltEq(o, "receipt_commitment", orZero(c.ReceiptCommitment))
			p.feltEq(o, "state_diff_commitment", orZero(c.StateDiffCommitment))
			p.numEq(o, "state_diff_length", c.StateDiffLength)
		}
	}
	return p
}

func orZero(f *felt.Felt) *felt.Felt {
	if f == nil {
		return &felt.Zero
	}
	return f
}

// deepTx checks the payload fields of a transaction object whose meaning is version-independent.
func deepTx(o jobj, tx core.Transaction, withHash bool) (p problems) {
	defer p.catch("transaction")
	if withHash {
		p.feltEq(o, "transaction_hash", tx.Hash())
	}
	ver := tx.TxVersion().AsFelt()
	p.feltEq(o, "version", ver)
	v := ver.Uint64()
	switch t := tx.(type) {
	case *core.InvokeTransaction:
		p.strEq(o, "type", "INVOKE")
		p.feltsEq(o, "calldata", t.CallData)
		p.feltsEq(o, "signature", t.TransactionSignature)
		if v == 0 {
			p.feltEq(o, "contract_address", t.ContractAddress)
			p.feltEq(o, "entry_point_selector", t.EntryPointSelector)
			p.feltEq(o, "max_fee", t.MaxFee)
		} else {
			p.feltEq(o, "sender_address", t.SenderAddress)
			p.feltEq(o, "nonce", t.Nonce)
		}
		if v == 1 {
			p.feltEq(o, "max_fee", t.MaxFee)
		}
		if v == 3 {
			p.feltEq(o, "tip", lib.F(t.Tip))
			p.feltsEq(o, "paymaster_data", t.PaymasterData)
			p.feltsEq(o, "account_deployment_data", t.AccountDeploymentData)
		}
	case *core.DeclareTransaction:
		p.strEq(o, "type", "DECLARE")
		p.feltEq(o, "class_hash", t.ClassHash)
		p.feltEq(o, "sender_address", t.SenderAddress)
		p.feltsEq(o, "signature", t.TransactionSignature)
		p.feltEq(o, "nonce", t.Nonce)
		if v >= 2 {
			p.feltEq(o, "compiled_class_hash", t.CompiledClassHash)
		}
		if v < 3 {
			p.feltEq(o, "max_fee", t.MaxFee)
		} else {
			p.feltEq(o, "tip", lib.F(t.Tip))
		}
	case *core.DeployAccountTransaction:
		p.strEq(o, "type", "DEPLOY_ACCOUNT")
		p.feltEq(o, "class_hash", t.ClassHash)
		p.feltEq(o, "contract_address_salt", t.ContractAddressSalt)
		p.feltsEq(o, "constructor_calldata", t.ConstructorCallData)
		p.feltsEq(o, "signature", t.TransactionSignature)
		p.feltEq(o, "nonce", t.Nonce)
		if v < 3 {
			p.feltEq(o, "max_fee", t.MaxFee)
		} else {
			p.feltEq(o, "tip", lib.F(t.Tip))
		}
	case *core.DeployTransaction:
		p.strEq(o, "type", "DEPLOY")
		p.feltEq(o, "class_hash", t.ClassHash)
		p.feltEq(o, "contract_address_salt", t.ContractAddressSalt)
		p.feltsEq(o, "constructor_calldata", t.ConstructorCallData)
	case *core.L1HandlerTransaction:
		p.strEq(o, "type", "L1_HANDLER")
		p.feltEq(o, "contract_address", t.ContractAddress)
		p.feltEq(o, "entry_point_selector", t.EntryPointSelector)
		p.feltsEq(o, "calldata", t.CallData)
		p.feltEq(o, "nonce", t.Nonce)
	}
	return p
}

// deepReceipt checks a receipt object. blockInfo: the receipt-by-hash variant carries
// block_hash / block_number.
func (w *world) deepReceipt(o jobj, n, i int, blockInfo bool) (p problems) {
	defer p.catch("receipt")
	b := w.g.Bundles[n].Block
	tx, rc := b.Transactions[i], b.Receipts[i]
	p.feltEq(o, "transaction_hash", tx.Hash())
	p.strEq(o, "finality_status", finalityName(w.finality(n)))
	if rc.Reverted {
		p.strEq(o, "execution_status", "REVERTED")
		p.strEq(o, "revert_reason", rc.RevertReason)
	} else {
		p.strEq(o, "execution_status", "SUCCEEDED")
		if _, has := o["revert_reason"]; has {
			p.addf("revert_reason present on a succeeded transaction")
		}
	}
	fee := objOf(field(o, "actual_fee"), "actual_fee")
	p.feltEq(fee, "amount", rc.Fee)
	unit := "WEI"
	if tx.TxVersion().Is(3) {
		unit = "FRI"
	}
	p.strEq(fee, "unit", unit)
	evs := listOf(field(o, "events"), "events")
	if len(evs) != len(rc.Events) {
		p.addf("events: want %d got %d", len(rc.Events), len(evs))
	} else {
		for j, e := range rc.Events {
			eo := objOf(evs[j], "events[]")
			p.feltEq(eo, "from_address", e.From)
			p.feltsEq(eo, "keys", e.Keys)
			p.feltsEq(eo, "data", e.Data)
		}
	}
	msgs := listOf(field(o, "messages_sent"), "messages_sent")
	if len(msgs) != len(rc.L2ToL1Message) {
		p.addf("messages_sent: want %d got %d", len(rc.L2ToL1Message), len(msgs))
	} else {
		for j, m := range rc.L2ToL1Message {
			mo := objOf(msgs[j], "messages_sent[]")
			p.feltEq(mo, "from_address", m.From)
			p.feltsEq(mo, "payload", m.Payload)
		}
	}
	switch t := tx.(type) {
	case *core.DeployTransaction:
		p.feltEq(o, "contract_address", t.ContractAddress)
	case *core.DeployAccountTransaction:
		p.feltEq(o, "contract_address", t.ContractAddress)
	}
	if rc.ExecutionResources != nil && rc.ExecutionResources.TotalGasConsumed != nil {
		er := objOf(field(o, "execution_resources"), "execution_resources")
		g := rc.ExecutionResources.TotalGasConsumed
		p.numEq(er, "l1_gas", g.L1Gas)
		p.numEq(er, "l2_gas", g.L2Gas)
		p.numEq(er, "l1_data_gas", g.L1DataGas)
	}
	if blockInfo {
		p.feltEq(o, "block_hash", b.Hash)
		p.numEq(o, "block_number", b.Number)
	}
	return p
}

// deepStateUpdate checks what the projection does not cover: compiled class hashes of the
// declarations and (v10) the migrated classes, and that no entry is duplicated.
func (w *world) deepStateUpdate(ver string, o jobj, n int) (p problems) {
	defer p.catch("state_update")
	d := w.g.Bundles[n].SU.StateDiff
	sd := objOf(field(o, "state_diff"), "state_diff")
	decl := listOf(field(sd, "declared_classes"), "declared_classes")
	if len(decl) != len(d.DeclaredV1Classes) {
		p.addf("declared_classes: want %d got %d", len(d.DeclaredV1Classes), len(decl))
	}
	for _, e := range decl {
		eo := objOf(e, "declared_classes[]")
		ch, err := new(felt.Felt).SetString(strOf(field(eo, "class_hash"), "class_hash"))
		if err != nil {
			p.addf("declared_classes: bad class hash")
			continue
		}
		want, ok := d.DeclaredV1Classes[*ch]
		if !ok {
			p.addf("declared_classes: unexpected class %s", hx(ch))
			continue
		}
		p.feltEq(eo, "compiled_class_hash", want)
	}
	if got := len(listOf(field(sd, "deprecated_declared_classes"), "deprecated_declared_classes")); got != len(d.DeclaredV0Classes) {
		p.addf("deprecated_declared_classes: want %d got %d", len(d.DeclaredV0Classes), got)
	}
	if ver == "v10" {
		mig := listOf(field(sd, "migrated_compiled_classes"), "migrated_compiled_classes")
		var got, want []string
		for _, e := range mig {
			eo := objOf(e, "migrated_compiled_classes[]")
			got = append(got, feltOf(field(eo, "class_hash"), "class_hash")+":"+feltOf(field(eo, "compiled_class_hash"), "compiled_class_hash"))
		}
		for c, h := range d.MigratedClasses {
			cf, hf := felt.Felt(c), felt.Felt(h)
			want = append(want, hx(&cf)+":"+hx(&hf))
		}
		sort.Strings(got)
		sort.Strings(want)
		if fmt.Sprint(got) != fmt.Sprint(want) {
			p.addf("migrated_compiled_classes: want %v got %v", want, got)
		}
	}
	return p
}

// normTx is the canonical JSON of a transaction object without its hash (for cross-method
// consistency: the same transaction must render identically wherever it appears).
func normTx(o jobj) string {
	c := jobj{}
	for k, v := range o {
		if k != "transaction_hash" {
			c[k] = v
		}
	}
	b, _ := json.Marshal(c) // map keys are sorted by encoding/json
	return string(b)
}

// deepProofFacts: the v0.10 response flag INCLUDE_PROOF_FACTS. Without it no transaction shows
// proof_facts; with it an INVOKE v3 shows exactly its proof facts (an empty list when it has
// none) and a transaction that is not an INVOKE shows none.
func deepProofFacts(o jobj, tx core.Transaction, flag bool) (p problems) {
	defer p.catch("proof_facts")
	got, has := o["proof_facts"]
	inv, isInvoke := tx.(*core.InvokeTransaction)
	switch {
	case !flag:
		if has {
			p.addf("proof_facts: present although INCLUDE_PROOF_FACTS was not requested")
		}
	case !isInvoke:
		if has {
			p.addf("proof_facts: present on a transaction that is not an INVOKE")
		}
	case inv.TxVersion().Is(3):
		if !has {
			p.addf("proof_facts: missing on an INVOKE v3 although requested")
			return p
		}
		l := listOf(got, "proof_facts")
		if len(l) != len(inv.ProofFacts) {
			p.addf("proof_facts: want %d elements got %d", len(inv.ProofFacts), len(l))
			return p
		}
		for i := range l {
			if g := feltOf(l[i], "proof_facts"); g != hx(&inv.ProofFacts[i]) {
				p.addf("proof_facts[%d]: want %s got %s", i, hx(&inv.ProofFacts[i]), g)
			}
		}
	}
	return p
}
