//go:build verif

package main

import (
	"encoding/json"
	"fmt"
	"os"

	"github.com/NethermindEth/juno/core"
	"github.com/NethermindEth/juno/core/felt"
	"verif/harness/lib"
)

// debugStorage prints, when C08_DEBUG is set, how a slot evolved along the chain and what each
// backend answers at every height (developer aid for investigating a disagreement).
func (w *world) debugStorage(addr, key *felt.Felt) {
	if os.Getenv("C08_DEBUG") == "" {
		return
	}
	fmt.Fprintf(os.Stderr, "slot (%s,%s)\n", addr, key)
	for n, b := range w.g.Bundles {
		wr := "-"
		if kv, ok := b.SU.StateDiff.StorageDiffs[*addr]; ok {
			if v, ok := kv[*key]; ok {
				wr = v.String()
			}
			wr += fmt.Sprintf(" (diff touches %d slots of it)", len(kv))
		}
		dep := ""
		if c, ok := b.SU.StateDiff.DeployedContracts[*addr]; ok {
			dep = " deployed:" + c.String()
		}
		line := fmt.Sprintf("  block %d write=%s%s abs=%s", n, wr, dep, func() string {
			if c, ok := w.g.States[n].Contracts[*addr]; ok {
				v := c.Storage[*key]
				return v.String()
			}
			return "none"
		}())
		for ni, node := range w.nodes {
			r := node.call("v10", "starknet_getStorageAt", []any{addr.String(), key.String(), map[string]any{"block_number": n}})
			line += fmt.Sprintf(" | %s: code=%d %s", backendName[ni], r.Code, r.Result)
		}
		fmt.Fprintln(os.Stderr, line)
	}
	for ni, node := range w.nodes {
		r := node.call("v10", "starknet_getStorageAt", []any{addr.String(), key.String(), "latest"})
		fmt.Fprintf(os.Stderr, "  latest %s: code=%d %s\n", backendName[ni], r.Code, r.Result)
	}
}

// probeStale (C08_PROBE=1): smallest histories around "slot set, slot zeroed, zero written again"
// on both backends, reading the slot at `latest` after every block.
func probeStale() {
	for _, variant := range []string{"set-zero", "set-zero-zero", "two-slots-zero-one", "two-slots-zero-both", "delete-and-insert-sibling-subtree", "delete-and-insert-far", "revert-insert", "revert-insert-and-delete", "revert-insert-two"} {
		r := lib.NewRNG(1)
		opt := lib.DefaultGenOptions()
		w, err := newWorld(r, false, opt)
		if err != nil {
			panic(err)
		}
		a := w.g.Addr(4)
		mk := func(deploy bool, writes map[uint64]uint64) *core.StateDiff {
			d := &core.StateDiff{StorageDiffs: map[felt.Felt]map[felt.Felt]*felt.Felt{}, Nonces: map[felt.Felt]*felt.Felt{},
				DeployedContracts: map[felt.Felt]*felt.Felt{}, DeclaredV0Classes: []*felt.Felt{}, DeclaredV1Classes: map[felt.Felt]*felt.Felt{},
				ReplacedClasses: map[felt.Felt]*felt.Felt{}, MigratedClasses: map[felt.SierraClassHash]felt.CasmClassHash{}}
			if deploy {
				d.DeployedContracts[a] = lib.F(0xc000)
			}
			if len(writes) > 0 {
				d.StorageDiffs[a] = map[felt.Felt]*felt.Felt{}
				for k, v := range writes {
					d.StorageDiffs[a][*lib.F(k)] = lib.F(v)
				}
			}
			return d
		}
		var diffs []*core.StateDiff
		switch variant {
		case "set-zero":
			diffs = []*core.StateDiff{mk(true, map[uint64]uint64{3: 3}), mk(false, map[uint64]uint64{3: 0}), mk(false, nil)}
		case "set-zero-zero":
			diffs = []*core.StateDiff{mk(true, map[uint64]uint64{3: 3}), mk(false, map[uint64]uint64{3: 0}), mk(false, map[uint64]uint64{3: 0})}
		case "two-slots-zero-one":
			diffs = []*core.StateDiff{mk(true, map[uint64]uint64{3: 3, 4: 4}), mk(false, map[uint64]uint64{3: 0}), mk(false, map[uint64]uint64{3: 0})}
		case "delete-and-insert-sibling-subtree":
			diffs = []*core.StateDiff{mk(true, map[uint64]uint64{3: 3, 2: 4}), mk(false, map[uint64]uint64{0: 2, 3: 0}), mk(false, nil)}
		case "delete-and-insert-far":
			diffs = []*core.StateDiff{mk(true, map[uint64]uint64{3: 3, 2: 4}), mk(false, map[uint64]uint64{1 << 40: 2, 3: 0}), mk(false, nil)}
		case "revert-insert":
			diffs = []*core.StateDiff{mk(true, map[uint64]uint64{2: 4}), mk(false, map[uint64]uint64{3: 5}), nil}
		case "revert-insert-two":
			diffs = []*core.StateDiff{mk(true, map[uint64]uint64{2: 4}), mk(false, map[uint64]uint64{3: 5, 9: 7}), nil}
		case "revert-insert-and-delete":
			diffs = []*core.StateDiff{mk(true, map[uint64]uint64{2: 4}), mk(false, map[uint64]uint64{3: 5, 2: 0}), nil}
		case "two-slots-zero-both":
			diffs = []*core.StateDiff{mk(true, map[uint64]uint64{3: 3, 4: 4}), mk(false, map[uint64]uint64{3: 0, 4: 0}), mk(false, map[uint64]uint64{3: 0})}
		}
		for i, d := range diffs {
			if d == nil {
				line := fmt.Sprintf("%s revert:", variant)
				if err := w.revert(); err != nil {
					line += " " + err.Error()
				}
				for ni, n := range w.nodes {
					for _, k := range []uint64{2, 3} {
						r := n.call("v10", "starknet_getStorageAt", []any{a.String(), lib.F(k).String(), "latest"})
						line += fmt.Sprintf(" %s slot%d=%s(code %d)", backendName[ni], k, r.Result, r.Code)
					}
				}
				fmt.Println(line)
				continue
			}
			b, err := w.g.Next(&lib.BlockSpec{Version: "0.14.0", Diff: d, NoTxs: true})
			if err != nil {
				fmt.Println(variant, "next:", err)
				break
			}
			line := fmt.Sprintf("%s block %d:", variant, i)
			for ni, n := range w.nodes {
				if err := lib.StoreOn(n.bc, b); err != nil {
					line += fmt.Sprintf(" %s store: %v", backendName[ni], err)
					continue
				}
				for _, k := range []uint64{3, 4} {
					r := n.call("v10", "starknet_getStorageAt", []any{a.String(), lib.F(k).String(), "latest"})
					line += fmt.Sprintf(" %s slot%d=%s(code %d)", backendName[ni], k, r.Result, r.Code)
				}
			}
			fmt.Println(line)
		}
	}
}

// traceSlot (C08_TRACE=addr,key): the slot at `latest` on both backends after every operation.
func (w *world) traceSlot(op int) {
	t := os.Getenv("C08_TRACE")
	if t == "" {
		return
	}
	var as, ks string
	for i := range t {
		if t[i] == ',' {
			as, ks = t[:i], t[i+1:]
		}
	}
	line := fmt.Sprintf("op %d (%s) height %d:", op, w.ops[len(w.ops)-1], w.height())
	if h := w.g.Head(); h != nil {
		a, _ := new(felt.Felt).SetString(as)
		if kv, ok := h.SU.StateDiff.StorageDiffs[*a]; ok {
			line += " head diff of addr: "
			for k, v := range kv {
				line += k.String() + "=" + v.String() + " "
			}
		}
	}
	for ni, n := range w.nodes {
		r := n.call("v10", "starknet_getStorageAt", []any{as, ks, "latest"})
		line += fmt.Sprintf(" | %s: code=%d %s", backendName[ni], r.Code, r.Result)
	}
	fmt.Fprintln(os.Stderr, line)
}

// probeNull (C08_PROBE=null): what the real servers answer to null / ill-typed arguments.
func probeNull() {
	r := lib.NewRNG(1)
	w, err := newWorld(r, false, lib.DefaultGenOptions())
	if err != nil {
		panic(err)
	}
	for i := 0; i < 3; i++ {
		if err := w.next(); err != nil {
			panic(err)
		}
	}
	var txh string
	for _, b := range w.g.Bundles {
		for _, tx := range b.Block.Transactions {
			txh = tx.Hash().String()
		}
	}
	av := w.g.Addr(4)
	a := av.String()
	type rq struct {
		m string
		p any
	}
	var null any
	reqs := []rq{
		{"starknet_getNonce", []any{null, a}}, {"starknet_getNonce", []any{"latest", null}}, {"starknet_getNonce", []any{map[string]any{"block_number": 99}, null}},
		{"starknet_getNonce", map[string]any{"block_id": null, "contract_address": a}},
		{"starknet_getBlockWithTxHashes", []any{null}}, {"starknet_getBlockTransactionCount", []any{null}}, {"starknet_getStateUpdate", []any{null}},
		{"starknet_getBlockWithTxHashes", []any{map[string]any{"block_number": null}}}, {"starknet_getBlockWithTxHashes", []any{map[string]any{"block_hash": null}}},
		{"starknet_getBlockTransactionCount", []any{map[string]any{"block_number": 1.0}}}, {"starknet_getBlockTransactionCount", []any{map[string]any{"block_number": json.Number("1.0")}}},
		{"starknet_getBlockTransactionCount", []any{map[string]any{"block_number": json.Number("1.5")}}}, {"starknet_getBlockTransactionCount", []any{map[string]any{"block_number": -1}}},
		{"starknet_getBlockTransactionCount", []any{map[string]any{"block_number": json.Number("18446744073709551616")}}},
		{"starknet_getBlockTransactionCount", []any{map[string]any{"block_number": json.Number("1e0")}}},
		{"starknet_getBlockTransactionCount", []any{map[string]any{"block_hash": null, "block_number": 1}}},
		{"starknet_getTransactionByBlockIdAndIndex", []any{"latest", null}}, {"starknet_getTransactionByBlockIdAndIndex", []any{null, 0}}, {"starknet_getTransactionByBlockIdAndIndex", []any{null, -1}},
		{"starknet_getTransactionByBlockIdAndIndex", []any{"latest", json.Number("0.0")}}, {"starknet_getTransactionByBlockIdAndIndex", []any{"latest", "0"}},
		{"starknet_getTransactionByHash", []any{null}}, {"starknet_getTransactionReceipt", []any{null}}, {"starknet_getTransactionStatus", []any{null}},
		{"starknet_getTransactionByHash", []any{txh, null}},
		{"starknet_getStorageAt", []any{null, "0x1", "latest"}}, {"starknet_getStorageAt", []any{a, null, "latest"}}, {"starknet_getStorageAt", []any{a, "0x1", null}},
		{"starknet_getStorageAt", []any{null, "0x1", map[string]any{"block_number": 99}}},
		{"starknet_getClass", []any{"latest", null}}, {"starknet_getClassAt", []any{"latest", null}}, {"starknet_getClassHashAt", []any{"latest", null}},
		{"starknet_getClassHashAt", []any{null, a}}, {"starknet_getStateUpdate", []any{"latest", null}},
	}
	for _, q := range reqs {
		line := fmt.Sprintf("%-42s %-60s", q.m, fmt.Sprint(q.p))
		for _, v := range versions {
			resp := w.nodes[0].call(v, q.m, q.p)
			s := fmt.Sprintf("code=%d", resp.Code)
			if resp.Broken != "" {
				s = "BROKEN " + resp.Broken
				if len(s) > 40 {
					s = s[:40]
				}
			} else if resp.Code == 0 {
				s = "ok " + string(resp.Result)
				if len(s) > 40 {
					s = s[:40]
				}
			}
			line += " | " + v + ": " + s
		}
		fmt.Println(line)
	}
}

// probeDeployReplace (C08_PROBE=deployreplace): a diff that deploys and replaces one contract.
func probeDeployReplace() {
	w, err := newWorld(lib.NewRNG(1), false, lib.DefaultGenOptions())
	if err != nil {
		panic(err)
	}
	a := w.g.Addr(4)
	d := emptyDiff()
	d.DeployedContracts[a] = lib.F(0xc0)
	d.ReplacedClasses[a] = lib.F(0xc1)
	fmt.Println("block 0 (deploy c0 + replace c1):", w.nextWith(d))
	fmt.Println("block 1 (empty):", w.nextWith(emptyDiff()))
	d2 := emptyDiff()
	d2.ReplacedClasses[a] = lib.F(0xc2)
	fmt.Println("block 2 (replace c2):", w.nextWith(d2))
	for _, id := range []any{map[string]any{"block_number": 0}, map[string]any{"block_number": 1}, map[string]any{"block_number": 2}, "latest"} {
		line := fmt.Sprint(id, ":")
		for ni, n := range w.nodes {
			r := n.call("v10", "starknet_getClassHashAt", []any{id, a.String()})
			line += fmt.Sprintf(" %s=%s(code %d)", backendName[ni], r.Result, r.Code)
		}
		fmt.Println(line)
	}
	fmt.Println("revert:", w.revert(), w.revert())
	for ni, n := range w.nodes {
		r := n.call("v10", "starknet_getClassHashAt", []any{"latest", a.String()})
		fmt.Printf(" after reverting to block 0, latest %s=%s(code %d)\n", backendName[ni], r.Result, r.Code)
	}
}
