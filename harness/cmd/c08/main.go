//go:build verif

package main

import (
	"fmt"

	"github.com/NethermindEth/juno/core"
	"verif/harness/lib"
)

func main() {
	f := lib.ParseFlags()
	r := lib.NewRNG(f.Seed)
	g := lib.NewChainGen(r, false, lib.DefaultGenOptions())
	bc, _ := lib.NewNode(g.Net, true)
	n, err := newRPCNode(bc, true)
	if err != nil {
		panic(err)
	}
	for i := 0; i < 5; i++ {
		b, err := g.Next(nil)
		if err != nil {
			panic(err)
		}
		if err := lib.StoreOn(bc, b); err != nil {
			panic(err)
		}
	}
	_ = bc.SetL1Head(&core.L1Head{BlockNumber: 2, BlockHash: g.Bundles[2].Block.Hash, StateRoot: g.Bundles[2].Block.GlobalStateRoot})
	for _, v := range versions {
		for _, q := range []struct {
			m string
			p any
		}{
			{"starknet_blockNumber", nil},
			{"starknet_blockHashAndNumber", nil},
			{"starknet_getBlockWithTxHashes", []any{map[string]any{"block_number": 1}}},
			{"starknet_getBlockWithTxs", map[string]any{"block_id": "latest"}},
			{"starknet_getBlockWithReceipts", map[string]any{"block_id": "l1_accepted"}},
			{"starknet_getStateUpdate", map[string]any{"block_id": map[string]any{"block_number": 3}}},
			{"starknet_getBlockWithTxHashes", []any{map[string]any{"block_number": 9}}},
			{"starknet_getTransactionByBlockIdAndIndex", []any{map[string]any{"block_number": 9}, 0}},
			{"starknet_getStorageAt", []any{"0x1", "0x0", map[string]any{"block_hash": "0x0"}}},
			{"starknet_getNonce", []any{"pre_confirmed", "0x1"}},
			{"starknet_getNonce", []any{"pending", "0x1"}},
		} {
			resp := n.call(v, q.m, q.p)
			fmt.Printf("%s %s %v -> code=%d msg=%q broken=%q\n%s\n", v, q.m, q.p, resp.Code, resp.Msg, resp.Broken, resp.Result)
		}
	}
}
