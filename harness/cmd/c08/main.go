//go:build verif

// Harness for C08: the three real JSON-RPC method tables of rpc/handlers.go mounted on real
// jsonrpc.Servers over real Blockchains (both state backends) holding chains manufactured by
// juno itself (with reverts, re-grown forks and L1-head positions); every read method x every
// block-id kind x transaction hashes / indices x (contract, slot); each answer is projected to a
// canonical line and compared with (1) the property oracle computed from the generator's bundles
// and abstract states (-> violations, with a replay) and (2) the compiled Lean model, which
// transcribes the handlers (-> correspondence), and field by field with the bundles (deep check).
package main

import (
	"encoding/json"
	"fmt"
	"os"
	"sort"
	"strings"

	"github.com/NethermindEth/juno/core/felt"
	"verif/harness/lib"
)

var backendName = []string{"legacy", "new"}

type harness struct {
	f        lib.Flags
	res      *lib.Result
	drv      *lib.Driver
	programs map[string]struct{} // version/method/id-kind/arg-kind combinations validated
	checked  int                 // answers compared with the oracle
	replay   *replaySpec
}

type replaySpec struct {
	Scenario int `json:"scenario"`
	Round    int `json:"round"`
	Query    int `json:"query"`
}

type scenarioParams struct {
	ops        int // chain operations
	every      int // query round after every n-th operation
	pairs      int // (contract, slot) pairs per block id
	txPerKind  int
	consistBlk int // blocks per round for the cross-method consistency pass
	exhaustAt  int // operation index after which scenarios 0 and 1 run the exhaustive round
}

func main() {
	f := lib.ParseFlags()
	if os.Getenv("C08_PROBE") == "null" {
		probeNull()
		return
	}
	if os.Getenv("C08_PROBE") != "" {
		probeStale()
		return
	}
	res := lib.NewResult("case = one JSON-RPC request (method, block id, arguments) answered by one API version on one state backend; " +
		"key = version/backend/method/id kind/argument kind/round; non-trivial = the request resolves to a block of a chain " +
		"of height >= 2 or must be answered with a not-found error on a non-empty chain")
	h := &harness{f: f, res: res, programs: map[string]struct{}{}}
	drv, err := lib.StartDriver(f.Driver)
	if err != nil {
		res.Note("driver: %v", err)
		lib.Finish(f, res)
	}
	defer drv.Close()
	h.drv = drv

	var only *int
	if f.Replay != "" {
		raw, err := os.ReadFile(f.Replay)
		if err != nil {
			res.Note("replay: %v", err)
			lib.Finish(f, res)
		}
		// layout written by lib/vcheck.py: {"seed":…, "tier":…, "replay": {scenario, round, query, …}}
		var file struct {
			Seed   uint64     `json:"seed"`
			Tier   string     `json:"tier"`
			Replay replaySpec `json:"replay"`
		}
		if err := json.Unmarshal(raw, &file); err != nil {
			res.Note("replay: %v", err)
			lib.Finish(f, res)
		}
		h.replay = &file.Replay
		if file.Seed != 0 {
			h.f.Seed = file.Seed
		}
		if file.Tier != "" {
			h.f.Tier = file.Tier
		}
		only = &h.replay.Scenario
	}

	nScen := h.f.Scale(6, 40)
	sp := scenarioParams{ops: h.f.Scale(26, 60), every: h.f.Scale(4, 5), pairs: h.f.Scale(3, 5), txPerKind: h.f.Scale(3, 6), consistBlk: h.f.Scale(2, 4), exhaustAt: h.f.Scale(9, 13)}
	root := lib.NewRNG(h.f.Seed)
	for s := 0; s < nScen; s++ {
		r := root.Fork(uint64(s))
		if only != nil && *only != s {
			continue
		}
		if err := h.scenario(s, r, sp); err != nil {
			res.Note("scenario %d: %v", s, err)
			res.Mismatch(lib.Mismatch{Sig: "scenario-aborted", Input: s, Impl: err.Error()})
		}
	}
	res.SetExtra("programs", len(h.programs))
	res.SetExtra("disagreements_checked", h.checked)
	lib.Finish(h.f, res)
}

// scenario builds one chain history and interrogates the nodes along the way.
func (h *harness) scenario(s int, r *lib.RNG, sp scenarioParams) error {
	opt := lib.DefaultGenOptions()
	opt.EmptyDiffs = 5
	w, err := newWorld(r, s%2 == 1, opt)
	if err != nil {
		return err
	}
	w.startVersion = s / 2
	lines := []string{"reset"}
	round := 0
	doQueries := func(qs []*query) error {
		err := h.queryRound(s, round, w, r, sp, &lines, qs)
		round++
		return err
	}
	doRound := func() error { return doQueries(w.round(r, sp.pairs, sp.txPerKind)) }
	if err := h.rejections(s, r); err != nil {
		return err
	}
	// the empty chain
	if err := doRound(); err != nil {
		return err
	}
	if s%3 == 2 {
		// an L1 head recorded before any block exists
		if err := w.setL1(uint64(r.Intn(3))); err != nil {
			return err
		}
		lines = append(lines, fmt.Sprintf("l1 %x", *w.l1))
		if err := doRound(); err != nil {
			return err
		}
	}
	pendingReverts := 0
	for op := 0; op < sp.ops; op++ {
		ht := w.height()
		switch {
		case pendingReverts > 0 && ht > 0:
			pendingReverts--
			if err := w.revert(); err != nil {
				return err
			}
			lines = append(lines, "revert")
			h.res.Hit("op:revert")
			if pendingReverts == 0 {
				// right after the reorg: everything asked before it must now be answered from
				// the shorter chain (nothing on the read path may remember the dropped blocks)
				if err := doRound(); err != nil {
					return err
				}
				h.res.Hit("round:right-after-reorg")
			}
		case ht >= 3 && r.Chance(1, 8):
			// a reorg: drop 1..3 blocks (the next operations re-grow a different fork). Ask about
			// the blocks that are about to go first, by every kind of id (warms whatever caches)
			if err := doQueries(w.warm(r)); err != nil {
				return err
			}
			h.res.Hit("round:right-before-reorg")
			pendingReverts = r.Intn(3)
			if err := w.revert(); err != nil {
				return err
			}
			lines = append(lines, "revert")
			h.res.Hit("op:revert")
			if pendingReverts == 0 {
				if err := doRound(); err != nil {
					return err
				}
				h.res.Hit("round:right-after-reorg")
			}
		case ht >= 1 && r.Chance(1, 5):
			// L1 head positions: genesis, inside, the head, just ahead, far ahead
			var n uint64
			switch r.Intn(6) {
			case 0:
				n = 0
			case 1:
				n = uint64(ht - 1)
			case 2:
				n = uint64(ht)
			case 3:
				n = uint64(ht + 1 + r.Intn(5))
			default:
				n = uint64(r.Intn(ht))
			}
			if err := w.setL1(n); err != nil {
				return err
			}
			lines = append(lines, fmt.Sprintf("l1 %x", n))
			h.res.Hit("op:set-l1")
			switch {
			case n >= uint64(ht):
				h.res.Hit("l1:ahead-of-chain")
			case n == uint64(ht-1):
				h.res.Hit("l1:at-head")
			default:
				h.res.Hit("l1:inside")
			}
		default:
			if err := w.next(); err != nil {
				return err
			}
			lines = append(lines, storeLine(w.g.Head()))
			h.res.Hit("op:store")
			h.res.Hit("block-version:" + w.g.Head().Block.ProtocolVersion)
		}
		w.traceSlot(op)
		if op == sp.exhaustAt && s < 2 {
			// the whole small space: every id x every method x every index / hash / address / slot / class
			if err := doQueries(w.exhaustive()); err != nil {
				return err
			}
			h.res.Hit("round:exhaustive")
		} else if (op+1)%sp.every == 0 || op == sp.ops-1 || ((w.height() == 10 || w.height() == 11) && len(w.ops) > 0 && strings.HasPrefix(w.ops[len(w.ops)-1], "store")) {
			// (heights 10 and 11: the boundary of the block-hash lag in v0.8's synthetic pending block)
			if err := doRound(); err != nil {
				return err
			}
		}
	}
	if s%3 == 0 && w.height() > 0 {
		// take the chain down to nothing: every hash is now a reverted one
		for w.height() > 0 {
			if err := w.revert(); err != nil {
				return err
			}
			lines = append(lines, "revert")
			h.res.Hit("op:revert")
			if w.height() == 1 || w.height() == 0 {
				if err := doRound(); err != nil {
					return err
				}
			}
		}
		h.res.Hit("chain:reverted-to-empty")
	}
	return nil
}

func isStateMethod(m string) bool {
	switch m {
	case "storage", "storageLU", "nonce", "classHashAt", "class", "classAt":
		return true
	}
	return false
}

// queryRound generates the queries of a checkpoint, asks the model, asks every node on every
// version, and compares.
func (h *harness) queryRound(s, round int, w *world, r *lib.RNG, sp scenarioParams, pending *[]string, qs []*query) error {
	// model answers: pending chain operations first, then one line per (query, version)
	lines := append([]string{}, *pending...)
	nOps := len(lines)
	*pending = (*pending)[:0]
	type slot struct{ q, v, n int }
	var slots []slot
	for qi, q := range qs {
		for vi, ver := range versions {
			for ni := range w.nodes {
				lines = append(lines, q.leanLine(ver, backendName[ni]))
				slots = append(slots, slot{qi, vi, ni})
			}
		}
	}
	answers, err := h.drv.AskAll(lines)
	if err != nil {
		return fmt.Errorf("driver: %w", err)
	}
	for i := 0; i < nOps; i++ {
		if answers[i] != "ok" {
			h.res.Mismatch(lib.Mismatch{Sig: "model-rejects-chain-operation", Input: lines[i], Model: answers[i], Impl: "ok"})
		}
	}
	model := map[slot]string{}
	for i, sl := range slots {
		model[sl] = answers[nOps+i]
	}

	for qi, q := range qs {
		if h.replay != nil && !(h.replay.Round == round && h.replay.Query == qi) {
			continue
		}
		got := make([][]string, len(versions))  // [version][backend] projection line
		violated := make([]bool, len(versions)) // an answer of this version was already reported
		exps := make([]expectation, len(versions))
		for vi, ver := range versions {
			exp := w.expect(q, ver)
			exps[vi] = exp
			got[vi] = make([]string, len(w.nodes))
			for ni, node := range w.nodes {
				resp := node.call(ver, rpcName[q.method], q.params(ver))
				line, obj := h.lineOf(w, q, resp)
				got[vi][ni] = line
				key := fmt.Sprintf("%s/%s/%s/%d/%d", ver, backendName[ni], q.kindKey(), s, round)
				nontrivial := w.height() >= 2 || (w.height() > 0 && exp.resolved < 0)
				h.res.Case(key, nontrivial)
				h.res.Hit("method:" + q.method)
				if q.id != nil {
					h.res.Hit("id:" + q.id.kind)
				}
				if q.sub != "" {
					h.res.Hit("arg:" + q.sub)
				}
				if q.id != nil && q.id.sem(ver) == "pending" && !isStateMethod(q.method) {
					h.res.Hit("answer:v8-pending-synthetic-block")
				} else {
					h.res.Hit("answer:" + answerClass(line))
				}
				if q.named {
					h.res.Hit("params:by-name")
				} else {
					h.res.Hit("params:positional")
				}
				h.programs[ver+"/"+q.kindKey()] = struct{}{}
				ctx := &caseCtx{s: s, round: round, qi: qi, w: w, q: q, ver: ver, backend: backendName[ni]}

				// (1) the property oracle
				sig, stale := "", false
				if !exp.skip {
					h.checked++
					if !exp.accepts(line) {
						if q.method == "storage" {
							w.debugStorage(&q.addr, &q.key)
						}
						sig, stale = h.violate(ctx, exp, line, resp)
						violated[vi] = true
					}
				}
				// (2) correspondence with the Lean model. The model is a model of the handlers and
				// of the chain, not of the trie: an answer already attributed to the stale-leaf
				// defect of the new state backend is not held against it.
				if m, ok := model[slot{qi, vi, ni}]; ok && !stale {
					h.res.Compared(1)
					if m != line {
						h.res.Mismatch(lib.Mismatch{Sig: "model:" + ver + ":" + q.kindKey(), Input: ctx.request(), Model: m, Impl: line})
					}
				}
				if exp.skip || sig != "" {
					continue
				}
				// (3) deep comparison with the bundle
				if obj != nil && exp.resolved >= 0 && !(q.id != nil && q.id.sem(ver) == "pending" && !isStateMethod(q.method)) {
					h.res.Hit("deep-compared:" + q.method)
					if p := h.deep(w, q, ver, obj, exp.resolved); len(p) > 0 {
						sort.Strings(p)
						h.res.Violate(lib.Violation{
							Sig:    fmt.Sprintf("deep:%s:%s:%s", ver, q.method, fieldOf(p[0])),
							What:   fmt.Sprintf("%s %s on the %s backend answers from the right block but with wrong content: %s", ver, rpcName[q.method], backendName[ni], strings.Join(p, "; ")),
							Replay: ctx.replay(exp.String(), line),
						})
					}
				}
			}
		}
		// backends and versions must agree wherever the specification is the same
		for vi := range versions {
			if got[vi][0] != got[vi][1] && !violated[vi] {
				ctx := &caseCtx{s: s, round: round, qi: qi, w: w, q: q, ver: versions[vi], backend: "both"}
				sig := "backends-disagree:" + versions[vi] + ":" + q.kindKey()
				if q.method == "storageLU" && sameValueDifferentBlock(got[vi][0], got[vi][1]) {
					sig = sigLastUpdateNoop
				}
				h.res.Violate(lib.Violation{Sig: sig,
					What:   fmt.Sprintf("%s %s: legacy backend answers %q, new backend answers %q", versions[vi], rpcName[q.method], got[vi][0], got[vi][1]),
					Replay: ctx.replay(exps[vi].String(), got[vi][0]+" / "+got[vi][1])})
			}
		}
		for vi := 1; vi < len(versions); vi++ {
			if exps[vi].skip || exps[0].skip || exps[vi].String() != exps[vi-1].String() {
				continue
			}
			if got[vi][0] != got[vi-1][0] && exps[vi].accepts(got[vi][0]) && exps[vi-1].accepts(got[vi-1][0]) {
				ctx := &caseCtx{s: s, round: round, qi: qi, w: w, q: q, ver: versions[vi], backend: backendName[0]}
				h.res.Violate(lib.Violation{Sig: "versions-disagree:" + q.kindKey(),
					What:   fmt.Sprintf("%s: %s answers %q, %s answers %q", rpcName[q.method], versions[vi-1], got[vi-1][0], versions[vi], got[vi][0]),
					Replay: ctx.replay(exps[vi].String(), got[vi][0])})
			}
		}
		h.res.Sample(10, map[string]any{"request": q.describe("v10"), "expected": exps[2].String(), "v8": got[0][0], "v9": got[1][0], "v10": got[2][0]})
	}
	// the random choices of the consistency pass are always drawn (a replay must see the same
	// PRNG stream); the pass itself runs only when it is wanted
	picks := consistencyPicks(w, r, sp)
	if h.replay == nil || (h.replay.Round == round && h.replay.Query < 0) {
		h.consistency(s, round, w, picks)
	}
	return nil
}

func answerClass(line string) string {
	if strings.HasPrefix(line, "ok") {
		return "ok"
	}
	return strings.SplitN(line, " ", 2)[0]
}

func fieldOf(problem string) string {
	f := strings.SplitN(problem, ":", 2)[0]
	if i := strings.Index(f, "["); i >= 0 {
		f = f[:i]
	}
	return strings.ReplaceAll(f, " ", "-")
}

// lineOf projects a response to the model's answer line. obj is the decoded result (nil on
// errors).
func (h *harness) lineOf(w *world, q *query, resp rpcResp) (string, any) {
	if resp.Broken != "" {
		return "broken:" + resp.Broken, nil
	}
	if resp.Code != 0 {
		return errLine(resp.Code), nil
	}
	obj, err := decodeJSON(resp.Result)
	if err != nil {
		return "malformed:" + err.Error(), nil
	}
	if q.method == "class" || q.method == "classAt" {
		fp, err := classFingerprintJSON(obj)
		if err != nil {
			return "malformed:" + err.Error(), nil
		}
		if c, ok := w.classPrint[fp]; ok {
			return "ok " + hxv(c), obj
		}
		return "ok unknown-class", obj
	}
	line, err := project(q.method, obj)
	if err != nil {
		return "malformed:" + err.Error(), nil
	}
	return line, obj
}

// deep runs the field-level comparison appropriate for the method.
func (h *harness) deep(w *world, q *query, ver string, obj any, n int) problems {
	o, ok := obj.(jobj)
	if !ok {
		return nil
	}
	switch q.method {
	case "blockTxHashes", "blockTxs":
		p := w.deepHeader(ver, o, n)
		if q.method == "blockTxs" {
			txs, _ := o["transactions"].([]any)
			for i, t := range txs {
				if to, ok := t.(jobj); ok && i < len(w.g.Bundles[n].Block.Transactions) {
					p = append(p, deepTx(to, w.g.Bundles[n].Block.Transactions[i], true)...)
					if ver == "v10" {
						p = append(p, deepProofFacts(to, w.g.Bundles[n].Block.Transactions[i], q.proofFacts)...)
					}
				}
			}
		}
		return p
	case "blockReceipts":
		p := w.deepHeader(ver, o, n)
		txs, _ := o["transactions"].([]any)
		for i, t := range txs {
			pair, ok := t.(jobj)
			if !ok || i >= len(w.g.Bundles[n].Block.Transactions) {
				continue
			}
			if to, ok := pair["transaction"].(jobj); ok {
				p = append(p, deepTx(to, w.g.Bundles[n].Block.Transactions[i], false)...)
				if ver == "v10" {
					p = append(p, deepProofFacts(to, w.g.Bundles[n].Block.Transactions[i], q.proofFacts)...)
				}
			}
			if ro, ok := pair["receipt"].(jobj); ok {
				p = append(p, w.deepReceipt(ro, n, i, false)...)
			}
		}
		return p
	case "txByHash":
		if bn, i, ok := w.findTx(&q.txHash); ok {
			p := deepTx(o, w.g.Bundles[bn].Block.Transactions[i], true)
			if ver == "v10" {
				p = append(p, deepProofFacts(o, w.g.Bundles[bn].Block.Transactions[i], q.proofFacts)...)
			}
			return p
		}
	case "txByIdx":
		if q.index >= 0 && q.index < len(w.g.Bundles[n].Block.Transactions) {
			p := deepTx(o, w.g.Bundles[n].Block.Transactions[q.index], true)
			if ver == "v10" {
				p = append(p, deepProofFacts(o, w.g.Bundles[n].Block.Transactions[q.index], q.proofFacts)...)
			}
			return p
		}
	case "receipt":
		if bn, i, ok := w.findTx(&q.txHash); ok {
			return w.deepReceipt(o, bn, i, true)
		}
	case "txStatus":
		if bn, i, ok := w.findTx(&q.txHash); ok {
			var p problems
			rc := w.g.Bundles[bn].Block.Receipts[i]
			got, _ := o["failure_reason"].(string)
			if rc.Reverted && got != rc.RevertReason {
				p.addf("failure_reason: want %q got %q", rc.RevertReason, got)
			}
			if !rc.Reverted && got != "" {
				p.addf("failure_reason: present on a succeeded transaction")
			}
			return p
		}
	case "stateUpdate":
		return w.deepStateUpdate(ver, o, n)
	}
	return nil
}

// caseCtx is what a replay needs to name a case.
type caseCtx struct {
	s, round, qi int
	w            *world
	q            *query
	ver, backend string
}

func (c *caseCtx) request() map[string]any {
	return map[string]any{"version": c.ver, "backend": c.backend, "method": rpcName[c.q.method], "params": c.q.params(c.ver)}
}

func (c *caseCtx) replay(expected, got string) map[string]any {
	var l1 any
	if c.w.l1 != nil {
		l1 = *c.w.l1
	}
	return map[string]any{
		"scenario": c.s, "round": c.round, "query": c.qi,
		"history": append([]string{}, c.w.ops...), "chain_height": c.w.height(), "l1_head": l1,
		"request": c.request(), "expected": expected, "got": got,
	}
}

// violate classifies a disagreement between the real answer and the property oracle. The three
// ways juno's handlers are known to leave the statement have their own signatures (each matched
// only by its exact shape); anything else gets a signature built from version, method, id kind,
// argument kind, the class of the expected answer and the class of the answer given.
func (h *harness) violate(c *caseCtx, exp expectation, got string, resp rpcResp) (string, bool) {
	q := c.q
	sig := fmt.Sprintf("%s:%s:want-%s:got-%s", c.ver, q.kindKey(), answerClass(exp.lines[0]), answerClass(got))
	what := fmt.Sprintf("%s %s(%s) on the %s backend: the chain says %q, the node answers %q", c.ver, rpcName[q.method], paramsText(q, c.ver), c.backend, exp.String(), got)
	if resp.Code != 0 && resp.Msg != "" {
		what += " (" + resp.Msg + ")"
	}
	stale := false // the answer is a stale trie leaf, which the model does not follow
	switch {
	case q.method == "txByIdx" && q.id.kind == "num-missing" && got == errLine(codeInvalidTxIndex) && exp.lines[0] == errLine(codeBlockNotFound):
		sig = "getTransactionByBlockIdAndIndex-missing-block-number-reports-invalid-index"
	case isStateMethod(q.method) && q.id != nil && q.id.kind == "hash-zero" && exp.lines[0] == errLine(codeBlockNotFound) &&
		got == emptyStateAnswer(q.method, c.ver):
		sig = sigHashZeroEmpty
	case isStateMethod(q.method) && q.id != nil && q.id.kind == "hash-zero" && exp.lines[0] == errLine(codeBlockNotFound) &&
		c.backend == "new" && strings.HasPrefix(got, "ok ") && c.w.headReaderAnswers(q, c.ver, got):
		sig = sigHashZeroHead
		lq := *q
		lq.id = &blockID{tag: "latest", kind: "latest"}
		stale = q.method == "storage" && (c.w.isFormerValue(q, got) || c.w.isRevertedValue(q, got)) && !c.w.expect(&lq, c.ver).accepts(got)
	case q.method == "storage" && c.backend == "new" && c.w.usesHeadReader(q, c.ver) && exp.accepts("ok 0") && c.w.isFormerValue(q, got):
		sig = sigStaleSlot
		stale = true
	case q.method == "storage" && c.backend == "new" && c.w.usesHeadReader(q, c.ver) && exp.accepts("ok 0") && c.w.isRevertedValue(q, got):
		sig = sigStaleReverted
		stale = true
	}
	h.res.Violate(lib.Violation{Sig: sig, What: what, Replay: c.replay(exp.String(), got)})
	return sig, stale
}

// Signatures of the ways juno is known to leave the statement (known/C08.json).
const (
	sigHashZeroEmpty  = "state-read-at-block-hash-zero-answers-as-for-an-empty-state"
	sigHashZeroHead   = "state-read-at-block-hash-zero-returns-head-state-data-on-new-backend"
	sigStaleSlot      = "new-backend-head-read-returns-stale-value-of-zeroed-slot"
	sigStaleReverted  = "new-backend-head-read-returns-value-written-by-reverted-block"
	sigLastUpdateNoop = "getStorageAt-last-update-block-backends-disagree-on-zero-written-to-unset-slot"
)

// usesHeadReader: does the handler serve this request from a head reader (`latest`, v8
// `pending`, and block hash 0x0)?
func (w *world) usesHeadReader(q *query, ver string) bool {
	if q.id == nil {
		return false
	}
	return q.id.tag == "latest" || q.id.sem(ver) == "pending" || q.id.kind == "hash-zero"
}

// isFormerValue: is `got` ("ok v", v != 0) a value the slot held at some earlier block of the
// current chain?
func (w *world) isFormerValue(q *query, got string) bool {
	if !strings.HasPrefix(got, "ok ") || got == "ok 0" {
		return false
	}
	for _, st := range w.g.States {
		if c, ok := st.Contracts[q.addr]; ok {
			if v, ok := c.Storage[q.key]; ok && "ok "+hxv(v) == got {
				return true
			}
		}
	}
	return false
}

// isRevertedValue: is `got` ("ok v", v != 0) a value that only blocks no longer on the chain wrote
// to the slot?
func (w *world) isRevertedValue(q *query, got string) bool {
	if !strings.HasPrefix(got, "ok ") || got == "ok 0" || w.isFormerValue(q, got) {
		return false
	}
	for v := range w.everWritten[[2]felt.Felt{q.addr, q.key}] {
		if "ok "+hxv(v) == got {
			return true
		}
	}
	return false
}

// headReaderAnswers: is `got` what the handler answers when handed a reader of the head state
// (what block hash 0x0 yields on the new backend)? Either the answer for `latest`, or, where the
// handler's own "contract exists" probe is tied to `latest` (v10 getStorageAt), the raw slot
// value; a stale former value of the slot (see sigStaleSlot) is attributed here too.
func (w *world) headReaderAnswers(q *query, ver, got string) bool {
	if w.height() == 0 {
		return got == emptyStateAnswer(q.method, ver)
	}
	lq := *q
	lq.id = &blockID{tag: "latest", kind: "latest"}
	if w.expect(&lq, ver).accepts(got) {
		return true
	}
	if q.method == "storage" {
		return got == "ok 0" || w.isFormerValue(q, got) || w.isRevertedValue(q, got)
	}
	if q.method == "storageLU" {
		return strings.HasPrefix(got, "ok 0 @")
	}
	return false
}

// emptyStateAnswer is what a handler answers when it is given the empty (pre-genesis) state.
func emptyStateAnswer(method, ver string) string {
	switch method {
	case "class":
		return errLine(codeClassNotFound)
	case "storage":
		if ver == "v10" {
			return "ok 0"
		}
	case "storageLU":
		return "ok 0 @0"
	}
	return errLine(codeContractNotFound)
}

func paramsText(q *query, ver string) string {
	b, _ := json.Marshal(q.params(ver))
	return string(b)
}

// consistency: the same transaction / receipt must render identically through every method that
// returns it (block with txs, block with receipts, by hash, by block id and index), on every
// version; and the listing methods must agree on count and order.
type consistencyPick struct {
	n  int
	id *blockID
}

func consistencyPicks(w *world, r *lib.RNG, sp scenarioParams) []consistencyPick {
	var out []consistencyPick
	if w.height() == 0 {
		return out
	}
	for k := 0; k < sp.consistBlk; k++ {
		n := r.Intn(w.height())
		if k == 0 {
			n = w.height() - 1
		}
		id := &blockID{tag: "number", num: uint64(n), kind: "num-existing"}
		if r.Bool() {
			id = &blockID{tag: "hash", hash: *w.g.Bundles[n].Block.Hash, kind: "hash-existing"}
		}
		out = append(out, consistencyPick{n, id})
	}
	return out
}

func (h *harness) consistency(s, round int, w *world, picks []consistencyPick) {
	for _, pk := range picks {
		n, id := pk.n, pk.id
		b := w.g.Bundles[n]
		for _, ver := range versions {
			for ni, node := range w.nodes {
				report := func(what string) {
					q := &query{method: "blockTxs", id: id}
					ctx := &caseCtx{s: s, round: round, qi: -1, w: w, q: q, ver: ver, backend: backendName[ni]}
					h.res.Violate(lib.Violation{Sig: "inconsistent:" + ver + ":" + fieldOf(what),
						What:   fmt.Sprintf("%s on the %s backend, block %d: %s", ver, backendName[ni], n, what),
						Replay: ctx.replay("the same rendering through every method", what)})
				}
				get := func(method string, params any) jobj {
					resp := node.call(ver, method, params)
					if resp.Broken != "" || resp.Code != 0 {
						report(fmt.Sprintf("%s: unexpected failure code=%d %s%s", method, resp.Code, resp.Msg, resp.Broken))
						return nil
					}
					v, err := decodeJSON(resp.Result)
					if err != nil {
						report(method + ": malformed result")
						return nil
					}
					o, _ := v.(jobj)
					return o
				}
				bt := get("starknet_getBlockWithTxs", []any{id.json()})
				br := get("starknet_getBlockWithReceipts", []any{id.json()})
				if bt == nil || br == nil {
					continue
				}
				txs, _ := bt["transactions"].([]any)
				rcs, _ := br["transactions"].([]any)
				if len(txs) != len(b.Block.Transactions) || len(rcs) != len(b.Block.Transactions) {
					report(fmt.Sprintf("transaction-count: block has %d, getBlockWithTxs lists %d, getBlockWithReceipts lists %d", len(b.Block.Transactions), len(txs), len(rcs)))
					continue
				}
				for i, tx := range b.Block.Transactions {
					h.checked++
					h.res.Hit("consistency:tx")
					to, _ := txs[i].(jobj)
					pair, _ := rcs[i].(jobj)
					if to == nil || pair == nil {
						report("transaction-shape: not an object")
						continue
					}
					inRc, _ := pair["transaction"].(jobj)
					rcIn, _ := pair["receipt"].(jobj)
					byHash := get("starknet_getTransactionByHash", []any{tx.Hash().String()})
					byIdx := get("starknet_getTransactionByBlockIdAndIndex", []any{id.json(), i})
					rcByHash := get("starknet_getTransactionReceipt", map[string]any{"transaction_hash": tx.Hash().String()})
					if byHash == nil || byIdx == nil || rcByHash == nil || inRc == nil || rcIn == nil {
						continue
					}
					ref := normTx(to)
					for name, o := range map[string]jobj{"getTransactionByHash": byHash, "getTransactionByBlockIdAndIndex": byIdx, "getBlockWithReceipts": inRc} {
						if normTx(o) != ref {
							report(fmt.Sprintf("transaction-rendering: index %d differs between getBlockWithTxs and %s", i, name))
						}
					}
					for name, o := range map[string]jobj{"getTransactionByHash": byHash, "getTransactionByBlockIdAndIndex": byIdx, "getBlockWithTxs": to} {
						if got, _ := o["transaction_hash"].(string); !sameFelt(got, tx.Hash()) {
							report(fmt.Sprintf("transaction-hash: index %d: %s gives %s, block holds %s", i, name, got, tx.Hash()))
						}
					}
					// receipt by hash = receipt in block + block info
					c := jobj{}
					for k, v := range rcByHash {
						if k != "block_hash" && k != "block_number" {
							c[k] = v
						}
					}
					a, _ := json.Marshal(c)
					bb, _ := json.Marshal(rcIn)
					if string(a) != string(bb) {
						report(fmt.Sprintf("receipt-rendering: index %d differs between getTransactionReceipt and getBlockWithReceipts", i))
					}
					if p := w.deepReceipt(rcByHash, n, i, true); len(p) > 0 {
						report("receipt-content: " + strings.Join(p, "; "))
					}
					if p := deepTx(byHash, tx, true); len(p) > 0 {
						report("transaction-content: " + strings.Join(p, "; "))
					}
				}
			}
		}
	}
}

func sameFelt(s string, f *felt.Felt) bool {
	g, err := new(felt.Felt).SetString(s)
	return err == nil && g.Equal(f)
}

// sameValueDifferentBlock: two "ok <value> @<block>" answers with the same value but different
// block numbers.
func sameValueDifferentBlock(a, b string) bool {
	fa, fb := strings.Fields(a), strings.Fields(b)
	return len(fa) == 3 && len(fb) == 3 && fa[0] == "ok" && fb[0] == "ok" && fa[1] == fb[1] && fa[2] != fb[2]
}
