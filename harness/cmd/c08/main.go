//go:build verif

// Harness for C08: the three real JSON-RPC method tables of rpc/handlers.go mounted on real
// jsonrpc.Servers over real Blockchains (both state backends) holding chains manufactured by
// juno itself (with reverts, re-grown forks and L1-head positions); every read method x every
// block-id kind x transaction hashes / indices x (contract, slot); each answer is projected to a
// canonical line and compared with (1) the property oracle computed from the generator's bundles
// and abstract states (-> violations, with a replay) and (2) the compiled Lean model, which
// transcribes the handlers (-> correspondence), and field by field with the bundles (deep check).
package main

import (
	"encoding/json"
	"fmt"
	"os"
	"sort"
	"strings"
	"time"

	"github.com/NethermindEth/juno/core"
	"github.com/NethermindEth/juno/core/felt"
	"verif/harness/lib"
)

var backendName = []string{"legacy", "new"}

type harness struct {
	f        lib.Flags
	res      *lib.Result
	drv      *lib.Driver
	programs map[string]struct{} // version/method/id-kind/arg-kind combinations validated
	checked  int                 // answers compared with the oracle
	replay   *replaySpec
}

type replaySpec struct {
	Scenario int `json:"scenario"`
	Round    int `json:"round"`
	Query    int `json:"query"`
}

type scenarioParams struct {
	ops        int // chain operations
	every      int // query round after every n-th operation
	pairs      int // (contract, slot) pairs per block id
	txPerKind  int
	consistBlk int         // blocks per round for the cross-method consistency pass
	exhaustAt  int         // operation index after which the exhaustive round runs (-1: never)
	short      bool        // a short history (more reorg / L1 operations per block)
	preConf    bool        // pre_confirmed data present on the nodes
	prune      bool        // the node prunes (pruner.PruneUpto at random points of the history)
	seedFloor  bool        // ... with the shared retention floor seeded (node.go) / never seeded
	pruneAt    map[int]int // height -> floor: prune to that floor when the chain first reaches the height
	exhaustEnd bool        // the exhaustive round at the end of the history
	fault      bool        // at the very end: delete the commitments record of a retained block
}

func main() {
	f := lib.ParseFlags()
	if os.Getenv("C08_PROBE") == "deployreplace" {
		probeDeployReplace()
		return
	}
	if os.Getenv("C08_PROBE") == "prune" {
		probePruned()
		return
	}
	if os.Getenv("C08_PROBE") == "null" {
		probeNull()
		return
	}
	if os.Getenv("C08_PROBE") != "" {
		probeStale()
		return
	}
	res := lib.NewResult("case = one JSON-RPC request (method, block id, arguments) answered by one API version on one state backend; " +
		"key = version/backend/method/id kind/argument kind/round; non-trivial = the request resolves to a block of a chain " +
		"of height >= 2 or must be answered with a not-found error on a non-empty chain")
	h := &harness{f: f, res: res, programs: map[string]struct{}{}}
	drv, err := lib.StartDriver(f.Driver)
	if err != nil {
		res.Fatalf("driver: %v", err)
		lib.Finish(f, res)
	}
	defer drv.Close()
	h.drv = drv
	if err := h.probeVariant(); err != nil {
		res.Fatalf("variant probe: %v", err)
		lib.Finish(f, res)
	}

	var only *int
	if f.Replay != "" {
		raw, err := os.ReadFile(f.Replay)
		if err != nil {
			res.Fatalf("replay: %v", err)
			lib.Finish(f, res)
		}
		// layout written by lib/vcheck.py: {"seed":…, "tier":…, "replay": {scenario, round, query, …}}
		var file struct {
			Seed   uint64     `json:"seed"`
			Tier   string     `json:"tier"`
			Replay replaySpec `json:"replay"`
		}
		if err := json.Unmarshal(raw, &file); err != nil {
			res.Fatalf("replay: %v", err)
			lib.Finish(f, res)
		}
		h.replay = &file.Replay
		if file.Seed != 0 {
			h.f.Seed = file.Seed
		}
		if file.Tier != "" {
			h.f.Tier = file.Tier
		}
		only = &h.replay.Scenario
	}

	// a few long histories (sampled rounds, reorgs, L1 head moves, the block-hash-lag boundary) and
	// many short ones (height 3..7) each ending in the exhaustive round
	nLong, nShort := h.f.Scale(3, 16), h.f.Scale(13, 140)
	long := scenarioParams{ops: h.f.Scale(26, 60), every: h.f.Scale(4, 5), pairs: h.f.Scale(3, 5), txPerKind: h.f.Scale(3, 6), consistBlk: h.f.Scale(2, 4), exhaustAt: -1}
	root := lib.NewRNG(h.f.Seed)
	for s := 0; s < nLong+nShort; s++ {
		r := root.Fork(uint64(s))
		if only != nil && *only != s {
			continue
		}
		sp := long
		if s >= nLong {
			ops := 4 + r.Intn(5)
			sp = scenarioParams{ops: ops, every: 1000, pairs: 2, txPerKind: 2, consistBlk: 2, exhaustAt: ops - 1, short: true, preConf: s%4 == 3,
				prune: s%4 == 1 || s%4 == 2, seedFloor: s%8 == 1 || s%8 == 6}
		}
		if err := h.scenario(s, r, sp); err != nil {
			res.Fatalf("scenario %d aborted: %v", s, err)
		}
	}
	// pruned nodes: longer histories whose pruning floors straddle the constants on the way — the
	// ten-header window (core.BlockHashLag), the width boundary of the CBOR-encoded block number that
	// keys the transactions record (23 | 24) — with reorgs above the floor, a second and third prune
	// (the sweep resumes at the previous floor), the retention floor seeded or not, and at the very
	// end a commitments record deleted behind the node's back
	for k := 0; k < h.f.Scale(2, 10); k++ {
		sc := 2000 + k
		if only != nil && *only != sc {
			continue
		}
		r := root.Fork(uint64(sc))
		at := map[int]int{5: 1 + r.Intn(3), 14: 11 + r.Intn(2), 27: 23 + r.Intn(3)}
		sp := scenarioParams{ops: 60, every: 15, pairs: 2, txPerKind: 2, consistBlk: 2, exhaustAt: -1, prune: true, seedFloor: k%2 == 0,
			pruneAt: at, exhaustEnd: true, fault: true}
		if err := h.scenario(sc, r, sp); err != nil {
			res.Fatalf("pruned-node scenario %d aborted: %v", sc, err)
		}
	}
	// old blocks (pre-0.13.2 headers with missing fields): two little chains of their own
	for k := 0; k < h.f.Scale(2, 12); k++ {
		sc := 1000 + k
		if only != nil && *only != sc {
			continue
		}
		if err := h.legacyHeaders(sc, root.Fork(uint64(sc))); err != nil {
			res.Fatalf("legacy-header chain %d aborted: %v", sc, err)
		}
	}
	res.SetExtra("programs", len(h.programs))
	res.SetExtra("disagreements_checked", h.checked)
	lib.Finish(h.f, res)
}

// scenario builds one chain history and interrogates the nodes along the way.
func (h *harness) scenario(s int, r *lib.RNG, sp scenarioParams) error {
	opt := lib.DefaultGenOptions()
	opt.EmptyDiffs = 5
	w, err := newWorld(r, s%2 == 1, opt)
	if err != nil {
		return err
	}
	w.startVersion = s / 2
	if sp.preConf {
		w.enablePreConfirmed()
		h.res.Hit("config:pre_confirmed-data-present")
	}
	lines := []string{"reset"}
	round := 0
	doQueries := func(qs []*query) error {
		err := h.queryRound(s, round, w, r, sp, &lines, qs)
		round++
		return err
	}
	doRound := func() error { return doQueries(w.round(r, sp.pairs, sp.txPerKind)) }
	// PruneUpto calls that must change nothing (empty database / bound at or below the oldest retained
	// block / bound above the chain), each followed by the store-level comparison
	refusedPrunes := func(es ...int) error {
		if len(w.noCommit) > 0 {
			return nil
		}
		for _, e := range es {
			kind, surprise, err := w.pruneRefused(e)
			if err != nil {
				return err
			}
			lines = append(lines, fmt.Sprintf("prune %x", e))
			h.res.Hit("prune-refused:" + kind)
			if err := h.snapshot(s, w, &lines); err != nil {
				return err
			}
			if surprise != "" {
				return fmt.Errorf("%s", surprise)
			}
		}
		return nil
	}
	if err := h.rejections(s, r); err != nil {
		return err
	}
	if sp.seedFloor {
		// node.go seeds the floor at start-up (after the migrations), here on the empty database
		if err := w.seedFloors(); err != nil {
			return err
		}
		lines = append(lines, "seed")
		h.res.Hit("config:retention-floor-seeded")
	}
	if sp.prune {
		if err := refusedPrunes(0, 5); err != nil {
			return err
		}
	}
	// the empty chain
	if err := doRound(); err != nil {
		return err
	}
	if s%3 == 2 {
		// an L1 head recorded before any block exists
		if err := w.setL1(uint64(r.Intn(3))); err != nil {
			return err
		}
		lines = append(lines, fmt.Sprintf("l1 %x", *w.l1))
		if err := h.snapshot(s, w, &lines); err != nil {
			return err
		}
		if err := doRound(); err != nil {
			return err
		}
	}
	pendingReverts := 0
	pruneNow := func(e int) error {
		if w.l1 == nil || w.l1Sentinel || *w.l1 < uint64(e) {
			// the pruner only ever prunes below the recorded L1 head
			n := uint64(e + r.Intn(w.height()-e+2))
			if err := w.setL1(n); err != nil {
				return err
			}
			lines = append(lines, fmt.Sprintf("l1 %x", n))
			h.res.Hit("op:set-l1")
		}
		if err := w.prune(e); err != nil {
			return err
		}
		lines = append(lines, fmt.Sprintf("prune %x", e))
		if w.floorSeeded {
			lines = append(lines, "seed")
		}
		h.res.Hit("op:prune")
		switch {
		case e > int(core.BlockHashLag):
			h.res.Hit("prune:headers-deleted")
		default:
			h.res.Hit("prune:all-headers-kept")
		}
		if e >= 24 {
			h.res.Hit("prune:floor-at-or-above-24")
		}
		if w.pruneRotated {
			h.res.Hit("prune:batch-rotated-after-every-block")
		} else {
			h.res.Hit("prune:single-batch")
		}
		return nil
	}
	for op := 0; op < sp.ops; op++ {
		ht := w.height()
		if pendingReverts > 0 && !(ht-2 >= w.prunedBelow) {
			pendingReverts = 0 // never revert the oldest retained block (the pruner keeps below the L1 head; L1-accepted blocks do not reorg)
		}
		if e, ok := sp.pruneAt[ht]; ok && e > w.prunedBelow && e < ht {
			delete(sp.pruneAt, ht)
			if err := pruneNow(e); err != nil {
				return err
			}
			if err := h.snapshot(s, w, &lines); err != nil {
				return err
			}
			if err := doRound(); err != nil {
				return err
			}
			h.res.Hit("round:right-after-prune")
			if err := refusedPrunes(w.prunedBelow, 0, w.height()+1, w.height()+3); err != nil {
				return err
			}
			continue
		}
		switch {
		case sp.prune && sp.pruneAt == nil && ht >= 2 && w.prunedBelow < ht-1 && (r.Chance(1, 4) || (w.prunedBelow == 0 && ht >= 3)):
			if err := pruneNow(w.prunedBelow + 1 + r.Intn(ht-1-w.prunedBelow)); err != nil {
				return err
			}
		case pendingReverts > 0 && ht > 0:
			pendingReverts--
			if err := w.revert(); err != nil {
				return err
			}
			lines = append(lines, "revert")
			h.res.Hit("op:revert")
			if pendingReverts == 0 {
				// right after the reorg: everything asked before it must now be answered from
				// the shorter chain (nothing on the read path may remember the dropped blocks)
				if err := doRound(); err != nil {
					return err
				}
				h.res.Hit("round:right-after-reorg")
			}
		case ((ht >= 3 && r.Chance(1, 8)) || (sp.short && ht >= 2 && r.Chance(1, 5))) && ht-2 >= w.prunedBelow && !(sp.pruneAt != nil && r.Bool()):
			// a reorg: drop 1..3 blocks (the next operations re-grow a different fork). Ask about
			// the blocks that are about to go first, by every kind of id (warms whatever caches)
			if err := doQueries(w.warm(r)); err != nil {
				return err
			}
			h.res.Hit("round:right-before-reorg")
			pendingReverts = r.Intn(3)
			if w.prunedBelow > 0 && pendingReverts > ht-2-w.prunedBelow {
				pendingReverts = ht - 2 - w.prunedBelow
			}
			if err := w.revert(); err != nil {
				return err
			}
			lines = append(lines, "revert")
			h.res.Hit("op:revert")
			if pendingReverts == 0 {
				if err := doRound(); err != nil {
					return err
				}
				h.res.Hit("round:right-after-reorg")
			}
		case ht >= 1 && r.Chance(1, 5) && !(sp.pruneAt != nil && r.Bool()):
			// L1 head positions: genesis, inside, the head, just ahead, far ahead
			var n uint64
			if r.Chance(1, 10) && w.prunedBelow == 0 {
				if err := w.setL1Zero(); err != nil {
					return err
				}
				lines = append(lines, "l1 zero")
				h.res.Hit("op:set-l1")
				h.res.Hit("l1:zero-struct")
				break
			}
			switch r.Intn(6) {
			case 0:
				n = 0
			case 1:
				n = uint64(ht - 1)
			case 2:
				n = uint64(ht)
			case 3:
				n = uint64(ht + 1 + r.Intn(5))
			default:
				n = uint64(r.Intn(ht))
			}
			if n < uint64(w.prunedBelow) {
				// the pruner keeps at or below the L1 head and L1 heads do not move backwards past it
				n = uint64(w.prunedBelow + r.Intn(ht-w.prunedBelow))
			}
			if err := w.setL1(n); err != nil {
				return err
			}
			lines = append(lines, fmt.Sprintf("l1 %x", n))
			h.res.Hit("op:set-l1")
			switch {
			case n >= uint64(ht):
				h.res.Hit("l1:ahead-of-chain")
			case n == uint64(ht-1):
				h.res.Hit("l1:at-head")
			default:
				h.res.Hit("l1:inside")
			}
		default:
			if err := w.next(); err != nil {
				return err
			}
			lines = append(lines, storeLine(w.g.Head()))
			h.res.Hit("op:store")
			h.res.Hit("block-version:" + w.g.Head().Block.ProtocolVersion)
			if len(w.g.Head().SU.StateDiff.ReplacedClasses) > 0 {
				for a := range w.g.Head().SU.StateDiff.ReplacedClasses {
					if _, ok := w.g.Head().SU.StateDiff.DeployedContracts[a]; ok {
						h.res.Hit("diff:deploy-and-replace-same-contract")
					}
				}
			}
		}
		w.traceSlot(op)
		if err := h.snapshot(s, w, &lines); err != nil {
			return err
		}
		if len(w.ops) > 0 && strings.HasPrefix(w.ops[len(w.ops)-1], "prune-upto ") && w.pruneCalls <= 2 {
			// right after the first two effective prunes of a history: the calls that must change nothing
			if err := refusedPrunes(w.prunedBelow, w.prunedBelow-1, w.height()+1); err != nil {
				return err
			}
		}
		if op == sp.exhaustAt {
			// the whole small space: every id x every method x every index / hash / address / slot / class
			if err := doQueries(w.exhaustive()); err != nil {
				return err
			}
			h.res.Hit("round:exhaustive")
		} else if (op+1)%sp.every == 0 || op == sp.ops-1 || ((w.height() == 10 || w.height() == 11) && len(w.ops) > 0 && strings.HasPrefix(w.ops[len(w.ops)-1], "store")) {
			// (heights 10 and 11: the boundary of the block-hash lag in v0.8's synthetic pending block)
			if err := doRound(); err != nil {
				return err
			}
		}
	}
	if sp.exhaustEnd {
		if err := doQueries(w.exhaustive()); err != nil {
			return err
		}
		h.res.Hit("round:exhaustive")
	}
	if sp.fault && w.height() > w.prunedBelow+1 {
		// a damaged database: the commitments record of a retained block (not the head) is gone
		n := w.prunedBelow + r.Intn(w.height()-1-w.prunedBelow)
		if err := w.dropCommitments(n); err != nil {
			return err
		}
		lines = append(lines, fmt.Sprintf("dropcommit %x", n))
		h.res.Hit("fault:commitments-record-deleted")
		if err := h.snapshot(s, w, &lines); err != nil {
			return err
		}
		if err := doQueries(w.aboutBlock(n)); err != nil {
			return err
		}
	}
	if w.height() > 0 && (sp.short || s == 0) {
		// flush pending chain operations to the model first (shapes asks the driver directly)
		if err := doQueries(nil); err != nil {
			return err
		}
		if err := h.shapes(s, w); err != nil {
			return err
		}
	}
	h.res.HitN("tx:reverted-then-included-again", w.reincluded)
	for _, n := range w.nodes {
		h.res.HitN("feeder:status-fallback-calls", n.feeder.calls)
	}
	if s%3 == 0 && w.height() > 0 && !sp.short && w.prunedBelow == 0 {
		// take the chain down to nothing: every hash is now a reverted one
		for w.height() > 0 {
			if err := w.revert(); err != nil {
				return err
			}
			lines = append(lines, "revert")
			h.res.Hit("op:revert")
			if err := h.snapshot(s, w, &lines); err != nil {
				return err
			}
			if w.height() == 1 || w.height() == 0 {
				if err := doRound(); err != nil {
					return err
				}
			}
		}
		h.res.Hit("chain:reverted-to-empty")
	}
	return nil
}

func isStateMethod(m string) bool {
	switch m {
	case "storage", "storageLU", "nonce", "classHashAt", "class", "classAt":
		return true
	}
	return false
}

// queryRound generates the queries of a checkpoint, asks the model, asks every node on every
// version, and compares.
func (h *harness) queryRound(s, round int, w *world, r *lib.RNG, sp scenarioParams, pending *[]string, qs []*query) error {
	// a hash that was once put into the submitted-transactions caches stays there
	if w.submitted == nil {
		w.submitted = map[felt.Felt]bool{}
	}
	for _, q := range qs {
		if q.method == "txStatus" && q.nullPos == "" {
			if q.submitted {
				w.submitted[q.txHash] = true
			} else if w.submitted[q.txHash] {
				q.submitted = true
			}
		}
	}
	// model answers: pending chain operations first, then one line per (query, version)
	lines := append([]string{}, *pending...)
	nOps := len(lines)
	*pending = (*pending)[:0]
	type slot struct{ q, v, n int }
	var slots []slot
	for qi, q := range qs {
		for vi, ver := range versions {
			for ni := range w.nodes {
				lines = append(lines, q.leanLine(ver, backendName[ni]))
				slots = append(slots, slot{qi, vi, ni})
			}
		}
	}
	var answers []string
	var err error
	if !lib.WithDeadline(20*time.Minute, func() { answers, err = h.drv.AskAll(lines) }) {
		h.res.Fatalf("the Lean driver did not answer %d lines within 20 minutes (scenario %d round %d)", len(lines), s, round)
		lib.Finish(h.f, h.res)
	}
	if err != nil {
		return fmt.Errorf("driver: %w", err)
	}
	for i, a := range answers {
		if a == "bad-op" {
			h.res.Fatalf("the Lean driver does not understand %q", lines[i])
		}
	}
	for i := 0; i < nOps; i++ {
		if lines[i] == "dump" {
			// store-level correspondence: the picture of each node's database taken right after the
			// operation against the model's buckets at the same point of the history
			if len(w.dumps) == 0 {
				h.res.Fatalf("a model dump without a database picture (scenario %d round %d)", s, round)
				continue
			}
			pd := w.dumps[0]
			w.dumps = w.dumps[1:]
			for ni, real := range pd.real {
				h.res.Compared(1)
				if real != answers[i] {
					section, what := dumpDiff(answers[i], real)
					h.res.Mismatch(lib.Mismatch{Sig: "model-store-level:" + section + ":" + what + ":after-" + pd.op,
						Input: map[string]any{"backend": backendName[ni], "history": pd.history}, Model: answers[i], Impl: real})
				}
			}
			continue
		}
		if answers[i] != "ok" {
			h.res.Mismatch(lib.Mismatch{Sig: "model-rejects-chain-operation", Input: lines[i], Model: answers[i], Impl: "ok"})
		}
	}
	if len(w.dumps) != 0 {
		h.res.Fatalf("%d database pictures were never compared with the model (scenario %d round %d)", len(w.dumps), s, round)
		w.dumps = nil
	}
	model := map[slot]string{}
	for i, sl := range slots {
		model[sl] = answers[nOps+i]
	}

	for qi, q := range qs {
		if h.replay != nil && !(h.replay.Round == round && h.replay.Query == qi) {
			continue
		}
		got := make([][]string, len(versions))  // [version][backend] projection line
		violated := make([]bool, len(versions)) // an answer of this version was already reported
		exps := make([]expectation, len(versions))
		for vi, ver := range versions {
			exp := w.expect(q, ver)
			exps[vi] = exp
			got[vi] = make([]string, len(w.nodes))
			for ni, node := range w.nodes {
				node.setFeeder(q)
				resp := node.call(ver, rpcName[q.method], q.params(ver))
				line, obj := h.lineOf(w, q, resp)
				got[vi][ni] = line
				key := fmt.Sprintf("%s/%s/%s/%d/%d", ver, backendName[ni], q.kindKey(), s, round)
				nontrivial := w.height() >= 2 || (w.height() > 0 && exp.resolved < 0)
				h.res.Case(key, nontrivial)
				h.res.Hit("method:" + q.method)
				if q.id != nil {
					h.res.Hit("id:" + q.id.kind)
				}
				if q.sub != "" {
					h.res.Hit("arg:" + q.sub)
				}
				if q.id != nil && q.id.sem(ver) == "pending" && !isStateMethod(q.method) {
					h.res.Hit("answer:v8-pending-synthetic-block")
				} else {
					h.res.Hit("answer:" + answerClass(line))
				}
				if q.feeder != nil {
					h.res.Hit("feeder:" + q.feeder.lean())
				}
				if q.submitted {
					h.res.Hit("feeder:hash-in-submitted-cache")
				}
				if q.flags != nil {
					h.res.Hit("flags:" + q.flags.name + ":" + flagsVerdict(ver, q.method, q.flags))
				}
				if q.named {
					h.res.Hit("params:by-name")
				} else {
					h.res.Hit("params:positional")
				}
				h.programs[ver+"/"+q.kindKey()] = struct{}{}
				ctx := &caseCtx{s: s, round: round, qi: qi, w: w, q: q, ver: ver, backend: backendName[ni]}

				// (2) correspondence with the Lean model (exact equality of the projection)
				m, haveModel := model[slot{qi, vi, ni}]
				if haveModel {
					h.res.Compared(1)
					if m != line {
						h.res.Mismatch(lib.Mismatch{Sig: "model:" + ver + ":" + q.kindKey(), Input: ctx.request(), Model: m, Impl: line})
					}
				} else {
					h.res.Fatalf("no model answer for %v", ctx.request())
				}
				// (1) the property oracle
				h.checked++
				if !exp.accepts(line) {
					if q.method == "storage" {
						w.debugStorage(&q.addr, &q.key)
					}
					h.violate(ctx, exp, line, m, resp)
					violated[vi] = true
					continue
				}
				// (3) deep comparison with the bundle
				fromChain := false // the answer is (one of) the chain's own, not that of a node that does not hold the item
				for _, l := range exp.lines[:exp.chain] {
					fromChain = fromChain || l == line
				}
				if obj != nil && exp.resolved >= 0 && fromChain && !(q.id != nil && q.id.sem(ver) == "pending" && !isStateMethod(q.method)) {
					h.res.Hit("deep-compared:" + q.method)
					if p := h.deep(w, q, ver, obj, exp.resolved); len(p) > 0 {
						sort.Strings(p)
						h.res.Violate(lib.Violation{
							Sig:    fmt.Sprintf("deep:%s:%s:%s", ver, q.method, fieldOf(p[0])),
							What:   fmt.Sprintf("%s %s on the %s backend answers from the right block but with wrong content: %s", ver, rpcName[q.method], backendName[ni], strings.Join(p, "; ")),
							Replay: ctx.replay(exp.String(), line),
						})
					}
				}
			}
		}
		// backends and versions must agree wherever the specification is the same
		for vi := range versions {
			if got[vi][0] != got[vi][1] && !violated[vi] {
				ctx := &caseCtx{s: s, round: round, qi: qi, w: w, q: q, ver: versions[vi], backend: "both"}
				h.res.Violate(lib.Violation{Sig: "backends-disagree:" + versions[vi] + ":" + q.kindKey(),
					What:   fmt.Sprintf("%s %s: legacy backend answers %q, new backend answers %q", versions[vi], rpcName[q.method], got[vi][0], got[vi][1]),
					Replay: ctx.replay(exps[vi].String(), got[vi][0]+" / "+got[vi][1])})
			}
		}
		for vi := 1; vi < len(versions); vi++ {
			if exps[vi].String() != exps[vi-1].String() {
				continue
			}
			if got[vi][0] != got[vi-1][0] && exps[vi].accepts(got[vi][0]) && exps[vi-1].accepts(got[vi-1][0]) {
				ctx := &caseCtx{s: s, round: round, qi: qi, w: w, q: q, ver: versions[vi], backend: backendName[0]}
				h.res.Violate(lib.Violation{Sig: "versions-disagree:" + q.kindKey(),
					What:   fmt.Sprintf("%s: %s answers %q, %s answers %q", rpcName[q.method], versions[vi-1], got[vi-1][0], versions[vi], got[vi][0]),
					Replay: ctx.replay(exps[vi].String(), got[vi][0])})
			}
		}
		h.res.Sample(10, map[string]any{"request": q.describe("v10"), "expected": exps[2].String(), "v8": got[0][0], "v9": got[1][0], "v10": got[2][0]})
	}
	// the random choices of the consistency pass are always drawn (a replay must see the same
	// PRNG stream); the pass itself runs only when it is wanted
	picks := consistencyPicks(w, r, sp)
	if h.replay == nil || (h.replay.Round == round && h.replay.Query < 0) {
		h.consistency(s, round, w, picks)
	}
	return nil
}

func answerClass(line string) string {
	if strings.HasPrefix(line, "ok") {
		return "ok"
	}
	return strings.SplitN(line, " ", 2)[0]
}

func fieldOf(problem string) string {
	f := strings.SplitN(problem, ":", 2)[0]
	if i := strings.Index(f, "["); i >= 0 {
		f = f[:i]
	}
	return strings.ReplaceAll(f, " ", "-")
}

// lineOf projects a response to the model's answer line. obj is the decoded result (nil on
// errors).
func (h *harness) lineOf(w *world, q *query, resp rpcResp) (string, any) {
	if strings.HasPrefix(resp.Broken, "panic") {
		return "crash", nil // the handler panicked and the panic left jsonrpc.Server.HandleReader
	}
	if resp.Broken != "" {
		return "broken:" + resp.Broken, nil
	}
	if resp.Code != 0 {
		return errLine(resp.Code), nil
	}
	obj, err := decodeJSON(resp.Result)
	if err != nil {
		return "malformed:" + err.Error(), nil
	}
	if q.method == "class" || q.method == "classAt" {
		fp, err := classFingerprintJSON(obj)
		if err != nil {
			return "malformed:" + err.Error(), nil
		}
		if c, ok := w.classPrint[fp]; ok {
			return "ok " + hxv(c), obj
		}
		return "ok unknown-class", obj
	}
	line, err := project(q.method, obj)
	if err != nil {
		return "malformed:" + err.Error(), nil
	}
	return line, obj
}

// deep runs the field-level comparison appropriate for the method.
func (h *harness) deep(w *world, q *query, ver string, obj any, n int) problems {
	o, ok := obj.(jobj)
	if !ok {
		return nil
	}
	switch q.method {
	case "blockTxHashes", "blockTxs":
		p := w.deepHeader(ver, o, n)
		if q.method == "blockTxs" {
			txs, _ := o["transactions"].([]any)
			for i, t := range txs {
				if to, ok := t.(jobj); ok && i < len(w.g.Bundles[n].Block.Transactions) {
					p = append(p, deepTx(to, w.g.Bundles[n].Block.Transactions[i], true)...)
					if ver == "v10" {
						p = append(p, deepProofFacts(to, w.g.Bundles[n].Block.Transactions[i], q.proofFacts)...)
					}
				}
			}
		}
		return p
	case "blockReceipts":
		p := w.deepHeader(ver, o, n)
		txs, _ := o["transactions"].([]any)
		for i, t := range txs {
			pair, ok := t.(jobj)
			if !ok || i >= len(w.g.Bundles[n].Block.Transactions) {
				continue
			}
			if to, ok := pair["transaction"].(jobj); ok {
				p = append(p, deepTx(to, w.g.Bundles[n].Block.Transactions[i], false)...)
				if ver == "v10" {
					p = append(p, deepProofFacts(to, w.g.Bundles[n].Block.Transactions[i], q.proofFacts)...)
				}
			}
			if ro, ok := pair["receipt"].(jobj); ok {
				p = append(p, w.deepReceipt(ro, n, i, false)...)
			}
		}
		return p
	case "txByHash":
		if bn, i, ok := w.findTx(&q.txHash); ok {
			p := deepTx(o, w.g.Bundles[bn].Block.Transactions[i], true)
			if ver == "v10" {
				p = append(p, deepProofFacts(o, w.g.Bundles[bn].Block.Transactions[i], q.proofFacts)...)
			}
			return p
		}
	case "txByIdx":
		if q.index >= 0 && q.index < len(w.g.Bundles[n].Block.Transactions) {
			p := deepTx(o, w.g.Bundles[n].Block.Transactions[q.index], true)
			if ver == "v10" {
				p = append(p, deepProofFacts(o, w.g.Bundles[n].Block.Transactions[q.index], q.proofFacts)...)
			}
			return p
		}
	case "receipt":
		if bn, i, ok := w.findTx(&q.txHash); ok {
			return w.deepReceipt(o, bn, i, true)
		}
	case "txStatus":
		if bn, i, ok := w.findTx(&q.txHash); ok {
			var p problems
			rc := w.g.Bundles[bn].Block.Receipts[i]
			got, _ := o["failure_reason"].(string)
			if rc.Reverted && got != rc.RevertReason {
				p.addf("failure_reason: want %q got %q", rc.RevertReason, got)
			}
			if !rc.Reverted && got != "" {
				p.addf("failure_reason: present on a succeeded transaction")
			}
			return p
		}
	case "stateUpdate":
		return w.deepStateUpdate(ver, o, n)
	}
	return nil
}

// caseCtx is what a replay needs to name a case.
type caseCtx struct {
	s, round, qi int
	w            *world
	q            *query
	ver, backend string
}

func (c *caseCtx) request() map[string]any {
	return map[string]any{"version": c.ver, "backend": c.backend, "method": rpcName[c.q.method], "params": c.q.params(c.ver)}
}

func (c *caseCtx) replay(expected, got string) map[string]any {
	var l1 any
	if c.w.l1 != nil {
		l1 = *c.w.l1
	}
	return map[string]any{
		"scenario": c.s, "round": c.round, "query": c.qi,
		"history": append([]string{}, c.w.ops...), "chain_height": c.w.height(), "l1_head": l1,
		"request": c.request(), "expected": expected, "got": got,
	}
}

// violate classifies a disagreement between the real answer and the property oracle. The three
// ways juno's handlers are known to leave the statement have their own signatures (each matched
// only by its exact shape); anything else gets a signature built from version, method, id kind,
// argument kind, the class of the expected answer and the class of the answer given.
func (h *harness) violate(c *caseCtx, exp expectation, got, model string, resp rpcResp) string {
	q := c.q
	sig := fmt.Sprintf("%s:%s:want-%s:got-%s", c.ver, q.kindKey(), answerClass(exp.lines[0]), answerClass(got))
	what := fmt.Sprintf("%s %s(%s) on the %s backend: the chain says %q, the node answers %q", c.ver, rpcName[q.method], paramsText(q, c.ver), c.backend, exp.String(), got)
	if resp.Code != 0 && resp.Msg != "" {
		what += " (" + resp.Msg + ")"
	}
	if resp.Broken != "" {
		what += " (" + firstLine(resp.Broken) + ")"
	}
	// A known cause is recognised only by its exact shape AND only when the answer is the one the
	// Lean model — which transcribes each known cause — predicts for this very request; any other
	// divergence on the same kind of input keeps the generic signature (and is a model mismatch).
	asModel := got == model
	if q.flags != nil && q.method == "storage" && flagsVerdict(c.ver, q.method, q.flags) == "set" {
		// getStorageAt with the flag on IS the last-update form of the request
		lu := *q
		lu.method, lu.flags = "storageLU", nil
		q = &lu
	}
	hasNull := q.nullPos != "" || (q.id != nil && q.id.tag == "null")
	want := exp.lines[0]
	switch {
	case !asModel:
	case hasNull && want == errLine(codeInvalidParams) && got == "crash":
		sig = sigNullCrash
	case hasNull && want == errLine(codeInvalidParams):
		sig = sigNullReaches
	case q.id != nil && q.id.kind == "obj-null-number" && want == errLine(codeInvalidParams) && c.w.asBlockZero(q, c.ver, got):
		sig = sigNullNumber
	case q.method == "txByIdx" && q.id.kind == "num-missing" && q.index >= 0 && got == errLine(codeInvalidTxIndex) && want == errLine(codeBlockNotFound):
		sig = sigMissingNumber
	case q.method == "txByIdx" && q.id != nil && strings.Contains(q.id.kind, "pruned") && q.index >= 0 && got == errLine(codeInvalidTxIndex) &&
		exp.accepts(errLine(codeBlockNotFound)):
		// the same line of the handlers, reached by a block the node has pruned (by number, or by the
		// hash of the block right below the floor, whose hash-index entry the pruner keeps)
		sig = sigPrunedIndex
	case isStateMethod(q.method) && q.id.kind == "hash-zero" && want == errLine(codeBlockNotFound) &&
		c.backend == "legacy" && got == emptyStateAnswer(q.method, c.ver):
		sig = sigHashZeroEmpty
	case isStateMethod(q.method) && q.id.kind == "hash-zero" && want == errLine(codeBlockNotFound) &&
		c.backend == "new" && c.w.headStateAnswer(q, c.ver, got):
		sig = sigHashZeroHead
	case q.method == "storageLU" && c.backend == "legacy" && c.w.zeroOverZeroDispute(q, want, got):
		sig = sigLastUpdateNoop
	case q.method == "storageLU" && c.backend == "legacy" && c.w.prunedUpdateForgotten(want, got):
		sig = sigLastUpdatePruned
	case c.w.l1Sentinel && strings.Contains(want, "L1") && got == strings.ReplaceAll(want, "L1", "L2"):
		sig = sigL1Sentinel
	}
	h.res.Violate(lib.Violation{Sig: sig, What: what, Replay: c.replay(exp.String(), got)})
	return sig
}

func firstLine(s string) string {
	if i := strings.IndexByte(s, '\n'); i >= 0 {
		s = s[:i]
	}
	if len(s) > 200 {
		s = s[:200]
	}
	return s
}

// Signatures of the ways juno is known to leave the statement (known/C08.json).
const (
	sigMissingNumber    = "getTransactionByBlockIdAndIndex-missing-block-number-reports-invalid-index"
	sigHashZeroEmpty    = "state-read-at-block-hash-zero-answers-as-for-an-empty-state"
	sigHashZeroHead     = "state-read-at-block-hash-zero-returns-head-state-data-on-new-backend"
	sigLastUpdateNoop   = "getStorageAt-last-update-block-legacy-backend-ignores-zero-written-to-unset-slot"
	sigNullCrash        = "read-method-panics-on-null-argument"
	sigNullReaches      = "null-argument-reaches-handler-instead-of-invalid-params"
	sigNullNumber       = "block-number-null-served-as-block-0"
	sigL1Sentinel       = "l1-head-recorded-as-zero-struct-shows-block-0-as-accepted-on-l2"
	sigPrunedIndex      = "getTransactionByBlockIdAndIndex-pruned-block-reports-invalid-index"
	sigLastUpdatePruned = "getStorageAt-last-update-block-legacy-pruned-node-forgets-updates-below-the-floor"
)

// prunedUpdateForgotten: want = "ok v @j" with j below the pruning floor, got = "ok v @0" — the
// history-log entry of block j went with the block.
func (w *world) prunedUpdateForgotten(want, got string) bool {
	fw, fg := strings.Fields(want), strings.Fields(got)
	if w.prunedBelow == 0 || len(fw) != 3 || len(fg) != 3 || fw[1] != fg[1] || fg[2] != "@0" || !strings.HasPrefix(fw[2], "@") {
		return false
	}
	var j int
	if _, err := fmt.Sscanf(fw[2], "@%x", &j); err != nil {
		return false
	}
	return j > 0 && j < w.prunedBelow
}

// headStateAnswer: is `got` what the handler answers when block hash 0x0 hands it a reader of the
// CURRENT HEAD state (new backend)? That is the answer for `latest`, except that v10 getStorageAt
// does its "does the contract exist" probe only for `latest` and so returns the raw slot value.
func (w *world) headStateAnswer(q *query, ver, got string) bool {
	if w.height() == 0 {
		return got == emptyStateAnswer(q.method, ver)
	}
	lq := *q
	lq.id = &blockID{tag: "latest", kind: "latest"}
	e := w.expect(&lq, ver)
	if ver == "v10" && (q.method == "storage" || q.method == "storageLU") && e.accepts(errLine(codeContractNotFound)) {
		return got == "ok 0" || strings.HasPrefix(got, "ok 0 @")
	}
	return e.accepts(got)
}

// asBlockZero: is `got` the answer the same request gets with {"block_number": 0} (as juno
// answers it)?
func (w *world) asBlockZero(q *query, ver, got string) bool {
	zq := *q
	zq.id = &blockID{tag: "number", num: 0, kind: "num-existing"}
	if w.height() == 0 {
		zq.id.kind = "num-missing"
		if zq.method == "txByIdx" && q.index >= 0 {
			return got == errLine(codeInvalidTxIndex) // the other known deviation (missing block number)
		}
	}
	return w.expect(&zq, ver).accepts(got)
}

// zeroOverZeroDispute: want = "ok v @j" (the newest block that wrote the slot), got = "ok v @i"
// with i < j, and every write of the slot in blocks i+1..j wrote zero over zero.
func (w *world) zeroOverZeroDispute(q *query, want, got string) bool {
	fw, fg := strings.Fields(want), strings.Fields(got)
	if len(fw) != 3 || len(fg) != 3 || fw[1] != fg[1] || !strings.HasPrefix(fw[2], "@") || !strings.HasPrefix(fg[2], "@") {
		return false
	}
	var j, i int
	if _, err := fmt.Sscanf(fw[2], "@%x", &j); err != nil {
		return false
	}
	if _, err := fmt.Sscanf(fg[2], "@%x", &i); err != nil {
		return false
	}
	if i >= j || j >= w.height() {
		return false
	}
	slot := func(n int) felt.Felt {
		var v felt.Felt
		if n >= 0 {
			if c, ok := w.g.States[n].Contracts[q.addr]; ok {
				v = c.Storage[q.key]
			}
		}
		return v
	}
	for n := i + 1; n <= j; n++ {
		if kv, ok := w.g.Bundles[n].SU.StateDiff.StorageDiffs[q.addr]; ok {
			if v, ok := kv[q.key]; ok {
				prev := slot(n - 1)
				if !v.IsZero() || !prev.IsZero() {
					return false
				}
			}
		}
	}
	return true
}

// emptyStateAnswer is what a handler answers when it is given the empty (pre-genesis) state.
func emptyStateAnswer(method, ver string) string {
	switch method {
	case "class":
		return errLine(codeClassNotFound)
	case "storage":
		if ver == "v10" {
			return "ok 0"
		}
	case "storageLU":
		return "ok 0 @0"
	}
	return errLine(codeContractNotFound)
}

func paramsText(q *query, ver string) string {
	b, _ := json.Marshal(q.params(ver))
	return string(b)
}

// consistency: the same transaction / receipt must render identically through every method that
// returns it (block with txs, block with receipts, by hash, by block id and index), on every
// version; and the listing methods must agree on count and order.
type consistencyPick struct {
	n  int
	id *blockID
}

func consistencyPicks(w *world, r *lib.RNG, sp scenarioParams) []consistencyPick {
	var out []consistencyPick
	if w.height() == 0 {
		return out
	}
	for k := 0; k < sp.consistBlk; k++ {
		n := w.prunedBelow + r.Intn(w.height()-w.prunedBelow) // a block the node holds
		if k == 0 {
			n = w.height() - 1
		}
		id := &blockID{tag: "number", num: uint64(n), kind: "num-existing"}
		if r.Bool() {
			id = &blockID{tag: "hash", hash: *w.g.Bundles[n].Block.Hash, kind: "hash-existing"}
		}
		out = append(out, consistencyPick{n, id})
	}
	return out
}

func (h *harness) consistency(s, round int, w *world, picks []consistencyPick) {
	for _, pk := range picks {
		n, id := pk.n, pk.id
		if w.noCommit[n] {
			continue // the fault family's block: the v0.10 block methods fail by design of the fault
		}
		b := w.g.Bundles[n]
		for _, ver := range versions {
			for ni, node := range w.nodes {
				report := func(what string) {
					q := &query{method: "blockTxs", id: id}
					ctx := &caseCtx{s: s, round: round, qi: -1, w: w, q: q, ver: ver, backend: backendName[ni]}
					sig := "inconsistent:" + ver + ":" + fieldOf(what)
					if w.l1Sentinel && n == 0 && strings.HasPrefix(what, "receipt-content: finality_status: want \"ACCEPTED_ON_L1\" got \"ACCEPTED_ON_L2\"") {
						sig = sigL1Sentinel
					}
					h.res.Violate(lib.Violation{Sig: sig,
						What:   fmt.Sprintf("%s on the %s backend, block %d: %s", ver, backendName[ni], n, what),
						Replay: ctx.replay("the same rendering through every method", what)})
				}
				get := func(method string, params any) jobj {
					resp := node.call(ver, method, params)
					if resp.Broken != "" || resp.Code != 0 {
						report(fmt.Sprintf("%s: unexpected failure code=%d %s%s", method, resp.Code, resp.Msg, resp.Broken))
						return nil
					}
					v, err := decodeJSON(resp.Result)
					if err != nil {
						report(method + ": malformed result")
						return nil
					}
					o, _ := v.(jobj)
					return o
				}
				bt := get("starknet_getBlockWithTxs", []any{id.json()})
				br := get("starknet_getBlockWithReceipts", []any{id.json()})
				if bt == nil || br == nil {
					continue
				}
				txs, _ := bt["transactions"].([]any)
				rcs, _ := br["transactions"].([]any)
				if len(txs) != len(b.Block.Transactions) || len(rcs) != len(b.Block.Transactions) {
					report(fmt.Sprintf("transaction-count: block has %d, getBlockWithTxs lists %d, getBlockWithReceipts lists %d", len(b.Block.Transactions), len(txs), len(rcs)))
					continue
				}
				for i, tx := range b.Block.Transactions {
					h.checked++
					h.res.Hit("consistency:tx")
					to, _ := txs[i].(jobj)
					pair, _ := rcs[i].(jobj)
					if to == nil || pair == nil {
						report("transaction-shape: not an object")
						continue
					}
					inRc, _ := pair["transaction"].(jobj)
					rcIn, _ := pair["receipt"].(jobj)
					byHash := get("starknet_getTransactionByHash", []any{tx.Hash().String()})
					byIdx := get("starknet_getTransactionByBlockIdAndIndex", []any{id.json(), i})
					rcByHash := get("starknet_getTransactionReceipt", map[string]any{"transaction_hash": tx.Hash().String()})
					if byHash == nil || byIdx == nil || rcByHash == nil || inRc == nil || rcIn == nil {
						continue
					}
					ref := normTx(to)
					for name, o := range map[string]jobj{"getTransactionByHash": byHash, "getTransactionByBlockIdAndIndex": byIdx, "getBlockWithReceipts": inRc} {
						if normTx(o) != ref {
							report(fmt.Sprintf("transaction-rendering: index %d differs between getBlockWithTxs and %s", i, name))
						}
					}
					for name, o := range map[string]jobj{"getTransactionByHash": byHash, "getTransactionByBlockIdAndIndex": byIdx, "getBlockWithTxs": to} {
						if got, _ := o["transaction_hash"].(string); !sameFelt(got, tx.Hash()) {
							report(fmt.Sprintf("transaction-hash: index %d: %s gives %s, block holds %s", i, name, got, tx.Hash()))
						}
					}
					// receipt by hash = receipt in block + block info
					c := jobj{}
					for k, v := range rcByHash {
						if k != "block_hash" && k != "block_number" {
							c[k] = v
						}
					}
					a, _ := json.Marshal(c)
					bb, _ := json.Marshal(rcIn)
					if string(a) != string(bb) {
						report(fmt.Sprintf("receipt-rendering: index %d differs between getTransactionReceipt and getBlockWithReceipts", i))
					}
					if p := w.deepReceipt(rcByHash, n, i, true); len(p) > 0 {
						report("receipt-content: " + strings.Join(p, "; "))
					}
					if p := deepTx(byHash, tx, true); len(p) > 0 {
						report("transaction-content: " + strings.Join(p, "; "))
					}
				}
			}
		}
	}
}

func sameFelt(s string, f *felt.Felt) bool {
	g, err := new(felt.Felt).SetString(s)
	return err == nil && g.Equal(f)
}

// probeVariant asks the real code the two questions the model has a switch for (Model.lean `Cfg`)
// and tells the driver which variant it is looking at: does a JSON null for a pointer parameter
// reach (and crash) the handler, and is {"block_number": null} decoded as block 0?
func (h *harness) probeVariant() error {
	w, err := newWorld(lib.NewRNG(7), false, lib.DefaultGenOptions())
	if err != nil {
		return err
	}
	if err := w.nextWith(emptyDiff()); err != nil {
		return err
	}
	nullCrashes, nullZero := 0, 0
	if r := w.nodes[0].call("v10", "starknet_getNonce", []any{nil, "0x1"}); strings.HasPrefix(r.Broken, "panic") {
		nullCrashes = 1
	} else if r.Code != codeInvalidParams {
		return fmt.Errorf("getNonce [null, 0x1] answers neither with a panic nor with invalid params: %+v", r)
	}
	if r := w.nodes[0].call("v10", "starknet_getBlockTransactionCount", []any{map[string]any{"block_number": nil}}); r.Code == 0 && r.Broken == "" {
		nullZero = 1
	} else if r.Code != codeInvalidParams {
		return fmt.Errorf("{block_number: null} is neither served nor refused as invalid params: %+v", r)
	}
	h.res.Hit(fmt.Sprintf("variant:null-crashes=%d", nullCrashes))
	h.res.Hit(fmt.Sprintf("variant:null-number-is-zero=%d", nullZero))
	ans, err := h.drv.Ask(fmt.Sprintf("cfg %d %d", nullCrashes, nullZero))
	if err != nil || ans != "ok" {
		return fmt.Errorf("driver refuses cfg: %q %v", ans, err)
	}
	return nil
}
