//go:build verif

package main

import (
	"fmt"
	"sort"
	"strings"

	"github.com/NethermindEth/juno/blockchain"
	"github.com/NethermindEth/juno/core"
	"github.com/NethermindEth/juno/core/felt"
	"github.com/NethermindEth/juno/core/pending"
	"github.com/NethermindEth/juno/pruner"
	"github.com/NethermindEth/juno/sync/preconfirmed"
	"verif/harness/lib"
)

// world is one scenario: the generator (source node + abstract states = the oracle's view of the
// chain), the two nodes under test (legacy and new state backend, fed the same blocks the way
// sync does), the recorded L1 head, pools of things that used to exist (reverted block hashes,
// reverted transaction hashes), and the history of operations (the replay).
type world struct {
	g     *lib.ChainGen
	nodes []*rpcNode // [0] legacy state backend, [1] new state backend
	l1    *uint64    // recorded L1 head number (nil: never recorded)

	commitments map[felt.Felt]*core.BlockCommitments // by block hash, captured on the source node
	classDefs   map[felt.Felt]core.ClassDefinition   // every class ever offered, by class hash
	classPrint  map[string]felt.Felt                 // fingerprint of the RPC rendering -> class hash

	revertedBlocks []felt.Felt // hashes of blocks no longer on the chain
	revertedTxs    []felt.Felt // hashes of transactions no longer on the chain
	revertedClass  []felt.Felt // classes declared only in reverted blocks (may be re-declared later)
	l1Sentinel     bool        // the recorded L1 head is the zero struct core.L1Head{} (number 0, nil hash, nil root)

	ops []string // history, for the replay file

	startVersion int // index of the protocol version of the first block

	preConfirmed     bool                       // pre_confirmed data is present on the nodes (see enablePreConfirmed)
	stashTxs         []core.Transaction         // transactions of the most recently reverted block …
	stashRcs         []*core.TransactionReceipt // … and their receipts, for re-inclusion in the new fork
	reincluded       int                        // reverted transactions included again by a later block
	deployAndReplace int                        // number of (block, contract) pairs deployed and replaced by one diff

	submitSeq uint64             // counter behind freshSubmitHash
	submitted map[felt.Felt]bool // hashes put into the nodes' submitted-transactions caches

	dumps []pendingDump // database pictures taken after chain operations, waiting for the model's `dump` answers

	// the pruned node (pruned.go): every node shares a pruner.RetentionFloor with its state backend the
	// way node.go wires it; prunedBelow is how far pruner.PruneUpto ran (0: never)
	floors       []*pruner.RetentionFloor
	floorSeeded  bool         // the floors were seeded (and are re-seeded after every prune)
	prunedBelow  int          // blocks below this number are pruned
	pruneCalls   int          // number of effective PruneUpto calls so far (the batch size alternates)
	pruneRotated bool         // the last prune rotated its batch after every block
	maxHeight    int          // the greatest height the chain ever had (how far the record probes look)
	noCommit     map[int]bool // fault family: commitments records deleted behind the node's back
}

func newWorld(r *lib.RNG, srcNewState bool, opt lib.GenOptions) (*world, error) {
	g := lib.NewChainGen(r, srcNewState, opt)
	w := &world{g: g, commitments: map[felt.Felt]*core.BlockCommitments{}, classDefs: map[felt.Felt]core.ClassDefinition{},
		classPrint: map[string]felt.Felt{}}
	for _, ns := range []bool{false, true} {
		fl := &pruner.RetentionFloor{}
		bc, kv := lib.NewNode(g.Net, ns, blockchain.WithRetentionFloor(fl))
		n, err := newRPCNode(bc, kv, ns)
		if err != nil {
			return nil, err
		}
		w.nodes = append(w.nodes, n)
		w.floors = append(w.floors, fl)
	}
	w.noCommit = map[int]bool{}
	return w, nil
}

func (w *world) height() int { return w.g.Height() } // number of blocks

// declaredPool returns class hashes declared on the current chain (sorted), for deployments that
// point at a real class.
func (w *world) declaredPool() []felt.Felt {
	st := w.g.HeadState()
	var out []felt.Felt
	for c := range st.Classes {
		out = append(out, c)
	}
	sort.Slice(out, func(i, j int) bool { return out[i].Cmp(&out[j]) < 0 })
	return out
}

// next generates, finalises and stores the next block on both nodes. The state diff is the
// shared generator's, except that about half of the deployed / replaced class hashes are
// redirected to classes that are really declared (on the chain or in this very block), so that
// getClassAt has successes to report.
func (w *world) next() error {
	g := w.g
	r := g.R
	num := uint64(g.Height())
	// protocol version: starts at w.startVersion, never decreases, now and then moves up one step
	vs := g.Opt.Versions
	cur := w.startVersion % len(vs)
	if h := g.Head(); h != nil {
		for i, v := range vs {
			if v == h.Block.ProtocolVersion {
				cur = i
			}
		}
		if cur+1 < len(vs) && r.Chance(1, 7) {
			cur++
		}
	}
	version := vs[cur]
	diff, classes := g.GenDiff(g.HeadState(), num, version)
	pool := w.declaredPool()
	for c := range classes {
		pool = append(pool, c)
	}
	sort.Slice(pool, func(i, j int) bool { return pool[i].Cmp(&pool[j]) < 0 })
	if len(pool) > 0 {
		redirect := func(m map[felt.Felt]*felt.Felt) {
			keys := make([]felt.Felt, 0, len(m))
			for a := range m {
				keys = append(keys, a)
			}
			sort.Slice(keys, func(i, j int) bool { return keys[i].Cmp(&keys[j]) < 0 })
			for _, a := range keys {
				if r.Chance(1, 2) {
					c := lib.Pick(r, pool)
					m[a] = &c
				}
			}
		}
		redirect(diff.DeployedContracts)
		redirect(diff.ReplacedClasses)
	}
	// a contract deployed AND replaced by the same diff (the shared generator never does that):
	// the replacement is the class the block leaves behind
	for _, a := range sortedKeys(diff.DeployedContracts) {
		if r.Chance(1, 5) {
			c := g.ClassHash(3)
			if len(pool) > 0 && r.Bool() {
				c = lib.Pick(r, pool)
			}
			diff.ReplacedClasses[a] = &c
			w.deployAndReplace++
		}
	}
	spec := &lib.BlockSpec{Version: version, Diff: diff, Classes: classes}
	if len(w.stashTxs) > 0 && r.Chance(1, 2) {
		// the new fork re-includes transactions of the block that was just reverted (same hashes,
		// another block hash, possibly another index): their index entries were deleted by the
		// revert and are written again now
		k := 1 + r.Intn(len(w.stashTxs))
		extra := g.GenTx(version)
		spec.Txs = append([]core.Transaction{extra}, w.stashTxs[:k]...)
		spec.Rcs = append([]*core.TransactionReceipt{g.GenReceipt(extra)}, w.stashRcs[:k]...)
		if r.Bool() {
			spec.Txs, spec.Rcs = spec.Txs[1:], spec.Rcs[1:]
		}
		w.reincluded += k
	}
	w.stashTxs, w.stashRcs = nil, nil
	b, err := g.Next(spec)
	if err != nil {
		return err
	}
	if c, err := g.Src.BlockCommitmentsByNumber(num); err == nil {
		w.commitments[*b.Block.Hash] = c
	} else {
		return fmt.Errorf("source commitments of block %d: %w", num, err)
	}
	for h, def := range b.Classes {
		w.classDefs[h] = def
		w.classPrint[classFingerprintCore(def)] = h
	}
	for i, n := range w.nodes {
		if err := lib.StoreOn(n.bc, b); err != nil {
			return fmt.Errorf("node %d: store block %d: %w", i, num, err)
		}
	}
	w.ops = append(w.ops, fmt.Sprintf("store %d %s", num, b.Block.Hash.String()))
	delete(w.noCommit, int(num))
	if w.height() > w.maxHeight {
		w.maxHeight = w.height()
	}
	return nil
}

// revert pops the head everywhere and remembers what disappeared.
func (w *world) revert() error {
	head := w.g.Head()
	if head == nil {
		return fmt.Errorf("empty chain")
	}
	if err := w.g.Revert(); err != nil {
		return err
	}
	for i, n := range w.nodes {
		if err := n.bc.RevertHead(); err != nil {
			return fmt.Errorf("node %d: RevertHead at %d: %w", i, head.Block.Number, err)
		}
	}
	w.stashTxs, w.stashRcs = head.Block.Transactions, head.Block.Receipts
	w.revertedBlocks = append(w.revertedBlocks, *head.Block.Hash)
	for _, tx := range head.Block.Transactions {
		w.revertedTxs = append(w.revertedTxs, *tx.Hash())
	}
	for c := range head.Classes {
		w.revertedClass = append(w.revertedClass, c)
	}
	w.ops = append(w.ops, fmt.Sprintf("revert %d", head.Block.Number))
	return nil
}

// setL1 records an L1 head at block number n. Hash and root are those of block n of the current
// chain when it exists (as the L1 client would deliver) and arbitrary non-nil values otherwise
// (an L1 head ahead of the local chain).
func (w *world) setL1(n uint64) error {
	h := &core.L1Head{BlockNumber: n, BlockHash: lib.F(0xAA00 + n), StateRoot: lib.F(0xBB00 + n)}
	if n > 0 && w.g.R.Chance(1, 4) {
		// a head recorded without hash / root is still a recorded head when its number is not 0
		h.BlockHash, h.StateRoot = nil, nil
	}
	if int(n) < w.height() && h.BlockHash != nil {
		h.BlockHash = w.g.Bundles[n].Block.Hash
		h.StateRoot = w.g.Bundles[n].Block.GlobalStateRoot
	}
	for i, nd := range w.nodes {
		if err := nd.bc.SetL1Head(h); err != nil {
			return fmt.Errorf("node %d: SetL1Head: %w", i, err)
		}
	}
	w.l1 = &n
	w.l1Sentinel = false
	w.ops = append(w.ops, fmt.Sprintf("l1 %d", n))
	return nil
}

// setL1Zero records the zero struct core.L1Head{} (number 0, nil hash, nil root) as the L1 head:
// per the statement an L1 head at block 0 is recorded; juno's finality rule takes the zero struct
// for "no L1 head" while l1_accepted does resolve to block 0.
func (w *world) setL1Zero() error {
	for i, nd := range w.nodes {
		if err := nd.bc.SetL1Head(&core.L1Head{}); err != nil {
			return fmt.Errorf("node %d: SetL1Head: %w", i, err)
		}
	}
	var zero uint64
	w.l1 = &zero
	w.l1Sentinel = true
	w.ops = append(w.ops, "l1 zero-struct")
	return nil
}

// ---------------------------------------------------------------------------------------------
// Lean driver encoding
// ---------------------------------------------------------------------------------------------

func hx(f *felt.Felt) string {
	if f == nil {
		return "0"
	}
	return strings.TrimPrefix(f.String(), "0x")
}

func hxv(f felt.Felt) string { return hx(&f) }

const (
	kindDeploy = iota
	kindInvoke
	kindDeclare
	kindDeployAccount
	kindL1Handler
)

// txKind encodes transaction type and version the way the Lean model carries it.
func txKind(tx core.Transaction) uint64 {
	var t uint64
	switch tx.(type) {
	case *core.DeployTransaction:
		t = kindDeploy
	case *core.InvokeTransaction:
		t = kindInvoke
	case *core.DeclareTransaction:
		t = kindDeclare
	case *core.DeployAccountTransaction:
		t = kindDeployAccount
	case *core.L1HandlerTransaction:
		t = kindL1Handler
	}
	var v uint64
	if tv := tx.TxVersion(); tv != nil {
		v = tv.AsFelt().Uint64() & 0xf
	}
	return t*16 + v
}

func sortedKeys[V any](m map[felt.Felt]V) []felt.Felt {
	keys := make([]felt.Felt, 0, len(m))
	for k := range m {
		keys = append(keys, k)
	}
	sort.Slice(keys, func(i, j int) bool { return keys[i].Cmp(&keys[j]) < 0 })
	return keys
}

// declaredBy lists the class hashes a bundle makes readable.
func declaredBy(b *lib.Bundle) []felt.Felt {
	set := map[felt.Felt]struct{}{}
	for _, c := range b.SU.StateDiff.DeclaredV0Classes {
		set[*c] = struct{}{}
	}
	for c := range b.SU.StateDiff.DeclaredV1Classes {
		set[c] = struct{}{}
	}
	for c := range b.Classes {
		set[c] = struct{}{}
	}
	return sortedKeys(set)
}

// storeLine is the `store` request for the Lean driver.
func storeLine(b *lib.Bundle) string {
	var sb strings.Builder
	fmt.Fprintf(&sb, "store %x %s %s %s %s", b.Block.Number, hx(b.Block.Hash), hx(b.Block.ParentHash), hx(b.Block.GlobalStateRoot), hx(b.SU.OldRoot))
	for i, tx := range b.Block.Transactions {
		rev := 0
		if b.Block.Receipts[i].Reverted {
			rev = 1
		}
		fmt.Fprintf(&sb, " t=%s,%x,%d", hx(tx.Hash()), txKind(tx), rev)
	}
	d := b.SU.StateDiff
	for _, a := range sortedKeys(d.DeployedContracts) {
		fmt.Fprintf(&sb, " d=%s,%s", hxv(a), hx(d.DeployedContracts[a]))
	}
	for _, a := range sortedKeys(d.ReplacedClasses) {
		fmt.Fprintf(&sb, " r=%s,%s", hxv(a), hx(d.ReplacedClasses[a]))
	}
	for _, a := range sortedKeys(d.Nonces) {
		fmt.Fprintf(&sb, " n=%s,%s", hxv(a), hx(d.Nonces[a]))
	}
	for _, a := range sortedKeys(d.StorageDiffs) {
		for _, k := range sortedKeys(d.StorageDiffs[a]) {
			fmt.Fprintf(&sb, " s=%s,%s,%s", hxv(a), hxv(k), hx(d.StorageDiffs[a][k]))
		}
	}
	for _, c := range declaredBy(b) {
		fmt.Fprintf(&sb, " c=%s", hxv(c))
	}
	return sb.String()
}

// ---------------------------------------------------------------------------------------------
// Refusals of `Store` the model relies on (Model.lean: `succeeds`, `storageOk`): on a throw-away
// chain, a block whose storage diff addresses a contract that does not exist must be refused by
// the real Finalise (either source backend) and by the model; the same diff with the contract
// deployed in the same block must be accepted by both; a block that does not extend the head
// must be refused by both destination backends and by the model.
// ---------------------------------------------------------------------------------------------

func emptyDiff() *core.StateDiff {
	return &core.StateDiff{StorageDiffs: map[felt.Felt]map[felt.Felt]*felt.Felt{}, Nonces: map[felt.Felt]*felt.Felt{},
		DeployedContracts: map[felt.Felt]*felt.Felt{}, DeclaredV0Classes: []*felt.Felt{}, DeclaredV1Classes: map[felt.Felt]*felt.Felt{},
		ReplacedClasses: map[felt.Felt]*felt.Felt{}, MigratedClasses: map[felt.SierraClassHash]felt.CasmClassHash{}}
}

func (h *harness) rejections(s int, r *lib.RNG) error {
	w, err := newWorld(lib.NewRNG(uint64(1000+s)), s%2 == 1, lib.DefaultGenOptions())
	if err != nil {
		return err
	}
	lastErr := ""
	check := func(what, line string, implAccepts bool) error {
		ans, err := h.drv.Ask(line)
		if err != nil {
			return err
		}
		h.res.Compared(1)
		h.res.Hit("store-refusal:" + what)
		if (ans == "ok") != implAccepts {
			h.res.Mismatch(lib.Mismatch{Sig: "model-store:" + what, Input: line, Model: ans, Impl: fmt.Sprintf("accepted=%v %s", implAccepts, lastErr)})
		}
		return nil
	}
	if _, err := h.drv.Ask("reset"); err != nil {
		return err
	}
	a, ghost := w.g.Addr(4), w.g.Addr(5)
	d0 := emptyDiff()
	d0.DeployedContracts[a] = lib.F(0xc000)
	d0.StorageDiffs[a] = map[felt.Felt]*felt.Felt{*lib.F(1): lib.F(7)}
	if err := w.nextWith(d0); err != nil {
		return fmt.Errorf("rejections: block 0: %w", err)
	}
	if err := check("valid-block", storeLine(w.g.Head()), true); err != nil {
		return err
	}
	head := w.g.Head().Block
	// (1) storage of a contract that does not exist
	bad := emptyDiff()
	bad.StorageDiffs[ghost] = map[felt.Felt]*felt.Felt{*lib.F(1): lib.F(5)}
	errBad := w.nextWith(bad)
	line := fmt.Sprintf("store 1 dead %s 1 %s s=%s,1,5", hx(head.Hash), hx(head.GlobalStateRoot), hxv(ghost))
	if errBad == nil {
		// accepted by the real code: the chain moved on; mirror it so that the rest stays aligned
		line = storeLine(w.g.Head())
	}
	if err := check("storage-of-undeployed-contract", line, errBad == nil); err != nil {
		return err
	}
	if errBad == nil {
		return nil
	}
	// (2) the same write with the contract deployed by the same diff
	good := emptyDiff()
	good.DeployedContracts[ghost] = lib.F(0xc001)
	good.StorageDiffs[ghost] = map[felt.Felt]*felt.Felt{*lib.F(1): lib.F(5)}
	errGood := w.nextWith(good)
	if errGood != nil {
		return fmt.Errorf("rejections: deploy-and-write refused: %w", errGood)
	}
	if err := check("storage-of-contract-deployed-in-same-block", storeLine(w.g.Head()), true); err != nil {
		return err
	}
	// (3) a block that does not extend the head: the genesis block again
	stale := w.g.Bundles[0]
	accepted := false
	for _, n := range w.nodes {
		if err := lib.StoreOn(n.bc, stale); err == nil {
			accepted = true
		}
	}
	if err := check("block-not-extending-head", storeLine(stale), accepted); err != nil {
		return err
	}
	// (4) a system contract needs no deployment
	sys := emptyDiff()
	sys.StorageDiffs[*lib.F(1)] = map[felt.Felt]*felt.Felt{*lib.F(9): lib.F(3)}
	if err := w.nextWith(sys); err != nil {
		return fmt.Errorf("rejections: system-contract write refused: %w", err)
	}
	if err := check("storage-of-system-contract", storeLine(w.g.Head()), true); err != nil {
		return err
	}
	// (5) random refusals / acceptances: a zero write, a nonce, a class replacement for an address
	// that is or is not a contract (never deployed, deployed earlier, deployed by this diff)
	for k := 0; k < 6; k++ {
		d := emptyDiff()
		target := w.g.Addr(2 + r.Intn(w.g.Opt.NAddr))
		if r.Chance(1, 4) {
			target = *lib.F(uint64(1 + r.Intn(2)))
		}
		exists := w.g.HeadState().Deployed[target] || (isSystem(&target) && w.g.HeadState().Contracts[target] != nil)
		if !exists && r.Chance(1, 3) && !isSystem(&target) {
			d.DeployedContracts[target] = lib.F(0xc002)
			exists = true
		}
		kind := ""
		switch r.Intn(4) {
		case 0:
			if isSystem(&target) {
				// zeros written to a system contract (to one that holds no storage, or emptying it):
				// the two state backends then compute different roots for this or the next block
				// (C01's subject), so the chain cannot live on both nodes; not a refusal of Store
				continue
			}
			kind = "zero-write"
			d.StorageDiffs[target] = map[felt.Felt]*felt.Felt{*lib.F(uint64(r.Intn(4))): lib.F(0)}
			exists = exists || isSystem(&target)
		case 1:
			kind = "write"
			d.StorageDiffs[target] = map[felt.Felt]*felt.Felt{*lib.F(uint64(r.Intn(4))): lib.F(uint64(1 + r.Intn(9)))}
			exists = exists || isSystem(&target)
		case 2:
			kind = "nonce"
			d.Nonces[target] = lib.F(uint64(1 + r.Intn(9)))
		default:
			kind = "replace"
			d.ReplacedClasses[target] = lib.F(0xc003)
		}
		head := w.g.Head().Block
		err := w.nextWith(d)
		lastErr = ""
		if err != nil {
			lastErr = err.Error()
		}
		line := ""
		if err == nil {
			line = storeLine(w.g.Head())
		} else {
			// the refused block as the model sees it (hash / root are irrelevant to the refusal)
			var sb strings.Builder
			fmt.Fprintf(&sb, "store %x dead%x %s 1 %s", head.Number+1, k, hx(head.Hash), hx(head.GlobalStateRoot))
			for a, c := range d.DeployedContracts {
				fmt.Fprintf(&sb, " d=%s,%s", hxv(a), hx(c))
			}
			for a, c := range d.ReplacedClasses {
				fmt.Fprintf(&sb, " r=%s,%s", hxv(a), hx(c))
			}
			for a, n := range d.Nonces {
				fmt.Fprintf(&sb, " n=%s,%s", hxv(a), hx(n))
			}
			for a, kv := range d.StorageDiffs {
				for key, v := range kv {
					fmt.Fprintf(&sb, " s=%s,%s,%s", hxv(a), hxv(key), hx(v))
				}
			}
			line = sb.String()
		}
		what := kind + "-of-missing-contract"
		if exists {
			what = kind + "-of-existing-contract"
		}
		if err := check(what, line, err == nil); err != nil {
			return err
		}
	}
	return nil
}

// nextWith finalises and stores a block with exactly this diff and no transactions.
func (w *world) nextWith(d *core.StateDiff) error {
	b, err := w.g.Next(&lib.BlockSpec{Version: "0.14.0", Diff: d, NoTxs: true})
	if err != nil {
		return err
	}
	for i, n := range w.nodes {
		if err := lib.StoreOn(n.bc, b); err != nil {
			return fmt.Errorf("node %d: %w", i, err)
		}
	}
	return nil
}

// ---------------------------------------------------------------------------------------------
// pre_confirmed data present: a pre-confirmed block on top of the current head, rebuilt from the
// world whenever a handler asks. Its transactions and its state diff are its own: nothing of it
// may show in answers about the CONFIRMED chain (number / hash / latest / l1_accepted ids,
// by-hash lookups of confirmed or unknown transactions), which is all that is asked in this
// configuration (what the pre_confirmed id itself returns is C20's subject).
// ---------------------------------------------------------------------------------------------

func (w *world) enablePreConfirmed() {
	seq := uint64(0)
	for _, n := range w.nodes {
		n.syncReader.chain = func() (preconfirmed.ChainReader, error) {
			head := w.g.Head()
			if head == nil {
				return preconfirmed.ChainReader{}, pending.ErrPreConfirmedNotFound
			}
			seq++
			a := w.g.Addr(2)
			tx := &core.InvokeTransaction{TransactionHash: lib.F(0xBEEF0000 + uint64(len(w.g.Bundles))), Version: new(core.TransactionVersion).SetUint64(1),
				SenderAddress: &a, ContractAddress: &a, Nonce: lib.F(999), CallData: []felt.Felt{*lib.F(1)}, MaxFee: lib.F(1), TransactionSignature: []felt.Felt{}}
			rc := &core.TransactionReceipt{TransactionHash: tx.TransactionHash, Fee: lib.F(1), Events: []*core.Event{}, L2ToL1Message: []*core.L2ToL1Message{}}
			d := emptyDiff()
			// the pre-confirmed block rewrites every slot and nonce the chain ever wrote
			for _, p := range w.writtenPairs() {
				if d.StorageDiffs[p[0]] == nil {
					d.StorageDiffs[p[0]] = map[felt.Felt]*felt.Felt{}
				}
				d.StorageDiffs[p[0]][p[1]] = lib.F(0xFEED)
			}
			for addr := range w.g.HeadState().Deployed {
				d.Nonces[addr] = lib.F(0xFEED)
			}
			blk := &core.Block{Header: &core.Header{Number: head.Block.Number + 1, ParentHash: head.Block.Hash, SequencerAddress: head.Block.SequencerAddress,
				Timestamp: head.Block.Timestamp + 1, ProtocolVersion: head.Block.ProtocolVersion, TransactionCount: 1, EventsBloom: core.EventsBloom([]*core.TransactionReceipt{rc}),
				L1GasPriceETH: lib.F(1), L1GasPriceSTRK: lib.F(1), L1DataGasPrice: &core.GasPrice{PriceInWei: lib.F(1), PriceInFri: lib.F(1)},
				L2GasPrice: &core.GasPrice{PriceInWei: lib.F(1), PriceInFri: lib.F(1)}},
				Transactions: []core.Transaction{tx}, Receipts: []*core.TransactionReceipt{rc}}
			pc := pending.NewPreConfirmed(blk, &core.StateUpdate{OldRoot: head.Block.GlobalStateRoot, StateDiff: d}, []*core.StateDiff{d}, "verif")
			return preconfirmed.NewChain(&pc)
		}
	}
	w.preConfirmed = true
}
