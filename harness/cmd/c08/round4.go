//go:build verif

package main

import (
	"encoding/json"
	"errors"
	"fmt"
	"sort"
	"strings"

	"github.com/NethermindEth/juno/core"
	"github.com/NethermindEth/juno/core/felt"
	"github.com/NethermindEth/juno/db"
	"github.com/NethermindEth/juno/starknet"
	"verif/harness/lib"
)

// ---------------------------------------------------------------------------------------------
// Round 4 families:
//   * the feeder-gateway fallback of starknet_getTransactionStatus (every finality x execution
//     status the gateway can deliver, a failing gateway, no gateway, the submitted-transactions
//     cache) for hashes on the chain, never on it, and reverted off it;
//   * the response_flags parameter of v0.10 in every shape (absent, null, [], the flag, the flag
//     twice, another method's flag, an unknown flag, a non-list) on every method that has it and
//     on methods / versions that do not;
//   * the shape of `params` (empty, too few / too many positional values, missing / unknown /
//     misspelt names) against the method tables;
//   * the index buckets of the database (block hash -> number, transaction hash -> (number, index)),
//     the chain height and the recorded L1 head after EVERY chain operation.
// ---------------------------------------------------------------------------------------------

// feederSpec is what the feeder gateway does for one getTransactionStatus call.
type feederSpec struct {
	mode string // "none" (no feeder client) | "err" | "says"
	fin  string // l2 | l1 | notreceived | received | preconfirmed | candidate | unknown
	exec string // none | succeeded | reverted | rejected
}

var feederFins = []string{"l2", "l1", "notreceived", "received", "preconfirmed", "candidate", "unknown"}
var feederExecs = []string{"none", "succeeded", "reverted", "rejected"}

func (f feederSpec) lean() string {
	if f.mode != "says" {
		return f.mode
	}
	return f.fin + ":" + f.exec
}

func (f feederSpec) status() *starknet.TransactionStatus {
	st := &starknet.TransactionStatus{TxRevertReason: stubRevertReason,
		TxFailureReason: starknet.TransactionFailureReason{Code: stubFailureCode, Message: stubFailureReason}}
	switch f.fin {
	case "l2":
		st.FinalityStatus = starknet.AcceptedOnL2
	case "l1":
		st.FinalityStatus = starknet.AcceptedOnL1
	case "notreceived":
		st.FinalityStatus = starknet.NotReceived
	case "received":
		st.FinalityStatus = starknet.Received
	case "preconfirmed":
		st.FinalityStatus = starknet.PreConfirmed
	case "candidate":
		st.FinalityStatus = starknet.Candidate
	default:
		st.FinalityStatus = 0
	}
	switch f.exec {
	case "succeeded":
		st.ExecutionStatus = starknet.Succeeded
	case "reverted":
		st.ExecutionStatus = starknet.Reverted
	case "rejected":
		st.ExecutionStatus = starknet.Rejected
	}
	return st
}

// setFeeder configures the node's feeder side for the query about to be sent (and resets it to
// the default — a gateway that has not received the transaction — for every other query).
func (n *rpcNode) setFeeder(q *query) {
	n.feeder.fail, n.feeder.next = false, nil
	if q.submitted {
		n.submitted.Add(&q.txHash)
	}
	if q.feeder == nil {
		n.handler.WithFeeder(n.feeder)
		return
	}
	switch q.feeder.mode {
	case "none":
		n.handler.WithFeeder(nil)
	case "err":
		n.handler.WithFeeder(n.feeder)
		n.feeder.fail = true
	default:
		n.handler.WithFeeder(n.feeder)
		n.feeder.next = q.feeder.status()
	}
}

// expectFeeder: what the statement (and the gateway fallback the API documents) demands for a
// hash the chain does not hold. Written from the API specifications, not from the handlers:
// v0.8 knows RECEIVED / REJECTED / ACCEPTED_ON_L2 / ACCEPTED_ON_L1; v0.9+ know RECEIVED / CANDIDATE /
// PRE_CONFIRMED / ACCEPTED_ON_L2 / ACCEPTED_ON_L1 and have no REJECTED (a rejected transaction is
// one the network does not have). Whatever the version cannot express is "not found".
func expectFeeder(ver string, f feederSpec, submitted bool) string {
	switch f.mode {
	case "none":
		return errLine(codeTxnNotFound)
	case "err":
		return errLine(codeInternal)
	}
	fin := f.fin
	if fin == "notreceived" && submitted {
		fin = "received"
	}
	name := map[string]string{"l2": "L2", "l1": "L1", "received": "?RECEIVED", "preconfirmed": "?PRE_CONFIRMED", "candidate": "?CANDIDATE"}
	v8 := ver == "v8"
	switch fin {
	case "notreceived", "unknown":
		return errLine(codeTxnNotFound)
	case "preconfirmed", "candidate":
		if v8 {
			return errLine(codeTxnNotFound)
		}
	}
	if fin == "candidate" {
		return "ok ?CANDIDATE -" // no execution status yet
	}
	switch f.exec {
	case "succeeded":
		return "ok " + name[fin] + " 0"
	case "reverted":
		return "ok " + name[fin] + " 1 rr"
	case "rejected":
		if v8 {
			return "ok ?REJECTED - fr"
		}
		return errLine(codeTxnNotFound)
	}
	return "ok " + name[fin] + " -"
}

const codeInternal = -32603

// ---------------------------------------------------------------------------------------------
// response_flags
// ---------------------------------------------------------------------------------------------

type flagSpec struct {
	kind string   // absent | null | other | list
	list []string // list
	name string   // generator's name of the case (part of the case key)
}

func (f flagSpec) json() (any, bool) {
	switch f.kind {
	case "absent":
		return nil, false
	case "null":
		return nil, true
	case "other":
		return "INCLUDE_PROOF_FACTS", true // a string where a list of strings is required
	}
	return append([]string{}, f.list...), true
}

func (f flagSpec) lean() string {
	switch f.kind {
	case "absent", "null":
		return f.kind
	case "other":
		return "x"
	}
	l := make([]string, len(f.list))
	for i, s := range f.list {
		l[i] = s
		if s == "" {
			l[i] = "~" // the empty string
		}
	}
	return "l:" + strings.Join(l, ",")
}

const (
	flagLU = "INCLUDE_LAST_UPDATE_BLOCK"
	flagPF = "INCLUDE_PROOF_FACTS"
)

func flagCases() []flagSpec {
	return []flagSpec{
		{kind: "null", name: "null"},
		{kind: "other", name: "not-a-list"},
		{kind: "list", list: []string{}, name: "empty"},
		{kind: "list", list: []string{flagLU}, name: "last-update"},
		{kind: "list", list: []string{flagPF}, name: "proof-facts"},
		{kind: "list", list: []string{flagLU, flagLU}, name: "last-update-twice"},
		{kind: "list", list: []string{flagPF, flagPF}, name: "proof-facts-twice"},
		{kind: "list", list: []string{flagLU, flagPF}, name: "both"},
		{kind: "list", list: []string{"INCLUDE_EVERYTHING"}, name: "unknown"},
		{kind: "list", list: []string{"include_last_update_block"}, name: "lower-case"},
		{kind: "list", list: []string{""}, name: "empty-string"},
	}
}

// flagOfSpec: the flag the v0.10 specification gives the method (none for the other methods).
func flagOfSpec(method string) string {
	switch method {
	case "storage":
		return flagLU
	case "blockTxs", "blockReceipts", "txByHash", "txByIdx":
		return flagPF
	}
	return ""
}

// flagsVerdict: "refuse" (invalid params), "plain" (as without the parameter), "set" (the flag is
// on), or "either" (JSON null for an optional parameter: the specification does not say).
func flagsVerdict(ver, method string, f *flagSpec) string {
	known := flagOfSpec(method)
	if ver != "v10" || known == "" {
		return "refuse"
	}
	switch f.kind {
	case "null":
		return "either"
	case "other":
		return "refuse"
	}
	for _, s := range f.list {
		if s != known {
			return "refuse"
		}
	}
	if len(f.list) == 0 {
		return "plain"
	}
	return "set"
}

// ---------------------------------------------------------------------------------------------
// params shapes against the method tables
// ---------------------------------------------------------------------------------------------

type specParam struct {
	name     string
	optional bool
}

// specTable: the parameter lists of the read methods in the Starknet API specifications (NOT read
// from juno's tables, which are under test).
func specTable(ver, method string) []specParam {
	v10 := func(ps []specParam, extra string) []specParam {
		if ver == "v10" {
			return append(ps, specParam{extra, true})
		}
		return ps
	}
	id := specParam{"block_id", false}
	switch method {
	case "blockNumber", "blockHashAndNumber":
		return nil
	case "blockTxHashes", "txCount":
		return []specParam{id}
	case "blockTxs", "blockReceipts":
		return v10([]specParam{id}, "response_flags")
	case "stateUpdate":
		return v10([]specParam{id}, "contract_addresses")
	case "txByHash":
		return v10([]specParam{{"transaction_hash", false}}, "response_flags")
	case "receipt", "txStatus":
		return []specParam{{"transaction_hash", false}}
	case "txByIdx":
		return v10([]specParam{id, {"index", false}}, "response_flags")
	case "storage":
		return v10([]specParam{{"contract_address", false}, {"key", false}, id}, "response_flags")
	case "nonce", "classHashAt", "classAt":
		return []specParam{id, {"contract_address", false}}
	case "class":
		return []specParam{id, {"class_hash", false}}
	}
	panic("specTable: " + method)
}

var shapeMethods = []string{"blockNumber", "blockHashAndNumber", "blockTxHashes", "blockTxs", "blockReceipts", "txCount", "stateUpdate",
	"txByHash", "receipt", "txStatus", "txByIdx", "storage", "nonce", "classHashAt", "class", "classAt"}

// a valid value for a parameter name
func shapeValue(name string) any {
	switch name {
	case "block_id":
		return "latest"
	case "index":
		return 0
	case "response_flags", "contract_addresses":
		return []string{}
	}
	return "0x1" // hashes, addresses, keys
}

type shapeCase struct {
	kind   string // case name
	lean   string // e | p:<n> | n:<names>
	params any
	want   bool // the specification's verdict: does the request get past the shape check
}

func shapeCases(ver, method string) []shapeCase {
	ps := specTable(ver, method)
	req := 0
	for _, p := range ps {
		if !p.optional {
			req++
		}
	}
	var out []shapeCase
	out = append(out, shapeCase{"params-absent", "e", nil, req == 0},
		shapeCase{"params-empty-list", "e", []any{}, req == 0},
		shapeCase{"params-empty-object", "e", map[string]any{}, req == 0})
	for n := 1; n <= len(ps)+2; n++ {
		l := make([]any, n)
		for i := range l {
			if i < len(ps) {
				l[i] = shapeValue(ps[i].name)
			} else {
				l[i] = "0x1"
			}
		}
		kind := "positional-ok"
		switch {
		case n < req:
			kind = "positional-too-few"
		case n > len(ps):
			kind = "positional-too-many"
		case n < len(ps):
			kind = "positional-without-optional"
		}
		out = append(out, shapeCase{kind, fmt.Sprintf("p:%x", n), l, n >= req && n <= len(ps)})
	}
	named := func(kind string, names []string, want bool) {
		if len(names) == 0 {
			return // an empty object is the `e` case
		}
		m := map[string]any{}
		for _, nm := range names {
			m[nm] = shapeValue(nm)
		}
		out = append(out, shapeCase{kind, "n:" + strings.Join(names, ","), m, want})
	}
	var all, required []string
	for _, p := range ps {
		all = append(all, p.name)
		if !p.optional {
			required = append(required, p.name)
		}
	}
	named("named-all", all, true)
	if len(required) < len(all) {
		named("named-required-only", required, true)
	}
	for i := range required {
		var rest []string
		for _, nm := range all {
			if nm != required[i] {
				rest = append(rest, nm)
			}
		}
		named("named-missing-required", rest, false)
		// the same name misspelt: one required name missing AND one unknown name present
		named("named-misspelt", append(append([]string{}, rest...), required[i]+"s"), false)
	}
	named("named-unknown-extra", append(append([]string{}, all...), "block_hash"), false)
	if ver != "v10" {
		// the parameters v0.10 added are unknown names to the older versions
		if full := specTable("v10", method); len(full) > len(ps) {
			named("named-v10-parameter", append(append([]string{}, all...), full[len(full)-1].name), false)
		}
	}
	return out
}

// shapes runs the params-shape family on one world (a non-empty chain: valid values resolve).
func (h *harness) shapes(s int, w *world) error {
	var lines []string
	type slot struct {
		ver, method string
		c           shapeCase
	}
	var slots []slot
	for _, ver := range versions {
		for _, m := range shapeMethods {
			for _, c := range shapeCases(ver, m) {
				lines = append(lines, fmt.Sprintf("shape %s %s %s", ver, m, c.lean))
				slots = append(slots, slot{ver, m, c})
			}
		}
	}
	answers, err := h.drv.AskAll(lines)
	if err != nil {
		return fmt.Errorf("driver: %w", err)
	}
	for i, sl := range slots {
		if answers[i] == "bad-op" {
			h.res.Fatalf("the Lean driver does not understand %q", lines[i])
			continue
		}
		for ni, node := range w.nodes {
			node.setFeeder(&query{})
			resp := node.call(sl.ver, rpcName[sl.method], sl.c.params)
			got := "pass"
			switch {
			case resp.Broken != "":
				got = "broken:" + firstLine(resp.Broken)
			case resp.Code == codeInvalidParams:
				got = errLine(codeInvalidParams)
			}
			key := fmt.Sprintf("%s/%s/shape/%s/%s/%d", sl.ver, backendName[ni], sl.method, sl.c.kind, s)
			h.res.Case(key, true)
			h.res.Hit("shape:" + sl.c.kind)
			h.res.Hit("shape-answer:" + got)
			h.programs[sl.ver+"/shape/"+sl.method+"/"+sl.c.kind] = struct{}{}
			h.res.Compared(1)
			req := map[string]any{"version": sl.ver, "backend": backendName[ni], "method": rpcName[sl.method], "params": sl.c.params}
			if got != answers[i] {
				h.res.Mismatch(lib.Mismatch{Sig: "model-shape:" + sl.ver + ":" + sl.method + ":" + sl.c.kind, Input: req, Model: answers[i], Impl: got})
			}
			want := errLine(codeInvalidParams)
			if sl.c.want {
				want = "pass"
			}
			h.checked++
			if got != want {
				h.res.Violate(lib.Violation{
					Sig: fmt.Sprintf("params-shape:%s:%s:%s:want-%s", sl.ver, sl.method, sl.c.kind, want),
					What: fmt.Sprintf("%s %s with params %s on the %s backend: the API specification's parameter list says %q, the node says %q (code %d %s)",
						sl.ver, rpcName[sl.method], mustJSON(sl.c.params), backendName[ni], want, got, resp.Code, resp.Msg),
					Replay: map[string]any{"scenario": s, "round": -1, "query": -1, "history": append([]string{}, w.ops...), "request": req, "expected": want, "got": got},
				})
			}
		}
	}
	return nil
}

func mustJSON(v any) string {
	b, _ := json.Marshal(v)
	return string(b)
}

// ---------------------------------------------------------------------------------------------
// store-level comparison after every chain operation
// ---------------------------------------------------------------------------------------------

// dumpReal reads the chain height, the recorded L1 head and the two index buckets straight from
// the node's database, in the format of the model's `dump`.
func dumpReal(n *rpcNode, upto int) (string, error) {
	hs := "-"
	if ht, err := n.bc.Height(); err == nil {
		hs = fmt.Sprintf("%x", ht)
	} else if !errors.Is(err, db.ErrKeyNotFound) {
		return "", fmt.Errorf("Height: %w", err)
	}
	l1 := "-"
	if head, err := n.bc.L1Head(); err == nil {
		if head == (core.L1Head{}) {
			l1 = "zero"
		} else {
			l1 = fmt.Sprintf("%x", head.BlockNumber)
		}
	} else if !errors.Is(err, db.ErrKeyNotFound) {
		return "", fmt.Errorf("L1Head: %w", err)
	}
	keys := func(b db.Bucket) ([]felt.Felt, error) {
		it, err := n.kv.NewIterator(b.Key(), true)
		if err != nil {
			return nil, err
		}
		defer it.Close()
		var out []felt.Felt
		for ok := it.First(); ok; ok = it.Next() {
			k := it.Key()
			if len(k) != 1+felt.Bytes {
				return nil, fmt.Errorf("bucket %d: key of %d bytes", b, len(k))
			}
			var f felt.Felt
			f.SetBytes(k[1:])
			out = append(out, f)
		}
		return out, nil
	}
	var nbh, txl []string
	hk, err := keys(db.BlockHeaderNumbersByHash)
	if err != nil {
		return "", err
	}
	for i := range hk {
		num, err := core.GetBlockHeaderNumberByHash(n.kv, &hk[i])
		if err != nil {
			return "", fmt.Errorf("block hash index: %w", err)
		}
		nbh = append(nbh, fmt.Sprintf("%s:%x", hxv(hk[i]), num))
	}
	tk, err := keys(db.TransactionBlockNumbersAndIndicesByHash)
	if err != nil {
		return "", err
	}
	for i := range tk {
		v, err := core.TransactionBlockNumbersAndIndicesByHashBucket.Get(n.kv, (*felt.TransactionHash)(&tk[i]))
		if err != nil {
			return "", fmt.Errorf("transaction hash index: %w", err)
		}
		txl = append(txl, fmt.Sprintf("%s:%x:%x", hxv(tk[i]), v.Number, v.Index))
	}
	sort.Strings(nbh)
	sort.Strings(txl)
	// the number-keyed records of a block, probed one by one up to two numbers above the greatest
	// height the chain ever had (a record left behind by a revert sits right above the head)
	var hdr, body, com, su []string
	probe := func(out *[]string, k int, err error, what string) error {
		if err == nil {
			*out = append(*out, fmt.Sprintf("%x", k))
			return nil
		}
		if errors.Is(err, db.ErrKeyNotFound) {
			return nil
		}
		return fmt.Errorf("%s of block %d: %w", what, k, err)
	}
	for k := 0; k < upto+2; k++ {
		_, err := core.GetBlockHeaderByNumber(n.kv, uint64(k))
		if err := probe(&hdr, k, err, "header"); err != nil {
			return "", err
		}
		_, err = core.BlockTransactionsBucket.Get(n.kv, uint64(k))
		if err := probe(&body, k, err, "transactions"); err != nil {
			return "", err
		}
		_, err = core.GetBlockCommitmentByBlockNum(n.kv, uint64(k))
		if err := probe(&com, k, err, "commitments"); err != nil {
			return "", err
		}
		_, err = core.GetStateUpdateByBlockNum(n.kv, uint64(k))
		if err := probe(&su, k, err, "state update"); err != nil {
			return "", err
		}
	}
	return "h=" + hs + " l1=" + l1 + " nbh=" + joinOr(nbh) + " txl=" + joinOr(txl) +
		" hdr=" + joinOr(hdr) + " body=" + joinOr(body) + " com=" + joinOr(com) + " su=" + joinOr(su), nil
}

// dumpExpected: what the indexes must hold for the chain the generator manufactured.
func (w *world) dumpExpected() string {
	hs, l1 := "-", "-"
	if w.height() > 0 {
		hs = fmt.Sprintf("%x", w.height()-1)
	}
	if w.l1Sentinel {
		l1 = "zero"
	} else if w.l1 != nil {
		l1 = fmt.Sprintf("%x", *w.l1)
	}
	// a pruned node (prunedBelow = e > 0) keeps: every record of the blocks from e on; the headers of
	// the ten blocks below e (the get_block_hash window); the hash-index entry of block e-1
	e := w.prunedBelow
	var nbh, txl, hdr, body, com, su []string
	for n, b := range w.g.Bundles {
		if n+1 >= e {
			nbh = append(nbh, fmt.Sprintf("%s:%x", hx(b.Block.Hash), n))
		}
		if n+int(core.BlockHashLag) >= e {
			hdr = append(hdr, fmt.Sprintf("%x", n))
		}
		if n < e {
			continue
		}
		for i, tx := range b.Block.Transactions {
			txl = append(txl, fmt.Sprintf("%s:%x:%x", hx(tx.Hash()), n, i))
		}
		body = append(body, fmt.Sprintf("%x", n))
		su = append(su, fmt.Sprintf("%x", n))
		if !w.noCommit[n] {
			com = append(com, fmt.Sprintf("%x", n))
		}
	}
	sort.Strings(nbh)
	sort.Strings(txl)
	return "h=" + hs + " l1=" + l1 + " nbh=" + joinOr(nbh) + " txl=" + joinOr(txl) +
		" hdr=" + joinOr(hdr) + " body=" + joinOr(body) + " com=" + joinOr(com) + " su=" + joinOr(su)
}

// pendingDump is the database picture taken right after a chain operation, waiting for the model's.
type pendingDump struct {
	op       string
	history  []string
	expected string
	real     []string // per node
}

// snapshot takes the picture of every node after the operation just performed and compares it
// with the chain (-> violation: an index that does not describe the chain the node holds); the
// model's picture is compared when its answer arrives (-> mismatch).
func (h *harness) snapshot(s int, w *world, lines *[]string) error {
	pd := pendingDump{history: append([]string{}, w.ops...), expected: w.dumpExpected()}
	if len(w.ops) > 0 {
		pd.op = strings.Fields(w.ops[len(w.ops)-1])[0]
	}
	for ni, n := range w.nodes {
		d, err := dumpReal(n, w.maxHeight)
		if err != nil {
			return fmt.Errorf("node %d: reading the database: %w", ni, err)
		}
		pd.real = append(pd.real, d)
		h.res.Case(fmt.Sprintf("store-level/%s/%s/%d/%d", backendName[ni], pd.op, s, len(w.ops)), true)
		h.res.Hit("store-level:after-" + pd.op)
		h.checked++
		if d != pd.expected {
			section, what := dumpDiff(pd.expected, d)
			h.res.Violate(lib.Violation{
				Sig:  "store-level:" + section + ":" + what + ":after-" + pd.op,
				What: fmt.Sprintf("after %q the %s backend's database holds %s; the chain is %s", w.ops[len(w.ops)-1], backendName[ni], d, pd.expected),
				Replay: map[string]any{"scenario": s, "round": -1, "query": -1, "history": pd.history, "expected": pd.expected, "got": d,
					"request": map[string]any{"backend": backendName[ni], "read": "database buckets BlockHeaderNumbersByHash, TransactionBlockNumbersAndIndicesByHash, ChainHeight, L1Height, BlockHeadersByNumber, BlockTransactions, BlockCommitments, StateUpdatesByBlockNumber"}},
			})
		}
	}
	*lines = append(*lines, "dump")
	w.dumps = append(w.dumps, pd)
	return nil
}

// dumpDiff names the first section in which two pictures differ and how.
func dumpDiff(want, got string) (string, string) {
	fw, fg := strings.Fields(want), strings.Fields(got)
	names := []string{"height", "l1-head", "block-hash-index", "tx-hash-index", "headers", "transactions", "commitments", "state-updates"}
	if len(fw) != len(names) || len(fg) != len(names) {
		return "shape", "unreadable"
	}
	for i := range fw {
		if fw[i] == fg[i] {
			continue
		}
		if i < 2 {
			return names[i], "wrong-value"
		}
		set := func(s string) map[string]string {
			m := map[string]string{}
			body := s[strings.Index(s, "=")+1:]
			if body == "-" {
				return m
			}
			for _, e := range strings.Split(body, ",") {
				k := e
				if i := strings.Index(e, ":"); i >= 0 {
					k = e[:i]
				}
				m[k] = e
			}
			return m
		}
		mw, mg := set(fw[i]), set(fg[i])
		for k := range mg {
			if _, ok := mw[k]; !ok {
				return names[i], "stale-entry"
			}
		}
		for k, e := range mw {
			ge, ok := mg[k]
			if !ok {
				return names[i], "missing-entry"
			}
			if ge != e {
				return names[i], "wrong-entry"
			}
		}
		return names[i], "differs"
	}
	return "none", "equal"
}
