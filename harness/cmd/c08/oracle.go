//go:build verif

package main

import (
	"fmt"
	"sort"
	"strings"

	"github.com/NethermindEth/juno/core"
	"github.com/NethermindEth/juno/core/felt"
	"verif/harness/lib"
)

// ---------------------------------------------------------------------------------------------
// The property oracle: what the statement of C08 demands, computed from the generator's bundles
// (the chain as it was manufactured) and abstract states (the fold of the state diffs) and the
// recorded L1 head. It does NOT follow juno's handlers: where they leave the statement the
// oracle says what the statement says and the harness reports a violation.
//
// Expected answers are lines in the model driver's format so that the same projection of the
// real response is compared with both the oracle (property) and the Lean model (correspondence).
// ---------------------------------------------------------------------------------------------

const (
	codeContractNotFound = 20
	codeBlockNotFound    = 24
	codeInvalidTxIndex   = 27
	codeClassNotFound    = 28
	codeTxnNotFound      = 29
	codeNoBlocks         = 32
	codeInvalidParams    = -32602
)

func errLine(code int) string { return fmt.Sprintf("err:%d", code) }

// propResolve resolves a block id on the oracle's chain: the block number it denotes, if any.
// A hash resolves iff a block of the CURRENT chain has it (0x0 is no block's hash); l1_accepted
// is min(L1 head, head) when an L1 head is recorded; pre_confirmed denotes nothing (no pending
// data on this node).
func (w *world) propResolve(id *blockID) (int, bool) {
	h := w.height()
	tag := id.tag
	if tag == "both" {
		tag = "hash" // block_hash takes precedence
	}
	switch tag {
	case "number":
		if id.num < uint64(h) {
			return int(id.num), true
		}
	case "hash":
		for i, b := range w.g.Bundles {
			if b.Block.Hash.Equal(&id.hash) {
				return i, true
			}
		}
	case "latest":
		if h > 0 {
			return h - 1, true
		}
	case "l1":
		if w.l1 != nil && h > 0 {
			if *w.l1 < uint64(h-1) {
				return int(*w.l1), true
			}
			return h - 1, true
		}
	}
	return 0, false
}

// finality of block n: ACCEPTED_ON_L1 iff an L1 head is recorded at a number >= n.
func (w *world) finality(n int) string {
	if w.l1 != nil && uint64(n) <= *w.l1 {
		return "L1"
	}
	return "L2"
}

func (w *world) hdrLine(n int) string {
	b := w.g.Bundles[n].Block
	return fmt.Sprintf("%x %s %s %s %s", b.Number, hx(b.Hash), hx(b.ParentHash), hx(b.GlobalStateRoot), w.finality(n))
}

func revS(b bool) string {
	if b {
		return "1"
	}
	return "0"
}

// findTx locates a transaction hash on the current chain.
func (w *world) findTx(h *felt.Felt) (n, i int, ok bool) {
	for n, b := range w.g.Bundles {
		for i, tx := range b.Block.Transactions {
			if tx.Hash().Equal(h) {
				return n, i, true
			}
		}
	}
	return 0, 0, false
}

// diffItems renders a core.StateDiff as the model's sorted item list, optionally restricted to a
// set of contract addresses (v10 `contract_addresses`: storage diffs, nonces, deployed and
// replaced entries are filtered; declarations are not).
func diffItems(d *core.StateDiff, filter []felt.Felt) string {
	keep := func(a felt.Felt) bool {
		if len(filter) == 0 {
			// absent, or the empty list: no restriction (juno's reading of an empty filter)
			return true
		}
		for i := range filter {
			if filter[i].Equal(&a) {
				return true
			}
		}
		return false
	}
	var items []string
	for a, c := range d.DeployedContracts {
		if keep(a) {
			items = append(items, "d="+hxv(a)+","+hx(c))
		}
	}
	for a, c := range d.ReplacedClasses {
		if keep(a) {
			items = append(items, "r="+hxv(a)+","+hx(c))
		}
	}
	for a, n := range d.Nonces {
		if keep(a) {
			items = append(items, "n="+hxv(a)+","+hx(n))
		}
	}
	for a, kv := range d.StorageDiffs {
		if keep(a) {
			for k, v := range kv {
				items = append(items, "s="+hxv(a)+","+hxv(k)+","+hx(v))
			}
		}
	}
	for _, c := range d.DeclaredV0Classes {
		items = append(items, "c="+hx(c))
	}
	for c := range d.DeclaredV1Classes {
		items = append(items, "c="+hxv(c))
	}
	sort.Strings(items)
	return joinOr(items)
}

func isSystem(a *felt.Felt) bool { return a.Equal(lib.F(1)) || a.Equal(lib.F(2)) }

// expectation is what the property allows as the answer to a query.
type expectation struct {
	lines    []string // acceptable projection lines (more than one only where the statement leaves it open)
	resolved int      // block the id denotes, -1 if none
	chain    int      // the first `chain` lines are what the chain itself says (the rest: answers of a node that does not hold the item)
}

func exp1(resolved int, line string) expectation {
	return expectation{lines: []string{line}, resolved: resolved}
}

// expect computes the property's answer for a query on an API version: what the chain says
// (expectChain), widened where the node does not HOLD the item any more. A node run with
// --prune-mode keeps the blocks from `prunedBelow` on. About a block below that (by number or by
// hash), about its state and about its transactions the statement allows exactly two answers: "not
// found" — the node does not hold it — or the true data of that very block (a node may keep more than
// it promises: the pruner leaves the last ten headers, one hash-index entry and the state one block
// below the floor in place). Anything else — another block's data, an empty transaction list, an
// index error for an index the block has, an internal error — is a violation. A block whose
// commitments record was deleted behind the node's back (the fault family) may additionally make
// the v0.10 block methods, which render the commitments, fail with an internal error.
func (w *world) expect(q *query, ver string) expectation {
	e := w.expectChain(q, ver)
	e.chain = len(e.lines)
	add := func(line string) {
		if !e.accepts(line) {
			e.lines = append(append([]string{}, e.lines...), line)
		}
	}
	if q.nullPos != "" || (q.id != nil && q.id.sem(ver) == "invalid") || e.accepts(errLine(codeInvalidParams)) && len(e.lines) == 1 {
		return e
	}
	if q.id != nil && q.id.sem(ver) != "pending" {
		if n, ok := w.propResolve(q.id); ok {
			if n < w.prunedBelow {
				add(errLine(codeBlockNotFound))
			}
			if w.noCommit[n] && ver == "v10" && (q.method == "blockTxHashes" || q.method == "blockTxs" || q.method == "blockReceipts") {
				add(errLine(codeInternal))
			}
		}
	}
	switch q.method {
	case "txByHash", "receipt", "txStatus":
		if bn, _, found := w.findTx(&q.txHash); found && bn < w.prunedBelow {
			if q.method == "txStatus" {
				// not held: the documented fallback to the gateway (a gateway in sync with the
				// network has not "received" a transaction that is long since in a block: NOT_RECEIVED
				// is what the stub says by default)
				f := feederSpec{mode: "says", fin: "notreceived", exec: "none"}
				if q.feeder != nil {
					f = *q.feeder
				}
				add(expectFeeder(ver, f, q.submitted))
			} else {
				add(errLine(codeTxnNotFound))
			}
		}
	}
	return e
}

// expectChain: the answer the chain gives (every block of the chain taken as held).
func (w *world) expectChain(q *query, ver string) expectation {
	// null where a value is required, and anything that is not a block id of this version, is
	// refused as invalid params
	if q.nullPos != "" {
		return exp1(-1, errLine(codeInvalidParams))
	}
	if q.flags != nil {
		// a response_flags argument: refused by the versions / methods that have no such parameter
		// and when it is not a list of this method's flag; otherwise the answer is that of the
		// request without it (INCLUDE_PROOF_FACTS changes the payload only: deep comparison) or,
		// for getStorageAt, the two-field answer
		base := *q
		base.flags = nil
		switch flagsVerdict(ver, q.method, q.flags) {
		case "refuse":
			return exp1(-1, errLine(codeInvalidParams))
		case "set":
			if q.method == "storage" {
				base.method = "storageLU"
			}
			return w.expectChain(&base, ver)
		case "either":
			e := w.expectChain(&base, ver)
			if !e.accepts(errLine(codeInvalidParams)) {
				e.lines = append(append([]string{}, e.lines...), errLine(codeInvalidParams))
			}
			return e
		default:
			return w.expectChain(&base, ver)
		}
	}
	if q.id != nil && q.id.sem(ver) == "invalid" {
		return exp1(-1, errLine(codeInvalidParams))
	}
	v8pending := q.id != nil && q.id.sem(ver) == "pending"
	n, ok := 0, false
	if q.id != nil {
		n, ok = w.propResolve(q.id)
		if v8pending {
			// v8 `pending` without pending data: the state is the head state; the block methods
			// answer with a synthetic empty block, which the statement says nothing about
			n, ok = w.height()-1, w.height() > 0
		}
	}
	res := -1
	if ok {
		res = n
	}
	switch q.method {
	case "blockNumber":
		if w.height() == 0 {
			return exp1(-1, errLine(codeNoBlocks))
		}
		return exp1(w.height()-1, fmt.Sprintf("ok %x", w.height()-1))
	case "blockHashAndNumber":
		if w.height() == 0 {
			return exp1(-1, errLine(codeNoBlocks))
		}
		return exp1(w.height()-1, fmt.Sprintf("ok %s %x", hx(w.g.Head().Block.Hash), w.height()-1))
	case "blockTxHashes", "blockTxs", "blockReceipts", "txCount", "stateUpdate", "txByIdx":
		if v8pending {
			// v0.8 `pending` on a node without pending data: the empty block on top of the head
			// (what rpc/v8 documents it serves): parent = head, no transactions, old root = head
			// root, and the protocol's block-hash bookkeeping (hash of block n-10 in contract 0x1)
			// as its only state change
			if !ok {
				if q.method == "txByIdx" && q.index < 0 {
					return expectation{lines: []string{errLine(codeBlockNotFound), errLine(codeInvalidTxIndex)}, resolved: -1}
				}
				return exp1(-1, errLine(codeBlockNotFound))
			}
			head := w.g.Bundles[n].Block
			switch q.method {
			case "txCount":
				return exp1(res, "ok 0")
			case "txByIdx":
				return exp1(res, errLine(codeInvalidTxIndex))
			case "stateUpdate":
				d := "-"
				if next := n + 1; next >= 10 {
					d = fmt.Sprintf("s=1,%x,%s", next-10, hx(w.g.Bundles[next-10].Block.Hash))
				}
				return exp1(res, fmt.Sprintf("ok pending-update %s %s", hx(head.GlobalStateRoot), d))
			default:
				return exp1(res, "ok pending "+hx(head.Hash))
			}
		}
		if !ok {
			if q.method == "txByIdx" && q.index < 0 {
				// neither the block nor the index exists: either complaint is accurate
				return expectation{lines: []string{errLine(codeBlockNotFound), errLine(codeInvalidTxIndex)}, resolved: -1}
			}
			return exp1(-1, errLine(codeBlockNotFound))
		}
		b := w.g.Bundles[n]
		switch q.method {
		case "blockTxHashes":
			var hs []string
			for _, tx := range b.Block.Transactions {
				hs = append(hs, hx(tx.Hash()))
			}
			return exp1(res, "ok "+w.hdrLine(n)+" "+joinOr(hs))
		case "blockTxs":
			var ts []string
			for _, tx := range b.Block.Transactions {
				ts = append(ts, fmt.Sprintf("%s/%x", hx(tx.Hash()), txKind(tx)))
			}
			return exp1(res, "ok "+w.hdrLine(n)+" "+joinOr(ts))
		case "blockReceipts":
			var ts []string
			for i, tx := range b.Block.Transactions {
				ts = append(ts, fmt.Sprintf("%s/%x/%s/%s", hx(tx.Hash()), txKind(tx), revS(b.Block.Receipts[i].Reverted), w.finality(n)))
			}
			return exp1(res, "ok "+w.hdrLine(n)+" "+joinOr(ts))
		case "txCount":
			return exp1(res, fmt.Sprintf("ok %x", len(b.Block.Transactions)))
		case "stateUpdate":
			// old_root is the one stored with the block's state update (the previous state's
			// commitment under THIS block's protocol version; equal to the previous block's
			// new_root unless the commitment formula changed in between)
			old := hx(b.SU.OldRoot)
			var filter []felt.Felt
			if ver == "v10" {
				filter = q.filter
			}
			return exp1(res, fmt.Sprintf("ok %s %s %s %s", hx(b.Block.Hash), hx(b.Block.GlobalStateRoot), old, diffItems(b.SU.StateDiff, filter)))
		default: // txByIdx
			if q.index < 0 || q.index >= len(b.Block.Transactions) {
				return exp1(res, errLine(codeInvalidTxIndex))
			}
			tx := b.Block.Transactions[q.index]
			return exp1(res, fmt.Sprintf("ok %s/%x", hx(tx.Hash()), txKind(tx)))
		}
	case "txByHash", "receipt", "txStatus":
		bn, i, found := w.findTx(&q.txHash)
		if !found {
			if q.method == "txStatus" && (q.feeder != nil || q.submitted) {
				// not on the node's chain: the documented fallback to the gateway
				f := feederSpec{mode: "says", fin: "notreceived", exec: "none"}
				if q.feeder != nil {
					f = *q.feeder
				}
				return exp1(-1, expectFeeder(ver, f, q.submitted))
			}
			return exp1(-1, errLine(codeTxnNotFound))
		}
		b := w.g.Bundles[bn]
		tx, rc := b.Block.Transactions[i], b.Block.Receipts[i]
		switch q.method {
		case "txByHash":
			return exp1(bn, fmt.Sprintf("ok %s/%x", hx(tx.Hash()), txKind(tx)))
		case "receipt":
			return exp1(bn, fmt.Sprintf("ok %s/%x %s %s %x %s", hx(tx.Hash()), txKind(tx)/16, revS(rc.Reverted), w.finality(bn), bn, hx(b.Block.Hash)))
		default:
			return exp1(bn, fmt.Sprintf("ok %s %s", w.finality(bn), revS(rc.Reverted)))
		}
	case "storageLU":
		// a v0.10 parameter: older versions must refuse the extra argument
		if ver != "v10" {
			return exp1(-1, errLine(codeInvalidParams))
		}
		sq := *q
		sq.method = "storage"
		e := w.expectChain(&sq, ver)
		if e.resolved < 0 {
			return e
		}
		// "last update": the newest block up to the denoted one whose state diff wrote the slot
		// (0: never). One reading for both backends; the legacy backend's deviation (a zero
		// written over zero is not logged) is a known finding.
		touched := 0
		for j := e.resolved; j >= 0; j-- {
			if kv, ok := w.g.Bundles[j].SU.StateDiff.StorageDiffs[q.addr]; ok {
				if _, ok := kv[q.key]; ok {
					touched = j
					break
				}
			}
		}
		var lines []string
		for _, l := range e.lines {
			if strings.HasPrefix(l, "ok ") {
				lines = append(lines, fmt.Sprintf("%s @%x", l, touched))
			} else {
				lines = append(lines, l)
			}
		}
		e.lines = lines
		return e
	case "storage", "nonce", "classHashAt", "class", "classAt":
		if !ok {
			return exp1(-1, errLine(codeBlockNotFound))
		}
		st := w.g.States[n]
		switch q.method {
		case "class":
			if _, ok := st.Classes[q.class]; ok {
				return exp1(res, "ok "+hxv(q.class))
			}
			return exp1(res, errLine(codeClassNotFound))
		case "nonce":
			if !st.Deployed[q.addr] {
				return exp1(res, errLine(codeContractNotFound))
			}
			return exp1(res, "ok "+hxv(st.Contracts[q.addr].Nonce))
		case "classHashAt", "classAt":
			if !st.Deployed[q.addr] {
				return exp1(res, errLine(codeContractNotFound))
			}
			c := st.Contracts[q.addr].Class
			if q.method == "classHashAt" {
				return exp1(res, "ok "+hxv(c))
			}
			// getClassAt knows only CONTRACT_NOT_FOUND / BLOCK_NOT_FOUND: a contract whose class
			// was never declared has no class to return
			if _, ok := st.Classes[c]; ok {
				return exp1(res, "ok "+hxv(c))
			}
			return exp1(res, errLine(codeContractNotFound))
		default: // storage
			var v felt.Felt
			if c, ok := st.Contracts[q.addr]; ok {
				v = c.Storage[q.key]
			}
			switch {
			case st.Deployed[q.addr]:
				return exp1(res, "ok "+hxv(v))
			case !v.IsZero():
				// storage of a never-deployed address (the system contracts 0x1 / 0x2): the chain
				// holds the value, so it is the answer
				return exp1(res, "ok "+hxv(v))
			case isSystem(&q.addr):
				// a zero slot of a system contract: the statement does not say whether 0x1 / 0x2
				// "exist"; both readings are accepted
				return expectation{lines: []string{"ok 0", errLine(codeContractNotFound)}, resolved: res}
			default:
				return exp1(res, errLine(codeContractNotFound))
			}
		}
	}
	panic("expect: unknown method " + q.method)
}

func (e expectation) accepts(line string) bool {
	for _, l := range e.lines {
		if l == line {
			return true
		}
	}
	return false
}

func (e expectation) String() string { return strings.Join(e.lines, " | ") }
