//go:build verif

package main

import (
	"context"
	"fmt"
	"os"

	"github.com/NethermindEth/juno/blockchain"
	"github.com/NethermindEth/juno/core"
	"github.com/NethermindEth/juno/pruner"
	"verif/harness/lib"
)

// ---------------------------------------------------------------------------------------------
// The pruned node (round 5). A node run with --prune-mode deletes, below a moving floor, the
// transactions, commitments, state updates and transaction-hash index entries of its blocks, the
// headers except the last ten, and the block-hash index entries except the last one; the state
// backend refuses historical state below the floor. The harness drives pruner.PruneUpto — the
// function the pruner service calls on every trigger — on the database of each node and keeps the
// shared pruner.RetentionFloor in step the way node.go does (Seed after migrations; the service
// raises it to e-1 with every prune), or leaves it unseeded (a pruned database opened by a node
// that does not prune). The chain generator still knows every block: the oracle (oracle.go
// `expect`) says which answers a node that holds only the blocks from the floor on may give.
// ---------------------------------------------------------------------------------------------

// seedFloors seeds every node's retention floor from its database (RetentionFloor.Seed).
func (w *world) seedFloors() error {
	for i, n := range w.nodes {
		if err := w.floors[i].Seed(n.kv); err != nil {
			return fmt.Errorf("node %d: seeding the retention floor: %w", i, err)
		}
	}
	w.floorSeeded = true
	w.ops = append(w.ops, "seed-retention-floor")
	return nil
}

// prune runs pruner.PruneUpto(e) to completion on every node (one batch) and, when the floors are
// in use, re-seeds them (the value the pruner service raises them to: e-1).
func (w *world) prune(e int) error {
	if e <= w.prunedBelow || e > w.height() {
		return fmt.Errorf("prune %d: outside (%d, %d]", e, w.prunedBelow, w.height())
	}
	// the byte size at which the sweep rotates its batch: alternately never (the whole sweep is one
	// batch) and 1 (a batch per block, each carrying PruneBlockDataUpto for the blocks swept so far) —
	// the database must end up the same either way
	w.pruneCalls++
	w.pruneRotated = w.pruneCalls%2 == 0
	batch := 1 << 30
	if w.pruneRotated {
		batch = 1
	}
	for i, n := range w.nodes {
		pruned, oldest, err := pruner.PruneUpto(context.Background(), n.kv, uint64(e), batch)
		if err != nil {
			return fmt.Errorf("node %d: PruneUpto(%d): %w", i, e, err)
		}
		if int(oldest) != e || int(pruned) != e-w.prunedBelow {
			return fmt.Errorf("node %d: PruneUpto(%d) reports %d blocks pruned, oldest kept %d (had pruned below %d)", i, e, pruned, oldest, w.prunedBelow)
		}
		if w.floorSeeded {
			if err := w.floors[i].Seed(n.kv); err != nil {
				return fmt.Errorf("node %d: seeding the retention floor: %w", i, err)
			}
		}
	}
	w.prunedBelow = e
	w.ops = append(w.ops, fmt.Sprintf("prune-upto %d", e))
	return nil
}

// pruneRefused calls pruner.PruneUpto where it must change nothing: on an empty database and with a
// bound at or below the oldest retained block (no-op: 0 blocks pruned, oldest kept unchanged, no
// error), and with a bound above the chain (an error: the sweep reads the state update of every
// block it prunes; run as one batch nothing is written). The caller takes the database picture
// afterwards: it must be the one before the call, on the nodes and in the model (`prune <e>`).
func (w *world) pruneRefused(e int) (kind, surprise string, err error) {
	kind = "bound-at-or-below-oldest-retained"
	switch {
	case w.height() == 0:
		kind = "empty-database"
	case e > w.height():
		kind = "bound-above-chain"
	case e > w.prunedBelow:
		return "", "", fmt.Errorf("pruneRefused %d: inside (%d, %d]", e, w.prunedBelow, w.height())
	}
	for i, n := range w.nodes {
		pruned, oldest, perr := pruner.PruneUpto(context.Background(), n.kv, uint64(e), 1<<30)
		switch kind {
		case "bound-above-chain":
			if perr == nil && surprise == "" {
				surprise = fmt.Sprintf("node %d: PruneUpto(%d) above the chain (height %d) reports %d blocks pruned, oldest kept %d and no error", i, e, w.height(), pruned, oldest)
			}
		default:
			if (perr != nil || pruned != 0 || int(oldest) != w.prunedBelow) && surprise == "" {
				surprise = fmt.Sprintf("node %d: PruneUpto(%d) with oldest retained %d (height %d): %d blocks pruned, oldest kept %d, err %v", i, e, w.prunedBelow, w.height(), pruned, oldest, perr)
			}
		}
	}
	// (a surprise is reported by the caller AFTER the database picture was taken and compared, so that
	// the report carries the concrete difference)
	w.ops = append(w.ops, fmt.Sprintf("prune-upto-refused %d (%s)", e, kind))
	return kind, surprise, nil
}

// dropCommitments deletes the commitments record of block n on every node (a damaged database).
func (w *world) dropCommitments(n int) error {
	for i, nd := range w.nodes {
		if err := core.DeleteBlockCommitment(nd.kv, uint64(n)); err != nil {
			return fmt.Errorf("node %d: deleting the commitments of block %d: %w", i, n, err)
		}
	}
	w.noCommit[n] = true
	w.ops = append(w.ops, fmt.Sprintf("delete-commitments-record %d", n))
	return nil
}

// regionKind names where block n lies relative to the pruning floor (part of the id kind, hence of
// every case key and signature): below the kept headers, header kept, the block right below the
// floor (its hash-index entry and its state survive), the oldest retained block.
func (w *world) regionKind(n int, base string, byHash bool) string {
	e := w.prunedBelow
	if e == 0 || n > e {
		return base
	}
	p := "num"
	if byHash {
		p = "hash"
	}
	switch {
	case n == e:
		return p + "-oldest-retained"
	case n == e-1:
		return p + "-pruned-floor"
	case n+int(core.BlockHashLag) >= e && !byHash:
		return p + "-pruned-header-kept"
	default:
		return p + "-pruned"
	}
}

// prunedIDs: identifiers aimed at every region around the floor.
func (w *world) prunedIDs(r *lib.RNG) []*blockID {
	e := w.prunedBelow
	if e == 0 {
		return nil
	}
	var ids []*blockID
	seen := map[int]bool{}
	for _, n := range []int{0, r.Intn(e), e - int(core.BlockHashLag) - 1, e - int(core.BlockHashLag), e - 2, e - 1, e, e + 1} {
		if n < 0 || n >= w.height() || seen[n] {
			continue
		}
		seen[n] = true
		ids = append(ids, &blockID{tag: "number", num: uint64(n), kind: w.regionKind(n, "num-existing", false)},
			&blockID{tag: "hash", hash: *w.g.Bundles[n].Block.Hash, kind: w.regionKind(n, "hash-existing", true)})
	}
	return ids
}

// aboutBlock: every block method of block n by number and by hash (and a few neighbours), for the
// fault family.
func (w *world) aboutBlock(n int) []*query {
	var qs []*query
	flip := false
	for _, k := range []int{n, n + 1} {
		if k >= w.height() {
			continue
		}
		b := w.g.Bundles[k]
		for _, id := range []*blockID{{tag: "number", num: uint64(k), kind: w.regionKind(k, "num-existing", false)}, {tag: "hash", hash: *b.Block.Hash, kind: w.regionKind(k, "hash-existing", true)}} {
			for _, m := range blockMethods {
				flip = !flip
				qs = append(qs, &query{method: m, id: id, named: flip, sub: "commitments-fault"})
			}
			qs = append(qs, &query{method: "txByIdx", id: id, index: 0, sub: "idx-first"})
		}
		for _, tx := range b.Block.Transactions {
			for _, m := range []string{"txByHash", "receipt", "txStatus"} {
				qs = append(qs, &query{method: m, txHash: *tx.Hash(), sub: "tx-existing"})
			}
		}
	}
	return qs
}

// probePruned (C08_PROBE=prune): what do the read methods answer on a pruned database?
func probePruned() {
	r := lib.NewRNG(3)
	opt := lib.DefaultGenOptions()
	g := lib.NewChainGen(r, false, opt)
	var nodes []*rpcNode
	var floors []*pruner.RetentionFloor
	for _, ns := range []bool{false, true} {
		fl := &pruner.RetentionFloor{}
		bc, kv := lib.NewNode(g.Net, ns, blockchain.WithRetentionFloor(fl))
		n, err := newRPCNode(bc, kv, ns)
		if err != nil {
			panic(err)
		}
		nodes = append(nodes, n)
		floors = append(floors, fl)
	}
	const H = 16
	for i := 0; i < H; i++ {
		b, err := g.Next(nil)
		if err != nil {
			panic(err)
		}
		for _, n := range nodes {
			if err := lib.StoreOn(n.bc, b); err != nil {
				panic(err)
			}
		}
	}
	const E = 13
	for i, n := range nodes {
		pr, oldest, err := pruner.PruneUpto(context.Background(), n.kv, E, 1<<20)
		fmt.Fprintf(os.Stderr, "node %d: pruned=%d oldest=%d err=%v\n", i, pr, oldest, err)
		if os.Getenv("C08_SEED_FLOOR") != "" {
			if err := floors[i].Seed(n.kv); err != nil {
				panic(err)
			}
		}
	}
	show := func(ni int, ver, m string, params any) string {
		resp := nodes[ni].call(ver, m, params)
		s := fmt.Sprintf("code=%d %s", resp.Code, resp.Broken)
		if resp.Code == 0 && resp.Broken == "" {
			res := string(resp.Result)
			if len(res) > 90 {
				res = res[:90] + "…"
			}
			s = "ok " + res
		} else if len(resp.Data) > 0 {
			s += " data=" + string(resp.Data)
		}
		return s
	}
	for _, n := range []int{0, 2, 3, 11, 12, 13, 15} {
		b := g.Bundles[n]
		fmt.Fprintf(os.Stderr, "=== block %d (txs %d)\n", n, len(b.Block.Transactions))
		ids := map[string]any{"num": map[string]any{"block_number": n}, "hash": map[string]any{"block_hash": b.Block.Hash.String()}}
		a := g.Addr(2)
		for _, ver := range []string{"v8", "v10"} {
			for idn, id := range ids {
				for _, m := range []string{"starknet_getBlockWithTxHashes", "starknet_getBlockWithTxs", "starknet_getBlockWithReceipts", "starknet_getBlockTransactionCount", "starknet_getStateUpdate"} {
					fmt.Fprintf(os.Stderr, "%s %-5s %-34s legacy: %-60s new: %s\n", ver, idn, m, show(0, ver, m, []any{id}), show(1, ver, m, []any{id}))
				}
				fmt.Fprintf(os.Stderr, "%s %-5s %-34s legacy: %-60s new: %s\n", ver, idn, "txByIdx 0", show(0, ver, "starknet_getTransactionByBlockIdAndIndex", []any{id, 0}), show(1, ver, "starknet_getTransactionByBlockIdAndIndex", []any{id, 0}))
				fmt.Fprintf(os.Stderr, "%s %-5s %-34s legacy: %-60s new: %s\n", ver, idn, "getNonce", show(0, ver, "starknet_getNonce", []any{id, a.String()}), show(1, ver, "starknet_getNonce", []any{id, a.String()}))
				fmt.Fprintf(os.Stderr, "%s %-5s %-34s legacy: %-60s new: %s\n", ver, idn, "getStorageAt", show(0, ver, "starknet_getStorageAt", []any{a.String(), "0x1", id}), show(1, ver, "starknet_getStorageAt", []any{a.String(), "0x1", id}))
			}
			if len(b.Block.Transactions) > 0 {
				th := b.Block.Transactions[0].Hash().String()
				for _, m := range []string{"starknet_getTransactionByHash", "starknet_getTransactionReceipt", "starknet_getTransactionStatus"} {
					fmt.Fprintf(os.Stderr, "%s tx    %-34s legacy: %-60s new: %s\n", ver, m, show(0, ver, m, []any{th}), show(1, ver, m, []any{th}))
				}
			}
		}
	}
}
