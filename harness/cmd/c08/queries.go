//go:build verif

package main

import (
	"encoding/json"
	"fmt"
	"math"
	"strings"

	"github.com/NethermindEth/juno/core"
	"github.com/NethermindEth/juno/core/felt"
	"verif/harness/lib"
)

// blockID is a block identifier as it goes on the wire, together with the class it was drawn
// from (the id kind is part of every case key and of every violation signature).
type blockID struct {
	tag  string    // "number" | "hash" | "both" (object with both members) | "empty" ({}) | "other" (not a block id at all) | "latest" | "l1" | "str" (any other string) | "null" (JSON null) | "nullnum" ({"block_number": null})
	num  uint64    // number, both
	hash felt.Felt // hash, both
	str  string    // str
	kind string    // num-existing | num-head | num-l1 | num-missing | hash-existing | hash-missing | hash-reverted | hash-zero | latest | l1_accepted | tag-pending | tag-pre_confirmed | tag-unknown | obj-both | obj-empty | not-an-id
}

// json renders the identifier.
func (b blockID) json() any {
	switch b.tag {
	case "number":
		return map[string]any{"block_number": b.num}
	case "hash":
		return map[string]any{"block_hash": b.hash.String()}
	case "both":
		return map[string]any{"block_hash": b.hash.String(), "block_number": b.num}
	case "empty":
		return map[string]any{}
	case "null":
		return nil
	case "nullnum":
		return map[string]any{"block_number": nil}
	case "other":
		switch b.num % nOtherIDs {
		case 0:
			return 5
		case 1:
			return []any{"latest"}
		case 2:
			return map[string]any{"block_number": "0x1"} // a string where a number is required
		case 3:
			return map[string]any{"block_hash": nil}
		case 4:
			return map[string]any{"block_hash": nil, "block_number": 0}
		case 5:
			return map[string]any{"block_number": json.Number("1.0")}
		case 6:
			return map[string]any{"block_number": -1}
		case 7:
			return map[string]any{"block_number": json.Number("18446744073709551616")}
		case 8:
			return map[string]any{"block_number": json.Number("1e0")}
		case 9:
			return map[string]any{"block_hash": 5}
		case 10:
			return map[string]any{"block_hash": "0x800000000000011000000000000000000000000000000000000000000000001"} // = P
		default:
			return true
		}
	case "latest":
		return "latest"
	case "l1":
		return "l1_accepted"
	default:
		return b.str
	}
}

const nOtherIDs = 12

// lean renders the identifier for the model driver (wire form).
func (b blockID) lean() string {
	switch b.tag {
	case "null":
		return "null"
	case "nullnum":
		return "nn"
	case "number":
		return fmt.Sprintf("n:%x", b.num)
	case "hash":
		return "h:" + hxv(b.hash)
	case "both":
		return fmt.Sprintf("hn:%s:%x", hxv(b.hash), b.num)
	case "empty":
		return "o"
	case "other":
		return "x"
	case "latest":
		return "t:latest"
	case "l1":
		return "t:l1_accepted"
	default:
		return "t:" + b.str
	}
}

// sem is what the identifier means to an API version (per the API specifications): number,
// hash, latest, l1, pre (pre_confirmed, v0.9+), pending (v0.8), or invalid.
func (b blockID) sem(version string) string {
	switch b.tag {
	case "number", "hash", "latest":
		return b.tag
	case "both":
		return "hash"
	case "l1":
		if version == "v8" {
			return "invalid"
		}
		return "l1"
	case "str":
		switch {
		case b.str == "pending" && version == "v8":
			return "pending"
		case b.str == "pre_confirmed" && version != "v8":
			return "pre"
		}
	}
	return "invalid"
}

// query is one read request, independent of API version and backend.
type query struct {
	method string // short name, see rpcName
	id     *blockID
	sub    string // kind of the non-block argument (tx-existing, idx-last, addr-system, ...)

	txHash felt.Felt
	index  int
	addr   felt.Felt
	key    felt.Felt
	class  felt.Felt
	filter []felt.Felt // v10 getStateUpdate contract_addresses (nil: absent)
	named  bool        // pass params by name instead of by position

	nullPos string // "" | "addr" | "key" | "class" | "txhash" | "index": that required argument is JSON null

	proofFacts bool // v10: pass response_flags ["INCLUDE_PROOF_FACTS"] (block with txs / receipts, tx by hash / index)

	feeder    *feederSpec // txStatus: what the feeder gateway does for this call (nil: has not received the transaction)
	submitted bool        // txStatus: the node's submitted-transactions cache holds the hash
	flags     *flagSpec   // a response_flags argument in this shape, sent to EVERY version (nil: see proofFacts / storageLU)
}

var rpcName = map[string]string{
	"blockNumber":        "starknet_blockNumber",
	"blockHashAndNumber": "starknet_blockHashAndNumber",
	"blockTxHashes":      "starknet_getBlockWithTxHashes",
	"blockTxs":           "starknet_getBlockWithTxs",
	"blockReceipts":      "starknet_getBlockWithReceipts",
	"txCount":            "starknet_getBlockTransactionCount",
	"txByHash":           "starknet_getTransactionByHash",
	"txByIdx":            "starknet_getTransactionByBlockIdAndIndex",
	"receipt":            "starknet_getTransactionReceipt",
	"txStatus":           "starknet_getTransactionStatus",
	"stateUpdate":        "starknet_getStateUpdate",
	"storage":            "starknet_getStorageAt",
	"storageLU":          "starknet_getStorageAt", // with response_flags INCLUDE_LAST_UPDATE_BLOCK (a v0.10 parameter)
	"nonce":              "starknet_getNonce",
	"classHashAt":        "starknet_getClassHashAt",
	"class":              "starknet_getClass",
	"classAt":            "starknet_getClassAt",
}

var blockMethods = []string{"blockTxHashes", "blockTxs", "blockReceipts", "txCount", "stateUpdate"}

// params builds the request parameters in the order / under the names the Starknet API
// specification gives (NOT read from juno's method tables: the tables are under test).
func (q *query) params(version string) any {
	type kv struct {
		k string
		v any
	}
	var ps []kv
	switch q.method {
	case "blockNumber", "blockHashAndNumber":
		return nil
	case "blockTxHashes", "blockTxs", "blockReceipts", "txCount":
		ps = []kv{{"block_id", q.id.json()}}
		if q.proofFacts && version == "v10" && (q.method == "blockTxs" || q.method == "blockReceipts") {
			ps = append(ps, kv{"response_flags", []string{"INCLUDE_PROOF_FACTS"}})
		}
	case "stateUpdate":
		ps = []kv{{"block_id", q.id.json()}}
		if version == "v10" && q.filter != nil {
			l := make([]string, len(q.filter))
			for i := range q.filter {
				l[i] = q.filter[i].String()
			}
			ps = append(ps, kv{"contract_addresses", l})
		}
	case "txByHash", "receipt", "txStatus":
		ps = []kv{{"transaction_hash", q.txHash.String()}}
		if q.proofFacts && version == "v10" && q.method == "txByHash" {
			ps = append(ps, kv{"response_flags", []string{"INCLUDE_PROOF_FACTS"}})
		}
	case "txByIdx":
		ps = []kv{{"block_id", q.id.json()}, {"index", q.index}}
		if q.proofFacts && version == "v10" {
			ps = append(ps, kv{"response_flags", []string{"INCLUDE_PROOF_FACTS"}})
		}
	case "storage":
		ps = []kv{{"contract_address", q.addr.String()}, {"key", q.key.String()}, {"block_id", q.id.json()}}
	case "storageLU":
		ps = []kv{{"contract_address", q.addr.String()}, {"key", q.key.String()}, {"block_id", q.id.json()},
			{"response_flags", []string{"INCLUDE_LAST_UPDATE_BLOCK"}}}
	case "nonce", "classHashAt", "classAt":
		ps = []kv{{"block_id", q.id.json()}, {"contract_address", q.addr.String()}}
	case "class":
		ps = []kv{{"block_id", q.id.json()}, {"class_hash", q.class.String()}}
	default:
		panic("unknown method " + q.method)
	}
	if q.flags != nil {
		// the response_flags family: the argument goes last (its place in the v0.10 tables), on every version
		for i := range ps {
			if ps[i].k == "response_flags" {
				ps = append(ps[:i], ps[i+1:]...)
				break
			}
		}
		if v, present := q.flags.json(); present {
			ps = append(ps, kv{"response_flags", v})
		}
	}
	if q.nullPos != "" {
		key := map[string]string{"addr": "contract_address", "key": "key", "class": "class_hash", "txhash": "transaction_hash", "index": "index"}[q.nullPos]
		for i := range ps {
			if ps[i].k == key {
				ps[i].v = nil
			}
		}
	}
	if q.named {
		m := map[string]any{}
		for _, p := range ps {
			m[p.k] = p.v
		}
		return m
	}
	l := make([]any, len(ps))
	for i, p := range ps {
		l[i] = p.v
	}
	return l
}

// leanLine is the request for the model driver.
func (q *query) leanLine(version, backend string) string {
	if q.nullPos != "" {
		s := "q " + version + " " + backend + " "
		switch {
		case q.nullPos == "txhash":
			return s + "null:txHash"
		case q.nullPos == "index":
			return s + "null:index " + q.id.lean()
		case q.nullPos == "class":
			return s + "null:class " + q.id.lean()
		case q.method == "storage" && q.nullPos == "addr":
			return s + "null:storageAddr " + q.id.lean() + " " + hxv(q.key)
		case q.method == "storage":
			return s + "null:storageKey " + q.id.lean() + " " + hxv(q.addr)
		default:
			return s + "null:" + q.method + " " + q.id.lean()
		}
	}
	if q.feeder != nil || q.submitted {
		f := feederSpec{mode: "says", fin: "notreceived", exec: "none"}
		if q.feeder != nil {
			f = *q.feeder
		}
		sub := 0
		if q.submitted {
			sub = 1
		}
		return fmt.Sprintf("q %s %s txStatusF %s %s %d", version, backend, hxv(q.txHash), f.lean(), sub)
	}
	s := "q " + version + " " + backend + " " + q.method
	if q.flags != nil {
		s = "qf " + q.flags.lean() + " " + version + " " + backend + " " + q.method
	}
	switch q.method {
	case "blockNumber", "blockHashAndNumber":
	case "blockTxHashes", "blockTxs", "blockReceipts", "txCount":
		s += " " + q.id.lean()
	case "stateUpdate":
		s += " " + q.id.lean()
		if q.filter != nil {
			l := make([]string, len(q.filter))
			for i := range q.filter {
				l[i] = hxv(q.filter[i])
			}
			s += " f=" + strings.Join(l, ",")
		}
	case "txByHash", "receipt", "txStatus":
		s += " " + hxv(q.txHash)
	case "txByIdx":
		if q.index < 0 {
			s += fmt.Sprintf(" %s -%x", q.id.lean(), -q.index)
		} else {
			s += fmt.Sprintf(" %s %x", q.id.lean(), q.index)
		}
	case "storage", "storageLU":
		s += " " + q.id.lean() + " " + hxv(q.addr) + " " + hxv(q.key)
	case "nonce", "classHashAt", "classAt":
		s += " " + q.id.lean() + " " + hxv(q.addr)
	case "class":
		s += " " + q.id.lean() + " " + hxv(q.class)
	}
	return s
}

// kindKey identifies the combination "method x id kind x argument kind" (the unit counted as a
// validated program, per version).
func (q *query) kindKey() string {
	k := q.method
	if q.id != nil {
		k += "/" + q.id.kind
	}
	if q.sub != "" {
		k += "/" + q.sub
	}
	if q.nullPos != "" {
		k += "/null-" + q.nullPos
	}
	if q.feeder != nil {
		k += "/feeder-" + q.feeder.lean()
	}
	if q.submitted {
		k += "/submitted"
	}
	if q.flags != nil {
		k += "/flags-" + q.flags.name
	}
	return k
}

func (q *query) describe(version string) map[string]any {
	m := map[string]any{"method": rpcName[q.method], "params": q.params(version), "version": version}
	return m
}

// ---------------------------------------------------------------------------------------------
// generation
// ---------------------------------------------------------------------------------------------

// blockIDs draws one identifier of every kind that is available in the current world.
func (w *world) blockIDs(r *lib.RNG) []*blockID {
	h := w.height()
	var ids []*blockID
	add := func(b blockID) { ids = append(ids, &b) }
	if h > 0 {
		n := uint64(r.Intn(h))
		add(blockID{tag: "number", num: n, kind: w.regionKind(int(n), "num-existing", false)})
		add(blockID{tag: "number", num: uint64(h - 1), kind: w.regionKind(h-1, "num-head", false)})
		if r.Bool() {
			add(blockID{tag: "number", num: 0, kind: w.regionKind(0, "num-existing", false)})
		}
		m := r.Intn(h)
		add(blockID{tag: "hash", hash: *w.g.Bundles[m].Block.Hash, kind: w.regionKind(m, "hash-existing", true)})
		if r.Chance(1, 3) {
			add(blockID{tag: "hash", hash: *w.g.Bundles[h-1].Block.Hash, kind: w.regionKind(h-1, "hash-existing", true)})
		}
		if w.l1 != nil && int(*w.l1) < h {
			// the boundary of finality: the block the L1 head points at, and the one after it
			add(blockID{tag: "number", num: *w.l1, kind: w.regionKind(int(*w.l1), "num-l1", false)})
			if int(*w.l1)+1 < h {
				add(blockID{tag: "number", num: *w.l1 + 1, kind: w.regionKind(int(*w.l1)+1, "num-l1", false)})
			}
		}
		// a pruned node: every region around the floor, by number and by hash
		ids = append(ids, w.prunedIDs(r)...)
	}
	missing := []uint64{uint64(h), uint64(h) + 1, uint64(h) + uint64(1+r.Intn(50)), 1 << 32, math.MaxInt64, math.MaxUint64}
	add(blockID{tag: "number", num: lib.Pick(r, missing), kind: "num-missing"})
	add(blockID{tag: "number", num: uint64(h), kind: "num-missing"})
	rnd := new(felt.Felt).SetBytes(r.Bytes(31))
	add(blockID{tag: "hash", hash: *rnd, kind: "hash-missing"})
	add(blockID{tag: "hash", hash: felt.Zero, kind: "hash-zero"})
	if len(w.revertedBlocks) > 0 {
		rb := lib.Pick(r, w.revertedBlocks)
		if !w.onChain(&rb) {
			add(blockID{tag: "hash", hash: rb, kind: "hash-reverted"})
		}
		last := w.revertedBlocks[len(w.revertedBlocks)-1]
		if !w.onChain(&last) && !last.Equal(&rb) {
			add(blockID{tag: "hash", hash: last, kind: "hash-reverted"})
		}
	}
	add(blockID{tag: "latest", kind: "latest"})
	add(blockID{tag: "l1", kind: "l1_accepted"})
	add(blockID{tag: "str", str: "pending", kind: "tag-pending"})
	if !w.preConfirmed {
		add(blockID{tag: "str", str: "pre_confirmed", kind: "tag-pre_confirmed"})
	}
	add(blockID{tag: "str", str: lib.Pick(r, []string{"", "Latest", "earliest", "0x1", "pre-confirmed"}), kind: "tag-unknown"})
	add(blockID{tag: "empty", kind: "obj-empty"})
	add(blockID{tag: "other", num: uint64(r.Intn(nOtherIDs)), kind: "not-an-id"})
	add(blockID{tag: "null", kind: "id-null"})
	add(blockID{tag: "nullnum", kind: "obj-null-number"})
	if h > 0 {
		// both members: block_hash wins
		m := r.Intn(h)
		if w.prunedBelow > 0 {
			m = w.prunedBelow + r.Intn(h-w.prunedBelow)
		}
		add(blockID{tag: "both", hash: *w.g.Bundles[m].Block.Hash, num: uint64(h + 3), kind: "obj-both"})
	}
	return ids
}

func (w *world) onChain(h *felt.Felt) bool {
	for _, b := range w.g.Bundles {
		if b.Block.Hash.Equal(h) {
			return true
		}
	}
	return false
}

func (w *world) txOnChain(h *felt.Felt) bool {
	for _, b := range w.g.Bundles {
		for _, tx := range b.Block.Transactions {
			if tx.Hash().Equal(h) {
				return true
			}
		}
	}
	return false
}

// addrUniverse: the generator's addresses (system contracts 0x1, 0x2 first), plus 0x0 and an
// address nothing ever touches.
func (w *world) addrUniverse() []felt.Felt {
	var out []felt.Felt
	for i := 0; i < w.g.NAddrs(); i++ {
		out = append(out, w.g.Addr(i))
	}
	out = append(out, felt.Zero, *lib.F(0x999))
	return out
}

func (w *world) slotUniverse() []felt.Felt {
	var out []felt.Felt
	for i := 0; i < w.g.Opt.NSlots; i++ {
		out = append(out, w.g.Slot(i))
	}
	out = append(out, *lib.F(0x777))
	return out
}

func addrKind(a *felt.Felt) string {
	switch {
	case a.Equal(lib.F(1)) || a.Equal(lib.F(2)):
		return "addr-system"
	case a.IsZero():
		return "addr-zero"
	default:
		return "addr-ordinary"
	}
}

// round generates the queries of one checkpoint: every method x every id kind, transaction
// hashes / indices of every kind, and (contract, slot) pairs biased to those the chain wrote.
func (w *world) round(r *lib.RNG, pairsPerID, txPerKind int) []*query {
	var qs []*query
	add := func(q query) {
		q.named = r.Bool()
		switch q.method {
		case "blockTxs", "blockReceipts", "txByHash", "txByIdx":
			q.proofFacts = r.Chance(1, 3)
		}
		q.fixFlags()
		qs = append(qs, &q)
	}
	add(query{method: "blockNumber"})
	add(query{method: "blockHashAndNumber"})

	ids := w.blockIDs(r)
	for _, id := range ids {
		for _, m := range blockMethods {
			q := query{method: m, id: id}
			if m == "stateUpdate" && r.Chance(1, 3) {
				// v10 filter: a random subset of the address universe (possibly empty)
				u := w.addrUniverse()
				q.filter = []felt.Felt{}
				for _, a := range u {
					if r.Chance(1, 3) {
						q.filter = append(q.filter, a)
						if r.Chance(1, 4) {
							q.filter = append(q.filter, a) // the same address twice
						}
					}
				}
				q.sub = "filtered"
			}
			add(q)
		}
		// transaction by block id and index: first, last, one past the end, far past
		cnt := 0
		if n, ok := w.propResolve(id); ok {
			cnt = len(w.g.Bundles[n].Block.Transactions)
		}
		idxs := map[int]string{0: "idx-first", cnt: "idx-count", cnt + 1 + r.Intn(1000): "idx-far", -1 - r.Intn(3): "idx-negative"}
		if cnt > 0 {
			idxs[cnt-1] = "idx-last"
			idxs[r.Intn(cnt)] = "idx-inside"
		}
		if cnt == 0 {
			idxs[0] = "idx-count"
		}
		for _, i := range sortedInts(idxs) {
			add(query{method: "txByIdx", id: id, index: i, sub: idxs[i]})
		}
	}

	// transactions by hash
	type th struct {
		h    felt.Felt
		kind string
	}
	var hashes []th
	var onchain []felt.Felt
	for _, b := range w.g.Bundles {
		for _, tx := range b.Block.Transactions {
			onchain = append(onchain, *tx.Hash())
		}
	}
	for i := 0; i < txPerKind && len(onchain) > 0; i++ {
		hashes = append(hashes, th{lib.Pick(r, onchain), "tx-existing"})
	}
	for n := 0; n < w.prunedBelow && n < w.height(); n++ {
		// transactions of pruned blocks: of the oldest ones, of the one right below the floor
		if n == 0 || n >= w.prunedBelow-2 {
			for _, tx := range w.g.Bundles[n].Block.Transactions {
				hashes = append(hashes, th{*tx.Hash(), "tx-pruned"})
				break
			}
		}
	}
	for i := range hashes {
		hashes[i].kind = w.txKindOf(&hashes[i].h, hashes[i].kind)
	}
	if w.l1 != nil && int(*w.l1) < w.height() {
		// transactions of the block at the finality boundary and of the one after it
		for _, n := range []int{int(*w.l1), int(*w.l1) + 1} {
			if n < w.height() {
				for _, tx := range w.g.Bundles[n].Block.Transactions {
					hashes = append(hashes, th{*tx.Hash(), "tx-l1-boundary"})
					break
				}
			}
		}
	}
	if h := w.height(); h > 0 {
		for _, tx := range w.g.Bundles[h-1].Block.Transactions {
			hashes = append(hashes, th{*tx.Hash(), "tx-head"})
			break
		}
	}
	hashes = append(hashes, th{*new(felt.Felt).SetBytes(r.Bytes(31)), "tx-missing"}, th{felt.Zero, "tx-zero"})
	for i := 0; i < txPerKind && len(w.revertedTxs) > 0; i++ {
		h := lib.Pick(r, w.revertedTxs)
		if !w.txOnChain(&h) {
			hashes = append(hashes, th{h, "tx-reverted"})
		}
	}
	for _, h := range hashes {
		for _, m := range []string{"txByHash", "receipt", "txStatus"} {
			add(query{method: m, txHash: h.h, sub: w.txKindOf(&h.h, h.kind)})
		}
	}

	// getTransactionStatus with the feeder gateway saying something: for a hash on the chain (the
	// gateway must not be asked, let alone believed), one never seen, one reverted off the chain
	{
		var subjects []th
		if len(onchain) > 0 {
			sj := lib.Pick(r, onchain)
			subjects = append(subjects, th{sj, w.txKindOf(&sj, "tx-existing")})
		}
		subjects = append(subjects, th{*new(felt.Felt).SetBytes(r.Bytes(31)), "tx-missing"})
		for i := range w.revertedTxs {
			if !w.txOnChain(&w.revertedTxs[len(w.revertedTxs)-1-i]) {
				subjects = append(subjects, th{w.revertedTxs[len(w.revertedTxs)-1-i], "tx-reverted"})
				break
			}
		}
		for _, sj := range subjects {
			for k := 0; k < 3; k++ {
				f := feederSpec{mode: "says", fin: lib.Pick(r, feederFins), exec: lib.Pick(r, feederExecs)}
				add(query{method: "txStatus", txHash: sj.h, sub: sj.kind, feeder: &f})
			}
			f := feederSpec{mode: lib.Pick(r, []string{"none", "err"})}
			add(query{method: "txStatus", txHash: sj.h, sub: sj.kind, feeder: &f})
		}
		// the node itself submitted the transaction (fresh hashes: the cache never forgets)
		add(query{method: "txStatus", txHash: w.freshSubmitHash(), sub: "tx-missing", submitted: true})
		f := feederSpec{mode: "says", fin: lib.Pick(r, feederFins), exec: lib.Pick(r, feederExecs)}
		add(query{method: "txStatus", txHash: w.freshSubmitHash(), sub: "tx-missing", submitted: true, feeder: &f})
		if len(onchain) > 0 && r.Chance(1, 3) {
			sj := lib.Pick(r, onchain)
			add(query{method: "txStatus", txHash: sj, sub: w.txKindOf(&sj, "tx-existing"), submitted: true})
		}
	}

	// the response_flags argument in every shape, on methods that have it and on one that does not
	{
		cases := flagCases()
		fid := &blockID{tag: "latest", kind: "latest"}
		for _, m := range []string{"storage", "blockTxs", "blockReceipts", "txByIdx", "nonce"} {
			for k := 0; k < 2; k++ {
				fc := lib.Pick(r, cases)
				q := query{method: m, id: lib.Pick(r, ids), flags: &fc, index: 0, sub: "idx-first"}
				if k == 0 {
					q.id = fid
				}
				switch m {
				case "storage", "nonce":
					q.addr, q.key = lib.Pick(r, w.addrUniverse()), lib.Pick(r, w.slotUniverse())
					if wp := w.writtenPairs(); len(wp) > 0 && r.Bool() {
						p := lib.Pick(r, wp)
						q.addr, q.key = p[0], p[1]
					}
					q.sub = addrKind(&q.addr)
				case "blockTxs", "blockReceipts":
					q.sub = ""
				}
				add(q)
			}
		}
		if len(onchain) > 0 {
			fc := lib.Pick(r, cases)
			sj := lib.Pick(r, onchain)
			add(query{method: "txByHash", txHash: sj, sub: w.txKindOf(&sj, "tx-existing"), flags: &fc})
		}
	}

	// JSON null where a hash / an index / an address / a key / a class hash is required
	for _, m := range []string{"txByHash", "receipt", "txStatus"} {
		add(query{method: m, nullPos: "txhash", sub: "tx-null"})
	}
	for _, id := range ids {
		if !r.Chance(1, 3) {
			continue
		}
		a := lib.Pick(r, w.addrUniverse())
		add(query{method: "txByIdx", id: id, nullPos: "index", sub: "idx-null"})
		add(query{method: "nonce", id: id, nullPos: "addr"})
		add(query{method: "classHashAt", id: id, nullPos: "addr"})
		add(query{method: "classAt", id: id, nullPos: "addr"})
		add(query{method: "class", id: id, nullPos: "class"})
		add(query{method: "storage", id: id, key: *lib.F(1), nullPos: "addr"})
		add(query{method: "storage", id: id, addr: a, nullPos: "key", sub: addrKind(&a)})
	}

	// state reads
	addrs := w.addrUniverse()
	slots := w.slotUniverse()
	written := w.writtenPairs()
	classes := w.classUniverse()
	for _, id := range ids {
		for i := 0; i < pairsPerID; i++ {
			var a, k felt.Felt
			if len(written) > 0 && r.Chance(2, 3) {
				p := lib.Pick(r, written)
				a, k = p[0], p[1]
			} else {
				a, k = lib.Pick(r, addrs), lib.Pick(r, slots)
			}
			add(query{method: "storage", id: id, addr: a, key: k, sub: addrKind(&a)})
			if i == 0 {
				add(query{method: "storageLU", id: id, addr: a, key: k, sub: addrKind(&a)})
			}
		}
		for i := 0; i < pairsPerID; i++ {
			a := lib.Pick(r, addrs)
			add(query{method: "nonce", id: id, addr: a, sub: addrKind(&a)})
			a = lib.Pick(r, addrs)
			add(query{method: "classHashAt", id: id, addr: a, sub: addrKind(&a)})
			a = lib.Pick(r, addrs)
			add(query{method: "classAt", id: id, addr: a, sub: addrKind(&a)})
			c := lib.Pick(r, classes)
			add(query{method: "class", id: id, class: c.h, sub: c.kind})
		}
	}
	return qs
}

func sortedInts(m map[int]string) []int {
	var ks []int
	for k := range m {
		ks = append(ks, k)
	}
	for i := 1; i < len(ks); i++ {
		for j := i; j > 0 && ks[j] < ks[j-1]; j-- {
			ks[j], ks[j-1] = ks[j-1], ks[j]
		}
	}
	return ks
}

// writtenPairs lists every (address, slot) some block of the current chain wrote.
func (w *world) writtenPairs() [][2]felt.Felt {
	seen := map[[2]felt.Felt]struct{}{}
	var out [][2]felt.Felt
	for _, b := range w.g.Bundles {
		for _, a := range sortedKeys(b.SU.StateDiff.StorageDiffs) {
			for _, k := range sortedKeys(b.SU.StateDiff.StorageDiffs[a]) {
				p := [2]felt.Felt{a, k}
				if _, ok := seen[p]; !ok {
					seen[p] = struct{}{}
					out = append(out, p)
				}
			}
		}
	}
	return out
}

type classPick struct {
	h    felt.Felt
	kind string
}

// classUniverse: every class ever offered (on chain or reverted), the undeclared deployment
// targets of the generator, and a random hash.
func (w *world) classUniverse() []classPick {
	var out []classPick
	head := w.g.HeadState()
	for _, c := range sortedKeys(w.classDefs) {
		kind := "class-declared"
		if _, ok := head.Classes[c]; !ok {
			kind = "class-reverted"
		}
		out = append(out, classPick{c, kind})
	}
	out = append(out, classPick{w.g.ClassHash(0), "class-undeclared"}, classPick{*lib.F(0x31337), "class-undeclared"},
		classPick{felt.Zero, "class-undeclared"})
	return out
}

// warm: questions about the top blocks (those a reorg is about to drop) through every kind of id
// and every method, so that anything on the read path that memoises has seen them.
func (w *world) warm(r *lib.RNG) []*query {
	var qs []*query
	add := func(q query) {
		q.named = r.Bool()
		qs = append(qs, &q)
	}
	h := w.height()
	addrs := w.addrUniverse()
	for n := h - 1; n >= 0 && n >= h-3; n-- {
		b := w.g.Bundles[n]
		ids := []*blockID{{tag: "number", num: uint64(n), kind: w.regionKind(n, "num-existing", false)}, {tag: "hash", hash: *b.Block.Hash, kind: w.regionKind(n, "hash-existing", true)}}
		if n == h-1 {
			ids = append(ids, &blockID{tag: "latest", kind: "latest"})
		}
		for _, id := range ids {
			for _, m := range blockMethods {
				add(query{method: m, id: id})
			}
			add(query{method: "txByIdx", id: id, index: 0, sub: "idx-first"})
			for _, p := range w.writtenPairs() {
				if r.Chance(1, 3) {
					add(query{method: "storage", id: id, addr: p[0], key: p[1], sub: addrKind(&p[0])})
				}
			}
			for _, a := range addrs {
				if r.Chance(1, 3) {
					a := a
					add(query{method: "nonce", id: id, addr: a, sub: addrKind(&a)})
					add(query{method: "classAt", id: id, addr: a, sub: addrKind(&a)})
				}
			}
			for c := range b.Classes {
				add(query{method: "class", id: id, class: c, sub: "class-declared"})
				break
			}
		}
		for _, tx := range b.Block.Transactions {
			for _, m := range []string{"txByHash", "receipt", "txStatus"} {
				add(query{method: m, txHash: *tx.Hash(), sub: w.txKindOf(tx.Hash(), "tx-existing")})
			}
		}
	}
	add(query{method: "blockNumber"})
	add(query{method: "blockHashAndNumber"})
	return qs
}

// txKindOf: a transaction of a pruned block is its own kind of argument.
func (w *world) txKindOf(h *felt.Felt, base string) string {
	if w.prunedBelow == 0 {
		return base
	}
	if bn, _, ok := w.findTx(h); ok && bn < w.prunedBelow {
		return "tx-pruned"
	}
	return base
}

// exhaustive: the whole space of a small chain — every block number 0..height+1, every hash the
// node ever saw, every tag and malformed id, x every method; every index -1..count+1; every
// transaction hash ever seen; every (address, slot) and class of the universes.
func (w *world) exhaustive() []*query {
	var qs []*query
	flip := false
	add := func(q query) {
		flip = !flip
		q.named = flip
		qs = append(qs, &q)
	}
	h := w.height()
	// on a long chain (the pruned-node histories) the block numbers / hashes are restricted to the
	// neighbourhoods of every boundary: genesis, the header window below the floor, the floor, the
	// width boundary of the CBOR-encoded block number (23 | 24), the head
	near := func(n int) bool {
		if h <= 12 {
			return true
		}
		e := w.prunedBelow
		lag := e - int(core.BlockHashLag)
		return n <= 1 || (n >= lag-2 && n <= lag+1) || (n >= e-2 && n <= e+1) || (n >= 22 && n <= 25) || n >= h-2
	}
	var ids []*blockID
	for n := 0; n <= h+1; n++ {
		if !near(n) {
			continue
		}
		kind := "num-existing"
		switch {
		case n >= h:
			kind = "num-missing"
		case n == h-1:
			kind = "num-head"
		case w.l1 != nil && (uint64(n) == *w.l1 || uint64(n) == *w.l1+1):
			kind = "num-l1"
		}
		if n < h {
			kind = w.regionKind(n, kind, false)
		}
		ids = append(ids, &blockID{tag: "number", num: uint64(n), kind: kind})
	}
	for n, b := range w.g.Bundles {
		if !near(n) {
			continue
		}
		ids = append(ids, &blockID{tag: "hash", hash: *b.Block.Hash, kind: w.regionKind(n, "hash-existing", true)})
	}
	for i := range w.revertedBlocks {
		if !w.onChain(&w.revertedBlocks[i]) {
			ids = append(ids, &blockID{tag: "hash", hash: w.revertedBlocks[i], kind: "hash-reverted"})
		}
	}
	ids = append(ids, &blockID{tag: "hash", hash: felt.Zero, kind: "hash-zero"}, &blockID{tag: "hash", hash: *lib.F(0xabcdef), kind: "hash-missing"},
		&blockID{tag: "latest", kind: "latest"}, &blockID{tag: "l1", kind: "l1_accepted"},
		&blockID{tag: "str", str: "pending", kind: "tag-pending"},
		&blockID{tag: "str", str: "earliest", kind: "tag-unknown"}, &blockID{tag: "empty", kind: "obj-empty"},
		&blockID{tag: "null", kind: "id-null"}, &blockID{tag: "nullnum", kind: "obj-null-number"})
	for i := 0; i < nOtherIDs; i++ {
		ids = append(ids, &blockID{tag: "other", num: uint64(i), kind: "not-an-id"})
	}
	if h > 0 {
		ids = append(ids, &blockID{tag: "both", hash: *w.g.Bundles[w.prunedBelow].Block.Hash, num: uint64(h - 1), kind: "obj-both"})
	}
	if !w.preConfirmed {
		ids = append(ids, &blockID{tag: "str", str: "pre_confirmed", kind: "tag-pre_confirmed"})
	}
	add(query{method: "blockNumber"})
	add(query{method: "blockHashAndNumber"})
	addrs, slots, classes := w.addrUniverse(), w.slotUniverse(), w.classUniverse()
	writtenSet := map[[2]felt.Felt]bool{}
	for _, p := range w.writtenPairs() {
		writtenSet[p] = true
	}
	for _, id := range ids {
		for _, m := range blockMethods {
			add(query{method: m, id: id})
		}
		cnt := 0
		if n, ok := w.propResolve(id); ok {
			cnt = len(w.g.Bundles[n].Block.Transactions)
		}
		for i := -1; i <= cnt+1; i++ {
			sub := "idx-inside"
			switch {
			case i < 0:
				sub = "idx-negative"
			case i == cnt:
				sub = "idx-count"
			case i > cnt:
				sub = "idx-far"
			case i == 0:
				sub = "idx-first"
			case i == cnt-1:
				sub = "idx-last"
			}
			add(query{method: "txByIdx", id: id, index: i, sub: sub})
		}
		for i := range addrs {
			a := addrs[i]
			for _, k := range slots {
				add(query{method: "storage", id: id, addr: a, key: k, sub: addrKind(&a)})
				if writtenSet[[2]felt.Felt{a, k}] {
					add(query{method: "storageLU", id: id, addr: a, key: k, sub: addrKind(&a)})
				}
			}
			add(query{method: "nonce", id: id, addr: a, sub: addrKind(&a)})
			add(query{method: "classHashAt", id: id, addr: a, sub: addrKind(&a)})
			add(query{method: "classAt", id: id, addr: a, sub: addrKind(&a)})
		}
		for _, c := range classes {
			add(query{method: "class", id: id, class: c.h, sub: c.kind})
		}
		add(query{method: "txByIdx", id: id, nullPos: "index", sub: "idx-null"})
		add(query{method: "nonce", id: id, nullPos: "addr"})
		add(query{method: "classHashAt", id: id, nullPos: "addr"})
		add(query{method: "classAt", id: id, nullPos: "addr"})
		add(query{method: "class", id: id, nullPos: "class"})
		add(query{method: "storage", id: id, key: *lib.F(1), nullPos: "addr"})
		for i := range addrs {
			a := addrs[i]
			add(query{method: "storage", id: id, addr: a, nullPos: "key", sub: addrKind(&a)})
		}
	}
	for _, m := range []string{"txByHash", "receipt", "txStatus"} {
		add(query{method: m, nullPos: "txhash", sub: "tx-null"})
	}
	for _, b := range w.g.Bundles {
		for _, tx := range b.Block.Transactions {
			for _, m := range []string{"txByHash", "receipt", "txStatus"} {
				add(query{method: m, txHash: *tx.Hash(), sub: w.txKindOf(tx.Hash(), "tx-existing")})
			}
		}
	}
	for i := range w.revertedTxs {
		if !w.txOnChain(&w.revertedTxs[i]) {
			for _, m := range []string{"txByHash", "receipt", "txStatus"} {
				add(query{method: m, txHash: w.revertedTxs[i], sub: "tx-reverted"})
			}
		}
	}
	for _, m := range []string{"txByHash", "receipt", "txStatus"} {
		add(query{method: m, txHash: felt.Zero, sub: "tx-zero"})
		add(query{method: m, txHash: *lib.F(0x123456), sub: "tx-missing"})
	}
	// every answer the feeder gateway can give x a hash on the chain / never seen / reverted
	{
		type th struct {
			h    felt.Felt
			kind string
		}
		subjects := []th{{*lib.F(0x123457), "tx-missing"}}
		for n, b := range w.g.Bundles {
			if len(b.Block.Transactions) > 0 && n >= w.prunedBelow {
				subjects = append(subjects, th{*b.Block.Transactions[0].Hash(), "tx-existing"})
				break
			}
		}
		for i := range w.revertedTxs {
			if !w.txOnChain(&w.revertedTxs[i]) {
				subjects = append(subjects, th{w.revertedTxs[i], "tx-reverted"})
				break
			}
		}
		for n := w.prunedBelow - 1; n >= 0; n-- {
			// the gateway's answers for a transaction the node has pruned (newest pruned block with one)
			if n < w.height() && len(w.g.Bundles[n].Block.Transactions) > 0 {
				subjects = append(subjects, th{*w.g.Bundles[n].Block.Transactions[0].Hash(), "tx-pruned"})
				break
			}
		}
		for _, sj := range subjects {
			for _, fin := range feederFins {
				for _, ex := range feederExecs {
					f := feederSpec{mode: "says", fin: fin, exec: ex}
					add(query{method: "txStatus", txHash: sj.h, sub: sj.kind, feeder: &f})
				}
			}
			for _, mode := range []string{"none", "err"} {
				f := feederSpec{mode: mode}
				add(query{method: "txStatus", txHash: sj.h, sub: sj.kind, feeder: &f})
			}
		}
		for _, fin := range feederFins {
			f := feederSpec{mode: "says", fin: fin, exec: "none"}
			add(query{method: "txStatus", txHash: w.freshSubmitHash(), sub: "tx-missing", submitted: true, feeder: &f})
		}
		for _, mode := range []string{"none", "err"} {
			f := feederSpec{mode: mode}
			add(query{method: "txStatus", txHash: w.freshSubmitHash(), sub: "tx-missing", submitted: true, feeder: &f})
		}
		add(query{method: "txStatus", txHash: w.freshSubmitHash(), sub: "tx-missing", submitted: true})
		if len(subjects) > 1 && subjects[1].kind == "tx-existing" {
			add(query{method: "txStatus", txHash: subjects[1].h, sub: "tx-existing", submitted: true})
		}
	}
	// every shape of response_flags x every method that has the parameter (and two that do not) x
	// an id that resolves, one that does not, one that is no id
	{
		fids := []*blockID{{tag: "latest", kind: "latest"}, {tag: "number", num: uint64(w.prunedBelow), kind: w.regionKind(w.prunedBelow, "num-existing", false)},
			{tag: "hash", hash: *lib.F(0xabcdef), kind: "hash-missing"}, {tag: "str", str: "earliest", kind: "tag-unknown"}}
		if h == 0 {
			fids[1].kind = "num-missing"
		}
		wp := w.writtenPairs()
		for _, fc := range flagCases() {
			fc := fc
			for _, id := range fids {
				for _, m := range []string{"blockTxs", "blockReceipts", "txCount"} {
					add(query{method: m, id: id, flags: &fc})
				}
				add(query{method: "txByIdx", id: id, index: 0, sub: "idx-first", flags: &fc})
				a, k := addrs[len(addrs)-1], slots[0]
				if len(wp) > 0 {
					a, k = wp[0][0], wp[0][1]
				}
				add(query{method: "storage", id: id, addr: a, key: k, sub: addrKind(&a), flags: &fc})
				add(query{method: "nonce", id: id, addr: a, sub: addrKind(&a), flags: &fc})
			}
			for n, b := range w.g.Bundles {
				if len(b.Block.Transactions) > 0 && n >= w.prunedBelow {
					add(query{method: "txByHash", txHash: *b.Block.Transactions[0].Hash(), sub: "tx-existing", flags: &fc})
					break
				}
			}
			add(query{method: "txByHash", txHash: *lib.F(0x123456), sub: "tx-missing", flags: &fc})
			add(query{method: "receipt", txHash: *lib.F(0x123456), sub: "tx-missing", flags: &fc})
		}
	}
	for _, q := range qs {
		q.fixFlags()
	}
	return qs
}

// fixFlags: a query of the response_flags family says itself whether INCLUDE_PROOF_FACTS is on (the
// deep comparison of the payload needs to know).
func (q *query) fixFlags() {
	if q.flags == nil {
		return
	}
	q.proofFacts = false
	if q.flags.kind == "list" && len(q.flags.list) > 0 {
		q.proofFacts = true
		for _, f := range q.flags.list {
			if f != flagPF {
				q.proofFacts = false
			}
		}
	}
}

// freshSubmitHash: a transaction hash nothing else uses (the submitted-transactions cache of a
// node cannot be made to forget a hash).
func (w *world) freshSubmitHash() felt.Felt {
	w.submitSeq++
	return *lib.F(0x5ab0000000 + w.submitSeq)
}
