//go:build verif

package main

import (
	"fmt"
	"strings"

	"github.com/NethermindEth/juno/core"
	"github.com/NethermindEth/juno/core/felt"
	"verif/harness/lib"
)

// ---------------------------------------------------------------------------------------------
// Old blocks. Blocks produced before protocol 0.13.2 lack header fields that the API schemas of all
// three served versions require (sequencer address, STRK price of L1 gas, L1 data gas price, L2 gas
// price — nil pointers in core.Header); the header adapters of rpc/v8, rpc/v9, rpc/v10 fill in
// defaults, each in its own way. The shared chain generator only makes 0.13.2+ blocks with every
// field set, so this family manufactures its own little chain: empty blocks (no transactions, empty
// state diff: the state root stays 0x0 on both backends) of versions "" .. 0.13.1.1 with every
// pattern of missing fields, hashed by juno's own core.BlockHash and stored the way sync stores
// (SanityCheckNewHeight verifies the hash, then Store). Every block is then read back through the
// three block methods of the three versions on both backends by number, by hash and by tag; the
// usual projection is compared with the Lean model (the blocks are fed to the driver like any
// other) and with the chain, and the optional header fields with the model's `adaptHeader` of that
// version and with what the block holds.
// ---------------------------------------------------------------------------------------------

type legacyBlock struct {
	b *lib.Bundle
}

func optS(f *felt.Felt) string {
	if f == nil {
		return "-"
	}
	return hx(f)
}

func priceS(p *core.GasPrice) string {
	if p == nil {
		return "-"
	}
	return optS(p.PriceInWei) + "/" + optS(p.PriceInFri)
}

// hdrLean is the `hdr` request of the model driver for a stored header.
func hdrLean(ver string, h *core.Header) string {
	return fmt.Sprintf("hdr %s %s %s %s %s %s %x", ver, optS(h.SequencerAddress), optS(h.L1GasPriceETH), optS(h.L1GasPriceSTRK),
		priceS(h.L1DataGasPrice), priceS(h.L2GasPrice), uint64(h.L1DAMode))
}

// hdrProjection reads the same fields off a block answer.
func hdrProjection(o jobj) string {
	jv := func(v any, present bool) string {
		if !present {
			return "missing"
		}
		if v == nil {
			return "null"
		}
		s, ok := v.(string)
		if !ok {
			return fmt.Sprintf("not-a-string(%T)", v)
		}
		f, err := new(felt.Felt).SetString(s)
		if err != nil {
			return "not-a-felt"
		}
		return hx(f)
	}
	price := func(key string) string {
		p, ok := o[key].(jobj)
		if !ok {
			return "missing/missing"
		}
		w, hw := p["price_in_wei"]
		f, hf := p["price_in_fri"]
		return jv(w, hw) + "/" + jv(f, hf)
	}
	seq, hs := o["sequencer_address"]
	da, _ := o["l1_da_mode"].(string)
	n := 0
	extra := []string{"transaction_commitment", "event_commitment", "receipt_commitment", "state_diff_commitment", "event_count", "transaction_count", "state_diff_length"}
	for _, k := range extra {
		if _, ok := o[k]; ok {
			n++
		}
	}
	c := "partial"
	switch n {
	case 0:
		c = "0"
	case len(extra):
		c = "1"
	}
	return fmt.Sprintf("seq=%s l1=%s l1d=%s l2=%s da=%s c=%s", jv(seq, hs), price("l1_gas_price"), price("l1_data_gas_price"), price("l2_gas_price"), da, c)
}

// hdrProblems: the property's view. A value the block holds must be returned as it is; a value the
// block does not hold must still be a felt (the schemas require the field; which default is the
// adapter's choice); the DA mode is the block's; the commitments belong to v0.10.
func hdrProblems(ver string, h *core.Header, proj string) []string {
	var out []string
	fields := map[string]string{}
	for _, kv := range strings.Fields(proj) {
		i := strings.Index(kv, "=")
		fields[kv[:i]] = kv[i+1:]
	}
	check := func(name, got string, have *felt.Felt) {
		switch {
		case got == "null" || got == "missing" || strings.HasPrefix(got, "not-"):
			out = append(out, name+":"+got)
		case have != nil && got != hx(have):
			out = append(out, fmt.Sprintf("%s:wrong-value (block holds %s, answer %s)", name, hx(have), got))
		}
	}
	pair := func(name, got string, have *core.GasPrice, wei, fri *felt.Felt) {
		parts := strings.SplitN(got, "/", 2)
		if len(parts) != 2 {
			out = append(out, name+":unreadable")
			return
		}
		if have != nil {
			wei, fri = have.PriceInWei, have.PriceInFri
		}
		check(name+".price_in_wei", parts[0], wei)
		check(name+".price_in_fri", parts[1], fri)
	}
	check("sequencer_address", fields["seq"], h.SequencerAddress)
	pair("l1_gas_price", fields["l1"], nil, h.L1GasPriceETH, h.L1GasPriceSTRK)
	pair("l1_data_gas_price", fields["l1d"], h.L1DataGasPrice, nil, nil)
	pair("l2_gas_price", fields["l2"], h.L2GasPrice, nil, nil)
	wantDA := "CALLDATA"
	if h.L1DAMode == core.Blob {
		wantDA = "BLOB"
	}
	if fields["da"] != wantDA {
		out = append(out, fmt.Sprintf("l1_da_mode:wrong-value (block holds %s, answer %s)", wantDA, fields["da"]))
	}
	wantC := "0"
	if ver == "v10" {
		wantC = "1"
	}
	if fields["c"] != wantC {
		out = append(out, "commitments:"+fields["c"])
	}
	return out
}

const sigV8NullGasPrice = "legacy-header:v8:l1_gas_price.price_in_wei:null"

var legacyVersions = []string{"", "0.9.1", "0.11.0", "0.12.3", "0.13.0", "0.13.1", "0.13.1.1"}

func (h *harness) legacyHeaders(s int, r *lib.RNG) error {
	net := lib.TestNetwork()
	var nodes []*rpcNode
	for _, ns := range []bool{false, true} {
		bc, kv := lib.NewNode(net, ns)
		n, err := newRPCNode(bc, kv, ns)
		if err != nil {
			return err
		}
		nodes = append(nodes, n)
	}
	pick := func() *felt.Felt {
		// present values include the two defaults in use (0 and 1): "present 0" is not "absent"
		return lib.F(lib.Pick(r, []uint64{0, 1, 2, 7, 0x64, 0xffff}))
	}
	maybe := func(nilOneIn int) *felt.Felt {
		if r.Chance(1, nilOneIn) {
			return nil
		}
		return pick()
	}
	price := func() *core.GasPrice {
		if r.Chance(1, 3) {
			return nil
		}
		return &core.GasPrice{PriceInWei: maybe(4), PriceInFri: maybe(4)}
	}
	var chain []*lib.Bundle
	parent := &felt.Zero
	k := 6 + r.Intn(4)
	vi := 0
	var history []string
	for i := 0; i < k; i++ {
		if vi+1 < len(legacyVersions) && r.Chance(1, 2) {
			vi++
		}
		hdr := &core.Header{ParentHash: parent, Number: uint64(i), Timestamp: 1_600_000_000 + uint64(i)*30, ProtocolVersion: legacyVersions[vi],
			EventsBloom: core.EventsBloom(nil), Signatures: [][]*felt.Felt{}, GlobalStateRoot: &felt.Zero,
			SequencerAddress: maybe(2), L1GasPriceETH: maybe(3), L1GasPriceSTRK: maybe(2), L1DataGasPrice: price(), L2GasPrice: price(),
			L1DAMode: core.L1DAMode(r.Intn(2))}
		if i == 0 {
			// the barest header there is
			hdr.SequencerAddress, hdr.L1GasPriceETH, hdr.L1GasPriceSTRK, hdr.L1DataGasPrice, hdr.L2GasPrice = nil, nil, nil, nil, nil
		}
		b := &lib.Bundle{Block: &core.Block{Header: hdr, Transactions: []core.Transaction{}, Receipts: []*core.TransactionReceipt{}},
			SU: &core.StateUpdate{OldRoot: &felt.Zero, NewRoot: &felt.Zero, StateDiff: emptyDiff()}, Classes: map[felt.Felt]core.ClassDefinition{}}
		var override *felt.Felt
		if hdr.SequencerAddress == nil {
			override = &felt.Zero
		}
		hash, _, err := core.BlockHash(b.Block, b.SU.StateDiff, net, override, core.DeprecatedTrieBackend)
		if err != nil {
			return fmt.Errorf("legacy block %d: hash: %w", i, err)
		}
		hdr.Hash, b.SU.BlockHash = &hash, &hash
		for ni, n := range nodes {
			if err := lib.StoreOn(n.bc, b); err != nil {
				return fmt.Errorf("legacy block %d (version %q) on node %d: %w", i, hdr.ProtocolVersion, ni, err)
			}
		}
		chain = append(chain, b)
		parent = &hash
		history = append(history, fmt.Sprintf("store %d %s version=%q seq=%s l1=%s/%s l1d=%s l2=%s da=%d", i, hash.String(), hdr.ProtocolVersion,
			optS(hdr.SequencerAddress), optS(hdr.L1GasPriceETH), optS(hdr.L1GasPriceSTRK), priceS(hdr.L1DataGasPrice), priceS(hdr.L2GasPrice), hdr.L1DAMode))
		h.res.Hit("legacy:block-version:" + hdr.ProtocolVersion)
	}
	l1 := uint64(1 + r.Intn(k-1))
	for _, n := range nodes {
		if err := n.bc.SetL1Head(&core.L1Head{BlockNumber: l1, BlockHash: chain[l1].Block.Hash, StateRoot: &felt.Zero}); err != nil {
			return err
		}
	}
	history = append(history, fmt.Sprintf("l1 %d", l1))

	// which variant of rpc/v8 adaptBlockHeader is this (block 0 has no L1 gas price)
	variant := 0
	{
		resp := nodes[0].call("v8", "starknet_getBlockWithTxHashes", []any{map[string]any{"block_number": 0}})
		if resp.Broken != "" || resp.Code != 0 {
			return fmt.Errorf("legacy: v8 getBlockWithTxHashes of block 0 failed: %+v", resp)
		}
		v, err := decodeJSON(resp.Result)
		if err != nil {
			return err
		}
		if o, ok := v.(jobj); ok && strings.HasPrefix(hdrProjection(o), "seq=0 l1=null/") {
			variant = 1
		}
	}
	h.res.Hit(fmt.Sprintf("variant:v8-nil-l1-gas-price-is-null=%d", variant))

	lines := []string{"reset", fmt.Sprintf("hdrcfg %d", variant)}
	for _, b := range chain {
		lines = append(lines, storeLine(b))
	}
	lines = append(lines, fmt.Sprintf("l1 %x", l1))
	nSetup := len(lines)
	type slot struct {
		ver    string
		method string
		id     *blockID
		n      int
		hdr    bool
	}
	var slots []slot
	for _, ver := range versions {
		for n, b := range chain {
			ids := []*blockID{{tag: "number", num: uint64(n), kind: "num-existing"}, {tag: "hash", hash: *b.Block.Hash, kind: "hash-existing"}}
			if n == len(chain)-1 {
				ids = append(ids, &blockID{tag: "latest", kind: "latest"})
			}
			if uint64(n) == l1 && ver != "v8" {
				ids = append(ids, &blockID{tag: "l1", kind: "l1_accepted"})
			}
			for _, id := range ids {
				for _, m := range []string{"blockTxHashes", "blockTxs", "blockReceipts"} {
					lines = append(lines, fmt.Sprintf("q %s legacy %s %s", ver, m, id.lean()))
					slots = append(slots, slot{ver, m, id, n, false})
				}
			}
			lines = append(lines, hdrLean(ver, b.Block.Header))
			slots = append(slots, slot{ver: ver, n: n, hdr: true})
		}
	}
	answers, err := h.drv.AskAll(lines)
	if err != nil {
		return fmt.Errorf("driver: %w", err)
	}
	for i, a := range answers {
		if a == "bad-op" {
			h.res.Fatalf("the Lean driver does not understand %q", lines[i])
		}
		if i < nSetup && a != "ok" {
			h.res.Mismatch(lib.Mismatch{Sig: "model-rejects-legacy-chain-operation", Input: lines[i], Model: a, Impl: "ok"})
		}
	}
	finality := func(n int) string {
		if uint64(n) <= l1 {
			return "L1"
		}
		return "L2"
	}
	hdrModel := map[string]string{} // ver/n -> model's header line
	for i, sl := range slots {
		if sl.hdr {
			hdrModel[fmt.Sprintf("%s/%d", sl.ver, sl.n)] = answers[nSetup+i]
		}
	}
	seenProj := map[string]map[int]string{} // version -> block -> header projection (first answer seen)
	for i, sl := range slots {
		if sl.hdr {
			continue
		}
		model := answers[nSetup+i]
		blk := chain[sl.n].Block
		want := fmt.Sprintf("ok %x %s %s %s %s -", blk.Number, hx(blk.Hash), hx(blk.ParentHash), hx(blk.GlobalStateRoot), finality(sl.n))
		for ni, node := range nodes {
			node.setFeeder(&query{})
			params := []any{sl.id.json()}
			resp := node.call(sl.ver, rpcName[sl.method], params)
			req := map[string]any{"version": sl.ver, "backend": backendName[ni], "method": rpcName[sl.method], "params": params}
			replay := func(expected, got string) map[string]any {
				return map[string]any{"scenario": s, "round": -2, "query": -1, "history": history, "request": req, "expected": expected, "got": got}
			}
			line, obj := "", any(nil)
			switch {
			case strings.HasPrefix(resp.Broken, "panic"):
				line = "crash"
			case resp.Broken != "":
				line = "broken:" + resp.Broken
			case resp.Code != 0:
				line = errLine(resp.Code)
			default:
				v, err := decodeJSON(resp.Result)
				if err != nil {
					line = "malformed:" + err.Error()
				} else if l, err := project(sl.method, v); err != nil {
					line = "malformed:" + err.Error()
				} else {
					line, obj = l, v
				}
			}
			key := fmt.Sprintf("%s/%s/legacy/%s/%s/%d", sl.ver, backendName[ni], sl.method, sl.id.kind, s)
			h.res.Case(key, true)
			h.res.Hit("legacy:method:" + sl.method)
			h.res.Hit("legacy:id:" + sl.id.kind)
			h.programs[sl.ver+"/legacy/"+sl.method+"/"+sl.id.kind] = struct{}{}
			h.res.Compared(1)
			if line != model {
				h.res.Mismatch(lib.Mismatch{Sig: "model:legacy:" + sl.ver + ":" + sl.method + "/" + sl.id.kind, Input: req, Model: model, Impl: line})
			}
			h.checked++
			if line != want {
				h.res.Violate(lib.Violation{Sig: fmt.Sprintf("legacy:%s:%s/%s:want-ok:got-%s", sl.ver, sl.method, sl.id.kind, answerClass(line)),
					What:   fmt.Sprintf("%s %s(%s) on the %s backend, a pre-0.13.2 block: the chain says %q, the node answers %q", sl.ver, rpcName[sl.method], mustJSON(params), backendName[ni], want, line),
					Replay: replay(want, line)})
				continue
			}
			o, ok := obj.(jobj)
			if !ok {
				continue
			}
			proj := hdrProjection(o)
			if seenProj[sl.ver] == nil {
				seenProj[sl.ver] = map[int]string{}
			}
			if _, ok := seenProj[sl.ver][sl.n]; !ok {
				seenProj[sl.ver][sl.n] = proj
			}
			hm := hdrModel[fmt.Sprintf("%s/%d", sl.ver, sl.n)]
			h.res.Compared(1)
			if proj != hm {
				h.res.Mismatch(lib.Mismatch{Sig: "model:legacy-header:" + sl.ver + ":" + sl.method, Input: req, Model: hm, Impl: proj})
			}
			h.checked++
			hd := blk.Header
			for _, f := range []struct {
				name string
				miss bool
			}{{"seq", hd.SequencerAddress == nil}, {"l1wei", hd.L1GasPriceETH == nil}, {"l1fri", hd.L1GasPriceSTRK == nil}, {"l1data", hd.L1DataGasPrice == nil}, {"l2", hd.L2GasPrice == nil}} {
				if f.miss {
					h.res.Hit("legacy:absent:" + f.name)
				} else {
					h.res.Hit("legacy:present:" + f.name)
				}
			}
			for _, p := range hdrProblems(sl.ver, hd, proj) {
				sig := "legacy-header:" + sl.ver + ":" + strings.SplitN(p, " ", 2)[0]
				h.res.Violate(lib.Violation{Sig: sig,
					What: fmt.Sprintf("%s %s(%s) on the %s backend: header of block %d (version %q, holds seq=%s l1=%s/%s l1d=%s l2=%s) is rendered as %s: %s",
						sl.ver, rpcName[sl.method], mustJSON(params), backendName[ni], sl.n, hd.ProtocolVersion, optS(hd.SequencerAddress), optS(hd.L1GasPriceETH),
						optS(hd.L1GasPriceSTRK), priceS(hd.L1DataGasPrice), priceS(hd.L2GasPrice), proj, p),
					Replay: replay("every required header field a felt; values the block holds verbatim", proj)})
			}
		}
	}
	// v0.8 and v0.9 have the same header schema: whatever they fill in for a field the block does
	// not hold, they must fill in the same (v0.10 documents other defaults)
	for n := range chain {
		a, b := seenProj["v8"][n], seenProj["v9"][n]
		if a == "" || b == "" || a == b {
			continue
		}
		fa, fb := strings.Fields(a), strings.Fields(b)
		field := "shape"
		for i := range fa {
			if i < len(fb) && fa[i] != fb[i] {
				field = fa[i][:strings.Index(fa[i], "=")]
				break
			}
		}
		h.checked++
		if field == "l1" && strings.Contains(a, "l1=null/") && strings.Replace(a, "l1=null/", "l1=0/", 1) == b {
			continue // the known v0.8 null (reported per answer above)
		}
		h.res.Violate(lib.Violation{Sig: "legacy-header:versions-disagree:v8-v9:" + field,
			What: fmt.Sprintf("header of block %d (version %q): v0.8 renders %s, v0.9 renders %s", n, chain[n].Block.ProtocolVersion, a, b),
			Replay: map[string]any{"scenario": s, "round": -2, "query": -1, "history": history, "expected": "the same header from v0.8 and v0.9", "got": a + " / " + b,
				"request": map[string]any{"method": "starknet_getBlockWithTxHashes", "params": []any{map[string]any{"block_number": n}}, "version": "v8 and v9"}}})
	}
	return nil
}
