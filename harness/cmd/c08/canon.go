//go:build verif

package main

import (
	"bytes"
	"encoding/json"
	"fmt"
	"sort"
	"strconv"
	"strings"

	"github.com/NethermindEth/juno/core"
	"github.com/NethermindEth/juno/core/felt"
)

// ---------------------------------------------------------------------------------------------
// Canonicalisation of real responses. Every answer is reduced to
//   (a) a projection line in exactly the format the Lean driver prints (block number / hash /
//       parent / root / status, transaction hashes and kinds, finality, values, error code), and
//   (b) for the deep comparison with the generator's bundles, the decoded JSON itself.
// A response that cannot be projected (missing field, wrong JSON type) yields "malformed:<why>".
// ---------------------------------------------------------------------------------------------

type jobj = map[string]any

func decodeJSON(raw json.RawMessage) (any, error) {
	dec := json.NewDecoder(bytes.NewReader(raw))
	dec.UseNumber()
	var v any
	if err := dec.Decode(&v); err != nil {
		return nil, err
	}
	return v, nil
}

type projErr struct{ why string }

func (e projErr) Error() string { return e.why }

func fail(format string, a ...any) { panic(projErr{fmt.Sprintf(format, a...)}) }

// feltOf normalises a JSON felt string ("0x0a" == "0xa").
func feltOf(v any, what string) string {
	s, ok := v.(string)
	if !ok {
		fail("%s: not a string (%T)", what, v)
	}
	f, err := new(felt.Felt).SetString(s)
	if err != nil || !strings.HasPrefix(s, "0x") {
		fail("%s: not a felt: %q", what, s)
	}
	return hx(f)
}

func numOf(v any, what string) uint64 {
	n, ok := v.(json.Number)
	if !ok {
		fail("%s: not a number (%T)", what, v)
	}
	u, err := strconv.ParseUint(n.String(), 10, 64)
	if err != nil {
		fail("%s: not a uint64: %s", what, n)
	}
	return u
}

func objOf(v any, what string) jobj {
	o, ok := v.(jobj)
	if !ok {
		fail("%s: not an object (%T)", what, v)
	}
	return o
}

func listOf(v any, what string) []any {
	l, ok := v.([]any)
	if !ok {
		fail("%s: not an array (%T)", what, v)
	}
	return l
}

func field(o jobj, k string) any {
	v, ok := o[k]
	if !ok {
		fail("missing field %s", k)
	}
	return v
}

func strOf(v any, what string) string {
	s, ok := v.(string)
	if !ok {
		fail("%s: not a string (%T)", what, v)
	}
	return s
}

func finalityOf(s string) string {
	switch s {
	case "ACCEPTED_ON_L1":
		return "L1"
	case "ACCEPTED_ON_L2":
		return "L2"
	}
	return "?" + s
}

var typeCode = map[string]uint64{"DEPLOY": kindDeploy, "INVOKE": kindInvoke, "DECLARE": kindDeclare,
	"DEPLOY_ACCOUNT": kindDeployAccount, "L1_HANDLER": kindL1Handler}

// txKindOf computes the model's kind from the JSON rendering of a transaction.
func txKindOf(o jobj) uint64 {
	t, ok := typeCode[strOf(field(o, "type"), "type")]
	if !ok {
		fail("unknown transaction type %v", o["type"])
	}
	v, err := new(felt.Felt).SetString(strOf(field(o, "version"), "version"))
	if err != nil {
		fail("bad version %v", o["version"])
	}
	return t*16 + (v.Uint64() & 0xf)
}

func hdrProj(o jobj) string {
	return fmt.Sprintf("%x %s %s %s %s", numOf(field(o, "block_number"), "block_number"),
		feltOf(field(o, "block_hash"), "block_hash"), feltOf(field(o, "parent_hash"), "parent_hash"),
		feltOf(field(o, "new_root"), "new_root"), finalityOf(strOf(field(o, "status"), "status")))
}

func joinOr(l []string) string {
	if len(l) == 0 {
		return "-"
	}
	return strings.Join(l, ",")
}

func execRev(s string) string {
	switch s {
	case "SUCCEEDED":
		return "0"
	case "REVERTED":
		return "1"
	}
	return "?" + s
}

// project turns a successful result into the model's answer line.
func project(method string, result any) (line string, err error) {
	defer func() {
		if r := recover(); r != nil {
			if pe, ok := r.(projErr); ok {
				line, err = "", pe
				return
			}
			panic(r)
		}
	}()
	switch method {
	case "blockNumber", "txCount":
		return fmt.Sprintf("ok %x", numOf(result, "result")), nil
	case "blockHashAndNumber":
		o := objOf(result, "result")
		return fmt.Sprintf("ok %s %x", feltOf(field(o, "block_hash"), "block_hash"), numOf(field(o, "block_number"), "block_number")), nil
	case "blockTxHashes", "blockTxs", "blockReceipts":
		o := objOf(result, "result")
		if _, has := o["block_hash"]; !has {
			// v0.8 `pending`: no hash, no number, no status
			line := "ok pending " + feltOf(field(o, "parent_hash"), "parent_hash")
			if n := len(listOf(field(o, "transactions"), "transactions")); n != 0 {
				line += fmt.Sprintf(" +%dtxs", n)
			}
			for _, k := range []string{"block_number", "status", "new_root"} {
				if _, has := o[k]; has {
					line += " +" + k
				}
			}
			return line, nil
		}
		return projectBlock(method, o), nil
	case "txByHash", "txByIdx":
		o := objOf(result, "result")
		return fmt.Sprintf("ok %s/%x", feltOf(field(o, "transaction_hash"), "transaction_hash"), txKindOf(o)), nil
	case "receipt":
		o := objOf(result, "result")
		t, ok := typeCode[strOf(field(o, "type"), "type")]
		if !ok {
			fail("unknown receipt type %v", o["type"])
		}
		// the receipt does not carry the version: only the type half of the kind is projected
		return fmt.Sprintf("ok %s/%x %s %s %x %s", feltOf(field(o, "transaction_hash"), "transaction_hash"), t,
			execRev(strOf(field(o, "execution_status"), "execution_status")),
			finalityOf(strOf(field(o, "finality_status"), "finality_status")),
			numOf(field(o, "block_number"), "block_number"), feltOf(field(o, "block_hash"), "block_hash")), nil
	case "txStatus":
		o := objOf(result, "result")
		exec := "-" // the field is optional: a status relayed from the gateway may have none
		if e, has := o["execution_status"]; has {
			exec = execRev(strOf(e, "execution_status"))
		}
		line := fmt.Sprintf("ok %s %s", finalityOf(strOf(field(o, "finality_status"), "finality_status")), exec)
		// which of the stub gateway's texts is relayed as failure_reason (reasons recorded on the
		// chain are compared by the deep pass)
		switch fr, _ := o["failure_reason"].(string); fr {
		case stubRevertReason:
			line += " rr"
		case stubFailureCode + ": " + stubFailureReason:
			line += " fr"
		}
		return line, nil
	case "stateUpdate":
		o := objOf(result, "result")
		if _, has := o["block_hash"]; !has {
			line := fmt.Sprintf("ok pending-update %s %s", feltOf(field(o, "old_root"), "old_root"), diffProj(objOf(field(o, "state_diff"), "state_diff")))
			if _, has := o["new_root"]; has {
				line += " +new_root"
			}
			return line, nil
		}
		return fmt.Sprintf("ok %s %s %s %s", feltOf(field(o, "block_hash"), "block_hash"), feltOf(field(o, "new_root"), "new_root"),
			feltOf(field(o, "old_root"), "old_root"), diffProj(objOf(field(o, "state_diff"), "state_diff"))), nil
	case "nonce", "classHashAt":
		return "ok " + feltOf(result, "result"), nil
	case "storage", "storageLU":
		// the answer says itself which form it has: a felt, or {value, last_update_block}
		if o, isObj := result.(jobj); isObj {
			return fmt.Sprintf("ok %s @%x", feltOf(field(o, "value"), "value"), numOf(field(o, "last_update_block"), "last_update_block")), nil
		}
		return "ok " + feltOf(result, "result"), nil
	}
	return "", fmt.Errorf("no projection for %s", method)
}

// projectBlock renders a confirmed block object.
func projectBlock(method string, o jobj) string {
	switch method {
	case "blockTxHashes":
		var hs []string
		for i, t := range listOf(field(o, "transactions"), "transactions") {
			hs = append(hs, feltOf(t, fmt.Sprintf("transactions[%d]", i)))
		}
		return "ok " + hdrProj(o) + " " + joinOr(hs)
	case "blockTxs":
		var ts []string
		for i, t := range listOf(field(o, "transactions"), "transactions") {
			to := objOf(t, fmt.Sprintf("transactions[%d]", i))
			ts = append(ts, fmt.Sprintf("%s/%x", feltOf(field(to, "transaction_hash"), "transaction_hash"), txKindOf(to)))
		}
		return "ok " + hdrProj(o) + " " + joinOr(ts)
	default:
		var ts []string
		for i, t := range listOf(field(o, "transactions"), "transactions") {
			pair := objOf(t, fmt.Sprintf("transactions[%d]", i))
			to := objOf(field(pair, "transaction"), "transaction")
			ro := objOf(field(pair, "receipt"), "receipt")
			ts = append(ts, fmt.Sprintf("%s/%x/%s/%s", feltOf(field(ro, "transaction_hash"), "transaction_hash"), txKindOf(to),
				execRev(strOf(field(ro, "execution_status"), "execution_status")),
				finalityOf(strOf(field(ro, "finality_status"), "finality_status"))))
		}
		return "ok " + hdrProj(o) + " " + joinOr(ts)
	}
}

// diffProj renders a state_diff object as the sorted item list of the model.
func diffProj(d jobj) string {
	var items []string
	for _, e := range listOf(field(d, "deployed_contracts"), "deployed_contracts") {
		o := objOf(e, "deployed_contracts[]")
		items = append(items, "d="+feltOf(field(o, "address"), "address")+","+feltOf(field(o, "class_hash"), "class_hash"))
	}
	for _, e := range listOf(field(d, "replaced_classes"), "replaced_classes") {
		o := objOf(e, "replaced_classes[]")
		items = append(items, "r="+feltOf(field(o, "contract_address"), "contract_address")+","+feltOf(field(o, "class_hash"), "class_hash"))
	}
	for _, e := range listOf(field(d, "nonces"), "nonces") {
		o := objOf(e, "nonces[]")
		items = append(items, "n="+feltOf(field(o, "contract_address"), "contract_address")+","+feltOf(field(o, "nonce"), "nonce"))
	}
	for _, e := range listOf(field(d, "storage_diffs"), "storage_diffs") {
		o := objOf(e, "storage_diffs[]")
		a := feltOf(field(o, "address"), "address")
		for _, se := range listOf(field(o, "storage_entries"), "storage_entries") {
			so := objOf(se, "storage_entries[]")
			items = append(items, "s="+a+","+feltOf(field(so, "key"), "key")+","+feltOf(field(so, "value"), "value"))
		}
	}
	for _, e := range listOf(field(d, "deprecated_declared_classes"), "deprecated_declared_classes") {
		items = append(items, "c="+feltOf(e, "deprecated_declared_classes[]"))
	}
	for _, e := range listOf(field(d, "declared_classes"), "declared_classes") {
		o := objOf(e, "declared_classes[]")
		items = append(items, "c="+feltOf(field(o, "class_hash"), "class_hash"))
	}
	sort.Strings(items)
	return joinOr(items)
}

// ---------------------------------------------------------------------------------------------
// class fingerprints: getClass / getClassAt answer with a class definition; it is identified by
// matching its rendering against every definition the generator ever offered.
// ---------------------------------------------------------------------------------------------

func classFingerprintCore(def core.ClassDefinition) string {
	var sb strings.Builder
	switch c := def.(type) {
	case *core.DeprecatedCairoClass:
		sb.WriteString("cairo0|")
		var abi any
		_ = json.Unmarshal(c.Abi, &abi)
		ab, _ := json.Marshal(abi)
		sb.Write(ab)
		sb.WriteString("|" + c.Program)
		for _, grp := range [][]core.DeprecatedEntryPoint{c.Constructors, c.Externals, c.L1Handlers} {
			sb.WriteString("|")
			for _, e := range grp {
				sb.WriteString(hx(e.Selector) + ":" + hx(e.Offset) + ";")
			}
		}
	case *core.SierraClass:
		sb.WriteString("sierra|" + c.Abi + "|" + c.SemanticVersion + "|")
		for i := range c.Program {
			sb.WriteString(hx(&c.Program[i]) + ",")
		}
		for _, grp := range [][]core.SierraEntryPoint{c.EntryPoints.Constructor, c.EntryPoints.External, c.EntryPoints.L1Handler} {
			sb.WriteString("|")
			for _, e := range grp {
				sb.WriteString(hx(e.Selector) + ":" + strconv.FormatUint(e.Index, 16) + ";")
			}
		}
	}
	return sb.String()
}

func classFingerprintJSON(result any) (fp string, err error) {
	defer func() {
		if r := recover(); r != nil {
			if pe, ok := r.(projErr); ok {
				fp, err = "", pe
				return
			}
			panic(r)
		}
	}()
	o := objOf(result, "result")
	eps := objOf(field(o, "entry_points_by_type"), "entry_points_by_type")
	var sb strings.Builder
	if sp, ok := o["sierra_program"]; ok {
		sb.WriteString("sierra|" + strOf(field(o, "abi"), "abi") + "|" + strOf(field(o, "contract_class_version"), "contract_class_version") + "|")
		for _, f := range listOf(sp, "sierra_program") {
			sb.WriteString(feltOf(f, "sierra_program[]") + ",")
		}
		for _, g := range []string{"CONSTRUCTOR", "EXTERNAL", "L1_HANDLER"} {
			sb.WriteString("|")
			for _, e := range listOf(field(eps, g), g) {
				eo := objOf(e, g+"[]")
				sb.WriteString(feltOf(field(eo, "selector"), "selector") + ":" + strconv.FormatUint(numOf(field(eo, "function_idx"), "function_idx"), 16) + ";")
			}
		}
		return sb.String(), nil
	}
	sb.WriteString("cairo0|")
	ab, _ := json.Marshal(field(o, "abi"))
	sb.Write(ab)
	sb.WriteString("|" + strOf(field(o, "program"), "program"))
	for _, g := range []string{"CONSTRUCTOR", "EXTERNAL", "L1_HANDLER"} {
		sb.WriteString("|")
		for _, e := range listOf(field(eps, g), g) {
			eo := objOf(e, g+"[]")
			sb.WriteString(feltOf(field(eo, "selector"), "selector") + ":" + feltOf(field(eo, "offset"), "offset") + ";")
		}
	}
	return sb.String(), nil
}
