//go:build verif

package main

import (
	"fmt"
	"iter"
	"math"
	"strings"
	"sync/atomic"
	"time"

	"github.com/NethermindEth/juno/blockchain"
	"github.com/NethermindEth/juno/core"
	"github.com/NethermindEth/juno/core/felt"
	"github.com/NethermindEth/juno/core/pending"
	junosync "github.com/NethermindEth/juno/sync"
	"github.com/NethermindEth/juno/sync/preconfirmed"
	"verif/harness/lib"
)

// Filt is an event filter in universe indices.
type Filt struct {
	Addrs []int   `json:"addrs"`
	Keys  [][]int `json:"keys"`
}

func (f Filt) String() string {
	var a []string
	for _, x := range f.Addrs {
		a = append(a, fmt.Sprintf("%x", x))
	}
	var ks []string
	for _, alts := range f.Keys {
		var s []string
		for _, k := range alts {
			s = append(s, fmt.Sprintf("%x", k))
		}
		if len(s) == 0 {
			ks = append(ks, "_")
		} else {
			ks = append(ks, strings.Join(s, ","))
		}
	}
	as, kss := "-", "-"
	if len(a) > 0 {
		as = strings.Join(a, ",")
	}
	if len(ks) > 0 {
		kss = strings.Join(ks, "/")
	}
	return "A=" + as + " K=" + kss
}

// arg is the filter as the driver's `ADDRS KEYS` arguments.
func (f Filt) arg() string { return strings.NewReplacer("A=", "", "K=", "").Replace(f.String()) }

func (f Filt) real() ([]felt.Address, [][]felt.Felt) {
	addrs := make([]felt.Address, len(f.Addrs))
	for i, a := range f.Addrs {
		addrs[i] = felt.Address(addrU[a])
	}
	keys := make([][]felt.Felt, len(f.Keys))
	for i, alts := range f.Keys {
		keys[i] = make([]felt.Felt, len(alts))
		for j, k := range alts {
			keys[i][j] = keyU[k]
		}
	}
	return addrs, keys
}

// matches is the property's own reading of the filter (independent of the model and the code):
// the emitter is in the address set (empty set = any) and, for every key position i of the
// filter, the position is unconstrained (empty alternatives) or the event's i-th key is one of
// the alternatives. juno additionally requires the event to have at least as many keys as the
// filter has positions, also when the trailing positions are unconstrained (documented
// behaviour of MatchesEventKeys, followed here: see notes/C09.md).
func (f Filt) matches(e Ev) bool {
	if len(f.Addrs) > 0 {
		ok := false
		for _, a := range f.Addrs {
			if a == e.From {
				ok = true
			}
		}
		if !ok {
			return false
		}
	}
	if len(e.Keys) < len(f.Keys) {
		return false
	}
	for i, alts := range f.Keys {
		if len(alts) == 0 {
			continue
		}
		ok := false
		for _, k := range alts {
			if k == e.Keys[i] {
				ok = true
			}
		}
		if !ok {
			return false
		}
	}
	return true
}

// Em is an emitted event tag: block, transaction index, event index.
type Em struct{ B, T, I int }

func (e Em) String() string { return fmt.Sprintf("%d.%d.%d", e.B, e.T, e.I) }

func emsString(es []Em) string {
	if len(es) == 0 {
		return "-"
	}
	s := make([]string, len(es))
	for i, e := range es {
		s[i] = e.String()
	}
	return strings.Join(s, ",")
}

// naive scans the abstract canonical chain (followed by the pre-confirmed blocks, if any).
func naive(chain []Plan, f Filt, from, to int) []Em {
	var out []Em
	if from < 0 {
		from = 0
	}
	for b := from; b <= to && b < len(chain); b++ {
		for t, tx := range chain[b] {
			for i, e := range tx {
				if f.matches(e) {
					out = append(out, Em{b, t, i})
				}
			}
		}
	}
	return out
}

// Page is one answer of the real filter.
type Page struct {
	Ems []Em
	Tok string // "" = no continuation
	Err string
	Bad string // tag problems found while converting (hash / payload mismatch)
}

func (p Page) String() string {
	if p.Err != "" {
		return "err:" + p.Err
	}
	t := p.Tok
	if t == "" {
		t = "0-0"
	}
	return "ok " + emsString(p.Ems) + " tok=" + t
}

func errClass(err error) string {
	s := err.Error()
	switch {
	case strings.HasPrefix(s, "rpc error 33 "):
		return "rpc:badtoken"
	case strings.HasPrefix(s, "rpc error 31 "):
		return "rpc:pagetoobig"
	case strings.HasPrefix(s, "rpc error 34 "):
		return "rpc:toomanykeys"
	case strings.HasPrefix(s, "rpc error 24 "):
		return "rpc:blocknotfound"
	case strings.HasPrefix(s, "rpc error 68 "):
		return "rpc:toomanyblocksback"
	case strings.HasPrefix(s, "rpc error -32602 "):
		return "rpc:invalidparams"
	case strings.HasPrefix(s, "rpc error -32603 ") && strings.HasSuffix(s, "<nil>"):
		return "rpc:internal"
	case strings.Contains(s, "key not found"), strings.Contains(s, "Key not found"):
		return "notfound"
	case strings.Contains(s, "injected fault"):
		return "io"
	case strings.Contains(s, "pruned"), strings.Contains(s, "retention floor"):
		return "pruned"
	case strings.Contains(s, "not within range"):
		return "range"
	case strings.Contains(s, "bounds mismatch"):
		return "bounds"
	default:
		return "other"
	}
}

// Q is one query: filter, range, chunk size, scan limit (0 = unlimited).
// FromTag / ToTag: "" = the number From / To, "latest", "pre_confirmed", "hash" (the hash of block
// From / To). Rpc: ask through the starknet_getEvents handler (rpc/v10) instead of the EventFilter.
// Pre: pre-confirmed blocks the node holds on top of its head while the query runs.
type Q struct {
	F       Filt   `json:"filter"`
	From    int    `json:"from"`
	To      int    `json:"to"`
	Chunk   int    `json:"chunk"`
	Limit   int    `json:"limit"`
	FromTag string `json:"from_tag,omitempty"`
	ToTag   string `json:"to_tag,omitempty"`
	Rpc     bool   `json:"rpc,omitempty"`
	Api     string `json:"api,omitempty"` // with Rpc: "" = v10, "v9", "v8" (one address at most; v8: no pre-confirmed blocks)
	Pre     []Plan `json:"pre,omitempty"`
	PreBack int    `json:"pre_back,omitempty"` // the pre-confirmed chain was built on block head-PreBack (its first block is head-PreBack+1)
	Tok     string `json:"token,omitempty"`    // start from this (forged) continuation token instead of the first page
	L1      int    `json:"l1_head,omitempty"`  // the node's L1 head (block id `l1_accepted`; rpc v9 / v10)
}

const sentinel = math.MaxUint64

// bounds gives the filter's block bounds as the EventFilter gets them (what the model is asked),
// for a chain of the given height (number of the head).
func (q Q) bounds(head int) (from, to uint64) {
	switch q.FromTag {
	case "l1_accepted":
		from = uint64(q.L1)
	case "omitted":
		from = 0
	case "latest":
		from = uint64(head)
	case "pre_confirmed":
		from = sentinel
		if q.Api == "v8" {
			from = uint64(head) + 1 // v8 `pending`
		}
	default:
		from = uint64(q.From)
	}
	switch q.ToTag {
	case "l1_accepted":
		to = uint64(q.L1)
	case "latest", "omitted":
		to = uint64(head)
	case "pre_confirmed":
		to = sentinel
		if q.Api == "v8" {
			to = uint64(head) + 1
		}
	case "hash":
		to = uint64(q.To)
	default:
		to = uint64(q.To)
		if q.Rpc && q.To > head {
			to = uint64(head) // setEventFilterRange: min(number, latest)
		}
	}
	return from, to
}

// specRange is the property's reading of the bounds over the canonical chain followed by the
// pre-confirmed blocks: `pre_confirmed` as lower bound is the newest pre-confirmed block.
func (q Q) specRange(head int) (lo, hi int, empty bool) {
	from, to := q.bounds(head)
	top := head + len(q.Pre)
	if len(q.Pre) > 0 && (to == sentinel || to > uint64(head)) {
		top = head - q.PreBack + len(q.Pre)
	}
	if q.Tok != "" {
		var b, p uint64
		fmt.Sscanf(q.Tok, "%d-%d", &b, &p)
		from = b
	}
	if from == sentinel {
		if len(q.Pre) == 0 {
			return 0, 0, true
		}
		lo = top
	} else {
		lo = int(from)
	}
	if to == sentinel || to > uint64(top) {
		hi = top
	} else {
		hi = int(to)
	}
	return lo, hi, lo > hi
}

// fakePre is the pre-confirmed chain handed to the EventFilter (direct path).
type fakePre struct{ blocks []*pending.PreConfirmed }

func (f *fakePre) Length() int { return len(f.blocks) }
func (f *fakePre) Head() *pending.PreConfirmed {
	if len(f.blocks) == 0 {
		return nil
	}
	return f.blocks[len(f.blocks)-1]
}
func (f *fakePre) OldestFirst() iter.Seq[*pending.PreConfirmed] {
	return func(yield func(*pending.PreConfirmed) bool) {
		for _, b := range f.blocks {
			if !yield(b) {
				return
			}
		}
	}
}

// fakeSync is the sync.Reader of the RPC handler: only the pre-confirmed chain matters.
type fakeSync struct {
	junosync.NoopSynchronizer
	blocks []*pending.PreConfirmed
}

func (f *fakeSync) PreConfirmedChain() (preconfirmed.ChainReader, error) {
	if len(f.blocks) == 0 {
		return preconfirmed.ChainReader{}, pending.ErrPreConfirmedNotFound
	}
	return preconfirmed.NewChain(f.blocks...)
}

// mkPre builds the pre-confirmed blocks of a query on top of the current head.
func (w *World) mkPre(plans []Plan, back int) []*pending.PreConfirmed {
	var out []*pending.PreConfirmed
	for i, plan := range plans {
		var txs []core.Transaction
		var rcs []*core.TransactionReceipt
		for t, evs := range plan {
			tx := w.Src.mkTx(t)
			txs = append(txs, tx)
			rcs = append(rcs, mkReceipt(tx, evs, uint64(1000+i)))
		}
		hdr := &core.Header{Number: uint64(len(w.Chain) - back + i), EventsBloom: core.EventsBloom(rcs),
			TransactionCount: uint64(len(txs)), ProtocolVersion: "0.14.0"}
		out = append(out, &pending.PreConfirmed{Block: &core.Block{Header: hdr, Transactions: txs, Receipts: rcs}})
	}
	return out
}

// realPage asks the real code for one page. tok "" = first page.
func realPage(n *Node, w *World, q Q, pre []*pending.PreConfirmed, tok string) (pg Page) {
	done := lib.WithDeadline(patience(), func() {
		err, panicked, _ := lib.Try(func() error {
			addrs, keys := q.F.real()
			if q.Rpc {
				evs, next, err := w.rpcEvents(n, q, pre, tok, addrs, keys)
				if err != nil {
					return err
				}
				for _, fe := range evs {
					pg.Ems = append(pg.Ems, Em{int(fe.BlockNumber), int(fe.TransactionIndex), int(fe.EventIndex)})
					if bad := w.checkTag(fe, pre); bad != "" && pg.Bad == "" {
						pg.Bad = bad
					}
				}
				pg.Tok = next
				return nil
			}
			fl, err := n.BC.EventFilter(addrs, keys, func() (blockchain.PreConfirmedReader, error) {
				if len(pre) == 0 {
					return nil, nil
				}
				return &fakePre{blocks: pre}, nil
			})
			if err != nil {
				return err
			}
			defer fl.Close()
			from, to := q.bounds(len(w.Chain) - 1)
			if err := fl.SetRangeEndBlockByNumber(blockchain.EventFilterFrom, from); err != nil {
				return err
			}
			if err := fl.SetRangeEndBlockByNumber(blockchain.EventFilterTo, to); err != nil {
				return err
			}
			ef := fl.WithLimit(uint(q.Limit))
			var ct *blockchain.ContinuationToken
			if tok != "" {
				ct = new(blockchain.ContinuationToken)
				if err := ct.FromString(tok); err != nil {
					return err
				}
			}
			evs, nt, err := ef.Events(ct, uint64(q.Chunk))
			if err != nil {
				return err
			}
			for _, fe := range evs {
				em := Em{int(fe.BlockNumber), int(fe.TransactionIndex), int(fe.EventIndex)}
				pg.Ems = append(pg.Ems, em)
				if bad := w.checkTag(fe, pre); bad != "" && pg.Bad == "" {
					pg.Bad = bad
				}
			}
			if !nt.IsEmpty() {
				pg.Tok = nt.String()
			}
			return nil
		})
		if err != nil {
			if panicked {
				pg.Err = "panic"
				pg.Bad = err.Error()
			} else {
				pg.Err = errClass(err)
				pg.Bad = err.Error()
			}
		}
	})
	if !done {
		impatient.Store(true)
		pg.Err = "hang"
	}
	return pg
}

// patience is how long one blocking call into the real code (a page, a notification) may take.
// Generous, so that a loaded machine yields no finding; after the first expiry the rest of the run
// waits 10 s only, so that a defect that stalls every call is reported within the run's time limit.
var impatient atomic.Bool

func patience() time.Duration {
	if impatient.Load() {
		return 10 * time.Second
	}
	return 300 * time.Second
}
