//go:build verif

package main

import (
	"fmt"
	"strings"
	"time"

	"github.com/NethermindEth/juno/blockchain"
	"github.com/NethermindEth/juno/core/felt"
	"verif/harness/lib"
)

// Filt is an event filter in universe indices.
type Filt struct {
	Addrs []int   `json:"addrs"`
	Keys  [][]int `json:"keys"`
}

func (f Filt) String() string {
	var a []string
	for _, x := range f.Addrs {
		a = append(a, fmt.Sprintf("%x", x))
	}
	var ks []string
	for _, alts := range f.Keys {
		var s []string
		for _, k := range alts {
			s = append(s, fmt.Sprintf("%x", k))
		}
		if len(s) == 0 {
			ks = append(ks, "_")
		} else {
			ks = append(ks, strings.Join(s, ","))
		}
	}
	as, kss := "-", "-"
	if len(a) > 0 {
		as = strings.Join(a, ",")
	}
	if len(ks) > 0 {
		kss = strings.Join(ks, "/")
	}
	return "A=" + as + " K=" + kss
}

func (f Filt) real() ([]felt.Address, [][]felt.Felt) {
	addrs := make([]felt.Address, len(f.Addrs))
	for i, a := range f.Addrs {
		addrs[i] = felt.Address(addrU[a])
	}
	keys := make([][]felt.Felt, len(f.Keys))
	for i, alts := range f.Keys {
		keys[i] = make([]felt.Felt, len(alts))
		for j, k := range alts {
			keys[i][j] = keyU[k]
		}
	}
	return addrs, keys
}

// matches is the property's own reading of the filter (independent of the model and the code):
// the emitter is in the address set (empty set = any) and, for every key position i of the
// filter, the position is unconstrained (empty alternatives) or the event's i-th key is one of
// the alternatives. juno additionally requires the event to have at least as many keys as the
// filter has positions, also when the trailing positions are unconstrained (documented
// behaviour of MatchesEventKeys, followed here: see notes/C09.md).
func (f Filt) matches(e Ev) bool {
	if len(f.Addrs) > 0 {
		ok := false
		for _, a := range f.Addrs {
			if a == e.From {
				ok = true
			}
		}
		if !ok {
			return false
		}
	}
	if len(e.Keys) < len(f.Keys) {
		return false
	}
	for i, alts := range f.Keys {
		if len(alts) == 0 {
			continue
		}
		ok := false
		for _, k := range alts {
			if k == e.Keys[i] {
				ok = true
			}
		}
		if !ok {
			return false
		}
	}
	return true
}

// Em is an emitted event tag: block, transaction index, event index.
type Em struct{ B, T, I int }

func (e Em) String() string { return fmt.Sprintf("%d.%d.%d", e.B, e.T, e.I) }

func emsString(es []Em) string {
	if len(es) == 0 {
		return "-"
	}
	s := make([]string, len(es))
	for i, e := range es {
		s[i] = e.String()
	}
	return strings.Join(s, ",")
}

// naive scans the abstract canonical chain.
func naive(chain []Plan, f Filt, from, to int) []Em {
	var out []Em
	for b := from; b <= to && b < len(chain); b++ {
		for t, tx := range chain[b] {
			for i, e := range tx {
				if f.matches(e) {
					out = append(out, Em{b, t, i})
				}
			}
		}
	}
	return out
}

// Page is one answer of the real filter.
type Page struct {
	Ems []Em
	Tok string // "" = no continuation
	Err string
	Bad string // tag problems found while converting (hash / payload mismatch)
}

func (p Page) String() string {
	if p.Err != "" {
		return "err:" + p.Err
	}
	t := p.Tok
	if t == "" {
		t = "0-0"
	}
	return "ok " + emsString(p.Ems) + " tok=" + t
}

func errClass(err error) string {
	s := err.Error()
	switch {
	case strings.Contains(s, "key not found"):
		return "notfound"
	case strings.Contains(s, "not within range"):
		return "range"
	case strings.Contains(s, "bounds mismatch"):
		return "bounds"
	default:
		return "other"
	}
}

// Q is one query: filter, range, chunk size, scan limit (0 = unlimited).
type Q struct {
	F     Filt `json:"filter"`
	From  int  `json:"from"`
	To    int  `json:"to"`
	Chunk int  `json:"chunk"`
	Limit int  `json:"limit"`
}

// realPage asks the real EventFilter for one page. tok "" = first page.
func realPage(n *Node, w *World, q Q, tok string) (pg Page) {
	done := lib.WithDeadline(60*time.Second, func() {
		err, panicked, _ := lib.Try(func() error {
			addrs, keys := q.F.real()
			fl, err := n.BC.EventFilter(addrs, keys, func() (blockchain.PreConfirmedReader, error) { return nil, nil })
			if err != nil {
				return err
			}
			defer fl.Close()
			if err := fl.SetRangeEndBlockByNumber(blockchain.EventFilterFrom, uint64(q.From)); err != nil {
				return err
			}
			if err := fl.SetRangeEndBlockByNumber(blockchain.EventFilterTo, uint64(q.To)); err != nil {
				return err
			}
			ef := fl.WithLimit(uint(q.Limit))
			var ct *blockchain.ContinuationToken
			if tok != "" {
				ct = new(blockchain.ContinuationToken)
				if err := ct.FromString(tok); err != nil {
					return err
				}
			}
			evs, nt, err := ef.Events(ct, uint64(q.Chunk))
			if err != nil {
				return err
			}
			for _, fe := range evs {
				em := Em{int(fe.BlockNumber), int(fe.TransactionIndex), int(fe.EventIndex)}
				pg.Ems = append(pg.Ems, em)
				if bad := w.checkTag(fe); bad != "" && pg.Bad == "" {
					pg.Bad = bad
				}
			}
			if !nt.IsEmpty() {
				pg.Tok = nt.String()
			}
			return nil
		})
		if err != nil {
			if panicked {
				pg.Err = "panic"
				pg.Bad = err.Error()
			} else {
				pg.Err = errClass(err)
				pg.Bad = err.Error()
			}
		}
	})
	if !done {
		pg.Err = "hang"
	}
	return pg
}
