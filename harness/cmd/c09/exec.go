//go:build verif

package main

import (
	"context"
	"encoding/binary"
	"fmt"
	"strings"
	"sync"

	"github.com/NethermindEth/juno/blockchain"
	"github.com/NethermindEth/juno/core"
	"github.com/NethermindEth/juno/core/pending"
	"github.com/NethermindEth/juno/db"
	"github.com/NethermindEth/juno/pruner"
	"verif/harness/lib"
)

// Op is one step of a history. Histories are the replay format.
type Op struct {
	// store | revert | query | snap | restart | prune (n = oldest block kept) | l1 (n = the L1 head stored on the node)
	// storefail / revertfail: the batch commit of the Store / RevertHead fails (injected)
	// restartcore: restart as a node without --prune-mode (blockchain.New's default initialiser)
	// restartfault: restart whose lazy initialisation hits a transient read error
	// restartcrash: the process dies inside the initialiser before (n = 0) / after (n = 1) its window write
	// prunecrash: pruner.PruneUpto(n) with tiny batches whose j-th commit fails
	// tamper: t = "del W" | "mov A B": a persisted window deleted / stored under another key behind the node's back
	Kind string `json:"op"`
	Plan Plan   `json:"plan,omitempty"` // store: events per transaction (absent = no transactions)
	N    int    `json:"n,omitempty"`    // store: number of blocks with this plan (default 1); revert: depth (default 1)
	Q    *Q     `json:"q,omitempty"`
	J    int    `json:"j,omitempty"`
	T    string `json:"t,omitempty"`
}

func (o Op) String() string {
	switch o.Kind {
	case "store":
		return fmt.Sprintf("store×%d(%d ev)", max(o.N, 1), o.Plan.events())
	case "revert":
		return fmt.Sprintf("revert×%d", max(o.N, 1))
	case "prune":
		return fmt.Sprintf("prune<%d", o.N)
	case "query":
		return fmt.Sprintf("query{%s [%d%s,%d%s] chunk=%d limit=%d rpc=%v pre=%d}", o.Q.F, o.Q.From, o.Q.FromTag, o.Q.To, o.Q.ToTag, o.Q.Chunk, o.Q.Limit, o.Q.Rpc, len(o.Q.Pre))
	}
	return o.Kind
}

// Scenario is a complete, self-contained history on one node.
type Scenario struct {
	Name     string `json:"name"`
	NewState bool   `json:"new_state"`   // state backend of the node under test
	Pruner   bool   `json:"pruner_init"` // pruner.InitializeRunningEventFilter instead of core's
	Ops      []Op   `json:"ops"`
}

// Variant says which repairs the tree under test contains (probed, see probe.go).
type Variant struct {
	FixCache, FixSnap, FixPersist bool
	// InitRetry: a failed lazy initialisation is NOT remembered (c8ac4a7): the model's `fixInit`.
	InitRetry bool
	// DefaultInitFloorAware: a Blockchain built WITHOUT an initialiser option copes with a pruned
	// database (the repair of the second open finding): the model then restarts floor-aware.
	DefaultInitFloorAware bool
	// SubL1Tolerant: starknet_subscribeEvents (v9 / v10) accepts a node that has not stored an L1 head
	// (the repair proposed in round 5): the model's `l1Tolerant`.
	SubL1Tolerant bool
}

func b2s(b bool) string {
	if b {
		return "1"
	}
	return "0"
}

// World runs a history on the real node, on the abstract chain (the property's oracle) and on the
// Lean model.
type World struct {
	Src     *Source
	Node    *Node
	Chain   []Plan        // abstract canonical chain: events per block
	Bundles []*lib.Bundle // the blocks of the canonical chain as stored (for tag checks)
	Drv     *lib.Driver
	Res     *lib.Result
	Name    string
	Hist    []Op
	Floor   int // oldest retained block (0 = nothing pruned)
	// CoreOnPruned: the node was re-opened without --prune-mode on a database pruned before
	CoreOnPruned bool
	prunerWas    bool
	Pruned       bool // a prune ran in this history (the floor can fall back to 0 after a reorg below it)
	Faulted      bool // a lazy initialisation failed (injected) and no write / restart has re-armed it since
	Tampered     bool // the database was corrupted on purpose: errors are expected, correspondence only
	V            Variant
	wires        map[int]*wireServer
	preFirst     int // number of the first pre-confirmed block the running query may be served from; -1: none
	drvDead      bool
	pool         *DrvPool
	quiet        bool                        // no correspondence, oracle only
	L1           int                         // the L1 head stored on the node (-1: never set)
	reqMut       func(filter map[string]any) // rewrites the next wire requests (requests Q cannot express)
}

func (w *World) ask(line string) string {
	if w.Drv == nil || w.drvDead {
		return ""
	}
	out, err := w.Drv.Ask(line)
	if err != nil {
		w.drvDead = true
		w.Res.Fatalf("driver died in %s: %v", w.Name, err)
		return ""
	}
	if out == "bad-op" {
		w.Res.Fatalf("driver answered bad-op to %q in %s", line, w.Name)
	}
	return out
}

func (w *World) compare(what, impl, model string) {
	if w.Drv == nil || w.drvDead {
		return
	}
	w.Res.Compared(1)
	if impl != model {
		w.Res.Mismatch(lib.Mismatch{Sig: what, Input: w.replay(), Model: model, Impl: impl})
	}
}

func (w *World) replay() any {
	return Scenario{Name: w.Name, NewState: w.Node.NewState, Pruner: w.Node.Pruner, Ops: append([]Op{}, w.Hist...)}
}

func resStr(err error) string {
	if err == nil {
		return "ok"
	}
	return "err:" + errClass(err)
}

func planLine(p Plan) string {
	if len(p) == 0 {
		return "-"
	}
	txs := make([]string, len(p))
	for i, tx := range p {
		if len(tx) == 0 {
			txs[i] = "~"
			continue
		}
		evs := make([]string, len(tx))
		for j, e := range tx {
			s := fmt.Sprintf("%x", e.From)
			if len(e.Keys) > 0 {
				ks := make([]string, len(e.Keys))
				for x, k := range e.Keys {
					ks[x] = fmt.Sprintf("%x", k)
				}
				s += ":" + strings.Join(ks, ".")
			}
			evs[j] = s
		}
		txs[i] = strings.Join(evs, ";")
	}
	return strings.Join(txs, "|")
}

func itemsLine(items []Item) string {
	if len(items) == 0 {
		return "-"
	}
	s := make([]string, len(items))
	for i, it := range items {
		s[i] = it.String()
	}
	return strings.Join(s, ",")
}

// storeOne makes the next block with plan, stores it on the node, mirrors it.
func (w *World) storeOne(plan Plan) {
	b, err := w.Src.next(plan)
	if err != nil {
		w.Res.Fatalf("generator: %v", err)
		return
	}
	var serr error
	err, panicked, _ := lib.Try(func() error { return lib.StoreOn(w.Node.BC, b) })
	serr = err
	if panicked {
		w.Res.Violate(lib.Violation{Sig: "store-panics", What: err.Error(), Replay: w.replay()})
	}
	// header bloom must cover the block's events (core.EventsBloom): otherwise every index built
	// from it has false negatives
	items := bloomItems(b.Block.EventsBloom)
	have := map[Item]bool{}
	for _, it := range items {
		have[it] = true
	}
	for it := range planItems(plan) {
		// asked of the real bloom (round 6: events may carry keys at positions outside the universe of the abstraction)
		if !have[it] && (b.Block.EventsBloom == nil || !b.Block.EventsBloom.Test(it.bytes())) {
			w.Res.Violate(lib.Violation{Sig: "header-bloom-misses-event-item",
				What:   fmt.Sprintf("block %d: EventsBloom does not contain %s of one of its events", b.Block.Number, it),
				Replay: w.replay()})
		}
	}
	var model string
	if len(plan) == 0 && len(items) == 0 {
		model = w.ask("storen 1")
	} else {
		model = w.ask("store " + itemsLine(items) + " " + planLine(plan))
	}
	w.compare("store-result", resStr(serr), model)
	if serr != nil {
		if errClass(serr) == "other" {
			w.Res.Sample(12, map[string]string{"unexpected-store-error": serr.Error(), "history": w.Name})
		}
		w.Res.Hit("store-error:" + errClass(serr))
		w.Faulted = false // a failed Store resets the running filter (3373c0b)
		// keep the source in step with the node
		if err := w.Src.G.Revert(); err != nil {
			w.Res.Fatalf("generator revert: %v", err)
		}
		return
	}
	w.Chain = append(w.Chain, plan)
	w.Bundles = append(w.Bundles, b)
}

// storeEmptyRun stores n blocks without transactions (fast path on the model side).
func (w *World) storeEmptyRun(n int) {
	done := 0
	for i := 0; i < n; i++ {
		b, err := w.Src.next(nil)
		if err != nil {
			w.Res.Fatalf("generator: %v", err)
			break
		}
		if err := lib.StoreOn(w.Node.BC, b); err != nil {
			// fall back to the slow path so that the error is compared
			_ = w.Src.G.Revert()
			if done > 0 {
				w.compare("store-result", "ok", w.ask(fmt.Sprintf("storen %x", done)))
			}
			for ; i < n; i++ {
				w.storeOne(nil)
			}
			return
		}
		if len(bloomItems(b.Block.EventsBloom)) != 0 {
			w.Res.Fatalf("empty block with non-empty bloom")
		}
		w.Chain = append(w.Chain, nil)
		w.Bundles = append(w.Bundles, b)
		done++
	}
	if done > 0 {
		w.compare("store-result", "ok", w.ask(fmt.Sprintf("storen %x", done)))
	}
}

func (w *World) revertOne() {
	err, panicked, _ := lib.Try(func() error { return w.Node.BC.RevertHead() })
	if panicked {
		w.Res.Violate(lib.Violation{Sig: "revert-panics", What: err.Error(), Replay: w.replay()})
	}
	model := w.ask("revert")
	if len(w.Chain) == 0 {
		// reverting an empty chain: both sides must refuse
		if err == nil {
			w.Res.Violate(lib.Violation{Sig: "revert-of-empty-chain-succeeds", What: "RevertHead on an empty chain returned nil", Replay: w.replay()})
		}
		w.compare("revert-result", "err", strings.SplitN(model, ":", 2)[0])
		return
	}
	w.compare("revert-result", resStr(err), model)
	if err != nil {
		w.Res.Hit("revert-error:" + errClass(err))
		w.Faulted = false
		return
	}
	if gerr := w.Src.G.Revert(); gerr != nil {
		w.Res.Fatalf("generator revert: %v", gerr)
	}
	w.Chain = w.Chain[:len(w.Chain)-1]
	w.Bundles = w.Bundles[:len(w.Bundles)-1]
}

func (w *World) checkState(after string) {
	if w.Drv == nil || w.drvDead {
		return
	}
	d := w.ask("dump")
	// compare the database part only (memory is private to the node)
	i := strings.Index(d, " R=")
	if i < 0 {
		w.compare("dump-format", "P=.. S=.. R=..", d)
		return
	}
	w.compare("persisted-state-after-"+after, w.Node.persistedState(), d[:i])
}

// checkContents compares what the index keeps on disk (every persisted window and the snapshot)
// with the header blooms of the canonical chain, item by item over the universe: each retained block
// whose header bloom holds an item has its column set for that item; on a node that never pruned the
// columns hold nothing else (the windows are exactly the blooms of their blocks).
func (w *World) checkContents() {
	if w.Tampered || w.Node == nil || !(w.V.FixCache && w.V.FixSnap && w.V.FixPersist) {
		return
	}
	head := len(w.Chain) - 1
	exact := w.Floor == 0 && !w.Pruned
	check := func(what string, flt *core.AggregatedBloomFilter, upto int) {
		from, to := int(flt.FromBlock()), int(flt.ToBlock())
		for _, it := range allItems {
			got := flt.BlocksForKeys([][]byte{it.bytes()})
			wanted := uint(0)
			for b := from; b <= to && b <= upto && b < len(w.Bundles); b++ {
				bf := w.Bundles[b].Block.EventsBloom
				if bf == nil || !bf.Test(it.bytes()) {
					continue
				}
				wanted++
				if b >= w.Floor && !got.Test(uint(b-from)) {
					w.Res.Violate(lib.Violation{Sig: "index-on-disk-misses-block-bloom",
						What:   fmt.Sprintf("%s: %s [%d,%d] has no bit for item %v in the column of block %d", w.Name, what, from, to, it, b),
						Replay: w.replay()})
					return
				}
			}
			if exact && got.Count() != wanted {
				w.Res.Violate(lib.Violation{Sig: "index-on-disk-holds-foreign-bits",
					What:   fmt.Sprintf("%s: %s [%d,%d] has %d columns set for item %v, the chain has %d such blocks there", w.Name, what, from, to, got.Count(), it, wanted),
					Replay: w.replay()})
				return
			}
		}
		w.Res.Hit("contents-checked:" + what)
	}
	it, err := w.Node.DB.NewIterator(db.AggregatedBloomFilters.Key(), true)
	if err != nil {
		w.Res.Fatalf("iterating the persisted windows: %v", err)
		return
	}
	var froms []uint64
	for ok := it.First(); ok; ok = it.Next() {
		k := it.Key()[len(db.AggregatedBloomFilters.Key()):]
		if len(k) >= 16 {
			froms = append(froms, binary.BigEndian.Uint64(k[:8]))
		}
	}
	it.Close()
	for _, f := range froms {
		flt, err := core.GetAggregatedBloomFilter(w.Node.DB, f, f+uint64(W)-1)
		if err != nil {
			w.Res.Fatalf("reading persisted window %d: %v", f, err)
			continue
		}
		check("persisted-window", &flt, head)
	}
	if rf, err := core.GetRunningEventFilter(w.Node.DB); err == nil {
		inner, _ := rf.InnerFilter()
		nx, _ := rf.NextBlock()
		if inner != nil {
			check("snapshot", inner, int(nx)-1)
		}
	}
}

// checkTag compares a returned event with the stored block: hashes and payload.
func (w *World) checkTag(fe blockchain.FilteredEvent, pre []*pending.PreConfirmed) string {
	b := int(fe.BlockNumber)
	var blk *core.Block
	switch {
	case w.preFirst >= 0 && b >= w.preFirst && b-w.preFirst < len(pre):
		// served from the pre-confirmed chain (also a copy of a canonical block the chain still holds)
		blk = pre[b-w.preFirst].Block
		if fe.BlockHash != nil {
			return fmt.Sprintf("event of pre-confirmed block %d carries a block hash", b)
		}
	case b < len(w.Bundles):
		blk = w.Bundles[b].Block
		if fe.BlockHash == nil || !fe.BlockHash.Equal(blk.Hash) {
			return fmt.Sprintf("block hash of event in block %d differs from the canonical block's", b)
		}
	default:
		return fmt.Sprintf("event of block %d above the head", b)
	}
	t := int(fe.TransactionIndex)
	if t >= len(blk.Receipts) {
		return fmt.Sprintf("transaction index %d out of range in block %d", t, b)
	}
	rc := blk.Receipts[t]
	if fe.TransactionHash == nil || !fe.TransactionHash.Equal(rc.TransactionHash) {
		return fmt.Sprintf("transaction hash of event %d.%d differs", b, t)
	}
	i := int(fe.EventIndex)
	if i >= len(rc.Events) {
		return fmt.Sprintf("event index %d out of range in %d.%d", i, b, t)
	}
	want := rc.Events[i]
	if fe.Event == nil || !fe.Event.From.Equal(want.From) || len(fe.Event.Keys) != len(want.Keys) || len(fe.Event.Data) != len(want.Data) {
		return fmt.Sprintf("payload of event %d.%d.%d differs", b, t, i)
	}
	for x := range want.Keys {
		if !fe.Event.Keys[x].Equal(&want.Keys[x]) {
			return fmt.Sprintf("keys of event %d.%d.%d differ", b, t, i)
		}
	}
	for x := range want.Data {
		if !fe.Event.Data[x].Equal(&want.Data[x]) {
			return fmt.Sprintf("data of event %d.%d.%d differ", b, t, i)
		}
	}
	return ""
}

const maxPages = 20000

// runQuery pages through one query on the real node and on the model, compares page by page,
// and checks the concatenation against the naive scan.
func preLine(pre []*pending.PreConfirmed, plans []Plan) string {
	if len(pre) == 0 {
		return "-"
	}
	parts := make([]string, len(pre))
	for i, p := range pre {
		parts[i] = itemsLine(bloomItems(p.Block.EventsBloom)) + "@" + planLine(plans[i])
	}
	return strings.Join(parts, "+")
}

func (w *World) runQuery(q Q) {
	if len(q.F.Keys) > 62 {
		w.Res.Hit("query:key-position-at-the-varint-boundary")
	}
	w.ask("mark")
	head := len(w.Chain) - 1
	if q.PreBack > head {
		q.PreBack = 0
	}
	pre := w.mkPre(q.Pre, q.PreBack)
	fromB, toB := q.bounds(head)
	w.preFirst = -1
	if len(pre) > 0 && (toB == sentinel || toB > uint64(head)) {
		w.preFirst = head - q.PreBack + 1
	}
	defer func() { w.preFirst = -1 }()
	// a block hash that no stored block has, or whose index entry was pruned (PruneUpto keeps the entry
	// of floor-1 only), does not resolve: the request must be refused with "block not found"
	unresolvable := func(tag string, num int) bool {
		return q.Rpc && tag == "hash" && (num > head || num+1 < w.Floor)
	}
	notFoundExpected := unresolvable(q.FromTag, q.From) || unresolvable(q.ToTag, q.To) ||
		(q.Rpc && w.L1 < 0 && (q.FromTag == "l1_accepted" || q.ToTag == "l1_accepted"))
	var all []Em
	tok := q.Tok
	pages := 0
	// a range (or token) that starts at a pruned canonical block must be refused, never answered in part
	start := fromB
	if q.Tok != "" {
		var p uint64
		fmt.Sscanf(q.Tok, "%d-%d", &start, &p)
		w.Res.Hit("query:forged-token")
	}
	prunedExpected := start <= uint64(head) && start < uint64(w.Floor)
	agree := true
	fail := ""
	rep := func() map[string]any { return map[string]any{"history": w.replay(), "query": q} }
	// every page returns an event or moves the token to a later block: a paging that is longer than
	// (events + blocks) of the range does not terminate (no generated block has more than 16 events)
	pageBound := maxPages
	if end := min(toB, uint64(head+len(pre))); true {
		nb := uint64(0)
		if end >= start {
			nb = end - start + 1
		}
		if b := nb*17 + 16; b < uint64(pageBound) {
			pageBound = int(b)
		}
	}
	for {
		pg := realPage(w.Node, w, q, pre, tok)
		mtok := "- -"
		if tok != "" {
			var b, p uint64
			fmt.Sscanf(tok, "%d-%d", &b, &p)
			mtok = fmt.Sprintf("%x %x", b, p)
		}
		if w.Drv != nil && !w.drvDead {
			var model string
			if q.Rpc {
				// the model reads the request itself: block ids, address list, token STRING (ModelRpc.lean)
				model = w.ask(w.rpcLine(q, tok, pre))
				w.Res.Hit("query:rpc-request-resolved-by-the-model")
			} else {
				model = w.ask(fmt.Sprintf("qp %s %x %x %s %x %x %x %s", strings.NewReplacer("A=", "", "K=", "").Replace(q.F.String()),
					fromB, toB, mtok, q.Chunk, q.Limit, head-q.PreBack, preLine(pre, q.Pre)))
			}
			w.Res.Compared(1)
			if model != pg.String() {
				agree = false
				w.Res.Mismatch(lib.Mismatch{Sig: "query-page", Input: map[string]any{"history": w.replay(), "query": q, "token": tok},
					Model: model, Impl: pg.String()})
			}
		}
		pages++
		if notFoundExpected {
			if pg.Err == "rpc:blocknotfound" {
				w.Res.Hit("query:unresolvable-block-hash-refused")
			} else if !w.Tampered {
				w.Res.Violate(lib.Violation{Sig: "unresolvable-block-id-not-refused",
					What:   fmt.Sprintf("%s: %v names a block hash that does not resolve (head %d, floor %d) and was answered with %s", w.Name, q, head, w.Floor, pg.String()),
					Replay: rep()})
			}
			return
		}
		if prunedExpected {
			if pg.Err == "pruned" {
				w.Res.Hit("query:pruned-range-refused")
			} else {
				w.Res.Violate(lib.Violation{Sig: "pruned-range-not-refused",
					What:   fmt.Sprintf("%s: %v starts at block %d below the retention floor %d and was answered with %s", w.Name, q, start, w.Floor, pg.String()),
					Replay: rep()})
			}
			return
		}
		if pg.Err != "" {
			fail = "query-fails:" + pg.Err
			switch {
			case w.Tampered:
				w.Res.Hit("query-error-on-corrupted-database:" + pg.Err)
			case w.Faulted && pg.Err == "io":
				// the database is intact; only the remembered initialisation error makes the query fail
				w.Res.Violate(lib.Violation{Sig: "event-query-fails-after-transient-init-error",
					What: fmt.Sprintf("%s: the lazy initialisation of the running event filter failed once (transient read error); "+
						"the database is intact but %v still fails: %s", w.Name, q, pg.Bad),
					Replay: rep()})
			case w.CoreOnPruned && w.Pruned && pg.Err == "notfound" && agree:
				// the database is intact; the initialiser that does not know the floor read a pruned header
				w.Res.Violate(lib.Violation{Sig: "event-query-fails-on-pruned-database-without-prune-mode",
					What: fmt.Sprintf("%s: a pruned database (floor %d) opened by a node without --prune-mode: the default initialiser of the running "+
						"event filter fails on a pruned header and %v (inside the retained range) fails: %s", w.Name, w.Floor, q, pg.Bad),
					Replay: rep()})
			default:
				w.Res.Violate(lib.Violation{Sig: "query-returns-error-" + pg.Err,
					What:   fmt.Sprintf("%s page %d (token %q) of %v: %s", w.Name, pages, tok, q, pg.Bad),
					Replay: rep()})
			}
			break
		}
		if pg.Bad != "" {
			w.Res.Violate(lib.Violation{Sig: "event-tagged-wrongly", What: pg.Bad, Replay: rep()})
		}
		if len(pg.Ems) > q.Chunk {
			w.Res.Violate(lib.Violation{Sig: "page-larger-than-chunk-size",
				What:   fmt.Sprintf("%d events in a page of chunk size %d", len(pg.Ems), q.Chunk),
				Replay: rep()})
		}
		all = append(all, pg.Ems...)
		if pg.Tok == "" {
			break
		}
		// token progress: each page returns an event or moves the token forward
		if (len(pg.Ems) == 0 || q.Tok == "") && !tokLess(tok, fromB, pg.Tok) {
			fail = "no-progress"
			w.Res.Violate(lib.Violation{Sig: "paging-makes-no-progress",
				What:   fmt.Sprintf("page with token %q (range from %d) returned %d events and token %q, which is not ahead of it", tok, fromB, len(pg.Ems), pg.Tok),
				Replay: rep()})
			break
		}
		if pages >= pageBound {
			fail = "too-many-pages"
			w.Res.Violate(lib.Violation{Sig: "paging-does-not-terminate",
				What:   fmt.Sprintf("%d pages without reaching the empty token", pages),
				Replay: rep()})
			break
		}
		tok = pg.Tok
	}
	w.Res.HitN("pages", pages)
	if pages > 1 {
		w.Res.Hit("query:multi-page")
	}
	if q.Rpc {
		w.Res.Hit("query:via-rpc-handler")
		if q.Api != "" {
			w.Res.Hit("query:via-rpc-" + q.Api)
		}
	}
	if len(q.Pre) > 0 {
		w.Res.Hit("query:with-pre-confirmed-blocks")
	}
	if fail != "" {
		return
	}
	want := w.want(q)
	w.Res.HitN("events-returned", len(all))
	if len(want) > 0 {
		w.Res.Hit("query:non-empty-answer")
		if q.PreBack > 0 && len(q.Pre) > 0 {
			w.Res.Hit("query:pre-confirmed-chain-built-below-the-head")
		}
		if len(q.Pre) > 0 && want[len(want)-1].B > head {
			w.Res.Hit("query:answer-includes-pre-confirmed-events")
		}
	}
	if emsString(all) == emsString(want) {
		return
	}
	if q.Tok != "" && !strings.HasSuffix(q.Tok, "-0") {
		// a forged token with a skip count: the answer need not be complete, but it must be a
		// sub-list of the naive scan from the token's block (nothing wrong, nothing twice, in order)
		if isSublist(all, want) {
			return
		}
		w.Res.Violate(lib.Violation{Sig: "forged-token-yields-wrong-events",
			What:   fmt.Sprintf("%s: %v from token %s returned %s, not a sub-list of %s", w.Name, q, q.Tok, emsString(all), emsString(want)),
			Replay: rep()})
		return
	}
	w.classify(q, all, want, agree)
}

func isSublist(a, b []Em) bool {
	i := 0
	for _, x := range b {
		if i < len(a) && a[i] == x {
			i++
		}
	}
	return i == len(a)
}

// checkTokenParsing: the RPC layer accepts a continuation token iff ContinuationToken.FromString
// does, and what it then does depends on the parsed value only.
func (w *World) checkTokenParsing(r *lib.RNG) {
	if len(w.Chain) == 0 || w.Floor > 0 {
		return
	}
	head := len(w.Chain) - 1
	cands := []string{"abc", "5", "5-", "-5", "-5-3", "5-3-1", "5-3x", " 5-3", "+5-3", "0x5-3", "5--3", "5 - 3", "5-+3",
		"18446744073709551616-0", "5-18446744073709551615", "05-03", "1-1\n", fmt.Sprintf("%d-0", head), fmt.Sprintf("%d-1", head+5), "0-0", "00-0"}
	q := Q{F: Filt{}, From: max(0, head-6), To: head, Chunk: 3, Rpc: true}
	q.Api = lib.Pick(r, []string{"", "v9", "v8"})
	for _, s := range cands {
		var ct blockchain.ContinuationToken
		perr := ct.FromString(s)
		got := realPage(w.Node, w, q, nil, s)
		w.Res.Hit("token-parse:checked")
		if perr != nil {
			if got.Err != "rpc:badtoken" {
				w.Res.Violate(lib.Violation{Sig: "malformed-continuation-token-accepted",
					What:   fmt.Sprintf("token %q does not parse (%v) but starknet_getEvents (%s) answered %s", s, perr, q.Api, got.String()),
					Replay: map[string]any{"history": w.replay(), "query": q, "token": s}})
			}
			continue
		}
		canon := realPage(w.Node, w, q, nil, ct.String())
		if got.String() != canon.String() {
			w.Res.Violate(lib.Violation{Sig: "continuation-token-parse-not-canonical",
				What:   fmt.Sprintf("token %q parses to %s but the two strings are answered differently: %s vs %s", s, ct.String(), got.String(), canon.String()),
				Replay: map[string]any{"history": w.replay(), "query": q, "token": s}})
		}
	}
}

// want is the oracle: the naive scan of the canonical chain followed by the pre-confirmed blocks.
func (w *World) want(q Q) []Em {
	lo, hi, empty := q.specRange(len(w.Chain) - 1)
	if empty {
		return nil
	}
	chain := w.Chain
	head := len(w.Chain) - 1
	_, toB := q.bounds(head)
	if len(q.Pre) > 0 && (toB == sentinel || toB > uint64(head)) {
		// the canonical part ends at the block the pre-confirmed chain was built on
		back := q.PreBack
		if back > head {
			back = 0
		}
		chain = append(append([]Plan{}, w.Chain[:head-back+1]...), q.Pre...)
	}
	return naive(chain, q.F, lo, hi)
}

// tokLess: does the token move strictly forward (block number)?
func tokLess(prev string, from uint64, next string) bool {
	var pb, pp, nb, np uint64
	if prev == "" {
		pb = from
		if from == sentinel {
			pb = 0
		}
	} else {
		fmt.Sscanf(prev, "%d-%d", &pb, &pp)
	}
	fmt.Sscanf(next, "%d-%d", &nb, &np)
	return nb > pb || (nb == pb && np > pp)
}

// classify turns a wrong answer into a violation with a specific signature.
func (w *World) classify(q Q, got, want []Em, agree bool) {
	gotSet := map[Em]int{}
	for _, e := range got {
		gotSet[e]++
	}
	wantSet := map[Em]bool{}
	for _, e := range want {
		wantSet[e] = true
	}
	rep := map[string]any{"history": w.replay(), "query": q, "got": emsString(got), "want": emsString(want)}
	for _, e := range got {
		if gotSet[e] > 1 {
			w.Res.Violate(lib.Violation{Sig: "event-returned-twice", What: fmt.Sprintf("%s: %v returned %d times for %v", w.Name, e, gotSet[e], q), Replay: rep})
			return
		}
	}
	for _, e := range got {
		if !wantSet[e] {
			w.Res.Violate(lib.Violation{Sig: "non-matching-event-returned", What: fmt.Sprintf("%s: %v returned for %v but is not a matching event of the canonical chain in the range", w.Name, e, q), Replay: rep})
			return
		}
	}
	for _, e := range want {
		if gotSet[e] == 0 {
			sig := "matching-event-omitted"
			why := ""
			if agree && w.Drv != nil && !w.drvDead {
				// model and code agree on every page: let the model say which structure served the
				// block's window when the query started
				ex := w.ask(fmt.Sprintf("explain %x", e.B))
				why = ex
				switch ex {
				case "cache stale":
					sig = "false-negative-stale-cached-window-after-reorg"
				case "running stale":
					sig = "false-negative-stale-running-filter-snapshot-after-reorg"
				case "persisted stale":
					sig = "false-negative-stale-persisted-window-after-reorg-and-restart"
				}
			}
			rep["explain"] = why
			w.Res.Violate(lib.Violation{Sig: sig,
				What:   fmt.Sprintf("%s: event %v matches %v but is not returned (index said: %s)", w.Name, e, q, why),
				Replay: rep})
			return
		}
	}
	w.Res.Violate(lib.Violation{Sig: "events-out-of-order", What: fmt.Sprintf("%s: right events, wrong order for %v", w.Name, q), Replay: rep})
}

// do executes one op.
func (w *World) do(op Op) {
	w.Hist = append(w.Hist, op)
	w.Res.Hit("op:" + op.Kind)
	switch op.Kind {
	case "store":
		n := max(op.N, 1)
		if len(op.Plan) == 0 && n > 1 {
			w.storeEmptyRun(n)
		} else {
			for i := 0; i < n; i++ {
				w.storeOne(op.Plan)
			}
		}
		w.checkState("store")
	case "revert":
		for i := 0; i < max(op.N, 1); i++ {
			if len(w.Chain) > 0 && len(w.Chain)%W == 0 {
				w.Res.Hit("revert:re-opens-previous-window")
			}
			w.revertOne()
		}
		w.checkState("revert")
	case "prune":
		err, panicked, _ := lib.Try(func() error {
			_, _, perr := pruner.PruneUpto(context.Background(), w.Node.F, uint64(op.N), 1<<16)
			return perr
		})
		if panicked {
			w.Res.Violate(lib.Violation{Sig: "prune-panics", What: err.Error(), Replay: w.replay()})
			return
		}
		w.compare("prune-result", resStr(err), w.ask(fmt.Sprintf("prune %x", op.N)))
		if err == nil && op.N > w.Floor && op.N < len(w.Chain) {
			w.Floor = op.N
			w.Pruned = true
			if op.N/W > 0 {
				w.Res.Hit("prune:drops-a-persisted-window")
			}
		}
		w.checkState("prune")
	case "snap":
		err := w.Node.BC.WriteRunningEventFilter()
		w.compare("snap-result", resStr(err), w.ask("snap"))
		w.checkState("snap")
	case "restart":
		if w.CoreOnPruned {
			w.Node.Pruner, w.CoreOnPruned = w.prunerWas, false
		}
		w.hitRestartBranch()
		w.Node.open()
		w.Faulted = false
		w.restartProbe(w.ask("restart"))
		w.checkContents()
	case "restartcore":
		// the node comes back without --prune-mode: blockchain.New with its default initialiser
		if !w.CoreOnPruned {
			w.prunerWas = w.Node.Pruner
		}
		w.CoreOnPruned = true
		w.Node.Pruner = false
		w.Node.open()
		w.Faulted = false
		if w.V.DefaultInitFloorAware || !w.prunerWas {
			w.restartProbe(w.ask("restart"))
		} else {
			w.restartProbe(w.ask("restartcore"))
		}
		w.Res.Hit("restart:pruned-database-without-prune-mode")
	case "storefail":
		w.failedStore(op.Plan)
		w.checkState("storefail")
	case "revertfail":
		if len(w.Chain) > 0 {
			w.Node.F.mu.Lock()
			w.Node.F.failCommit = 1
			w.Node.F.mu.Unlock()
			err, _, _ := lib.Try(func() error { return w.Node.BC.RevertHead() })
			if err == nil || errClass(err) != "io" {
				w.Res.Fatalf("injected commit failure of RevertHead not reported: %v", err)
			}
			w.ask("revertfail")
			w.Faulted = false
			w.Res.Hit("fault:failed-revert-commit")
		}
		w.checkState("revertfail")
	case "restartfault":
		if len(w.Chain) == 0 {
			break
		}
		w.Node.open()
		w.Node.F.mu.Lock()
		w.Node.F.failReadKey = db.RunningEventFilter.Key()
		w.Node.F.mu.Unlock()
		w.ask("restartfault")
		// the access that hits the transient error fails legitimately
		w.restartProbe2("err:io", false)
		w.Node.F.mu.Lock()
		armed := w.Node.F.failReadKey != nil
		w.Node.F.failReadKey = nil
		w.Node.F.mu.Unlock()
		if armed {
			w.Res.Fatalf("injected read failure was not consumed by the initialiser")
		}
		// before c8ac4a7 the failure was remembered (the model follows: cfg fixInit = InitRetry)
		w.Faulted = !w.V.InitRetry
		w.Res.Hit("fault:failed-lazy-initialisation")
	case "restartcrash":
		w.crashInInit(op.N)
	case "prunecrash":
		w.pruneCrash(op.N, max(op.J, 1))
	case "tamper":
		w.tamper(op.T)
	case "query":
		w.runQuery(*op.Q)
	case "l1":
		w.setL1(op.N)
	}
}

// DrvPool is a set of model driver processes, each pre-loaded (once) with the long common prefix
// of the histories (`save`), so that a history starts with `cfg` + `load`.
type DrvPool struct {
	path  string
	lines []string
	ch    chan *lib.Driver
	res   *lib.Result
}

func cfgLine(v Variant) string {
	return fmt.Sprintf("cfg %x %x %s %s %s %s", W, blockchain.AggregatedBloomFilterCacheSize, b2s(v.FixCache), b2s(v.FixSnap), b2s(v.FixPersist), b2s(v.InitRetry))
}

func (p *DrvPool) spawn() *lib.Driver {
	d, err := lib.StartDriver(p.path)
	if err != nil {
		p.res.Fatalf("driver: %v", err)
		return nil
	}
	lines := append([]string{cfgLine(Variant{})}, p.lines...)
	lines = append(lines, "save")
	outs, err := d.AskAll(lines)
	if err != nil {
		p.res.Fatalf("driver preload: %v", err)
		d.Close()
		return nil
	}
	for _, o := range outs {
		if o != "ok" {
			p.res.Fatalf("driver preload answered %q", o)
			break
		}
	}
	return d
}

func newPool(path string, n int, base *World, res *lib.Result) *DrvPool {
	if path == "" {
		return nil
	}
	p := &DrvPool{path: path, ch: make(chan *lib.Driver, n), res: res}
	if base != nil {
		p.lines = base.storeLines()
	}
	var wg sync.WaitGroup
	for i := 0; i < n; i++ {
		wg.Add(1)
		go func() {
			defer wg.Done()
			if d := p.spawn(); d != nil {
				p.ch <- d
			}
		}()
	}
	wg.Wait()
	if len(p.ch) == 0 {
		res.Mismatch(lib.Mismatch{Sig: "model-driver-unavailable", Input: path})
		return nil
	}
	return p
}

func (p *DrvPool) closeAll() {
	if p == nil {
		return
	}
	for {
		select {
		case d := <-p.ch:
			d.Close()
		default:
			return
		}
	}
}

// storeLines is the store-only history of w as driver lines.
func (w *World) storeLines() []string {
	var lines []string
	empty := 0
	flush := func() {
		if empty > 0 {
			lines = append(lines, fmt.Sprintf("storen %x", empty))
			empty = 0
		}
	}
	for i, p := range w.Chain {
		items := bloomItems(w.Bundles[i].Block.EventsBloom)
		if len(p) == 0 && len(items) == 0 {
			empty++
			continue
		}
		flush()
		lines = append(lines, "store "+itemsLine(items)+" "+planLine(p))
	}
	flush()
	return lines
}

// hitRestartBranch records which branch of the initialiser the coming restart takes (read from the
// database the way the initialiser does).
func (w *World) hitRestartBranch() {
	if len(w.Chain) == 0 {
		w.Res.Hit("restart:empty-chain")
		return
	}
	latest := uint64(len(w.Chain) - 1)
	rf, err := core.GetRunningEventFilter(w.Node.DB)
	if err != nil {
		w.Res.Hit("restart:rebuild-no-snapshot")
		return
	}
	nx, _ := rf.NextBlock()
	to, _ := rf.ToBlock()
	switch {
	case nx == latest+1:
		w.Res.Hit("restart:trust-snapshot")
	case nx <= latest && latest <= to:
		if uint64(w.Floor) > nx {
			w.Res.Hit("restart:fill-in-place-clamped-to-floor")
		} else {
			w.Res.Hit("restart:fill-in-place")
		}
	default:
		w.Res.Hit("restart:rebuild-snapshot-unusable")
	}
}

// newWorld starts an empty node + model.
func newWorld(name string, r *lib.RNG, res *lib.Result, pool *DrvPool, v Variant, newState, prunerInit bool) *World {
	w := &World{Src: newSource(r, !newState), Node: newNode(newState, prunerInit), Res: res, Name: name, L1: -1}
	w.startDriver(pool, v, false)
	return w
}

func (w *World) startDriver(pool *DrvPool, v Variant, loadBase bool) {
	w.V = v
	if pool == nil {
		return
	}
	w.pool = pool
	w.Drv = <-pool.ch
	if out := w.ask(cfgLine(v)); out != "ok" {
		w.Res.Fatalf("driver cfg: %q", out)
	}
	if loadBase {
		if out := w.ask("load"); out != "ok" {
			w.Res.Fatalf("driver load: %q", out)
		}
	}
}

func (w *World) close() {
	w.checkContents()
	if w.Drv == nil {
		return
	}
	if w.drvDead {
		w.Drv.Close()
		if d := w.pool.spawn(); d != nil {
			w.pool.ch <- d
		}
	} else {
		w.pool.ch <- w.Drv
	}
	w.Drv = nil
}

// fork copies the world (databases, generator, abstract chain); the model is brought to the same
// state by loading the saved prefix.
func (w *World) fork(name string, r *lib.RNG, id uint64, pool *DrvPool, v Variant, prunerInit bool) *World {
	f := &World{Src: w.Src.fork(r, id), Node: w.Node.forkNode(prunerInit), Res: w.Res, Name: name,
		Chain: append([]Plan(nil), w.Chain...), Bundles: append([]*lib.Bundle(nil), w.Bundles...),
		Hist: append([]Op{}, w.Hist...), Floor: w.Floor, Pruned: w.Pruned, L1: w.L1}
	f.startDriver(pool, v, true)
	return f
}

// restartProbe forces the lazy initialiser with a one-block query on the head's window (it loads the
// running window only, the cache is not touched) and compares its outcome with the model's restart.
func (w *World) restartProbe(modelRestart string) { w.restartProbe2(modelRestart, true) }

// restartProbe2 with askModel = false: the probe IS the failing first access the model's step stands for.
func (w *World) restartProbe2(modelRestart string, askModel bool) {
	if len(w.Chain) == 0 {
		return
	}
	head := len(w.Chain) - 1
	q := Q{F: Filt{Addrs: []int{len(addrU) - 1}}, From: head, To: head, Chunk: 1}
	if head < w.Floor {
		q.From, q.To = head+1, head+1 // nothing retained: ask above the head (still loads no window)
	}
	pg := realPage(w.Node, w, q, nil, "")
	impl := "ok"
	if pg.Err != "" {
		impl = "err:" + pg.Err
	}
	if w.Drv != nil && !w.drvDead {
		if askModel {
			model := w.ask(fmt.Sprintf("qp %s %x %x - - 1 0 %x -", strings.NewReplacer("A=", "", "K=", "").Replace(q.F.String()), q.From, q.To, head))
			if strings.HasPrefix(model, "ok") {
				model = "ok"
			}
			w.compare("restart-outcome", impl, model)
		}
		if q.From <= head {
			w.compare("restart-result", impl, modelRestart)
		}
	}
	if impl != "ok" {
		w.Res.Hit("restart-outcome:" + impl)
		if !w.Tampered && modelRestart == "ok" {
			w.Res.Violate(lib.Violation{Sig: "running-filter-initialisation-fails", What: fmt.Sprintf("%s: first access after a restart fails: %s", w.Name, pg.Bad), Replay: w.replay()})
		}
	}
}

// failedStore: a Store whose commit fails. The in-memory filter was advanced inside the closure
// (also across a window end); 3373c0b resets it, the database is unchanged.
func (w *World) failedStore(plan Plan) {
	b, err := w.Src.next(plan)
	if err != nil {
		w.Res.Fatalf("generator: %v", err)
		return
	}
	w.Node.F.mu.Lock()
	w.Node.F.failCommit = 1
	w.Node.F.mu.Unlock()
	serr, _, _ := lib.Try(func() error { return lib.StoreOn(w.Node.BC, b) })
	if serr == nil || errClass(serr) != "io" {
		w.Res.Fatalf("injected commit failure of Store not reported: %v", serr)
	}
	w.Node.F.mu.Lock()
	w.Node.F.failCommit = 0
	w.Node.F.mu.Unlock()
	if gerr := w.Src.G.Revert(); gerr != nil {
		w.Res.Fatalf("generator revert: %v", gerr)
	}
	w.ask("storefail")
	w.Faulted = false
	w.Res.Hit("fault:failed-store-commit")
	if (len(w.Chain)+1)%W == 0 {
		w.Res.Hit("fault:failed-store-commit-at-window-end")
	}
}

// crashInInit: the process dies inside the lazy initialiser. The initialiser writes at most one
// window (when the fill reaches a window end); `after` = 0: the crash comes before that write,
// 1: after everything it writes. The database image is then opened by a fresh node.
func (w *World) crashInInit(after int) {
	if len(w.Chain) == 0 {
		return
	}
	img := &Node{DB: w.Node.DB.Copy(), NewState: w.Node.NewState, Pruner: w.Node.Pruner}
	img.open()
	if after == 0 {
		// the first commit-free direct write of the initialiser is refused: memory.Database.Put is
		// not interceptable per bucket here, so the image simply never runs the initialiser
		w.ask("restartcrash 0")
	} else {
		pg := realPage(img, w, Q{F: Filt{}, From: len(w.Chain) - 1, To: len(w.Chain) - 1, Chunk: 1}, nil, "")
		if pg.Err != "" && !w.Tampered {
			w.Res.Violate(lib.Violation{Sig: "running-filter-initialisation-fails", What: pg.Bad, Replay: w.replay()})
		}
		w.ask(fmt.Sprintf("restartcrash %x", len(w.Chain)+1))
	}
	// the image (with whatever the dying process wrote) becomes the node's database
	w.Node.DB = img.DB
	w.Node.open()
	w.Faulted = false
	w.Res.Hit(fmt.Sprintf("fault:crash-inside-initialiser-%d", after))
	w.restartProbe("ok")
	w.checkState("restartcrash")
}

// pruneCrash: pruner.PruneUpto(k) with one-byte batches (a commit per block) whose j-th commit fails:
// the database must be in the state of a completed prune to some k' (every batch carries the
// number-keyed deletes of the blocks it covers), which the model is then told.
func (w *World) pruneCrash(k, j int) {
	w.Node.F.mu.Lock()
	w.Node.F.failCommit = j
	w.Node.F.mu.Unlock()
	err, panicked, _ := lib.Try(func() error {
		_, _, err := pruner.PruneUpto(context.Background(), w.Node.F, uint64(k), 1)
		return err
	})
	w.Node.F.mu.Lock()
	fired := w.Node.F.failCommit == 0
	w.Node.F.failCommit = 0
	w.Node.F.mu.Unlock()
	if panicked {
		w.Res.Violate(lib.Violation{Sig: "prune-panics", What: err.Error(), Replay: w.replay()})
	}
	floor := 0
	if f, ferr := pruner.OldestRetainedBlock(w.Node.DB); ferr == nil {
		floor = int(f)
	}
	if fired && err == nil {
		w.Res.Fatalf("injected commit failure of PruneUpto not reported")
	}
	if floor < w.Floor || floor > max(k, w.Floor) {
		w.Res.Violate(lib.Violation{Sig: "interrupted-prune-leaves-impossible-floor",
			What: fmt.Sprintf("PruneUpto(%d) from floor %d interrupted at commit %d left floor %d", k, w.Floor, j, floor), Replay: w.replay()})
	}
	if floor > w.Floor && floor < len(w.Chain) {
		w.ask(fmt.Sprintf("prune %x", floor))
		w.Floor = floor
		w.Pruned = true
	}
	if fired {
		w.Res.Hit("fault:prune-interrupted")
	}
	w.checkState("prunecrash")
}

// tamper corrupts the persisted windows behind the node's back (ties the model's notfound / bounds
// branches; from here on the history is correspondence only).
func (w *World) tamper(t string) {
	w.Tampered = true
	var a, b uint64
	switch {
	case strings.HasPrefix(t, "del "):
		fmt.Sscanf(t, "del %d", &a)
		if err := core.DeleteAggregatedBloomFilter(w.Node.DB, a, a+uint64(W)-1); err != nil {
			w.Res.Fatalf("tamper: %v", err)
		}
		w.ask(fmt.Sprintf("tamper del %x", a))
	case strings.HasPrefix(t, "mov "):
		fmt.Sscanf(t, "mov %d %d", &a, &b)
		flt, err := core.GetAggregatedBloomFilter(w.Node.DB, a, a+uint64(W)-1)
		if err != nil {
			w.Res.Fatalf("tamper: %v", err)
			return
		}
		// store the filter of window a under the key of window b (its own bounds stay a's)
		if err := writeAggUnderKey(w.Node.DB, &flt, b); err != nil {
			w.Res.Fatalf("tamper: %v", err)
		}
		w.ask(fmt.Sprintf("tamper mov %x %x", a, b))
	default:
		w.Res.Fatalf("tamper: unknown %q", t)
	}
	w.Res.Hit("tamper:" + strings.SplitN(t, " ", 2)[0])
}

// cpsArg renders a string as the driver's STR argument (code points in hex).
func cpsArg(s string) string {
	if s == "" {
		return "-"
	}
	var parts []string
	for _, r := range s {
		parts = append(parts, fmt.Sprintf("%x", r))
	}
	return strings.Join(parts, ",")
}

func (w *World) idArg(tag string, num int) string {
	switch tag {
	case "omitted":
		return "-"
	case "latest":
		return "latest"
	case "pre_confirmed":
		return "pre"
	case "l1_accepted":
		return "l1"
	case "hash":
		if num >= len(w.Bundles) {
			return "hx"
		}
		return fmt.Sprintf("h%x", num)
	default:
		return fmt.Sprintf("n%x", num)
	}
}

func apiArg(api string) string {
	if api == "" {
		return "v10"
	}
	return api
}

func (w *World) l1Arg() string {
	if w.L1 < 0 {
		return "-"
	}
	return fmt.Sprintf("%x", w.L1)
}

// setL1 stores an L1 head on the node.
func (w *World) setL1(n int) {
	if err := w.Node.BC.SetL1Head(&core.L1Head{BlockNumber: uint64(n), BlockHash: lib.F(1), StateRoot: lib.F(2)}); err != nil {
		w.Res.Fatalf("SetL1Head: %v", err)
		return
	}
	w.L1 = n
}

// rpcLine is the `rpc` request of the model driver for the wire request of q (what wireRequest sends).
func (w *World) rpcLine(q Q, tok string, pre []*pending.PreConfirmed) string {
	f := q.F
	if q.Api != "" && len(f.Addrs) > 1 {
		f.Addrs = f.Addrs[:1] // v8 / v9 take one address: wireRequest sends the first
	}
	head := len(w.Chain) - 1
	pl := preLine(pre, q.Pre)
	if q.Api == "v8" {
		pl = "-"
	}
	return fmt.Sprintf("rpc %s %s %s %s %x %x %s %x %s", apiArg(q.Api), w.idArg(q.FromTag, q.From), w.idArg(q.ToTag, q.To),
		strings.NewReplacer("A=", "", "K=", "").Replace(f.String())+" "+cpsArg(tok), q.Chunk, q.Limit, w.l1Arg(), max(head-q.PreBack, 0), pl)
}
