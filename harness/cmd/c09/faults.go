//go:build verif

package main

import (
	"bytes"
	"errors"
	"sync"

	"github.com/NethermindEth/juno/db"
	"github.com/NethermindEth/juno/db/memory"
)

// faultDB is the node's database with injectable failures (everything else is the memory
// database's own behaviour, inherited by embedding):
//
//   - failCommits n: the n-th next commit of a Write / Update (one Store / RevertHead batch) or of an
//     explicit batch (pruner.PruneUpto rotates batches) is dropped and reported as an error;
//   - failReadOnce key: the next read of exactly that key (also through a snapshot) fails once.
var errInjected = errors.New("injected fault (harness)")

type faultDB struct {
	*memory.Database
	mu          sync.Mutex
	failCommit  int    // 0 = off; n > 0: the n-th commit from now fails
	failReadKey []byte // nil = off
	commits     int
}

func newFaultDB(inner *memory.Database) *faultDB { return &faultDB{Database: inner} }

// commitFails counts one commit and says whether it is the one to fail.
func (f *faultDB) commitFails() bool {
	f.mu.Lock()
	defer f.mu.Unlock()
	f.commits++
	if f.failCommit > 0 {
		f.failCommit--
		if f.failCommit == 0 {
			return true
		}
	}
	return false
}

func (f *faultDB) readFails(key []byte) bool {
	f.mu.Lock()
	defer f.mu.Unlock()
	if f.failReadKey != nil && bytes.Equal(key, f.failReadKey) {
		f.failReadKey = nil
		return true
	}
	return false
}

func (f *faultDB) Get(key []byte, cb func([]byte) error) error {
	if f.readFails(key) {
		return errInjected
	}
	return f.Database.Get(key, cb)
}

func (f *faultDB) Write(fn func(db.Batch) error) error {
	if !f.commitFails() {
		return f.Database.Write(fn)
	}
	b := f.Database.NewBatch()
	defer b.Close()
	if err := fn(b); err != nil {
		return err
	}
	return errInjected // the closure ran (in-memory side effects happened), the batch is dropped
}

func (f *faultDB) Update(fn func(db.IndexedBatch) error) error {
	if !f.commitFails() {
		return f.Database.Update(fn)
	}
	b := f.Database.NewIndexedBatch()
	defer b.Close()
	if err := fn(b); err != nil {
		return err
	}
	return errInjected
}

type faultBatch struct {
	db.Batch
	f *faultDB
}

func (b *faultBatch) Write() error {
	if b.f.commitFails() {
		return errInjected
	}
	return b.Batch.Write()
}

func (f *faultDB) NewBatch() db.Batch { return &faultBatch{Batch: f.Database.NewBatch(), f: f} }
func (f *faultDB) NewBatchWithSize(n int) db.Batch {
	return &faultBatch{Batch: f.Database.NewBatchWithSize(n), f: f}
}

type faultSnapshot struct {
	db.Snapshot
	f *faultDB
}

func (s *faultSnapshot) Get(key []byte, cb func([]byte) error) error {
	if s.f.readFails(key) {
		return errInjected
	}
	return s.Snapshot.Get(key, cb)
}

func (f *faultDB) NewSnapshot() db.Snapshot {
	return &faultSnapshot{Snapshot: f.Database.NewSnapshot(), f: f}
}

func (f *faultDB) WithListener(db.EventListener) db.KeyValueStore { return f }
