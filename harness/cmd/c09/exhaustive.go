//go:build verif

package main

import (
	"fmt"
	"strings"

	"github.com/NethermindEth/juno/blockchain"
	"github.com/NethermindEth/juno/core"
	"github.com/NethermindEth/juno/core/felt"
	"verif/harness/lib"
)

// Small spaces enumerated exhaustively (every run, independent of the seed):
//
//   - every filter of a fixed family × every range [from,to] ⊆ [0, head+1] × chunk {1,2,100} × scan
//     limit {0,1,2} on a 7-block chain whose events cover the shapes below, each paged to the end,
//     on the real EventFilter and on the model, against the naive scan;
//   - every token (b, p), b ∈ 0..head+1, p ∈ 0..5, for every filter (forged tokens: soundness);
//   - the components of the subscription path (EventMatcher.TestBloom / MatchesAddress /
//     MatchesEventKeys, the loop of rpc matchingEvents) for every filter × every block, against
//     the model's `testBloom` / `matches` and the oracle, incl. the no-false-negative property of
//     the real bloom (a block with a matching event always passes TestBloom);
//   - the real AggregatedBloomFilter at the window's edge columns (0 and 8191).

var exPlans = []Plan{
	{{{From: 0, Keys: []int{0}}, {From: 1, Keys: []int{1, 2}}, {From: 0}}}, // 0
	nil, // 1: no transactions
	{{}, {{From: 1, Keys: []int{0, 1}}, {From: 6, Keys: []int{2, 3, 0}}}},                          // 2: empty tx first
	{{{From: 5, Keys: []int{3}}}, {{From: 0, Keys: []int{1}}, {From: 0, Keys: []int{0, 0, 0, 0}}}}, // 3
	{{{From: 1}}}, // 4: no keys
	{{}},          // 5: a tx without events
	{{{From: 0, Keys: []int{0}}, {From: 0, Keys: []int{0}}, {From: 0, Keys: []int{0}}}}, // 6: three equal events
}

func exFilters() []Filt {
	addrs := [][]int{nil, {0}, {1}, {0, 1}, {7}, {6, 5}}
	keys := [][][]int{nil, {{}}, {{0}}, {{0, 1}}, {{}, {1}}, {{0}, {}}, {{}, {}, {0, 2}}, {{4}}, {{3, 2}, {0, 3}}, {{}, {}, {}, {}, {}}}
	var out []Filt
	for _, a := range addrs {
		for _, k := range keys {
			out = append(out, Filt{Addrs: a, Keys: k})
		}
	}
	return out
}

func runExhaustive(res *lib.Result, pool *DrvPool, v Variant, r *lib.RNG) {
	for _, newState := range []bool{false, true} {
		w := newWorld("exhaustive", r.Fork(uint64(77)), res, pool, v, newState, newState)
		for _, p := range exPlans {
			w.do(Op{Kind: "store", Plan: p, N: 1})
		}
		if newState {
			// the same enumeration on a restarted node (index rebuilt from the database)
			w.do(Op{Kind: "snap"})
			w.do(Op{Kind: "restart"})
		}
		head := len(w.Chain) - 1
		n := 0
		filters := exFilters()
		for _, f := range filters {
			for from := 0; from <= head+1; from++ {
				for to := from - 1; to <= head+1; to++ {
					if to < 0 {
						continue
					}
					for _, chunk := range []int{1, 2, 100} {
						for _, limit := range []int{0, 1, 2} {
							if newState && (chunk == 100 || limit == 2) {
								continue // second backend: a sub-family
							}
							w.quietQuery(Q{F: f, From: from, To: to, Chunk: chunk, Limit: limit})
							n++
						}
					}
				}
			}
			if !newState {
				for b := 0; b <= head+1; b++ {
					for p := 0; p <= 5; p++ {
						if b == 0 && p == 0 {
							continue
						}
						w.quietQuery(Q{F: f, From: 1, To: head, Chunk: 2, Limit: 0, Tok: fmt.Sprintf("%d-%d", b, p)})
						n++
					}
				}
			}
		}
		// filters with many alternatives (most absent from the chain), every range, both paths
		for _, f := range []Filt{{Addrs: []int{7, 8, 9, 10, 0, 11, 7}}, {Keys: [][]int{{5, 6, 7, 8, 9, 10, 0, 11, 12, 4, 5}}},
			{Addrs: []int{11, 10, 9, 8, 1}, Keys: [][]int{{}, {12, 11, 10, 9, 8, 7, 6, 5, 2}}}} {
			for from := 0; from <= head; from++ {
				for to := from; to <= head+1; to++ {
					w.quietQuery(Q{F: f, From: from, To: to, Chunk: 2, Limit: 0, Rpc: to%2 == 1})
					n++
				}
			}
		}
		if !newState {
			n += w.rpcFamily(filters)
		}
		res.HitN("exhaustive:queries", n)
		if !newState {
			w.matcherComponents(filters)
			var some []Filt
			for i := 0; i < len(filters); i += 5 {
				some = append(some, filters[i])
			}
			w.runSubscriptions(some)
			w.runSubscriptionsV8(some)
		}
		w.close()
	}
	aggEdgeColumns(res)
	res.SetExtra("exhaustive_small_space", "filters(60) × ranges × chunk{1,2,100} × limit{0,1,2} on a 7-block chain; all tokens (b≤head+1, p≤5); matcher components for every filter × block")
}

// rpcFamily: the three handler versions × block-id kinds × range ends around the head, with and
// without pre-confirmed blocks (the range logic is duplicated per version).
func (w *World) rpcFamily(filters []Filt) int {
	head := len(w.Chain) - 1
	pre := []Plan{{{Ev{From: 0, Keys: []int{0}}, Ev{From: 1, Keys: []int{1}}}}, {{Ev{From: 0}}}}
	const l1 = 3
	w.do(Op{Kind: "l1", N: l1})
	n := 0
	for fi := 0; fi < len(filters); fi += 4 {
		f := filters[fi]
		for _, api := range []string{"", "v9", "v8"} {
			if api != "" && len(f.Addrs) > 1 {
				continue
			}
			for _, from := range []struct {
				tag string
				n   int
			}{{"", 0}, {"", head}, {"latest", 0}, {"pre_confirmed", 0}, {"hash", 2}, {"l1_accepted", 0}} {
				for _, to := range []struct {
					tag string
					n   int
				}{{"", head - 1}, {"", head}, {"", head + 1}, {"", head + 3}, {"latest", 0}, {"pre_confirmed", 0}, {"hash", head}, {"l1_accepted", 0}} {
					if api == "v8" && (from.tag == "l1_accepted" || to.tag == "l1_accepted") {
						continue
					}
					for _, withPre := range []int{-1, 0, 1, 2} {
						q := Q{F: f, From: from.n, To: to.n, FromTag: from.tag, ToTag: to.tag, Chunk: 2, Rpc: true, Api: api, L1: l1}
						if withPre >= 0 && api != "v8" {
							q.Pre, q.PreBack = pre, withPre
						} else if withPre > 0 {
							continue
						}
						w.quietQuery(q)
						n++
					}
				}
			}
		}
	}
	// the same ranges on the EventFilter itself (numbers above the head reach pre-confirmed blocks by
	// number there), with skip counts and chunk cuts inside pre-confirmed blocks (AppendBlockEventsFromReceipts)
	for fi := 0; fi < len(filters); fi += 3 {
		f := filters[fi]
		for _, from := range []struct {
			tag string
			n   int
		}{{"", 0}, {"", head}, {"", head + 1}, {"", head + 2}, {"pre_confirmed", 0}} {
			for _, to := range []struct {
				tag string
				n   int
			}{{"", head + 1}, {"", head + 2}, {"", head + 9}, {"pre_confirmed", 0}} {
				for back := 0; back <= 2; back++ {
					for _, chunk := range []int{1, 2} {
						for _, limit := range []int{0, 1} {
							w.quietQuery(Q{F: f, From: from.n, To: to.n, FromTag: from.tag, ToTag: to.tag, Chunk: chunk, Limit: limit, Pre: pre, PreBack: back})
							n++
						}
					}
				}
			}
		}
	}
	return n
}

// quietQuery is runQuery without growing the history (the replay of a failure carries the query).
func (w *World) quietQuery(q Q) {
	w.runQuery(q)
	w.Res.Case("exhaustive", false)
}

// matcherComponents ties what the event subscriptions use (rpc matchingEvents: TestBloom on the
// block's header bloom, then MatchesAddress and MatchesEventKeys per event) to the model and to the
// oracle, for every filter × every block of the chain and a few pre-confirmed-style blocks.
func (w *World) matcherComponents(filters []Filt) {
	type blk struct {
		plan Plan
		b    *core.Block
	}
	var blocks []blk
	for i, p := range w.Chain {
		blocks = append(blocks, blk{p, w.Bundles[i].Block})
	}
	for _, f := range filters {
		addrs, keys := f.real()
		m := blockchain.NewEventMatcher(addrs, keys)
		for _, bk := range blocks {
			tb := m.TestBloom(bk.b.EventsBloom)
			var bits strings.Builder
			anyMatch := false
			for t, rc := range bk.b.Receipts {
				for i, ev := range rc.Events {
					got := m.MatchesAddress(ev.From) && m.MatchesEventKeys(ev.Keys)
					want := f.matches(bk.plan[t][i])
					if got != want {
						w.Res.Violate(lib.Violation{Sig: "matcher-disagrees-with-filter-semantics",
							What:   fmt.Sprintf("filter %v event %+v: MatchesAddress && MatchesEventKeys = %v", f, bk.plan[t][i], got),
							Replay: map[string]any{"filter": f, "event": bk.plan[t][i]}})
					}
					anyMatch = anyMatch || want
					if got {
						bits.WriteByte('1')
					} else {
						bits.WriteByte('0')
					}
				}
			}
			if anyMatch && !tb {
				w.Res.Violate(lib.Violation{Sig: "testbloom-false-negative",
					What:   fmt.Sprintf("filter %v: block %d has a matching event but TestBloom(header bloom) is false", f, bk.b.Number),
					Replay: map[string]any{"filter": f, "block": bk.plan}})
			}
			ev := bits.String()
			if ev == "" {
				ev = "-"
			}
			impl := fmt.Sprintf("tb=%s ev=%s", b2s(tb), ev)
			fs := strings.NewReplacer("A=", "", "K=", "").Replace(f.String())
			w.compare("matcher-components", impl, w.ask(fmt.Sprintf("match %s %s %s", fs, itemsLine(bloomItems(bk.b.EventsBloom)), planLine(bk.plan))))
			w.Res.Hit("matcher-components:checked")
		}
	}
}

// aggEdgeColumns: the real aggregated filter at the first and last column of a window, and the
// bloom's no-false-negative property on boundary felts (0, P-1, addresses sharing a long prefix).
func aggEdgeColumns(res *lib.Result) {
	for _, base := range []uint64{0, uint64(W), 5 * uint64(W)} {
		agg := core.NewAggregatedFilter(base)
		cols := []uint64{base, base + 1, base + uint64(W) - 1}
		for ci, c := range cols {
			from := addrU[(ci*3)%len(addrU)]
			key := keyU[ci%len(keyU)]
			rc := &core.TransactionReceipt{Events: []*core.Event{{From: &from, Keys: []felt.Felt{key, keyU[3]}}}}
			bl := core.EventsBloom([]*core.TransactionReceipt{rc})
			if err := agg.Insert(bl, c); err != nil {
				res.Violate(lib.Violation{Sig: "aggregated-filter-insert-fails-in-range", What: fmt.Sprintf("Insert at %d in window %d: %v", c, base, err)})
				continue
			}
			fb := from.Bytes()
			m := agg.BlocksForKeys([][]byte{fb[:]})
			if !m.Test(uint(c - base)) {
				res.Violate(lib.Violation{Sig: "aggregated-filter-false-negative",
					What: fmt.Sprintf("window %d: column %d does not report the address inserted there", base, c-base)})
			}
			res.Hit("aggregated-filter:edge-column-checked")
		}
		if err := agg.Insert(core.EventsBloom(nil), base+uint64(W)); err == nil {
			res.Violate(lib.Violation{Sig: "aggregated-filter-accepts-block-outside-window", What: fmt.Sprintf("window %d accepted block %d", base, base+uint64(W))})
		}
	}
	// every universe item, alone and together, is found again in the bloom that was built from it
	for i := range addrU {
		for j := range keyU {
			for pos := 0; pos < maxKeyPos; pos++ {
				keys := make([]felt.Felt, pos+1)
				for x := range keys {
					keys[x] = keyU[(j+x)%len(keyU)]
				}
				keys[pos] = keyU[j]
				from := addrU[i]
				bl := core.EventsBloom([]*core.TransactionReceipt{{Events: []*core.Event{{From: &from, Keys: keys}}}})
				if !bl.Test(Item{-1, i}.bytes()) || !bl.Test(Item{pos, j}.bytes()) {
					res.Violate(lib.Violation{Sig: "header-bloom-misses-event-item",
						What: fmt.Sprintf("EventsBloom of one event (addr %d, key %d at %d) does not contain its items", i, j, pos)})
				}
				res.Hit("bloom:item-round-trip-checked")
			}
		}
	}
}
