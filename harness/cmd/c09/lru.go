//go:build verif

package main

import (
	"errors"
	"fmt"
	"strings"

	"github.com/NethermindEth/juno/blockchain"
	"github.com/NethermindEth/juno/core"
	"verif/harness/lib"
)

// LRU eviction of the aggregated-filter cache. Blockchain hard-wires a cache of 16 windows
// (131 072 blocks before the first eviction), but the cache type, its fallback hook and the
// candidate iterator are exported: the harness drives the real MatchedBlockIterator with a cache of
// TWO windows over a chain of three and a half windows, so that almost every query evicts and
// re-fetches. This private cache is never purged (it is not the node's), so after a reorg across a
// boundary it holds exactly the stale copies that survived eviction — the model (`cap = 2`,
// `fixCache = false`) must predict them one for one. Correspondence only: what a never-purged cache
// answers is not juno's behaviour.
func runLRU(far *Base, res *lib.Result, v Variant, r *lib.RNG) {
	if far == nil || far.Pool == nil {
		return
	}
	src := far.W[0]
	if src == nil {
		src = far.W[1]
	}
	w := src.fork("lru-small-cache", r, 777, far.Pool, v, false)
	defer w.close()
	w.ask(fmt.Sprintf("cfg %x 2 0 1 1 1", W))
	w.ask("load")
	// grow to 3W+5 with events around the third boundary
	h := len(w.Chain)
	w.do(st(3*W-4-h, nil))
	w.do(st(1, evA))
	w.do(st(2, nil))
	w.do(st(1, evB)) // block 3W-1
	w.do(st(1, evA)) // block 3W
	w.do(st(4, nil))

	cache := blockchain.NewAggregatedBloomCache(2)
	cache.WithFallback(func(key blockchain.EventFiltersCacheKey) (core.AggregatedBloomFilter, error) {
		var from, to uint64
		if _, err := fmt.Sscanf(fmt.Sprint(key), "{%d %d}", &from, &to); err != nil {
			return core.AggregatedBloomFilter{}, err
		}
		return core.GetAggregatedBloomFilter(w.Node.DB, from, to)
	})
	iter := func(f Filt, from, to, limit int) {
		addrs, keys := f.real()
		m := blockchain.NewEventMatcher(addrs, keys)
		rf := core.NewRunningEventFilterLazy(w.Node.DB, core.InitializeRunningEventFilter)
		impl := ""
		it, err := cache.NewMatchedBlockIterator(uint64(from), uint64(to), uint64(limit), &m, rf)
		if err != nil {
			impl = "err:" + errClass(err)
		} else {
			var bs []string
			lim := "-"
			for {
				b, ok, err := it.Next()
				if !ok {
					if err != nil {
						if errors.Is(err, blockchain.ErrMaxScannedBlockLimitExceed) {
							lim = fmt.Sprint(b)
						} else {
							impl = "err:" + errClass(err)
						}
					}
					break
				}
				bs = append(bs, fmt.Sprint(b))
			}
			if impl == "" {
				l := "-"
				if len(bs) > 0 {
					l = strings.Join(bs, ",")
				}
				impl = "ok " + l + " lim=" + lim
			}
		}
		fs := strings.NewReplacer("A=", "", "K=", "").Replace(f.String())
		w.compare("iterator-candidates-small-cache", impl, w.ask(fmt.Sprintf("iter %s %x %x %x", fs, from, to, limit)))
		res.Hit("lru:iterator-query")
	}
	filters := []Filt{filtA, filtB, {Addrs: []int{0, 1}}, {Keys: [][]int{{0}}}, {Addrs: []int{1}, Keys: [][]int{{}, {2}}}, {Addrs: []int{7}}}
	spans := func() (int, int) {
		head := len(w.Chain) - 1
		switch r.Intn(6) {
		case 0:
			return 0, head
		case 1:
			return r.Intn(W), W + r.Intn(W)
		case 2:
			return W + r.Intn(W), head
		case 3:
			return 2*W - 3, 2*W + 3
		case 4:
			return r.Intn(50), 50 + r.Intn(100)
		default:
			a := r.Intn(head + 1)
			return a, a + r.Intn(head-a+1)
		}
	}
	round := func(k int) {
		for i := 0; i < k; i++ {
			a, b := spans()
			limit := 0
			if r.Chance(1, 3) {
				limit = 1 + r.Intn(6)
			}
			iter(lib.Pick(r, filters), a, b, limit)
		}
	}
	round(25)
	// reorg across the third boundary: window [2W, 3W-1] is re-opened and rewritten
	w.do(rv(7))
	w.do(st(1, evB))
	w.do(st(1, evA))
	w.do(st(6, nil))
	round(25)
	// and across the same boundary again, deeper
	w.do(rv(12))
	w.do(st(3, evA))
	w.do(st(12, nil))
	round(25)
	res.Hit("history:lru-small-cache")
}
