//go:build verif

// Harness for C09: event queries of the real Blockchain / EventFilter against a naive scan of the
// canonical chain (the property's oracle) and against the Lean model (correspondence).
package main

import (
	"encoding/json"
	"fmt"
	"os"
	"sync"
	"time"

	"verif/harness/lib"
)

var verbose = os.Getenv("VERIF_VERBOSE") != ""

func logf(format string, a ...any) {
	if verbose {
		fmt.Fprintf(os.Stderr, "[c09 %s] %s\n", time.Now().Format("15:04:05.000"), fmt.Sprintf(format, a...))
	}
}

func main() {
	f := lib.ParseFlags()
	res := lib.NewResult("case = one event query (filter, range, chunk size, scan limit) paged to the end on a node with a " +
		"generated history of store / revert / snapshot / restart; non-trivial = the naive scan returns at least one event " +
		"or the range crosses a window boundary; distinct by (history id, query)")
	r := lib.NewRNG(f.Seed)

	t0 := time.Now()
	bases := buildBases(r, res)
	logf("bases built in %v", time.Since(t0))

	workers := 12
	poolc := make(chan *DrvPool, 1)
	go func() { poolc <- newPool(f.Driver, workers, bases.W[0], res) }()
	// the second base (height 2W-10: a completed, persisted window behind the head) is built in the
	// background; quick tier: one state backend only (alternating with the seed)
	var far *Base
	farReady := make(chan struct{})
	if f.Replay == "" {
		go func() {
			defer close(farReady)
			only := int(f.Seed % 2)
			if f.Thorough() {
				only = -1
			}
			fb := bases.extend(r.Fork(31), res, only)
			first := fb.W[0]
			if first == nil {
				first = fb.W[1]
			}
			fb.Pool = newPool(f.Driver, workers/3, first, res)
			far = fb
			logf("second base built (%v)", time.Since(t0))
		}()
	} else {
		close(farReady)
	}
	v := probeVariant(bases, r)
	pool := <-poolc
	defer pool.closeAll()
	logf("variant: %+v, model drivers loaded (%v)", v, time.Since(t0))
	if f.Replay != "" {
		runReplay(f, res, pool, v)
		pool.closeAll()
		lib.Finish(f, res)
	}
	res.SetExtra("variant_probed", map[string]bool{"subscription_tolerates_missing_l1_head": v.SubL1Tolerant, "fix_cache": v.FixCache, "fix_snapshot": v.FixSnap, "fix_persisted": v.FixPersist, "init_error_not_remembered": v.InitRetry, "default_initialiser_floor_aware": v.DefaultInitFloorAware})

	var wg sync.WaitGroup
	sem := make(chan struct{}, workers)
	spawn := func(fn func()) {
		wg.Add(1)
		go func() {
			defer wg.Done()
			sem <- struct{}{}
			defer func() { <-sem }()
			fn()
		}()
	}

	// tasks that need the second base wait for it without holding a worker slot
	spawnFar := func(fn func()) {
		wg.Add(1)
		go func() {
			defer wg.Done()
			<-farReady
			if far == nil {
				res.Fatalf("the second base was not built")
				return
			}
			sem <- struct{}{}
			defer func() { <-sem }()
			fn()
		}()
	}
	// directed histories (the leads of DESIGN §7 and their neighbours), then random ones
	for i, d := range directed() {
		d := d
		id := uint64(i)
		if d.Far {
			spawnFar(func() { runDirected(bases, far, d, r.Fork(1000+id), id, res, pool, v) })
		} else {
			spawn(func() { runDirected(bases, nil, d, r.Fork(1000+id), id, res, pool, v) })
		}
	}
	spawn(func() {
		t := time.Now()
		runExhaustive(res, pool, v, r.Fork(4242))
		logf("exhaustive: %v", time.Since(t))
	})
	timed := func(name string, fn func()) func() {
		return func() {
			t := time.Now()
			fn()
			logf("%s: %v", name, time.Since(t))
		}
	}
	spawn(timed("token strings", func() { runTokenStrings(res, pool, r.Fork(4444)) }))
	spawn(timed("deduper", func() { runDeduper(res, pool, r.Fork(4445)) }))
	spawn(timed("empty chain", func() { runEmptyChain(res, pool, v, r.Fork(4446)) }))
	spawn(timed("v8 reorg", func() { runV8Reorg(res, pool, v, r.Fork(4447)) }))
	spawn(timed("subscription edges", func() { runSubscriptionEdges(bases, res, pool, v, r.Fork(4448)) }))
	spawn(timed("codec", func() { runCodec(f.Driver, res, r.Fork(4450), f.Thorough()) }))
	spawnFar(timed("lru purged", func() { runLRUReset(far, res, v, r.Fork(4449)) }))
	spawnFar(func() { t := time.Now(); runLRU(far, res, v, r.Fork(4343)); logf("lru: %v", time.Since(t)) })
	nRandom := f.Scale(24, 400)
	for i := 0; i < nRandom; i++ {
		id := uint64(i)
		rr := r.Fork(5000 + id)
		near := rr.Chance(2, 3)
		if i%8 == 3 {
			spawnFar(func() { runRandom(far, true, true, rr, 100+id, res, f, far.Pool, v) })
		} else {
			spawn(func() { runRandom(bases, near, false, rr, 100+id, res, f, pool, v) })
		}
	}
	wg.Wait()
	checkFloors(res, f)
	pool.closeAll()
	if far != nil {
		far.Pool.closeAll()
	}
	logf("done in %v", time.Since(t0))
	lib.Finish(f, res)
}

func runReplay(f lib.Flags, res *lib.Result, pool *DrvPool, v Variant) {
	raw, err := os.ReadFile(f.Replay)
	if err != nil {
		res.Fatalf("replay: %v", err)
		return
	}
	var file struct {
		Replay json.RawMessage `json:"replay"`
	}
	if err := json.Unmarshal(raw, &file); err != nil || file.Replay == nil {
		file.Replay = raw
	}
	var withQ struct {
		History *Scenario `json:"history"`
		Query   *Q        `json:"query"`
	}
	var sc Scenario
	if err := json.Unmarshal(file.Replay, &withQ); err == nil && withQ.History != nil {
		sc = *withQ.History
		if withQ.Query != nil {
			sc.Ops = append(sc.Ops, Op{Kind: "query", Q: withQ.Query})
		}
	} else if err := json.Unmarshal(file.Replay, &sc); err != nil {
		res.Fatalf("replay: cannot parse: %v", err)
		return
	}
	r := lib.NewRNG(f.Seed)
	w := newWorld("replay:"+sc.Name, r, res, pool, v, sc.NewState, sc.Pruner)
	defer w.close()
	for _, op := range sc.Ops {
		w.do(op)
		if op.Kind == "query" {
			res.Case(fmt.Sprintf("replay/%v", *op.Q), true)
		}
	}
}

// checkFloors: every family of the run must have done its work (CONVENTIONS §8: the exhaustive
// family alone would satisfy any global floor).
func checkFloors(res *lib.Result, f lib.Flags) {
	floors := map[string]int{
		"op:query": 300, "history:directed": 30, "exhaustive:queries": 35000, "matcher-components:checked": 400,
		"subscription:live-block-checked": 250, "subscription:v8-checked": 8, "subscription:historical-replay-checked": 35, "token-parse:checked": 200,
		"rpc-validation:checked": 100, "query:via-rpc-handler": 2000, "query:via-rpc-v8": 300, "query:via-rpc-v9": 300,
		"query:with-pre-confirmed-blocks": 800, "query:pre-confirmed-chain-built-below-the-head": 100,
		"query:forged-token": 1000, "query:crosses-window-boundary": 20, "query:pruned-range-refused": 5,
		"restart:trust-snapshot": 1, "restart:fill-in-place": 1, "restart:rebuild-no-snapshot": 1,
		"revert:re-opens-previous-window": 5, "prune:drops-a-persisted-window": 1,
		"fault:failed-store-commit": 3, "fault:failed-store-commit-at-window-end": 1, "fault:failed-revert-commit": 3,
		"fault:failed-lazy-initialisation": 2, "fault:crash-inside-initialiser-0": 1, "fault:crash-inside-initialiser-1": 1,
		"fault:prune-interrupted": 1, "restart:pruned-database-without-prune-mode": 4, "contents-checked:persisted-window": 20, "contents-checked:snapshot": 20, "tamper:del": 1, "tamper:mov": 1,
		"history:lru-small-cache": 1, "lru:iterator-query": 60, "history:random-near-second-boundary": 1,
		"aggregated-filter:edge-column-checked": 9, "bloom:item-round-trip-checked": 200,
		// round 5
		"query:rpc-request-resolved-by-the-model": 3000, "token-string:parse-compared": 7900, "token-string:accepted": 200,
		"token-string:rejected": 7000, "token-string:round-trip-checked": 144, "rpc-limits:checked": 60, "empty-chain:checked": 8,
		"deduper:marksent": 500, "subscription-edges:checked": 54, "subscription-edges:replay-checked": 8,
		"subscription-edges:without-l1-head": 3, "subscription-edges:pre-confirmed-update": 16,
		"subscription-edges:reorg-clears-the-deduper": 2, "subscription:v8-reorg-checked": 1, "lru-purged:iterator-query": 40,
		"lru-purged:set-many": 2, "lru-purged:iterator-refusals-checked": 1, "query:filter-with-many-alternatives": 8,
		// round 6
		"codec:column-survives-the-database-form": 90, "codec:window-case-compared": 13, "codec:snapshot-case-compared": 7,
		"query:key-position-at-the-varint-boundary": 60, "codec:window-accepted": 1, "codec:window-eof": 4, "codec:window-size": 4,
	}
	for k, min := range floors {
		if got := res.Distribution[k]; got < min {
			res.Fatalf("family %q did %d of its work, at least %d expected: the harness lost part of its coverage", k, got, min)
		}
	}
}
