//go:build verif

// Harness for C09: event queries of the real Blockchain / EventFilter against a naive scan of the
// canonical chain (the property's oracle) and against the Lean model (correspondence).
package main

import (
	"encoding/json"
	"fmt"
	"os"
	"sync"
	"time"

	"verif/harness/lib"
)

var verbose = os.Getenv("VERIF_VERBOSE") != ""

func logf(format string, a ...any) {
	if verbose {
		fmt.Fprintf(os.Stderr, "[c09 %s] %s\n", time.Now().Format("15:04:05.000"), fmt.Sprintf(format, a...))
	}
}

func main() {
	f := lib.ParseFlags()
	res := lib.NewResult("case = one event query (filter, range, chunk size, scan limit) paged to the end on a node with a " +
		"generated history of store / revert / snapshot / restart; non-trivial = the naive scan returns at least one event " +
		"or the range crosses a window boundary; distinct by (history id, query)")
	r := lib.NewRNG(f.Seed)

	t0 := time.Now()
	bases := buildBases(r, res)
	logf("bases built in %v", time.Since(t0))

	workers := 12
	poolc := make(chan *DrvPool, 1)
	go func() { poolc <- newPool(f.Driver, workers, bases.W[0], res) }()
	var far *Base
	if f.Thorough() && f.Replay == "" {
		far = bases.extend(r, res)
		far.Pool = newPool(f.Driver, workers/2, far.W[0], res)
		defer far.Pool.closeAll()
		logf("second base built (%v)", time.Since(t0))
	}
	v := probeVariant(bases, r)
	pool := <-poolc
	defer pool.closeAll()
	logf("variant: %+v, model drivers loaded (%v)", v, time.Since(t0))
	if f.Replay != "" {
		runReplay(f, res, pool, v)
		pool.closeAll()
		lib.Finish(f, res)
	}
	res.SetExtra("variant_probed", map[string]bool{"fix_cache": v.FixCache, "fix_snapshot": v.FixSnap, "fix_persisted": v.FixPersist})

	var wg sync.WaitGroup
	sem := make(chan struct{}, workers)
	spawn := func(fn func()) {
		wg.Add(1)
		go func() {
			defer wg.Done()
			sem <- struct{}{}
			defer func() { <-sem }()
			fn()
		}()
	}

	// directed histories (the leads of DESIGN §7 and their neighbours), then random ones
	for i, d := range directed() {
		d := d
		id := uint64(i)
		spawn(func() { runDirected(bases, far, d, r.Fork(1000+id), id, res, pool, v) })
	}
	spawn(func() { runExhaustive(res, pool, v, r.Fork(4242)) })
	if far != nil {
		spawn(func() { runLRU(far, res, v, r.Fork(4343)) })
	}
	nRandom := f.Scale(24, 400)
	for i := 0; i < nRandom; i++ {
		id := uint64(i)
		spawn(func() { runRandom(bases, far, r.Fork(5000+id), 100+id, res, f, pool, v) })
	}
	wg.Wait()
	pool.closeAll()
	if far != nil {
		far.Pool.closeAll()
	}
	logf("done in %v", time.Since(t0))
	lib.Finish(f, res)
}

func runReplay(f lib.Flags, res *lib.Result, pool *DrvPool, v Variant) {
	raw, err := os.ReadFile(f.Replay)
	if err != nil {
		res.Fatalf("replay: %v", err)
		return
	}
	var file struct {
		Replay json.RawMessage `json:"replay"`
	}
	if err := json.Unmarshal(raw, &file); err != nil || file.Replay == nil {
		file.Replay = raw
	}
	var withQ struct {
		History *Scenario `json:"history"`
		Query   *Q        `json:"query"`
	}
	var sc Scenario
	if err := json.Unmarshal(file.Replay, &withQ); err == nil && withQ.History != nil {
		sc = *withQ.History
		if withQ.Query != nil {
			sc.Ops = append(sc.Ops, Op{Kind: "query", Q: withQ.Query})
		}
	} else if err := json.Unmarshal(file.Replay, &sc); err != nil {
		res.Fatalf("replay: cannot parse: %v", err)
		return
	}
	r := lib.NewRNG(f.Seed)
	w := newWorld("replay:"+sc.Name, r, res, pool, v, sc.NewState, sc.Pruner)
	defer w.close()
	for _, op := range sc.Ops {
		w.do(op)
		if op.Kind == "query" {
			res.Case(fmt.Sprintf("replay/%v", *op.Q), true)
		}
	}
}
