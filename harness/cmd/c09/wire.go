//go:build verif

package main

import (
	"context"
	"encoding/json"
	"fmt"
	"strings"

	"github.com/NethermindEth/juno/blockchain"
	"github.com/NethermindEth/juno/core"
	"github.com/NethermindEth/juno/core/felt"
	"github.com/NethermindEth/juno/core/pending"
	"github.com/NethermindEth/juno/jsonrpc"
	"github.com/NethermindEth/juno/rpc"
	rpcv10 "github.com/NethermindEth/juno/rpc/v10"
	rpcv8 "github.com/NethermindEth/juno/rpc/v8"
	rpcv9 "github.com/NethermindEth/juno/rpc/v9"
	"github.com/NethermindEth/juno/utils/log"
	"verif/harness/lib"
)

// Every RPC query of the harness goes over the wire format: a JSON request handed to a real
// jsonrpc.Server that carries juno's own method tables (rpc.New(...).MethodsV0_x()) and juno's own
// validator — so the registration of starknet_getEvents, the JSON decoding of block ids, address
// (list), keys and the page request, the `validate:"min=1"` tag of chunk_size, omitted from_block /
// to_block and the encoding of the answer are all in the loop.

type wireServer struct {
	bc    *blockchain.Blockchain
	limit int
	sync  *fakeSync
	srv   map[string]*jsonrpc.Server
}

func (w *World) wire(n *Node, limit int) *wireServer {
	if w.wires == nil {
		w.wires = map[int]*wireServer{}
	}
	if ws, ok := w.wires[limit]; ok && ws.bc == n.BC {
		return ws
	}
	fs := &fakeSync{}
	h := rpc.New(n.BC, fs, nil, "verif", log.NewNopZapLogger(), lib.TestNetwork()).WithFilterLimit(uint(limit))
	ws := &wireServer{bc: n.BC, limit: limit, sync: fs, srv: map[string]*jsonrpc.Server{}}
	type tab struct {
		api     string
		methods []jsonrpc.Method
		val     jsonrpc.Validator
	}
	m10, _ := h.MethodsV0_10()
	m9, _ := h.MethodsV0_9()
	m8, _ := h.MethodsV0_8()
	for _, t := range []tab{{"", m10, rpcv10.Validator()}, {"v9", m9, rpcv9.Validator()}, {"v8", m8, rpcv8.Validator()}} {
		s := jsonrpc.NewServer(1, log.NewNopZapLogger()).WithValidator(t.val)
		if err := s.RegisterMethods(t.methods...); err != nil {
			w.Res.Fatalf("jsonrpc: cannot register juno's method table %q: %v", t.api, err)
			continue
		}
		ws.srv[t.api] = s
	}
	w.wires[limit] = ws
	return ws
}

func (w *World) blockIDJSON(api, tag string, num int) (any, bool) {
	switch tag {
	case "omitted":
		return nil, false
	case "latest":
		return "latest", true
	case "l1_accepted":
		return "l1_accepted", true
	case "pre_confirmed":
		if api == "v8" {
			return "pending", true
		}
		return "pre_confirmed", true
	case "hash":
		if num >= len(w.Bundles) {
			return map[string]any{"block_hash": "0xdead"}, true
		}
		return map[string]any{"block_hash": w.Bundles[num].Block.Hash.String()}, true
	default:
		return map[string]any{"block_number": num}, true
	}
}

// wireRequest builds the starknet_getEvents request of q.
func (w *World) wireRequest(q Q, tok string, addrs []felt.Address, keys [][]felt.Felt) map[string]any {
	filter := map[string]any{"chunk_size": q.Chunk}
	if v, ok := w.blockIDJSON(q.Api, q.FromTag, q.From); ok {
		filter["from_block"] = v
	}
	if v, ok := w.blockIDJSON(q.Api, q.ToTag, q.To); ok {
		filter["to_block"] = v
	}
	if len(addrs) > 0 {
		if q.Api == "" && (len(addrs) > 1 || q.Chunk%2 == 0) {
			as := make([]string, len(addrs))
			for i := range addrs {
				as[i] = addrs[i].String()
			}
			filter["address"] = as // v10: a list (duplicates allowed) …
		} else {
			filter["address"] = addrs[0].String() // … or a single address
		}
	}
	if keys != nil {
		ks := make([][]string, len(keys))
		for i := range keys {
			ks[i] = make([]string, len(keys[i]))
			for j := range keys[i] {
				ks[i][j] = keys[i][j].String()
			}
		}
		filter["keys"] = ks
	}
	if tok != "" {
		filter["continuation_token"] = tok
	}
	return map[string]any{"jsonrpc": "2.0", "id": 1, "method": "starknet_getEvents", "params": map[string]any{"filter": filter}}
}

type wireEvent struct {
	From        *felt.Felt  `json:"from_address"`
	Keys        []felt.Felt `json:"keys"`
	Data        []felt.Felt `json:"data"`
	BlockNumber *uint64     `json:"block_number"`
	BlockHash   *felt.Felt  `json:"block_hash"`
	TxHash      *felt.Felt  `json:"transaction_hash"`
	TxIndex     *uint       `json:"transaction_index"`
	EventIndex  *uint       `json:"event_index"`
}

type wireResponse struct {
	Result *struct {
		Events []wireEvent `json:"events"`
		Token  string      `json:"continuation_token"`
	} `json:"result"`
	Error *struct {
		Code    int    `json:"code"`
		Message string `json:"message"`
		Data    any    `json:"data"`
	} `json:"error"`
}

// wireCall sends one raw request and returns the decoded response.
func (w *World) wireCall(n *Node, api string, limit int, pre []*pending.PreConfirmed, req any) (*wireResponse, error) {
	ws := w.wire(n, limit)
	srv := ws.srv[api]
	if srv == nil {
		return nil, fmt.Errorf("harness: no jsonrpc server for api %q", api)
	}
	ws.sync.blocks = pre
	if api == "v8" {
		ws.sync.blocks = nil
	}
	raw, err := json.Marshal(req)
	if err != nil {
		return nil, err
	}
	out, _, err := srv.HandleReader(context.Background(), strings.NewReader(string(raw)))
	if err != nil {
		return nil, fmt.Errorf("jsonrpc transport: %w", err)
	}
	var resp wireResponse
	if err := json.Unmarshal(out, &resp); err != nil {
		return nil, fmt.Errorf("harness: cannot decode the response %s: %w", string(out), err)
	}
	if resp.Result == nil && resp.Error == nil {
		return nil, fmt.Errorf("harness: response without result and error: %s", string(out))
	}
	return &resp, nil
}

// rpcEvents asks starknet_getEvents of the chosen API version over the wire and converts the
// answer to FilteredEvents. v8 / v9 do not return transaction and event indexes: they are recovered
// from the transaction hash and the event's data (the generator writes the event index into data[1]).
func (w *World) rpcEvents(n *Node, q Q, pre []*pending.PreConfirmed, tok string, addrs []felt.Address, keys [][]felt.Felt) ([]blockchain.FilteredEvent, string, error) {
	req := w.wireRequest(q, tok, addrs, keys)
	if w.reqMut != nil {
		w.reqMut(req["params"].(map[string]any)["filter"].(map[string]any))
	}
	resp, err := w.wireCall(n, q.Api, q.Limit, pre, req)
	if err != nil {
		return nil, "", err
	}
	if resp.Error != nil {
		return nil, "", fmt.Errorf("rpc error %d %s %v", resp.Error.Code, resp.Error.Message, resp.Error.Data)
	}
	var out []blockchain.FilteredEvent
	for _, e := range resp.Result.Events {
		ev := &core.Event{From: e.From, Keys: e.Keys, Data: e.Data}
		fe := blockchain.FilteredEvent{Event: ev, BlockHash: e.BlockHash, TransactionHash: e.TxHash, TransactionIndex: 9999, EventIndex: 9999}
		hasNumber := e.BlockNumber != nil
		if hasNumber {
			fe.BlockNumber = *e.BlockNumber
		}
		// locate the block (v8 omits the number of a pending event) and the indexes
		var blk *core.Block
		if hasNumber && int(fe.BlockNumber) < len(w.Bundles) && (w.preFirst < 0 || int(fe.BlockNumber) < w.preFirst) {
			blk = w.Bundles[fe.BlockNumber].Block
		} else if w.preFirst >= 0 {
			for i, p := range pre {
				if hasNumber && int(fe.BlockNumber) != w.preFirst+i {
					continue
				}
				for _, rc := range p.Block.Receipts {
					if e.TxHash != nil && rc.TransactionHash.Equal(e.TxHash) {
						blk, fe.BlockNumber = p.Block, uint64(w.preFirst+i)
					}
				}
			}
		}
		if blk != nil && e.TxHash != nil {
			for t, rc := range blk.Receipts {
				if rc.TransactionHash.Equal(e.TxHash) {
					fe.TransactionIndex = uint(t)
					if len(e.Data) == 2 {
						fe.EventIndex = uint(e.Data[1].Uint64())
					}
				}
			}
		}
		if q.Api == "" {
			// v10 answers carry the indexes themselves: they must agree with the located ones
			if e.TxIndex == nil || e.EventIndex == nil || *e.TxIndex != fe.TransactionIndex || *e.EventIndex != fe.EventIndex {
				fe.TransactionIndex, fe.EventIndex = 9998, 9998
				if e.TxIndex != nil && e.EventIndex != nil {
					fe.TransactionIndex, fe.EventIndex = *e.TxIndex, *e.EventIndex
				}
			}
		}
		out = append(out, fe)
	}
	return out, resp.Result.Token, nil
}

// checkRequestValidation: what the handlers rely on being refused at the RPC boundary IS refused:
// chunk_size 0 (validate:"min=1" — `EventFilter.Events` with chunk size 0 answers "complete, empty"
// or makes no progress), a page size above MaxEventChunkSize, too many keys; a request without
// from_block / to_block is the range 0 … latest.
func (w *World) checkRequestValidation() {
	if len(w.Chain) == 0 || w.Floor > 0 || w.Faulted || w.Tampered {
		return
	}
	head := len(w.Chain) - 1
	for _, api := range []string{"", "v9", "v8"} {
		base := Q{F: Filt{}, From: 0, To: head, Chunk: 3, Rpc: true, Api: api}
		type tc struct {
			name   string
			mut    func(f map[string]any)
			code   int
			expect string
		}
		bigKeys := make([][]string, 1025)
		for i := range bigKeys {
			bigKeys[i] = []string{}
		}
		for _, c := range []tc{
			{"chunk_size 0", func(f map[string]any) { f["chunk_size"] = 0 }, jsonrpc.InvalidParams, ""},
			{"chunk_size missing", func(f map[string]any) { delete(f, "chunk_size") }, jsonrpc.InvalidParams, ""},
			{"chunk_size above the maximum", func(f map[string]any) { f["chunk_size"] = 10241 }, 31, ""},
			{"too many keys", func(f map[string]any) { f["keys"] = bigKeys }, 34, ""},
			{"unknown block tag", func(f map[string]any) { f["from_block"] = "nonsense" }, jsonrpc.InvalidParams, ""},
			{"hash of an unknown block", func(f map[string]any) { f["to_block"] = map[string]any{"block_hash": "0xdead"} }, 24, ""},
		} {
			req := w.wireRequest(base, "", nil, nil)
			c.mut(req["params"].(map[string]any)["filter"].(map[string]any))
			resp, err := w.wireCall(w.Node, api, 0, nil, req)
			w.Res.Hit("rpc-validation:checked")
			if err != nil {
				w.Res.Fatalf("rpc validation probe %q (%s): %v", c.name, api, err)
				continue
			}
			if resp.Error == nil || resp.Error.Code != c.code {
				got := "a result"
				if resp.Error != nil {
					got = fmt.Sprintf("error %d %s", resp.Error.Code, resp.Error.Message)
				}
				w.Res.Violate(lib.Violation{Sig: "invalid-getevents-request-not-refused",
					What:   fmt.Sprintf("starknet_getEvents (%s) with %s was answered with %s, expected error %d", api, c.name, got, c.code),
					Replay: map[string]any{"history": w.replay(), "api": api, "case": c.name}})
			}
		}
		// omitted bounds = 0 … latest
		q := base
		q.FromTag, q.ToTag, q.Chunk = "omitted", "omitted", 100
		w.runQuery(q)
	}
}
